#!/usr/bin/env python3
"""Regenerate MANIFEST.json from the table below (kept in one place so it stays valid)."""
import json, os
V = os.path.dirname(os.path.dirname(os.path.abspath(__file__)))
PY = "/venv/bin/python harness/run_check.py"

CHECKS = {}   # id -> dict(text, note, technique, design)
NA = {}

def chk(pid, text, note, technique, design):
    CHECKS[pid] = dict(text=text, note=note, technique=technique, design=design)

exec(open(os.path.join(V, "tools", "manifest_table.py")).read())

props = [json.loads(l)["id"] for l in open(os.path.join(V, "properties.jsonl"))]
checks = []
for pid in props:
    if pid in CHECKS:
        c = CHECKS[pid]
        checks.append({
            "property_id": pid,
            "quick_cmd": f"{PY} --property {pid} --tier quick",
            "thorough_cmd": f"{PY} --property {pid} --tier thorough",
            "evidence_file": f"evidence/{pid}.json",
            "replay_cmd_template": f"{PY} --property {pid} --replay {{path}}",
            "engine": "lean4-proof+correspondence",
            "level_claimed": {"category": "proof", "text": c["text"], "design_ref": c["design"]},
            "level_note": c["note"],
            "technique": c["technique"],
        })
na = [{"property_id": p, "reason": NA.get(p, "check not built yet in this session; see DESIGN.md section 6 for the planned decision procedure")}
      for p in props if p not in CHECKS]
m = {
    "version": 1,
    "setup_cmd": "/venv/bin/python harness/translate_all.py && cd lean && lake build",
    "hooks": {
        "guard": "JEZACHEN_SSEPY_VERIF",
        "enable": "no source hooks are needed: recorders, RNG control, HOME redirection, cleanup-delay control and crash interposition are applied by the harness from outside",
        "baseline_off_cmd": "cd /repo && /venv/bin/python -m pytest -ra -q -p no:cacheprovider --timeout=900 --continue-on-collection-errors",
        "source_commits": [],
        "add_only": True,
    },
    "engines": [{
        "name": "lean4-proof+correspondence",
        "path": "harness/run_check.py",
        "serves_properties": [c["property_id"] for c in checks],
        "kind_free_text": "Lean 4 theorems about an executable model (lean/SSEPyVerif), tied to /repo on every run by an AST translator (Generated/*.lean) and by a differential correspondence run of the compiled model driver against the real Python code",
    }],
    "checks": checks,
    "notes": "Every check: translate -> lake build -> #print axioms audit -> correspondence -> verdict (DESIGN.md section 2). Exit 2 = infrastructure failure / timeout, never a verdict.",
    "not_applicable": na,
}
json.dump(m, open(os.path.join(V, "MANIFEST.json"), "w"), indent=1)
print("checks:", [c["property_id"] for c in checks], "n/a:", len(na))
