#!/bin/bash
# usage: run_at.sh <commit> PROP [PROP...]  — run checks against another revision of /repo without touching /repo or /verif
C=$1; shift
S=/tmp/vat_$$; W=/tmp/vatwt_$$
trap 'git -C /repo worktree remove --force $W >/dev/null 2>&1; rm -rf $S $W' EXIT
rsync -a --exclude .git --exclude replays --exclude evidence /verif/ $S/ || exit 9
mkdir -p $S/replays $S/evidence
git -C /repo worktree add --detach $W $C >/dev/null 2>&1 || exit 9
cd $S
for P in "$@"; do
  SSEPY_REPO=$W VERIF_HAVE_LOCK=1 VERIF_SEED=${VERIF_SEED:-0} timeout 1800 /venv/bin/python harness/run_check.py --property $P --tier ${TIER:-quick} 2>&1 | grep -E "VIOLATION|KNOWN|^  |^C[0-9]+ " | cut -c1-330
done
