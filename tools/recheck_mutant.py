#!/usr/bin/env python3
"""Re-run the check for a kept seeded change (after the check was strengthened) and update its meta.json.
usage: recheck_mutant.py PROP_mK [tier]"""
import json, re, subprocess, sys
mid = sys.argv[1]; tier = sys.argv[2] if len(sys.argv) > 2 else "quick"
P = mid.split("_")[0]
d = f"/verif/seeded/{mid}"
p = subprocess.run(f"/verif/tools/try_mutant_iso.sh {P} {d}/patch.diff {tier}", shell=True, stdout=subprocess.PIPE, stderr=subprocess.STDOUT, text=True, cwd="/verif")
oc = p.stdout
caught = "VIOLATION" in oc
kind = "failing-input" if re.search(r"VIOLATION property=\S+ replay=\S+\s*$", oc, re.M) else ("no-failing-input-found" if caught else "missed")
m = json.load(open(f"{d}/meta.json"))
hist = m.setdefault("check_history", [])
if m.get("check_result"):
    hist.append(m["check_result"])
m["check_result"] = {"tier": tier, "caught": caught, "kind": kind, "output": [l for l in oc.splitlines() if l.strip()][:6]}
json.dump(m, open(f"{d}/meta.json", "w"), indent=1)
print(mid, kind)
