#!/bin/bash
# usage: run_keep.sh PROP  -- keep mutants 1..3 for PROP with the scheme test file each mutant's notes mention
P=$1
R=${2:-}
for k in 1 2 3; do
  T=""
  for f in $(grep -l . /tmp/mut/${P}_out/mutant_$k.diff); do :; done
  files=$(grep '^+++ b/' /tmp/mut/${P}_out/mutant_$k.diff | sed 's#+++ b/##')
  for f in $files; do
    case $f in
      schemes/CGKO06/SSE1/*) T="$T test/test_sse_schemes/test_CGKO06_SSE1.py";;
      schemes/CGKO06/SSE2/*) T="$T test/test_sse_schemes/test_CGKO06_SSE2.py";;
      schemes/CJJ14/PiBas/*) T="$T test/test_sse_schemes/test_CJJ14_PiBas.py";;
      schemes/CJJ14/PiPack/*) T="$T test/test_sse_schemes/test_CJJ14_PiPack.py";;
      schemes/CJJ14/PiPtr/*) T="$T test/test_sse_schemes/test_CJJ14_PiPtr.py";;
      schemes/CJJ14/Pi2Lev/*) T="$T test/test_sse_schemes/test_CJJ14_Pi2Lev.py";;
      schemes/CT14/*) T="$T test/test_sse_schemes/test_CT14_Pi.py";;
      schemes/ANSS16/*) T="$T test/test_sse_schemes/test_ANSS16_Scheme3.py";;
      schemes/DP17/*) T="$T test/test_sse_schemes/test_DP17_Pi.py";;
      schemes/interface/*|toolkit/*) T="$T test/test_sse_schemes/test_CJJ14_PiPack.py test/test_sse_schemes/test_CJJ14_PiPtr.py test/test_sse_schemes/test_CJJ14_Pi2Lev.py test/test_sse_schemes/test_CT14_Pi.py test/test_sse_schemes/test_ANSS16_Scheme3.py test/test_sse_schemes/test_CJJ14_PiBas.py";;
    esac
  done
  python3 /verif/tools/keep_mutant.py $P $k --tests "$T" ${R:+--round $R}
done
