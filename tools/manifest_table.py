chk("C17",
    "Unbounded theorems (Props/C17.lean) over the executable model of toolkit/bytes_utils, database_utils, list_utils: "
    "parse(partition(ids)) = ids for every capacity, identifier size, block size >= cap*size and list length; block count = ceil(n/cap); "
    "equal block lengths; parse-by-count = parse-by-size; split/concat and exact piece lengths; int round trip at any width and refusal of "
    "too-narrow widths; xor involution; hex round trips. The model is tied to the code by a differential run of ~6000 requests (quick) "
    "including a malformed stream, and the property itself is evaluated on the real code (direct oracle).",
    "Trusted: Lean kernel + propext/Classical.choice/Quot.sound; the correspondence harness and driver; CPython's int.to_bytes/from_bytes, "
    "bytes.hex/fromhex, slicing. utf-8 conversion is compared against Lean's String.toUTF8 only in the correspondence (no theorem).",
    "Lean 4 proof (induction over lists/fuel) + differential correspondence with the compiled model driver",
    "6/C17")
chk("C18",
    "Unbounded theorems (Props/C18.lean) that the code's (value,length) pair behaves as the MSB-first bit list for every value and length: "
    "list<->pair round trip, constructor keeps/refuses/auto-sizes (bit_length), concat = append, higher/lower k = take/drop (refused beyond "
    "the length), (a+b).higher/lower recover a and b, halving, and/or/xor/invert/shifts bit-by-bit with well-formedness preserved, indexing, "
    "slicing, bytes = ceil(n/8)-byte big-endian, equality. Tied to toolkit/bits.py by an exhaustive small-domain differential run (all values "
    "of length <= 6 for every op, all pairs of length <= 4) plus boundary/random values to 300 bits, and by the direct oracle on the real code.",
    "Trusted: Lean kernel + 3 standard axioms; CPython int arithmetic and slice.indices/range as modelled in Model/PySeq; __setitem__ not modelled "
    "(not named by the property); values are non-negative.",
    "Lean 4 proof (Nat.testBit extensionality) + exhaustive/random differential correspondence",
    "6/C18")
