chk("C17",
    "Unbounded theorems (Props/C17.lean) over the executable model of toolkit/bytes_utils, database_utils, list_utils: "
    "parse(partition(ids)) = ids for every capacity, identifier size, block size >= cap*size and list length; block count = ceil(n/cap); "
    "equal block lengths; parse-by-count = parse-by-size; split/concat and exact piece lengths; int round trip at any width and refusal of "
    "too-narrow widths; xor involution; hex round trips. The model is tied to the code by a differential run of ~6000 requests (quick) "
    "including a malformed stream, and the property itself is evaluated on the real code (direct oracle).",
    "Trusted: Lean kernel + propext/Classical.choice/Quot.sound; the correspondence harness and driver; CPython's int.to_bytes/from_bytes, "
    "bytes.hex/fromhex, slicing. utf-8 conversion is compared against Lean's String.toUTF8 only in the correspondence (no theorem).",
    "Lean 4 proof (induction over lists/fuel) + differential correspondence with the compiled model driver",
    "6/C17")
chk("C18",
    "Unbounded theorems (Props/C18.lean) that the code's (value,length) pair behaves as the MSB-first bit list for every value and length: "
    "list<->pair round trip, constructor keeps/refuses/auto-sizes (bit_length), concat = append, higher/lower k = take/drop (refused beyond "
    "the length), (a+b).higher/lower recover a and b, halving, and/or/xor/invert/shifts bit-by-bit with well-formedness preserved, indexing, "
    "slicing, bytes = ceil(n/8)-byte big-endian, equality. Tied to toolkit/bits.py by an exhaustive small-domain differential run (all values "
    "of length <= 6 for every op, all pairs of length <= 4) plus boundary/random values to 300 bits, and by the direct oracle on the real code.",
    "Trusted: Lean kernel + 3 standard axioms; CPython int arithmetic and slice.indices/range as modelled in Model/PySeq; __setitem__ not modelled "
    "(not named by the property); values are non-negative.",
    "Lean 4 proof (Nat.testBit extensionality) + exhaustive/random differential correspondence",
    "6/C18")
chk("C16",
    "Unbounded theorems (Props/C16.lean) for an arbitrary keyed digest of fixed positive length: the countdown loop of _tls_p_hash equals the "
    "RFC 5246 P_hash stream (A(0)=seed, A(i)=HMAC(secret,A(i-1)), blocks HMAC(secret,A(i)||seed)) truncated to the requested length, for every "
    "key, message and length; exact output length; independence of the block count and prefix property; HmacPRF's declared key/message "
    "lengths enforced before computing; counter-mode hash expansion terminates, has exactly n bytes and equals H(m||1)||H(m||2)||... truncated; "
    "XOFs delegate. Tied to toolkit/prf/hmac_prf.py and toolkit/hash.py by a differential run with the real hmac/hashlib digests recorded "
    "and replayed as tables, plus the direct oracle against an independent RFC implementation.",
    "Trusted: Lean kernel + 3 standard axioms; hmac/hashlib digests are leaves (recorded, assumed deterministic with one fixed positive length per "
    "algorithm); 'distinct inputs give distinct outputs' is pseudo-randomness, sampled as a labelled test, not a theorem.",
    "Lean 4 proof (loop invariant by induction) + recorded-oracle differential correspondence",
    "6/C16")
chk("C14",
    "Unbounded theorems (Props/C14.lean) for an arbitrary block cipher with blockDec k (blockEnc k x) = x on 16-byte blocks: "
    "Decrypt(k, Encrypt(k, iv, m)) = m for every message (empty and block-aligned included), every 16-byte IV and every accepted key; "
    "ciphertext length = 16 + 16*(len(m)//16 + 1); the ciphertext starts with the IV, hence different IVs give different ciphertexts; "
    "bad padding and every declared key/message/cipher-length mismatch is refused with ValueError; constructor contracts. "
    "Tied to toolkit/symmetric_encryption/aes.py by a differential run in which os.urandom supplies known IVs and the AES block function is "
    "recorded via AES-ECB: ciphertext bytes must match exactly for all lengths 0..80, three key sizes, wrong-key/tampered/truncated inputs.",
    "Trusted: Lean kernel + 3 standard axioms; the AES block function is a leaf (recorded); PKCS7 and CBC of the `cryptography` package are modelled "
    "from their specification and validated by the correspondence only; 'a different key never returns the message' is AES behaviour (labelled test).",
    "Lean 4 proof (CBC/PKCS7 inversion by induction) + recorded-oracle differential correspondence",
    "6/C14")
chk("C15",
    "Unbounded theorems (Props/C15.lean), for every key, every keyed digest of fixed positive length, every width n >= 2 and every even round "
    "count (or even n): the FFX round function's expansion loop terminates with exactly the requested number of bits; encrypt maps well-formed "
    "n-bit strings to well-formed n-bit strings; decrypt(encrypt(x)) = x and encrypt(decrypt(y)) = y, hence injective and onto {0,1}^n; the bit "
    "PRP refuses wrong key/message bit lengths and otherwise is that bijection; byte Luby-Rackoff is injective and length-preserving for any "
    "underlying function and refuses wrong lengths, odd message lengths and key lengths not divisible by 3. Tied to fpe.py / prp/*.py by a "
    "differential run with recorded HMAC digests: every input of width 2..9, random widths to 2100 bits, all round counts, contracts, "
    "and the direct oracle (exhaustive bijectivity to n = 10 quick / 12 thorough, all 65536 two-byte Luby-Rackoff messages).",
    "Trusted: Lean kernel + 3 standard axioms; hmac digests are leaves; struct.pack('I') modelled as little-endian (this platform); the default round "
    "count 10 is even (odd round counts with odd n are outside the theorem and are not used by the repository).",
    "Lean 4 proof (Feistel inversion by induction over rounds, any round function) + recorded-oracle differential correspondence",
    "6/C15")
chk("C19",
    "Unbounded refinement theorems (Props/C19.lean): the file-level model of SPFLBArray (chunk files as byte strings, seek past EOF "
    "zero-fills, short reads padded, lazy creation of touched chunk files, index normalisation, the slice-assignment loop with its rollback) "
    "refines a plain list of fixed-size items: for EVERY operation and state the answer equals the list's and the abstraction commutes "
    "(step_refines), hence for every history with close/reopen anywhere (run_refines); a failing operation - including a slice assignment "
    "failing in the middle - leaves every item unchanged (failed_op_unchanged, via the rollback-restores lemma over distinct slice indices); "
    "closed handles raise; only chunk ids below ceil(len/items_per_file) ever exist (files_created). All for every array length, item size "
    "and chunk size. Tied to persistent_array.py by a differential run of random histories comparing every answer, the directory listing "
    "after every step and the raw bytes of every chunk file at every close, plus the direct oracle against a Python list.",
    "Trusted: Lean kernel + 3 standard axioms; POSIX/CPython file semantics as modelled (seek+write zero fill, short reads, rb+/wb+ creation); "
    "Python slice.indices/range as modelled in PySeq (bounds and distinctness are proved); pickle round trip of the meta tuple; one live handle per path.",
    "Lean 4 proof (refinement to a list; loop invariants; induction over histories) + file-level differential correspondence",
    "6/C19")
chk("C20",
    "Unbounded theorems (Props/C20.lean) over the model of PickledDict / one DBMDict session (insertion-ordered association list, closed marker, "
    "persisted snapshot): refinement of every observation and mutation to the finite map Key -> Option Val (get, membership, get-with-default, "
    "len, iteration, set/delete/clear as map updates) under the unique-keys invariant, which every operation preserves; non-bytes values refused "
    "without effect; failing operations change nothing; every operation on a closed dictionary raises; close then open yields exactly the "
    "contents at close, sync persists the current contents; from_dict holds a copy. Tied to persistent_dict.py by differential random histories "
    "(<= 50 ops, 6-key universe, close/reopen anywhere, iteration order and full item dumps compared) and by the direct oracle against a Python dict.",
    "Trusted: Lean kernel + 3 standard axioms; CPython dict semantics and pickle round trip; dbm.dumb as a dict within one session. DBMDict's reopen path "
    "does not work on this backend (baseline failures) and is outside the claim, as the property states.",
    "Lean 4 proof (refinement to a finite map, invariant preservation) + differential correspondence on histories",
    "6/C20")
SCHEME_TRUST = ("Trusted: Lean kernel + 3 standard axioms; leaves recorded and replayed (HMAC-SHA1, SHA-1, AES block function; assumed: AES block function "
    "invertible on 16-byte blocks, nominal digest lengths); the recorder's patches of os.urandom / random.* / hmac.new / hashlib.new / AESxCBC; "
    "the theorems' no-collision hypotheses on PRF/PRP outputs (evaluated by the driver on every recorded run, true except with negligible "
    "probability); pickle/json not modelled; math.log2 modelled by exact integer logarithms. Schemes without a Lean model yet are covered only "
    "by the direct oracle on the real code (listed in the evidence under schemes_modelled / schemes_with_theorem).")
chk("C01",
    "Per scheme a Lean model of config build, KeyGen, EDBSetup, TokenGen and Search over the C14-C16 wrapper models (Model/Schemes/*.lean) and a "
    "theorem that once setup has returned an index, the token of EVERY stored keyword is generated and Search returns exactly its list - same "
    "identifiers, same order, no exception, the probe loop terminates - for every configuration the config builder accepts, every key, every "
    "database (no bound on keywords, list lengths, block sizes: the smallest database and every block/level/power-of-two boundary are instances) "
    "and every randomness tape (Props/C01.lean; proved in full for PiBas, PiPack, PiPtr, Pi2Lev, SSE1, SSE2 - the last two also without any collision hypothesis, address distinctness being derived from C15 -, CT14 - incl. the arithmetic of its greedy power-of-two decomposition -, ANSS16; EDBSetup is proved to return for PiBas/PiPack (every key, database and sufficient tape) and for SSE2 (SSE2.correct: no hypothesis about the run at all - every accepted configuration, key and valid database) and never to raise for CT14, ANSS16, PiPtr, Pi2Lev, SSE1 (array size a power of two, fewer than param_s postings) and DP17 - i.e. for all nine schemes - (the only model failure left is exhausted randomness; for DP17 this includes that the level search finds the first fitting level and that a bucket with room always exists); for DP17: DP17.search_stored - the search of a stored keyword returns (no KeyError / IndexError: every chunk's table entry decodes to an existing level and bucket) and misses no identifier; 'returns nothing else' is derived from the hypothesis ProbesClean (trial decryption of foreign or dummy cells under this keyword's key is not accepted - an AES output fact outside the leaf laws) which, like 'probes beyond the last chunk miss the table', the driver evaluates on every recorded run; DP17.search_stored_of_wrongKey derives ProbesClean from the structure of the index - DP17.setup_cells: every bucket of every level array is a whole number of cells, each a random draw of the run or Enc(F_k3(w'), iv, id'||0^lambda) of a posting of the database - and from the assumption in its textbook form (trial decryption under this keyword's tag accepts neither a dummy nor another keyword's ciphertext); DP17.search_stored_partial is the statement without any such hypothesis). Tie: recorded-oracle correspondence - the real scheme runs "
    "under a recorder (leaves + randomness tape), the Lean driver replays them and must reproduce the key, the index cell by cell, every token "
    "and every result - plus the direct oracle Search(EDBSetup(K,DB),TokenGen(K,w)) == DB[w] on the real code for all nine schemes over "
    "boundary profiles.",
    SCHEME_TRUST,
    "Lean 4 proof (per-scheme soundness of search over every database and tape) + recorded-oracle differential correspondence + direct oracle on all nine schemes",
    "6/C01")
chk("C02",
    "Props/C02.lean: for a keyword whose first probe label is not a stored label (every keyword outside the database unless the PRF collides), "
    "Search completes normally with the empty result - no exception, no foreign or padding identifiers (proved for all nine schemes, each under the hypothesis that its probe labels are not stored - evaluated by the driver on every recorded run; for SSE2 also outright, SSE2.absent_correct: every accepted configuration, key, valid database and valid keyword outside it - token generation returns and the result is empty, freshness derived from PRP injectivity). Tie: "
    "the scheme correspondence with absent keywords adversarially close to stored ones (prefix, suffix, NUL-extended, one bit flipped) in every "
    "case, plus the direct oracle on the real code for all nine schemes.",
    SCHEME_TRUST,
    "Lean 4 proof (per-scheme) + recorded-oracle differential correspondence + direct oracle on all nine schemes",
    "6/C02")
chk("C03",
    "Props/C03.lean: the concatenation wire formats of keys (all nine schemes) and tokens (seven schemes) are modelled (Model/Schemes/Wire.lean): "
    "deserialize(serialize(x)) = x whenever the fields have the configured widths, any other total length is refused, a successful parse returns "
    "exactly what was sent cut at the configured widths; generated keys of all nine schemes and the tokens of all seven schemes with a concatenation format - PiBas/PiPack (as used by a successful search), PiPtr/Pi2Lev (prf_f_output_length = param_lambda), SSE1 (every accepted configuration: label of param_l bytes from the bit PRP, mask of param_k + ceil(log2 s / 8) bytes), CT14 and ANSS16 - provably have those widths "
    "(every accepted configuration, via the HMAC P_hash length theorem of C16 and the split-length theorem of C17; ANSS16.key_roundtrip pins the width repaired by 0c28862). Search in the models is a function of the "
    "deserialized objects only, so equal objects give equal results. Tie: (a) a TRANSLATOR - harness/translate/wire_layout.py regenerates Generated/WireLayout.lean from schemes/*/*/structures.py on every run (per key / token class the length deserialize insists on and the widths it cuts at, as Lean functions of the configuration fields; which objects are pickled) and the nine S.wire_is_source theorems prove for EVERY configuration that these are the widths of the wire model, that the checked length is the sum of the cut widths and that serialize joins as many fields as deserialize cuts; the encrypted database's envelope (header || pickled parts) is modelled too: it round-trips for every header and payload and with a round-tripping codec (the law assumed of pickle) so does the object, a wrong header is refused, and edb_envelopes_are_source shows on the extracted facts that every deserialize checks the header it cuts off, that the nine headers are pairwise different and that the parts reach the constructor in the order serialize pickled them; (b) the scheme correspondence (all nine schemes) + the direct oracle on "
    "the real code: a FRESH scheme instance from the JSON round trip of the configuration, key / index / token / result deserialized from "
    "bytes, every stored and adversarially close absent keyword searched through the split and compared with DB.get(w), then a second session "
    "with a fresh key in the same process; one case per scheme (four in the thorough tier) also across REAL process boundaries: setup, token generation and the server's search in three interpreters with different hash seeds, files of bytes in between.",
    SCHEME_TRUST + " The wire-layout translator recognises four cut idioms and fails (tie broken, failing-input search) on anything else. pickle and json are library codecs (loads(dumps(x)) == x assumed, exercised by the direct oracle).",
    "Lean 4 proof (wire formats; layouts regenerated from structures.py by a translator and proved equal to the wire model) + recorded-oracle correspondence + direct oracle through the serialized split on all nine schemes, incl. across process boundaries",
    "6/C03")
chk("C04",
    "Props/C04.lean: every ciphertext of the encryption wrapper starts with the 16 random bytes drawn for it, so different draws give different "
    "ciphertexts whatever the keys and messages (one identifier under every keyword, the same database twice); in the counter-chain schemes "
    "every stored value is such a ciphertext with its own draw (the tape is exactly the list of value prefixes), distinct draws give distinct "
    "entries, and every stored key is a PRF output of a PRF-derived per-keyword key: keywords and identifiers enter the index only as arguments "
    "of keyed primitives; for PiBas and PiPack whole runs EVERY dictionary value is such a stamped ciphertext and two set-ups with non-overlapping draws share none (Chain.index_is_ciphertexts, Chain.reencryption_shares_nothing); for PiPtr and Pi2Lev EVERY stored byte string (occupied array cells of all levels, dictionary values) is a ciphertext stamped with a draw of the run, for every key, database and tape (index_is_ciphertexts), so two set-ups with non-overlapping randomness share no stored byte string (reencryption_shares_nothing); for CT14 and ANSS16 every value of every level table and of the size table is a ciphertext concatenation stamped with a draw of the run or itself a random draw (values_from_randomness); for DP17 every bucket of every level array is a whole number of cells of param_identifier_cipher_len bytes and every cell is a random draw of the run or Enc(F_k3(w), iv, id||0^lambda) of a posting of the database under an IV drawn in the run (DP17.cells_from_randomness); for SSE1 every cell of the array is a node ciphertext stamped with a draw of the run or a random filler of the run (SSE1.array_from_randomness) and every entry of its look-up table is (PRP of a stored keyword, (address||key) masked by a PRF output of that keyword) or a pair of random draws (SSE1.table_from_primitives); for SSE2 every index entry maps a PRP value of (stored keyword or the all-zero filler word, counter) to an identifier of the database (SSE2.entries_are_prp_addressed) - a whole-index statement for every one of the nine schemes. Tie: the scheme correspondence reproduces every cell of the real index of all nine schemes from the recorded "
    "leaves and draws (a cell holding a raw identifier, a keyless label or a reused IV is a disagreement). Direct oracle on the real code: "
    "substring scan of the serialized index and tokens for >=6-byte keywords and 8-byte identifiers, pairwise distinct ciphertext entries with one "
    "identifier under every keyword, disjoint entries of two setups of the same (key, database); the index serialized AFTER every keyword has been searched twice is scanned as well.",
    SCHEME_TRUST + " 'No substring occurs' is a probability statement about pseudo-random bytes (chance < 2^-40): outside any theorem.",
    "Lean 4 proof (structural: IV freshness => distinct ciphertexts; a whole-index classification of every stored byte string for each of the nine schemes) + recorded-oracle correspondence + byte-level scan of the real index, also after searches",
    "6/C04")
chk("C05",
    "Props/C05.lean: for the counter-chain schemes the multiset of (label length, value length) of the stored table is a function of the "
    "configuration and the chunk lengths only; for PiBas it is N copies of one pair, so two databases with the same number of postings give "
    "identically shaped indexes whatever their keywords, contents and list-length distributions (shape_indistinguishable); likewise PiPack for equal block counts. "
    "SSE1.shape: array length, every cell length, table size and every entry length are functions of the CONFIGURATION only. CT14.shape / ANSS16.shape: the whole index - "
    "number of level tables, entries per table (2^(t-j) resp. 2^(t+1-j) and 2^t for HT(S)), every label and value length - is a function of t = ceil(log2 N) only, for every database, key "
    "and tape; the proofs contain the capacity bounds the padding relies on (at most one chunk of 2^j <= |DB(w)| per keyword and level; a list kept at level j has more than 2^j/2 entries), "
    "the second being what commit f3c43f7 repaired. Hypotheses (identifier size, dummy keywords fresh, labels distinct) are evaluated by the driver on every recorded run. DP17.arrays_shape: bucket count and byte length of every bucket of every level array are a function of N and the configuration (level list without repetition). SSE2.shape: exactly N entries, one per posting, addresses in the PRP's bit range - for every accepted configuration, key and valid database, no run-specific hypothesis. PiPtr.shape: the array has blocks+1 cells, every occupied cell is the ciphertext of a FULL identifier block, the dictionary is one entry per pointer block, all alike - a function of (blocks, pointer blocks) only (shape_indistinguishable). Pi2Lev.shape: the array has arrayLen cells, every occupied cell is the ciphertext of mark||block with a block of exactly B*idsize bytes (identifier and pointer blocks of both levels alike), the dictionary is one entry per keyword, all alike - small lists, pointer lists and second-level pointer lists provably fit the b*idsize block - a function of (keywords, array length) only. DP17.ht_shape: the hash table has exactly N entries of digest-size keys and values. All nine schemes thus have a shape theorem; in addition the "
    "correspondence reproduces every cell INCLUDING padding cells (count and lengths) from the recorded draws, and the direct oracle builds, for "
    "every generated database, a second valid database with the same public size parameter (SSE1: none; SSE2/PiBas/DP17: N; PiPack: blocks; "
    "PiPtr: (blocks, pointer blocks); Pi2Lev: (keywords, array length); CT14/ANSS16: ceil(log2 N)) but other contents and list lengths, compares "
    "the shapes of the real indexes and checks length uniformity inside every padded table.",
    SCHEME_TRUST,
    "Lean 4 proof (index shape of all nine schemes) + recorded-oracle correspondence incl. padding + shape comparison on pairs of real indexes",
    "6/C05")
chk("C06",
    "Props/C06.lean: every label-addressed table of PiBas, PiPack, PiPtr, Pi2Lev, CT14 and ANSS16 is `buildTable` of a pair list (proved by "
    "unfolding each setup); for every pair list with distinct labels the stored label sequence is sorted in Python's bytes order and depends "
    "only on the SET of labels (bytes order proved total, transitive, antisymmetric; sorted permutations are equal); for PiBas/PiPack whole runs: "
    "the same key on any permutation of the database, with any randomness, stores the same label sequence. PiPtr placement is PROVED to be the image of the recorded random sample: the occupied slots are the tail of the sample, and the blocks of a keyword sit at sample.reverse[m..m+k) with m, k block counts only (placement_is_sample, placement_order_free, placement_is_random_image). Pi2Lev: the occupied array slots (identifier blocks and second-level pointer blocks of every storage class) are exactly a tail of the recorded sample (Pi2Lev.placement_is_sample). SSE1: the nodes of the keyword processed after `pre` hang at the addresses psi_K1(1+n), psi_K1(2+n), ... with n the number of postings of `pre` - the image under the keyed bit PRP (injective and length-preserving by the C15 theorems, not by assumption) of a counter segment that depends on list lengths only (SSE1.placement_is_prp_image). DP17: the keyword loop consumes one recorded random.choice per chunk and chunk k ends up in the bucket its draw names (DP17.chunks_go_where_the_choices_say). The in-bucket shuffle of DP17 ("
    "and the whole-run statements for it) is modelled and replayed cell by cell; that two setups differ is a statement about `random` and is "
    "sampled by the direct oracle on databases with >= 12 array-resident blocks (one long list, three lists, many lists). Direct oracle (a): permute "
    "the keyword order, all tables sorted, real labels in the same order.",
    SCHEME_TRUST,
    "Lean 4 proof (sorted storage, order-freeness of label sequences; placement = image of the recorded sample / keyed PRP / recorded choices for PiPtr, Pi2Lev, SSE1, DP17) + recorded-oracle correspondence of stored order and placement + direct oracle incl. large tables",
    "6/C06")
chk("C07",
    "Props/C07.lean: in all nine models Search is a function of (index, token) returning only a result, so any history of searches - any order, "
    "any repetition - answers each token as the single search does and leaves the index unchanged (history_independent, instantiated for the nine "
    "schemes). Purity is true by construction in a functional model; that the CODE is pure is established on every run (a) by a TRANSLATOR: "
    "harness/translate/mutation_sites.py regenerates Generated/MutationSites.lean from the working tree - every mutating statement of the scheme layer "
    "(stores, augmented stores, del, mutating method calls, random.shuffle, calls of repository functions that change the parameter they are given) in "
    "schemes/*/*/{construction,structures,config}.py, schemes/interface and toolkit, each with the provenance of the object it changes from a depth-aware "
    "alias analysis - and scheme_layer_mutates_only_its_own_objects proves by kernel evaluation over that table that every statement changes an object "
    "created inside the call or initialises the object under construction (named exceptions: the four primitive-class memo tables, the loader's lazy "
    "imports): a dropped deep copy, an in-place helper, a per-object or module cache or a mutable default argument changes the table and the theorem "
    "stops checking; (b) by the correspondence and the direct oracle on the real objects: deep copies of database / configuration dict / serialized key before and after EDBSetup, the "
    "serialized index compared after every search of a random history (present, absent, repeated keywords) against one index object, every "
    "answer compared with a single search on a freshly deserialized index, then a second index (fresh key, same or other database) built by the "
    "same scheme object.",
    SCHEME_TRUST,
    "Lean 4 proof (history independence of pure search, all nine models; no statement of the scheme layer mutates an object it did not create, over a table regenerated from the source by an alias-analysis translator) + recorded-oracle correspondence + before/after comparison on the real objects",
    "6/C07")
chk("C08",
    "Props/C08.lean: a TRANSLATOR (harness/translate/config_facts.py) regenerates Generated/ConfigFacts.lean from schemes/*/*/config.py on every run - per scheme the list literal _parse_config hands to check_param_exist, the fields it reads, whether the check comes first - and required_lists_are_source / missing_required_param_refused / reads_are_required prove that the Lean builders check exactly the source's lists and that every field a builder reads is one it requires (SSE2's two primitive names: refused by the look-up, SSE2.missing_primitive_refused); for each of the nine configuration builders a configuration lacking (or marking -1) any parameter the builder reads is refused "
    "with ValueError at configuration build; any zero or negative param_* number (other than the marker -1) is refused by every builder; for PiBas "
    "every raw configuration is refused, or setup fails, or (under the no-collision hypotheses) every stored keyword's search returns exactly its "
    "list (PiBas.mismatch_is_loud: an accepted PiBas configuration with prf_f_output_length != param_lambda makes EDBSetup raise); the same refused / loud at setup / exact-under-the-run's-distinctness-facts statement over EVERY raw configuration for PiPack, PiPtr, Pi2Lev, CT14, ANSS16, SSE1 (no collision hypothesis on its PRPs) and DP17 (S.refused_or_correct); for SSE2 every raw configuration is refused or yields a scheme that is correct outright (SSE2.refused_or_correct: setup returns, tokens are generated, every stored keyword's search is exact - no hypothesis about the run). Tie: the models' builders against the real ones over a grid (every field deleted once; length fields over "
    "{8,16,20,24,32,48,0,-1,-2}, block/capacity fields over {-8,-2,-1,0,1,2,3,5,64}, one non-integer each; every primitive name over aliases, another "
    "primitive's name, unknown, empty): same accept/refuse decision at the same stage with the same error class and the same index/results when "
    "accepted (non-integers: refused/accepted only). Direct oracle on the real code over the same grid: an exception somewhere, or every search "
    "(stored and absent keywords) correct; missing needed parameter => refused by SSEConfig itself.",
    SCHEME_TRUST + " Non-integer values of integer fields are outside the theorems (enumerated on the real code).",
    "Lean 4 proof (refusal theorems for all nine builders, refused-or-correct for all nine schemes - SSE2 outright, the others under the distinctness facts the driver evaluates on every run) + recorded-oracle correspondence over a configuration grid + direct oracle",
    "6/C08")
chk("C09",
    "Props/C09.lean over the composed model - the client program extracted from frontend/client/** (a Service object freshly loaded from disk for "
    "every command, i.e. re-created between ANY two steps), the reference server that the extracted server program refines (C10), and server restarts "
    "inserted anywhere: every history of commands and restarts delivers only results whose answering index and token come from the same key "
    "(delivered_results_are_correct); the documented workflow with a restart or not after every step (all 64 placements) is accepted step by step "
    "and both searches deliver the uploaded index under the key on disk; once the index is uploaded searches stay right through any further "
    "commands and restarts. With C01/C02 (same-key search = DB.get(w)) and C03 (wire) that is the property. Tie: translator (both IRs) + the "
    "end-to-end run: the REAL client Service against the REAL server handler over a loopback websocket for all nine schemes, database given as JSON "
    "(utf-8 keywords incl. non-ASCII, hex identifiers), schedules {client re-created every step; + restart after the upload; one object for the local "
    "steps + restart after both uploads; restarts between searches; every next step started within the server's cleanup delay}; step outcomes "
    "compared with the model, every delivered result with DB.get(w, []) for stored and absent keywords.",
    "Trusted: Lean kernel + 3 standard axioms; translator and interpreters (validated by C10, C11 and this run); scheme correctness under one key and the "
    "wire formats are used as given (C01-C03: proved for PiBas/PiPack, correspondence + direct oracle for the other seven schemes); websockets, "
    "asyncio; the server's cleanup delay is shortened by the harness (0 or 80 ms).",
    "Lean 4 proof over the composed client/server model (all histories, all restart placements) + end-to-end differential run on all nine schemes",
    "6/C09")
chk("C10",
    "The server program is EXTRACTED from frontend/server/** on every run (AST translator -> Generated/ServerIR.lean: guards and effects of the "
    "three handlers, the dispatch table, the constructor's load logic, close_service, the file-manager primitives, the manager's step order) and "
    "Props/C10.lean proves about it, for every finite history of messages (config/upload/search with any payload, foreign sid, missing type/sid, "
    "unknown type) and reconnections (after or before the previous connection's cleanup) over any number of connections: the observable trace "
    "equals the trace of the 3-state reference machine and the durable state denotes its state (refinement, by induction over the history with "
    "a shape invariant of the disk); hence forward-only state, write-once configuration and index, results only in the ready state and from the "
    "accepted index, refusals change nothing, the echoed state is the durable state. The interpreter is tied to the real handler by executing "
    "ALL sequences up to depth 3 (quick) / 4 (thorough) over a 9-symbol alphabet plus random longer ones against the real websocket handler "
    "with a real PiBas index, comparing traces and the final on-disk state; the reference machine is also evaluated directly on the real traces (the harness waits "
    "by the reference machine's predictions, never by the model's), including a second batch of sequences with requests the handler starts to store "
    "and cannot (outside the model's alphabet, judged against the reference machine only).",
    "Trusted: Lean kernel + 3 standard axioms; the AST extractor's pattern table and the interpreter's reading of each IR op (validated by the "
    "correspondence); asyncio atomicity between awaits; the websockets library (a raising handler = close code 1011, refusal reply not delivered); "
    "configs/indexes/tokens opaque, Search is a leaf; the cleanup delay is harness-controlled. Overlapping connections are C12.",
    "Lean 4 proof over a program regenerated from the source by a translator (refinement to a 3-state machine) + exhaustive-to-depth differential correspondence",
    "6/C10")
chk("C13",
    "Server: unbounded theorems (Props/C13.lean) about the program extracted from frontend/server/** on this run: for every consistent durable state, "
    "every configuration or index upload and EVERY number k of completed file-system mutations (mkdir, open/write of the temporary file, rename), the "
    "disk a kill leaves denotes the state before or after the request; on every such disk a new connection is accepted and echoes the denoted state; "
    "and every continuation behaves as the 3-state reference machine from that state (so the interrupted step is retried exactly when the echo asks "
    "for it and searches are answered from the acknowledged index). Client: the extracted persisting handlers are proved to use only atomic "
    "replace steps in the order data-before-flag, and the semantic statement is proved for the extracted program by kernel evaluation of the client interpreter with a crash budget (Model/ClientCrash.lean) run against the reference server: for every persisting step of the documented workflow and every budget of completed mutations, the re-created client redoes the interrupted step or finds it completed and the workflow ends in a search whose index and token come from the same key (client_crash_recovers, crash_points_are_covered), also when the recovery itself is interrupted at any of its crash points (client_double_crash_recovers); other client histories, and the command layer (commands.create_service by name incl. the shared name table service_mapping.json - where this check found and dd532e0 repaired a genuine defect), are decided by exhaustive enumeration of all client crash points on "
    "the real code (kill before every mutation of create/key/encrypt/both acknowledgement handlers and of create-by-name, restart, finish the workflow, compare the search "
    "result / the name resolution). Tie: translator + the interposer's logged mutation sequence of every handler must equal the extracted primitive list + disk and echo "
    "after a kill at every k must equal the interpreter's.",
    "Trusted: Lean kernel + 3 standard axioms; the crash model (a process stops between two file-system calls; completed calls are durable; os.replace is "
    "atomic; no torn write inside one call); the interposer sees every mutation; the client theorem covers ONE run of the documented workflow with an opaque configuration token (stated in client_semantic_partial), other client histories are fault enumeration.",
    "Lean 4 proof over the extracted programs (server: all crash prefixes x all consistent states; client: kernel evaluation of the budgeted interpreter over every crash point of the documented workflow) + exhaustive crash-point enumeration on the real code incl. the command layer",
    "6/C13")
chk("C11",
    "The client program is EXTRACTED from frontend/client/** on every run (AST translator -> Generated/ClientIR.lean: the guard/effect list of each "
    "of the six handlers, the two acknowledgement handlers, close_service, the flag masks, the table that overwrites the upload flags from the "
    "server's reported state, the file-manager primitives) and Props/C11.lean proves about it, for EVERY history of user commands (no depth bound), "
    "each run with a client object freshly loaded from disk as commands.py does: the interpreter refines an explicit 3-shape table (runCmd_world); "
    "hence a command is accepted exactly when the 5-flag reference of frontend/README.md accepts it and the persisted flag word follows the reference; "
    "a refused command leaves the client's folder and the server's durable state unchanged; a key file once written never changes; once the index "
    "is uploaded every later search is answered by the index built under the key on disk with a token of that key, forever; the command layer (commands.py + service_name_handler.py, hand-written Model/Commands.lean tied by correspondence over adversarially close names): a create under a taken name or with an unusable configuration changes nothing, names are write-once and exact over any history; an invalid configuration "
    "changes nothing; no history yields a wrong result. Tie: translator + executing ALL command sequences up to length 3 (quick) / 4 (thorough) over "
    "8 commands (valid / invalid-by-value / invalid-by-omission create, key, encrypt, upload config, upload index, search) plus random longer "
    "histories with the REAL client Service against the REAL server over a loopback websocket, comparing outcome, flag word, key file content, index "
    "presence and server state after every command; the reference is also evaluated directly on the real observations.",
    "Trusted: Lean kernel + 3 standard axioms; the AST extractor's pattern table and the interpreter's reading of each IR op (validated by the "
    "correspondence); the harness's mirror of commands.py (fresh Service per step, close_service in finally, process exit closes the socket); the "
    "server as the reference machine (C10); keys/indexes/tokens as ids (scheme correctness is C01-C09); the alias registry (service_name_handler) is "
    "not modelled.",
    "Lean 4 proof (refinement of the extracted client program to a table, all histories) + exhaustive-to-depth differential correspondence",
    "6/C11")
chk("C12",
    "Unbounded theorems (Props/C12.lean) over a transition system of the connection manager in which the scheduler (event loop, clients, cleanup "
    "delay) may pick ANY enabled step - opening, lock acquisition, wake-up, sending, request processing, client close, end of the serve loop, "
    "cleanup start and end - for any number of connections on one service id, using the handlers, constructor and manager step order EXTRACTED from "
    "the source on this run: in every reachable state at most one connection is being served and a request of connection j is processed only when "
    "every earlier-opened connection has been closed and cleaned up (arrival-order mutual exclusion); every step leaves the state the disk denotes "
    "monotone and never replaces or loses an accepted configuration or index; a search result always comes from the index held in the ready state. "
    "Proved with a six-clause invariant preserved by all nine kinds of step. Tie: translator + executing random interleavings of 2-3 raw websocket "
    "connections against the real server, the cleanup delay as a schedulable event and the model's predicted manager state guiding the waits, "
    "comparing every client's messages, the probe and the final disk; the three clauses are also evaluated directly on the real traces.",
    "Trusted: Lean kernel + 3 standard axioms; asyncio (atomicity between awaits, Condition wake-up semantics as abstracted by the `wake` step), the "
    "websockets library (per-connection frame order; fire-and-forget replies may be lost when the same connection is then killed: compared as a "
    "prefix); translator and interpreter as for C10. Correspondence schedules are limited to 3 connections; the theorems are not.",
    "Lean 4 proof (invariant over all schedules of a transition system built from the extracted program) + schedule-driven differential correspondence",
    "6/C12")
