chk("C17",
    "Unbounded theorems (Props/C17.lean) over the executable model of toolkit/bytes_utils, database_utils, list_utils: "
    "parse(partition(ids)) = ids for every capacity, identifier size, block size >= cap*size and list length; block count = ceil(n/cap); "
    "equal block lengths; parse-by-count = parse-by-size; split/concat and exact piece lengths; int round trip at any width and refusal of "
    "too-narrow widths; xor involution; hex round trips. The model is tied to the code by a differential run of ~6000 requests (quick) "
    "including a malformed stream, and the property itself is evaluated on the real code (direct oracle).",
    "Trusted: Lean kernel + propext/Classical.choice/Quot.sound; the correspondence harness and driver; CPython's int.to_bytes/from_bytes, "
    "bytes.hex/fromhex, slicing. utf-8 conversion is compared against Lean's String.toUTF8 only in the correspondence (no theorem).",
    "Lean 4 proof (induction over lists/fuel) + differential correspondence with the compiled model driver",
    "6/C17")
