#!/bin/bash
# usage: keep_r3.sh PROP K "extra test files"   — stage a round-4 sub-agent's output for tools/keep_mutant.py and run it
P=$1; K=$2; T=$3
mkdir -p /tmp/mut/${P}_out /tmp/r4keep/$P
[ -d /tmp/r4_$P/_out ] && cp -r /tmp/r4_$P/_out /tmp/r4keep/$P/
rm -rf /tmp/mut/$P; ln -s /tmp/r4_$P /tmp/mut/$P
cp /tmp/r4keep/$P/_out/m$K/patch.diff /tmp/mut/${P}_out/mutant_$K.diff
cp /tmp/r4keep/$P/_out/m$K/demo.py /tmp/mut/${P}_out/demo_$K.py
cp /tmp/r4keep/$P/_out/m$K/notes.md /tmp/mut/${P}_out/notes_$K.md
cd /verif && /venv/bin/python tools/keep_mutant.py $P $K --round r4 --tests "$T"
