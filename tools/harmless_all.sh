#!/bin/bash
# usage: harmless_all.sh <diff> [props...]   — run the quick checks of the given (default: all) properties against a
# behaviour-preserving edit, each in an isolated copy; prints one line per property.  Any VIOLATION is a false alarm.
D=$1; shift
PROPS=${@:-C01 C02 C03 C04 C05 C06 C07 C08 C09 C10 C11 C12 C13 C14 C15 C16 C17 C18 C19 C20}
echo $PROPS | tr ' ' '\n' | xargs -P 6 -I{} sh -c "/verif/tools/try_mutant_iso.sh {} $D 2>&1 | grep -E '^== |VIOLATION' | tr '\n' ' '; echo"
