import json, jsonschema, glob, sys
jsonschema.validate(json.load(open('/verif/MANIFEST.json')), json.load(open('/root/.vp/MANIFEST.schema.json')))
es=json.load(open('/root/.vp/EVIDENCE.schema.json'))
for f in sorted(glob.glob('/verif/evidence/*.json')):
    e=json.load(open(f)); jsonschema.validate(e, es)
    c=e['coverage']; assert c['obligations']==c['discharged'], f
print('valid', len(glob.glob('/verif/evidence/*.json')))
