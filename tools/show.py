import sys,re
for f in sys.argv[1:]:
    s=open(f).read()
    s=re.sub(r'^# -\*-.*?\n"""[\s\S]*?"""\n','',s,count=1)
    print('#### '+f)
    for l in s.split('\n'):
        if l.strip(): print(l)
