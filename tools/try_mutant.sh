#!/bin/bash
# usage: try_mutant.sh <PROP> <diff> [tier]   — apply the diff to /repo, run the check, revert.
P=$1; D=$(readlink -f "$2"); T=${3:-quick}
mkdir -p /verif/.cache
exec 9>/verif/.cache/mutant.lock
flock 9          # one mutant at a time: the change is applied to /repo itself
cd /repo || exit 9
if ! git diff --quiet; then echo "repo dirty"; exit 9; fi
git apply "$D" || { echo "APPLY-FAILED $D"; exit 8; }
cd /verif
VERIF_HAVE_LOCK=1 VERIF_SEED=${VERIF_SEED:-1} timeout 1800 /venv/bin/python harness/run_check.py --property $P --tier $T > /tmp/mut_run_$$.log 2>&1
rc=$?
git -C /repo checkout -- .
git -C /repo clean -fdq -e 'test.dict.*' >/dev/null 2>&1
# the translator's output must describe the restored tree again
(cd /verif/harness && PYTHONPATH=/verif/harness /venv/bin/python -c "from translate import frontend_ir as f; f.generate(which=('server','client'))" >/dev/null 2>&1)
echo "== $P $(basename $D) exit=$rc"
grep -E "VIOLATION|KNOWN-FINDING|^C[0-9]+ |broken:" /tmp/mut_run_$$.log | cut -c1-260 | head -8
rm -f /tmp/mut_run_$$.log
exit $rc
