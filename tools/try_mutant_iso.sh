#!/bin/bash
# usage: try_mutant_iso.sh <PROP> <diff> [tier]
# Run a check against a seeded change WITHOUT touching /repo or /verif: a private copy of /verif and a private
# worktree of /repo (HEAD + the diff) under /tmp, both removed afterwards.  Safe to run concurrently.
P=$1; D=$(readlink -f "$2"); T=${3:-quick}
S=/tmp/vmut_$$; W=/tmp/vmutwt_$$
trap 'git -C /repo worktree remove --force $W >/dev/null 2>&1; rm -rf $S $W' EXIT
rsync -a --exclude .git --exclude replays --exclude evidence /verif/ $S/ || exit 9
mkdir -p $S/replays $S/evidence
git -C /repo worktree add --detach $W HEAD >/dev/null 2>&1 || exit 9
(cd $W && git apply "$D") || { echo "APPLY-FAILED $D"; exit 8; }
cd $S
SSEPY_REPO=$W VERIF_HAVE_LOCK=1 VERIF_SEED=${VERIF_SEED:-1} timeout 1800 /venv/bin/python harness/run_check.py --property $P --tier $T > $S/run.log 2>&1
rc=$?
echo "== $P $(basename $D) exit=$rc"
grep -E "VIOLATION|KNOWN-FINDING|^C[0-9]+ |broken:" $S/run.log | cut -c1-260 | head -8
if [ -n "$KEEP_REPLAY" ]; then mkdir -p "$KEEP_REPLAY"; cp $S/replays/* "$KEEP_REPLAY"/ 2>/dev/null; fi
exit $rc
