#!/usr/bin/env python3
"""Confirm a sub-agent's seeded change in its scratch worktree and keep it under /verif/seeded/<id>/.
usage: keep_mutant.py PROP K [--tests "test/a.py test/b.py"] [--needs "..."]"""
import argparse, json, os, shutil, subprocess, sys, re
ap = argparse.ArgumentParser()
ap.add_argument("prop"); ap.add_argument("k")
ap.add_argument("--tests", default="")
ap.add_argument("--tier", default="quick")
ap.add_argument("--round", default="")
a = ap.parse_args()
P, K = a.prop, a.k
WT = f"/tmp/mut/{P}"; OUT = f"/tmp/mut/{P}_out"
diff, demo, notes = f"{OUT}/mutant_{K}.diff", f"{OUT}/demo_{K}.py", f"{OUT}/notes_{K}.md"
PY = "/venv/bin/python"
FAST = ["test/test_bits.py", "test/test_fpe.py", "test/test_database_utils.py", "test/test_persistent_array.py"]

def sh(cmd, cwd=None, timeout=3000):
    p = subprocess.run(cmd, shell=True, cwd=cwd, stdout=subprocess.PIPE, stderr=subprocess.STDOUT, text=True, timeout=timeout)
    return p.returncode, p.stdout

def clean():
    sh("git checkout -- . && git clean -fdq", cwd=WT)

clean()
rc0, o0 = sh(f"{PY} {demo}", cwd=WT, timeout=900)
rca, oa = sh(f"git apply {diff}", cwd=WT)
if rca != 0:
    print("APPLY FAILED", oa); sys.exit(1)
rc1, o1 = sh(f"{PY} {demo}", cwd=WT, timeout=900)
tests = FAST + a.tests.split()
rct, ot = sh(f"timeout 2400 {PY} -m pytest -q -p no:cacheprovider -x {' '.join(tests)}", cwd=WT)
# persistent dict tests: exactly the 10 known TestDBMDict failures are tolerated
rcd, od = sh(f"rm -f test.dict.*; timeout 300 {PY} -m pytest -q -p no:cacheprovider test/test_persistent_dict.py", cwd=WT)
m = re.search(r"(\d+) failed, (\d+) passed", od)
dict_ok = bool(m and m.group(1) == "10" and m.group(2) == "12")
clean()
ok = rc0 == 0 and rc1 != 0 and rct == 0 and dict_ok
print(f"{P} m{K}: demo clean rc={rc0}, demo mutated rc={rc1}, tests rc={rct} ({ot.strip().splitlines()[-1] if ot.strip() else ''}), dict tests as baseline={dict_ok} -> {'CONFIRMED' if ok else 'REJECTED'}")
if not ok:
    print(o0[-500:], o1[-300:], ot[-500:], od[-300:]); sys.exit(1)
# which check catches it
rcc, oc = sh(f"/verif/tools/try_mutant_iso.sh {P} {diff} {a.tier}", cwd="/verif", timeout=3000)
caught = "VIOLATION" in oc
kind = "failing-input" if re.search(r"VIOLATION property=\S+ replay=\S+\s*$", oc, re.M) else ("no-failing-input-found" if caught else "missed")
dst = f"/verif/seeded/{P}_{a.round}m{K}"
os.makedirs(dst, exist_ok=True)
shutil.copy(diff, f"{dst}/patch.diff"); shutil.copy(demo, f"{dst}/demo.py"); shutil.copy(notes, f"{dst}/notes.md")
meta = {
    "property": P, "id": f"{P}_{a.round}m{K}",
    "needs_to_manifest": open(notes).read().strip().split("\n\n")[-1][:600],
    "confirmed": {"demo_on_unchanged_tree_exit": rc0, "demo_with_change_exit": rc1,
                  "existing_tests_with_change": tests + ["test/test_persistent_dict.py (10 known DBMDict failures, 12 passed, as baseline)"],
                  "existing_tests_pass": True},
    "ran": [f"cd <scratch worktree> && {PY} demo.py  (0)", "git apply patch.diff", f"{PY} demo.py  (non-zero)",
            f"{PY} -m pytest -q {' '.join(tests)}", f"tools/try_mutant_iso.sh {P} patch.diff {a.tier}"],
    "check_result": {"tier": a.tier, "caught": caught, "kind": kind, "output": [l for l in oc.splitlines() if l.strip()][:6]},
}
json.dump(meta, open(f"{dst}/meta.json", "w"), indent=1)
print("   check:", kind)
