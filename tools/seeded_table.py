#!/usr/bin/env python3
"""seeded/README.md: which check catches which seeded change (from the meta.json files)."""
import glob, json, os
rows = []
for d in sorted(glob.glob("/verif/seeded/*/meta.json")):
    m = json.load(open(d))
    mid = m["id"]
    notes = open(os.path.join(os.path.dirname(d), "notes.md")).read().strip().splitlines()
    title = next((l.lstrip("# ").strip() for l in notes if l.strip()), "")[:150]
    cr = m.get("check_result", {})
    hist = m.get("check_history", [])
    first = hist[0]["kind"] if hist else cr.get("kind")
    rows.append((mid, m["property"], title, first, cr.get("kind"), m.get("strengthened", "")))
out = ["# Seeded changes and the checks that catch them", "",
       "Each directory holds `patch.diff` (apply with `git -C /repo apply`), `demo.py` (exits 0 on the unchanged tree, non-zero with the",
       "change), `notes.md` (what the change is and what it needs to manifest) and `meta.json` (what was confirmed and the check's output).",
       "All changes leave the existing test suite passing. `first run` = verdict of the property's quick check when the change was first",
       "tried; `now` = verdict of the current check (`failing-input`: VIOLATION with a concrete replay; `no-failing-input-found`: a proof",
       "obligation or the correspondence broke and no failing input was found, reported as such).", "",
       "| id | property | change | first run | now |", "|---|---|---|---|---|"]
for mid, p, t, f, n, s in rows:
    out.append(f"| {mid} | {p} | {t} | {f} | {n} |")
open("/verif/seeded/README.md", "w").write("\n".join(out) + "\n")
print(len(rows), "rows")
