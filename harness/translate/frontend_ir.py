"""AST extractor: frontend/server and frontend/client sources -> Lean data (Generated/ServerIR.lean, ClientIR.lean).

Every statement of an extracted function is mapped to one IR op by pattern; anything unrecognised becomes
`.unknown "<source>"` (whose semantics in the Lean interpreter is 'may do anything': proofs about it fail).
Logging calls and docstrings are dropped. The extractor never guesses: if a function is missing the
extraction raises and the run treats the tie as broken."""
import ast
import os
import re

import common


def src(node):
    return ast.unparse(node)


def lean_str(s):
    return '"' + s.replace("\\", "\\\\").replace('"', '\\"').replace("\n", " ") + '"'


def find_func(tree, name, cls=None):
    for node in ast.walk(tree):
        if cls and isinstance(node, ast.ClassDef) and node.name == cls:
            for n in node.body:
                if isinstance(n, (ast.FunctionDef, ast.AsyncFunctionDef)) and n.name == name:
                    return n
        if not cls and isinstance(node, (ast.FunctionDef, ast.AsyncFunctionDef)) and node.name == name:
            return node
    raise KeyError(f"function {cls + '.' if cls else ''}{name} not found")


def class_consts(tree, cls):
    out = {}
    for node in ast.walk(tree):
        if isinstance(node, ast.ClassDef) and node.name == cls:
            for n in node.body:
                if isinstance(n, ast.Assign) and isinstance(n.value, ast.Constant):
                    out[n.targets[0].id] = n.value.value
    return out


def module_consts(tree):
    out = {}
    for n in tree.body:
        if isinstance(n, ast.Assign) and len(n.targets) == 1 and isinstance(n.targets[0], ast.Name) and isinstance(n.value, ast.Constant):
            out[n.targets[0].id] = n.value.value
    return out


PURE_CALLS = {"len", "str", "int", "repr", "min", "max", "abs", "round", "hex", "bool", "sorted", "list", "tuple"}
PURE_METHODS = {"get", "hex", "decode", "encode", "lower", "upper", "strip", "format", "join", "keys", "values", "items",
                "startswith", "endswith", "count", "bit_length"}       # of dict / bytes / str / int values


def _pure_expr(e):
    """an expression without effects: names, attributes, constants, operators, f-strings, subscripts and calls of a few
    builtins (it can only raise on ill-typed values, which the modelled alphabets do not contain)"""
    for n in ast.walk(e):
        if isinstance(n, ast.Call):
            if not ((isinstance(n.func, ast.Name) and n.func.id in PURE_CALLS) or
                    (isinstance(n.func, ast.Attribute) and n.func.attr in PURE_METHODS)):
                return False
        elif isinstance(n, (ast.Await, ast.Yield, ast.YieldFrom, ast.NamedExpr, ast.Lambda)):
            return False
    return True


def drop_log_only_locals(tree):
    """remove `name = <pure expression>` statements whose name is read only inside `logger.*(...)` statements of the same
    function: they cannot influence anything the model speaks about, and the extractor would otherwise have to call
    them unknown.  Returns the list of removed statements (kept in the generated file's header)."""
    removed = []
    for fn in [n for n in ast.walk(tree) if isinstance(n, (ast.FunctionDef, ast.AsyncFunctionDef))]:
        cands = {}
        for st in ast.walk(fn):
            if isinstance(st, ast.Assign) and len(st.targets) == 1 and isinstance(st.targets[0], ast.Name) and _pure_expr(st.value):
                cands.setdefault(st.targets[0].id, []).append(st)
        if not cands:
            continue
        used_outside = set()
        def visit(node, in_logger):
            for ch in ast.iter_child_nodes(node):
                il = in_logger or is_logger(ch)
                if isinstance(ch, ast.Name) and isinstance(ch.ctx, ast.Load) and not il:
                    used_outside.add(ch.id)
                visit(ch, il)
        visit(fn, False)
        stores = {}
        for n in ast.walk(fn):
            if isinstance(n, ast.Name) and isinstance(n.ctx, (ast.Store, ast.Del)):
                stores[n.id] = stores.get(n.id, 0) + 1
        params = {a.arg for a in fn.args.args + fn.args.kwonlyargs}
        drop = [st for name, sts in cands.items() if name not in used_outside and name not in params
                and stores.get(name, 0) == len(sts) for st in sts]
        if not drop:
            continue
        for node in ast.walk(fn):
            for field in ("body", "orelse", "finalbody"):
                b = getattr(node, field, None)
                if isinstance(b, list) and any(x in drop for x in b):
                    kept = [x for x in b if x not in drop]
                    setattr(node, field, kept or [ast.Pass()])
        removed += [src(st) for st in drop]
    return removed


def is_logger(stmt):
    return isinstance(stmt, ast.Expr) and isinstance(stmt.value, ast.Call) and src(stmt.value.func).startswith("logger.")


def is_doc(stmt):
    """a docstring or `pass`: nothing happens"""
    return isinstance(stmt, ast.Pass) or \
        (isinstance(stmt, ast.Expr) and isinstance(stmt.value, ast.Constant) and isinstance(stmt.value.value, str))


# ---------------------------------------------------------------------------------------- server ------
class ServerExtractor:
    def __init__(self, repo):
        p = os.path.join(repo, "frontend/server/services/service.py")
        self.tree = ast.parse(open(p).read())
        self.dropped = drop_log_only_locals(self.tree)
        self.states = class_consts(self.tree, "SERVICE_STATE")
        c = ast.parse(open(os.path.join(repo, "frontend/common/constants.py")).read())
        self.msg = class_consts(c, "MsgType")

    def state_const(self, node):
        s = src(node)
        m = re.fullmatch(r"SERVICE_STATE\.(\w+)", s)
        if m and m.group(1) in self.states:
            return self.states[m.group(1)]
        if isinstance(node, ast.Constant) and isinstance(node.value, int):
            return node.value
        return None

    def msg_const(self, node):
        m = re.fullmatch(r"MsgType\.(\w+)", src(node))
        return self.msg.get(m.group(1)) if m else None

    def stmt(self, st):
        """one statement -> list of IR op strings (Lean syntax)"""
        s = src(st)
        if is_logger(st) or is_doc(st):
            return []
        # guard: if state <cmp> CONST: reason=..; send ok False; log; raise
        if isinstance(st, ast.If) and not st.orelse and isinstance(st.test, ast.Compare) and len(st.test.ops) == 1 \
                and src(st.test.left) == "self.get_current_service_state()":
            c = self.state_const(st.test.comparators[0])
            op = {ast.Eq: "eq", ast.NotEq: "ne"}.get(type(st.test.ops[0]))
            body = [b for b in st.body if not is_logger(b)]
            sends = [b for b in body if isinstance(b, ast.Expr) and isinstance(b.value, ast.Call) and src(b.value.func) == "self.send_message"]
            raises = [b for b in body if isinstance(b, ast.Raise)]
            others = [b for b in body if b not in sends and b not in raises and not (isinstance(b, ast.Assign) and src(b.targets[0]) == "reason")]
            if c is not None and op and len(sends) == 1 and not others and '"ok": False' in src(sends[0]).replace("'", '"'):
                mt = self.msg_const(sends[0].value.args[0])
                if mt is not None:
                    if len(raises) == 1 and body[-1] is raises[0]:
                        return [f".guardRefuse .{op} {c} {lean_str(mt)}"]
                    return [f".guardNoRaise .{op} {c} {lean_str(mt)}"]      # refusal sent but handler continues
        pats = [
            (r"config = pickle\.loads\(config_bytes\)", ".loadsConfig"),
            (r"FileManager\.create_sid_folder\(self\.sid\)", ".mkdirSid"),
            (r"FileManager\.write_service_config\(self\.sid, config\)", ".writeConfig"),
            (r"self\.config = config", ".setMemConfig"),
            (r"FileManager\.write_service_meta\(self\.sid, self\.service_meta\)", ".writeMeta"),
            (r"FileManager\.write_encrypted_database\(self\.sid, edb_bytes\)", ".writeEdb"),
            (r"self\._load_sse_scheme\(\)", ".loadScheme"),
            (r"self\._load_sse_encrypted_database\(\)", ".loadEdb"),
            (r"tk_digest = raw_msg_dict\.get\('token_digest'\)", ".getDigest"),
            (r"tk_object = self\.sse_module_loader\.SSEToken\.deserialize\(token_bytes, self\.config_object\)", ".deserToken"),
            (r"result = self\.sse_scheme\.Search\(self\.edb, tk_object\)", ".doSearch"),
            (r"self\.send_message\(MsgType\.RESULT, content=result\.serialize\(\), token_digest=tk_digest\)", ".sendResult"),
            (r"self\._store_service_meta\(\)", ".writeMeta"),
        ]
        for pat, op in pats:
            if re.fullmatch(pat, s):
                return [op]
        m = re.fullmatch(r"self\.service_meta\['state'\] = (.+)", s)
        if m:
            c = self.state_const(st.targets[0] and st.value)
            if c is not None:
                return [f".setState {c}"]
        if isinstance(st, ast.Expr) and isinstance(st.value, ast.Call) and src(st.value.func) == "self.send_message":
            mt = self.msg_const(st.value.args[0])
            if mt is not None and '"ok": True' in s.replace("'", '"') and '"ok": False' not in s.replace("'", '"'):
                return [f".sendOk {lean_str(mt)}"]
        return [f".unknown {lean_str(s)}"]

    def handler(self, name):
        f = find_func(self.tree, name, "Service")
        ops = []
        for st in f.body:
            ops += self.stmt(st)
        return ops

    def dispatch(self):
        """the recv_msg_handler table of __init__: message type -> handler name"""
        f = find_func(self.tree, "__init__", "Service")
        for st in f.body:
            if isinstance(st, ast.Assign) and src(st.targets[0]) == "self.recv_msg_handler" and isinstance(st.value, ast.Dict):
                out = []
                for k, v in zip(st.value.keys, st.value.values):
                    mt = self.msg_const(k)
                    out.append((mt if mt is not None else "?" + src(k), src(v).replace("self.", "")))
                return out
        raise KeyError("recv_msg_handler table not found")

    def constructor(self):
        """the load logic of Service.__init__ as IR"""
        f = find_func(self.tree, "__init__", "Service")
        ops = []
        skip = {"self.sid = sid", "self.websocket = websocket", "self.config = None", "self.config_object = None",
                "self.sse_scheme = None", "self.sse_module_loader = None", "self.edb = None"}
        for st in f.body:
            s = src(st)
            if s in skip or is_logger(st) or is_doc(st):
                continue
            if isinstance(st, ast.Assign) and src(st.targets[0]) == "self.recv_msg_handler":
                ops.append(".buildDispatch"); continue
            if s == "self.refresh_service_state()":
                rf = find_func(self.tree, "refresh_service_state", "Service")
                body = [b for b in rf.body if not is_doc(b) and not is_logger(b)]
                if len(body) == 1 and isinstance(body[0], ast.If):
                    st = ast.parse(src(body[0]).replace("self.sid", "sid")).body[0]
                    s = src(st)
            if isinstance(st, ast.If) and src(st.test) == "FileManager.check_sid_folder_exist(sid)":
                def branch(body):
                    o = []
                    for b in body:
                        t = src(b)
                        mp = {"self.config = FileManager.read_service_config(sid)": ".readConfig",
                              "self.service_meta = FileManager.read_service_meta(sid)": ".readMeta",
                              "self._load_sse_module()": ".loadModule", "self._load_config_object()": ".loadConfigObject"}
                        if t in mp:
                            o.append(mp[t])
                        elif re.fullmatch(r"self\.service_meta = \{'state': (.+)\}", t):
                            c = self.state_const(b.value.values[0])
                            o.append(f".initMeta {c}" if c is not None else f".unknown {lean_str(t)}")
                        else:
                            o.append(f".unknown {lean_str(t)}")
                    return o
                ops.append(f".ifDirExists [{', '.join(branch(st.body))}] [{', '.join(branch(st.orelse))}]")
                continue
            if isinstance(st, ast.If) and isinstance(st.test, ast.Compare) and src(st.test.left) == "self.get_current_service_state()" \
                    and isinstance(st.test.ops[0], ast.Eq):
                c = self.state_const(st.test.comparators[0])
                inner = [".loadModule" if src(b) == "self._load_sse_module()" else f".unknown {lean_str(src(b))}" for b in st.body if not is_logger(b)]
                ops.append(f".ifStateEq {c} [{', '.join(inner)}]")
                continue
            if s == "self.send_init_echo()":
                ops.append(".sendInitEcho"); continue
            ops.append(f".unknown {lean_str(s)}")
        return ops

    def recv_loop(self):
        """the filter of _recv_message: which messages are skipped"""
        f = find_func(self.tree, "_recv_message", "Service")
        s = src(f)
        ok = "if msg_type is None or sid is None or sid != self.sid:\n            continue" in s and \
             "self.recv_msg_handler[msg_type](content_byte, message_dict)" in s
        return ok, s

    def close_service(self):
        f = find_func(self.tree, "close_service", "Service")
        ops = []
        for st in f.body:
            ops += self.stmt(st)
        return ops


def server_file_manager(repo):
    """each file-manager function as primitive FS operations"""
    p = os.path.join(repo, "frontend/server/services/file_manager.py")
    tree = ast.parse(open(p).read())
    drop_log_only_locals(tree)
    return _file_manager(tree)


def _atomic_template(tree):
    """the body of `_atomic_write(path, data)` as primitive ops on `<f>.tmp` / `<f>` (None if there is no such helper)"""
    for fn in [n for n in tree.body if isinstance(n, ast.FunctionDef) and n.name == "_atomic_write"]:
        ops = []
        for st in fn.body:
            s = src(st)
            if is_doc(st):
                continue
            if re.fullmatch(r"tmp_path = path\.with_name\(path\.name \+ '\.tmp'\)", s):
                continue
            if isinstance(st, ast.With) and src(st.items[0].context_expr) == "open(tmp_path, 'wb')" and \
                    len(st.body) == 1 and src(st.body[0]) == "f.write(data)":
                ops += ["openTmp", "writeTmp"]; continue
            if s == "os.replace(tmp_path, path)":
                ops.append("replace"); continue
            ops.append(("unknown", s))
        return ops
    return None


def _file_manager(tree):
    atomic = _atomic_template(tree)
    out = {}
    for fn in [n for n in tree.body if isinstance(n, ast.FunctionDef) and n.name != "_atomic_write"]:
        ops = []
        for st in fn.body:
            s = src(st)
            if is_doc(st):
                continue
            m = re.fullmatch(r"return _PROGRAM_PATH\.joinpath\(sid\)\.exists\(\)(.*)", s, re.S)
            if m:
                extra = re.findall(r"and _PROGRAM_PATH\.joinpath\(sid\)\.joinpath\('([\w.]+)'\)\.exists\(\)", m.group(1))
                rest = re.sub(r"\s*and _PROGRAM_PATH\.joinpath\(sid\)\.joinpath\('([\w.]+)'\)\.exists\(\)", "", m.group(1)).strip()
                if rest:
                    ops.append(f".unknown {lean_str(s)}")
                else:
                    ops.append(".retDirExists" if not extra else ".retAllExist [" + ", ".join(lean_str(e) for e in extra) + "]")
                continue
            if s == "_PROGRAM_PATH.joinpath(sid).mkdir()":
                ops.append(".mkdir"); continue
            if s == "_PROGRAM_PATH.joinpath(sid).mkdir(exist_ok=True)":
                ops.append(".mkdirExistOk"); continue
            if s == "shutil.rmtree(_PROGRAM_PATH.joinpath(sid))":
                ops.append(".rmtree"); continue
            if s == "service_dir_path = _PROGRAM_PATH.joinpath(sid)":
                continue
            if isinstance(st, ast.If) and src(st.test) == "not service_dir_path.exists()" and len(st.body) == 1 \
                    and src(st.body[0]) == "return" and not st.orelse:
                ops.append(".returnIfNoDir"); continue
            m = re.fullmatch(r"return (json|pickle)\.loads\(_PROGRAM_PATH\.joinpath\(sid\)\.joinpath\('([\w.]+)'\)\.read_(text|bytes)\((.*)\)\)", s)
            if m:
                ops.append(f".readFile {lean_str(m.group(2))}"); continue
            m = re.fullmatch(r"(\w+) = _PROGRAM_PATH\.joinpath\(sid\)\.joinpath\('([\w.]+)'\)\.read_bytes\(\)", s)
            if m:
                ops.append(f".readFile {lean_str(m.group(2))}"); continue
            if re.fullmatch(r"return \w+", s):
                continue
            if isinstance(st, ast.With) and len(st.items) == 1:
                ctx = src(st.items[0].context_expr)
                m = re.fullmatch(r"open\((?:service_dir_path|_PROGRAM_PATH\.joinpath\(sid\))\.joinpath\('([\w.]+)'\), '(w|wb)'\)", ctx)
                if m and len(st.body) == 1 and re.fullmatch(r"(json\.dump\(\w+, f\)|pickle\.dump\(\w+, f\)|f\.write\(\w+\))", src(st.body[0])):
                    ops.append(f".openTrunc {lean_str(m.group(1))}"); ops.append(f".write {lean_str(m.group(1))}"); continue
            m = re.fullmatch(r"_atomic_write\((?:service_dir_path|_PROGRAM_PATH\.joinpath\(sid\))\.joinpath\('([\w.]+)'\), (.+)\)", s)
            if m and atomic is not None:
                data = m.group(2)
                if re.fullmatch(r"(json\.dumps\(\w+\)\.encode\('utf8'\)|pickle\.dumps\(\w+\)|\w+)", data):
                    for a in atomic:
                        if isinstance(a, tuple):
                            ops.append(f".unknown {lean_str(a[1])}")
                        else:
                            ops.append(f".{a} {lean_str(m.group(1))}")
                    continue
            m = re.fullmatch(r"(\w+) = _PROGRAM_PATH\.joinpath\(sid\)\.joinpath\('([\w.]+)'\)", s)
            if m:
                continue
            m = re.fullmatch(r"\w+\.unlink\(missing_ok=True\)", s)
            if m:
                ops.append('.unlink "edb"'); continue
            ops.append(f".unknown {lean_str(s)}")
        out[fn.name] = ops
    return out


def manager_ir(repo):
    """services_manager.create_service / clean_service_when_close_connection as ordered steps"""
    p = os.path.join(repo, "frontend/server/services/services_manager.py")
    tree = ast.parse(open(p).read())
    drop_log_only_locals(tree)
    WAIT_TEST = "sid in self._service_dict or waiting[0] is not service"
    WAIT_FOR = "await self._access_dict_lock.wait_for(lambda: sid not in self._service_dict and waiting[0] is service)"

    def steps(fn):
        ops = []
        body = list(fn.body)
        i = 0
        while i < len(body):
            st = body[i]
            s = src(st)
            i += 1
            if is_logger(st) or is_doc(st) or s.startswith("short_sid ="):
                continue
            if s == "service = Service(sid, websocket)":
                ops.append(".construct"); continue
            if s == "waiting = self._waiting_dict.setdefault(sid, [])" and i < len(body) and src(body[i]) == "waiting.append(service)":
                i += 1
                ops.append(".enqueue"); continue
            if isinstance(st, ast.If) and src(st.test) == "sid in self._service_dict":
                inner = []
                for b in st.body:
                    t = src(b)
                    if is_logger(b) or t.startswith("reason =") or t.startswith("prev_server ="):
                        continue
                    if t.startswith("service.send_message(MsgType.CONTROL"):
                        inner.append(".sendControl")
                    elif t == "await prev_server.wait_closed()":
                        inner.append(".awaitPrevClosed")
                    else:
                        inner.append(f".unknown {lean_str(t)}")
                ops.append(f".ifRegistered [{', '.join(inner)}]"); continue
            if isinstance(st, ast.AsyncWith) and src(st.items[0].context_expr) == "self._access_dict_lock":
                inner = []
                for b in st.body:
                    t = src(b)
                    if is_logger(b) or is_doc(b) or isinstance(b, ast.Pass):
                        continue
                    if isinstance(b, ast.If) and src(b.test) == WAIT_TEST and not b.orelse:
                        bb = [x for x in b.body if not is_logger(x) and not src(x).startswith("reason =")]
                        if len(bb) == 2 and src(bb[0]).startswith("service.send_message(MsgType.CONTROL") and src(bb[1]) == WAIT_FOR:
                            inner.append(".waitTurn"); continue
                    mp = {"self._service_dict[sid] = service": ".register", "await asyncio.sleep(1)": ".sleep",
                          "self._service_dict[sid].close_service()": ".closeService", "del self._service_dict[sid]": ".delEntry",
                          "waiting.pop(0)": ".dequeue", "service.refresh_service_state()": ".refresh",
                          "self._access_dict_lock.notify_all()": ".notifyAll"}
                    inner.append(mp.get(t, f".unknown {lean_str(t)}"))
                ops.append(f".locked [{', '.join(inner)}]"); continue
            mp = {"clean_task = asyncio.create_task(self.clean_service_when_close_connection(sid, websocket))": ".spawnCleanup",
                  "await service.start()": ".serve", "await clean_task": ".awaitCleanup",
                  "await websocket.wait_closed()": ".awaitClosed"}
            ops.append(mp.get(s, f".unknown {lean_str(s)}"))
        return ops
    # the registry primitives are asyncio's: which kind of lock guards the registry
    init = find_func(tree, "__init__", "ServicesManager")
    kind = "unknown"
    for st in init.body:
        if src(st) == "self._access_dict_lock = asyncio.Condition()":
            kind = "condition"
        if src(st) == "self._access_dict_lock = asyncio.Lock()":
            kind = "lock"
    return {"create_service": steps(find_func(tree, "create_service", "ServicesManager")),
            "clean_service_when_close_connection": steps(find_func(tree, "clean_service_when_close_connection", "ServicesManager")),
            "lock_kind": kind}


def emit_server(repo):
    ex = ServerExtractor(repo)
    fm = server_file_manager(repo)
    mg = manager_ir(repo)
    ok_loop, _ = ex.recv_loop()

    def lst(ops, indent="    "):
        return "[" + (",\n" + indent).join(ops) + "]"
    fields = [
        ("handleConfig", lst(ex.handler("handle_upload_config"))),
        ("handleUpload", lst(ex.handler("handle_upload_encrypted_database"))),
        ("handleSearch", lst(ex.handler("handle_search_token"))),
        ("dispatch", "[" + ", ".join(f"({lean_str(a)}, {lean_str(b)})" for a, b in ex.dispatch()) + "]"),
        ("ctor", lst(ex.constructor())),
        ("recvLoopIsStandard", "true" if ok_loop else "false"),
        ("closeService", lst(ex.close_service())),
        ("fmCreateSidFolder", lst(fm["create_sid_folder"])),
        ("fmWriteConfig", lst(fm["write_service_config"])),
        ("fmWriteMeta", lst(fm["write_service_meta"])),
        ("fmWriteEdb", lst(fm["write_encrypted_database"])),
        ("fmReadConfig", lst(fm["read_service_config"])),
        ("fmReadMeta", lst(fm["read_service_meta"])),
        ("fmReadEdb", lst(fm["read_encrypted_database"])),
        ("fmCheckDir", lst(fm["check_sid_folder_exist"])),
        ("mgrCreate", lst(mg["create_service"])),
        ("mgrCleanup", lst(mg["clean_service_when_close_connection"])),
        ("mgrLockIsCondition", "true" if mg["lock_kind"] == "condition" else "false"),
    ]
    L = ["/- GENERATED by harness/translate/frontend_ir.py from frontend/server/** — do not edit. -/",
         "import SSEPyVerif.Model.ServerIR", "namespace SSEPy.Generated", "open SSEPy.ServerIR", "",
         "def serverProgram : Program := {"]
    L.append(",\n".join(f"  {k} := {v}" for k, v in fields))
    L.append("}\n\nend SSEPy.Generated\n")
    return "\n".join(L)


def generate(repo=None, which=("server",)):
    """regenerate the Generated/*.lean files from the working tree; returns {file: changed?}"""
    repo = repo or common.REPO
    out = {}
    gen = os.path.join(common.LEAN, "SSEPyVerif", "Generated")
    os.makedirs(gen, exist_ok=True)
    if "server" in which:
        out["ServerIR.lean"] = write_if_changed(os.path.join(gen, "ServerIR.lean"), emit_server(repo))
    if "client" in which:
        out["ClientIR.lean"] = write_if_changed(os.path.join(gen, "ClientIR.lean"), emit_client(repo))
    return out


def write_if_changed(path, text):
    old = open(path).read() if os.path.exists(path) else None
    if old != text:
        tmp = path + ".tmp"
        open(tmp, "w").write(text)
        os.replace(tmp, path)
        return True
    return False


if __name__ == "__main__":
    print(generate(which=("server",)))


# ---------------------------------------------------------------------------------------- client ------
BITS = {"config_created": "created", "config_uploaded": "uploaded", "key_created": "key",
        "db_encrypted": "encrypted", "db_uploaded": "dbUploaded"}


class ClientExtractor:
    def __init__(self, repo):
        p = os.path.join(repo, "frontend/client/services/service.py")
        self.tree = ast.parse(open(p).read())
        self.dropped = drop_log_only_locals(self.tree)
        self.consts = module_consts(self.tree)
        self.states = class_consts(self.tree, "SERVICE_STATE")
        c = ast.parse(open(os.path.join(repo, "frontend/common/constants.py")).read())
        self.msg = class_consts(c, "MsgType")

    def bit_masks(self):
        return {BITS[k[len("_BIT_"):].lower()]: v for k, v in self.consts.items()
                if k.startswith("_BIT_") and k[len("_BIT_"):].lower() in BITS}

    def msg_const(self, node):
        m = re.fullmatch(r"MsgType\.(\w+)", src(node))
        return self.msg.get(m.group(1)) if m else None

    def stmt(self, st):
        s = src(st)
        if is_logger(st) or is_doc(st):
            return []
        # guards: if [not] ClientServiceState.is_X(self.get_current_service_state()): ... raise
        if isinstance(st, ast.If) and not st.orelse:
            t = src(st.test)
            m = re.fullmatch(r"(not )?ClientServiceState\.is_(\w+)\(self\.get_current_service_state\(\)\)", t)
            body = [b for b in st.body if not is_logger(b) and not (isinstance(b, ast.Assign) and src(b.targets[0]) == "reason")]
            if m and m.group(2) in BITS and len(body) == 1 and isinstance(body[0], ast.Raise):
                return [f".guardBit .{BITS[m.group(2)]} {'false' if m.group(1) else 'true'}"]
            if t == "not _check_config_valid(config)" and len(body) == 1 and isinstance(body[0], ast.Raise):
                return [".requireValidConfig"]
            if t == "wait":
                return [".waitSetup"] if any("register_upload_echo_future_once" in src(b) for b in st.body) else \
                    ([".awaitReply"] if any("asyncio.wait_for(fut" in src(b) for b in st.body) else [f".unknown {lean_str(s)}"])
        pats = [
            (r"_check_config_valid\(config\)", ".checkConfigValidIgnored"),
            (r"_add_salt_to_config\(config\)", ".addSalt"),
            (r"self\.sid = _calculate_sid_by_config_content\(config\)", ".calcSid"),
            (r"FileManager\.create_sid_folder\(self\.sid\)", ".mkdirSid"),
            (r"FileManager\.write_service_config\(self\.sid, config\)", ".writeConfig"),
            (r"self\.config = config", ".setMemConfig"),
            (r"self\._store_service_meta\(\)", ".storeMeta"),
            (r"return self\.sid", ".returnSid"),
            (r"self\._load_config_object\(\)", ".loadConfigObject"),
            (r"self\._load_sse_scheme\(\)", ".loadScheme"),
            (r"sse_key = self\.sse_scheme\.KeyGen\(\)", ".keyGen"),
            (r"FileManager\.write_key\(self\.sid, sse_key\.serialize\(\)\)", ".writeKey"),
            (r"self\._load_sse_key\(\)", ".loadKey"),
            (r"self\.edb = self\.sse_scheme\.EDBSetup\(self\.key, database\)", ".edbSetup"),
            (r"FileManager\.write_encrypted_database\(self\.sid, self\.edb\.serialize\(\)\)", ".writeEdb"),
            (r"await self\.load_websocket\(\)", ".loadWebsocket"),
            (r"self\._load_sse_encrypted_database\(\)", ".loadEdbFile"),
            (r"fut = None", None),
            (r"await self\._send_message\(MsgType\.CONFIG, pickle\.dumps\(self\.config\)\)", '.sendMsg "config"'),
            (r"await self\._send_message\(MsgType\.UPLOAD_DB, self\.edb\.serialize\(\)\)", '.sendMsg "upload_edb"'),
            (r"token = self\.sse_scheme\.TokenGen\(self\.key, keyword\)", ".tokenGen"),
            (r"token_bytes = token\.serialize\(\)", None),
            (r"token_digest = hashlib\.sha256\(token_bytes\)\.digest\(\)", None),
            (r"await self\._send_message\(MsgType\.TOKEN, token_bytes, token_digest=token_digest\)", '.sendMsg "token"'),
            (r"content = pickle\.loads\(content_bytes\)", None),
            (r"FileManager\.delete_encrypted_database\(self\.sid\)", ".deleteEdb"),
        ]
        for pat, op in pats:
            if re.fullmatch(pat, s):
                return [op] if op else []
        m = re.fullmatch(r"self\.set_current_service_state\(ClientServiceState\.set_(\w+)\(self\.get_current_service_state\(\), (True|False)\)\)", s)
        if m and m.group(1) in BITS:
            return [f".setBit .{BITS[m.group(1)]} {m.group(2).lower()}"]
        if isinstance(st, ast.If) and src(st.test) == "not content.get('ok', False)" and isinstance(st.body[-1], ast.Return):
            return [".returnIfNotOk"]
        if isinstance(st, ast.If) and src(st.test) == "self.websocket is not None" and len(st.body) == 1 and \
                src(st.body[0]) == "await self.websocket.close()":
            return [".closeWebsocket"]
        return [f".unknown {lean_str(s)}"]

    def handler(self, name):
        f = find_func(self.tree, name, "Service")
        ops = []
        for st in f.body:
            ops += self.stmt(st)
        return ops

    def update_table(self):
        """update_current_client_service_state_by_server_service_state: server state -> [(bit, value)]"""
        f = find_func(self.tree, "update_current_client_service_state_by_server_service_state", "Service")
        rows = []
        node = [n for n in f.body if isinstance(n, ast.If)]
        if len(node) != 1:
            raise KeyError("update table: unexpected shape")
        cur = node[0]
        while cur is not None:
            m = re.fullmatch(r"service_state == SERVICE_STATE\.(\w+)", src(cur.test))
            if not m:
                raise KeyError("update table: unexpected test " + src(cur.test))
            st = self.states[m.group(1)]
            sets = []
            for b in cur.body:
                sets += self.stmt(b)
            rows.append((st, sets))
            cur = cur.orelse[0] if cur.orelse and isinstance(cur.orelse[0], ast.If) else None
        return rows

    def constructor(self):
        f = find_func(self.tree, "__init__", "Service")
        ops = []
        for st in f.body:
            s = src(st)
            if is_logger(st) or is_doc(st):
                continue
            if isinstance(st, ast.If) and src(st.test) == "FileManager.check_sid_local_file_valid(sid)":
                mp = {"self.config = FileManager.read_service_config(sid)": ".readConfig",
                      "self.service_meta = FileManager.read_service_meta(sid)": ".readMeta"}

                def br(body):
                    o = []
                    for b in body:
                        t = src(b)
                        if t in mp:
                            o.append(mp[t])
                        elif re.fullmatch(r"self\.service_meta = \{'state': _EMPTY_STATE\}", t):
                            o.append(f".initMeta {self.consts.get('_EMPTY_STATE', 0)}")
                        else:
                            o.append(f".unknown {lean_str(t)}")
                    return o
                ops.append(f".ifLocalValid [{', '.join(br(st.body))}] [{', '.join(br(st.orelse))}]"); continue
            if isinstance(st, ast.If) and src(st.test) == "ClientServiceState.is_config_created(self.get_current_service_state())":
                inner = [{"self._load_sse_module()": ".loadModule", "self._load_config_object()": ".loadConfigObject"}.get(src(b), f".unknown {lean_str(src(b))}")
                         for b in st.body if not is_logger(b)]
                ops.append(f".ifCreated [{', '.join(inner)}]"); continue
            if re.fullmatch(r"self\.(sid = sid|websocket = None|config = None|config_object = None|sse_scheme = None|sse_module_loader = None|edb = None|key = None|echo_futures = \{\}|result_futures = \{\})", s):
                continue
            if s.startswith("self.recv_msg_handler =") or s.startswith("self.echo_handler ="):
                continue
            ops.append(f".unknown {lean_str(s)}")
        return ops

    def echo_dispatch(self):
        f = find_func(self.tree, "__init__", "Service")
        for st in f.body:
            if isinstance(st, ast.Assign) and src(st.targets[0]) == "self.recv_msg_handler" and isinstance(st.value, ast.Dict):
                return [(self.msg_const(k) or "?" + src(k), src(v).replace("self.", "")) for k, v in zip(st.value.keys, st.value.values)]
        raise KeyError("client recv_msg_handler table not found")


def emit_client(repo):
    ex = ClientExtractor(repo)
    tree = ast.parse(open(os.path.join(repo, "frontend/client/services/file_manager.py")).read())
    drop_log_only_locals(tree)
    fm = _file_manager(tree)

    def lst(ops, indent="    "):
        return "[" + (",\n" + indent).join(ops) + "]"
    masks = ex.bit_masks()
    fields = [
        ("bitMasks", "[" + ", ".join(f"(.{k}, {v})" for k, v in masks.items()) + "]"),
        ("ctor", lst(ex.constructor())),
        ("createConfig", lst(ex.handler("handle_create_config"))),
        ("createKey", lst(ex.handler("handle_create_key"))),
        ("encryptDatabase", lst(ex.handler("handle_encrypt_database"))),
        ("uploadConfig", lst(ex.handler("handle_upload_config"))),
        ("uploadEdb", lst(ex.handler("handle_upload_encrypted_database"))),
        ("keywordSearch", lst(ex.handler("handle_keyword_search"))),
        ("uploadConfigEcho", lst(ex.handler("handle_upload_config_echo"))),
        ("uploadEdbEcho", lst(ex.handler("handle_upload_encrypted_database_echo"))),
        ("closeService", lst(ex.handler("close_service"))),
        ("echoDispatch", "[" + ", ".join(f"({lean_str(a)}, {lean_str(b)})" for a, b in ex.echo_dispatch()) + "]"),
        ("updateTable", "[" + ", ".join(f"({st}, {lst(sets, '')})" for st, sets in ex.update_table()) + "]"),
        ("fmCheckValid", lst(fm["check_sid_local_file_valid"])),
        ("fmCreateSidFolder", lst(fm["create_sid_folder"])),
        ("fmWriteConfig", lst(fm["write_service_config"])),
        ("fmWriteMeta", lst(fm["write_service_meta"])),
        ("fmWriteEdb", lst(fm["write_encrypted_database"])),
        ("fmWriteKey", lst(fm["write_key"])),
        ("fmDeleteEdb", lst(fm["delete_encrypted_database"])),
    ]
    L = ["/- GENERATED by harness/translate/frontend_ir.py from frontend/client/** — do not edit. -/",
         "import SSEPyVerif.Model.ClientIR", "namespace SSEPy.Generated", "open SSEPy.ServerIR SSEPy.ClientIR", "",
         "def clientProgram : ClientIR.Program := {"]
    L.append(",\n".join(f"  {k} := {v}" for k, v in fields))
    L.append("}\n\nend SSEPy.Generated\n")
    return "\n".join(L)
