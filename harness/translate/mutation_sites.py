"""Translator for C07: every statement of the scheme layer that MUTATES an object, with the provenance of the object.

For each function of schemes/*/*/{construction,structures,config}.py and schemes/interface/*.py, and (for the clauses that
concern them) each function of toolkit/*.py and toolkit/{prf,prp,symmetric_encryption,data_structures}/*.py, a small
flow-insensitive alias analysis assigns every local name one of

    FRESH    the object was created inside this call (literal, comprehension, constructor of a builtin container,
             copy.deepcopy, a primitive's output) and holds nothing of the caller's
    SHALLOW  a container created inside this call whose ITEMS may be the caller's (list(x), x.copy(), x[a:b], a display
             holding a caller's object)
    TAINT    may be (part of) an argument, of `self`, or of a module-level object

and every mutating statement (subscript / attribute store, augmented store, `del`, a call of a mutating method, a call of
a repository function that mutates the parameter it is given, `random.shuffle`) is emitted as one row of
`Generated/MutationSites.lean` with the kind of its root:

    fresh    root created inside the call                       — harmless
    init     `self.<attr> = …` inside `__init__` / `_parse_config` (object construction)
    param    root may be a caller's argument                    — "leaves its inputs intact" is no longer shown
    self     state stored on `self` outside construction        — state that outlives a call
    global   a module-level object is changed                   — state that outlives a call
    default  a mutable default argument is changed              — state that outlives a call

`Props/C07.lean` proves `∀ s ∈ mutationSites, s.kind = fresh ∨ s.kind = init` by evaluation over the regenerated table, so a
dropped deep copy, an in-place helper or a cache changes the table and the theorem stops checking.  The analysis is
conservative (it may call a harmless statement `param`): a failed theorem is followed by the failing-input search, never
reported as a failing input by itself.
"""
import ast, os, glob

INF = 999
FRESH = 0
def S_(d): return 1000 + min(d, INF)          # container created here, items may be the caller's with mutable depth d
def T_(d): return 2000 + min(d, INF)          # may be the caller's object; d = how many levels below it are still mutable
SHALLOW, TAINT = S_(INF), T_(INF)
def level(t): return t // 1000
def depth(t): return t % 1000
def is_shallow_or_more(t): return t >= 1000
def is_taint(t): return t >= 2000
# declared shapes of the scheme interface's arguments: database = dict -> list -> bytes; configuration dict -> scalars;
# keys and tokens = object -> (bytes | list of ints)
DICT_PARAMS = {"database", "db", "config_dict"}
PARAM_DEPTH = {"database": 2, "db": 2, "config_dict": 1, "key": 2, "K": 2, "tk": 2, "token": 2, "keyword": 0, "xbytes": 0}
MUTATORS = {"append", "extend", "pop", "sort", "update", "add", "clear", "remove", "insert", "reverse", "setdefault",
            "popitem", "discard", "appendleft", "popleft", "extendleft", "__setitem__", "__delitem__",
            "difference_update", "intersection_update", "symmetric_difference_update", "rotate"}
ELEM_METHODS = {"get", "pop", "setdefault", "popitem", "__getitem__"}
VIEW_METHODS = {"items", "keys", "values", "get_result_list"}
SHALLOW_FUNCS = {"list", "dict", "set", "sorted", "tuple", "reversed", "enumerate", "zip", "map", "filter", "iter",
                 "frozenset", "OrderedDict", "deque", "defaultdict"}
ELEM_FUNCS = {"next", "min", "max"}
FRESH_FUNCS = {"len", "range", "int", "bytes", "bytearray", "str", "abs", "sum", "divmod", "isinstance", "ord", "chr",
               "hex", "print", "type", "round", "pow", "any", "all", "bool", "float", "repr", "hash", "id", "callable",
               "issubclass", "hasattr", "format", "bin", "memoryview", "super", "ValueError", "TypeError", "KeyError",
               "IndexError", "NotImplementedError", "Exception", "getattr", "object"}
MODULES = {"os", "random", "math", "struct", "hashlib", "hmac", "pickle", "json", "copy", "secrets", "itertools",
           "functools", "collections", "toolkit", "typing", "abc", "importlib", "logging", "cryptography", "sys", "re",
           "binascii", "base64", "operator"}
IMMUTABLE_PRODUCERS = {"int_to_bytes", "int_from_bytes", "bytes_xor", "add_leading_zeros", "urandom", "token_bytes",
                       "randbytes", "digest", "hexdigest", "serialize", "dumps", "to_bytes", "from_bytes", "encode",
                       "decode", "join", "ceil", "floor", "log2", "log", "randint", "getrandbits", "pack", "hex"}


def _attr_chain(e):
    out = []
    while isinstance(e, ast.Attribute):
        out.append(e.attr)
        e = e.value
    if isinstance(e, ast.Name):
        out.append(e.id)
    return out[::-1]


def _root_name(e):
    while isinstance(e, (ast.Subscript, ast.Attribute, ast.Starred)):
        e = e.value
    if isinstance(e, ast.Call):
        return _root_name(e.func) if isinstance(e.func, (ast.Attribute,)) else None
    return e.id if isinstance(e, ast.Name) else None


class FuncInfo:
    def __init__(self, path, cls, node):
        self.path, self.cls, self.node = path, cls, node
        self.name = node.name
        a = node.args
        self.params = [x.arg for x in a.posonlyargs + a.args] + ([a.vararg.arg] if a.vararg else []) + \
                      [x.arg for x in a.kwonlyargs] + ([a.kwarg.arg] if a.kwarg else [])
        pos = a.posonlyargs + a.args
        self.mutable_defaults = set()
        for p, d in zip(pos[len(pos) - len(a.defaults):], a.defaults):
            if isinstance(d, (ast.List, ast.Dict, ast.Set)) or (isinstance(d, ast.Call) and isinstance(d.func, ast.Name)
                                                                 and d.func.id in ("list", "dict", "set", "bytearray")):
                self.mutable_defaults.add(p.arg)
        for p, d in zip(a.kwonlyargs, a.kw_defaults):
            if isinstance(d, (ast.List, ast.Dict, ast.Set)):
                self.mutable_defaults.add(p.arg)
        self.is_method = cls is not None and not any(
            isinstance(d, ast.Name) and d.id == "staticmethod" for d in node.decorator_list)
        self.mutated_params = set()      # names of parameters this function may mutate (summary for callers)
        self.ret_fresh = False           # every returned / yielded object is created inside the call
        self.sites = []


class Analyzer:
    def __init__(self, repo):
        self.repo = repo
        self.funcs = []                 # FuncInfo
        self.by_name = {}
        self.module_globals = {}        # path -> set of module-level assigned names

    def load(self, patterns):
        for pat in patterns:
            for path in sorted(glob.glob(os.path.join(self.repo, pat), recursive=True)):
                rel = os.path.relpath(path, self.repo)
                tree = ast.parse(open(path).read(), filename=rel)
                g = set()
                for st in tree.body:
                    if isinstance(st, (ast.Assign, ast.AnnAssign, ast.AugAssign)):
                        for t in (st.targets if isinstance(st, ast.Assign) else [st.target]):
                            for n in ast.walk(t):
                                if isinstance(n, ast.Name):
                                    g.add(n.id)
                    if isinstance(st, (ast.FunctionDef, ast.AsyncFunctionDef)):
                        self._add(rel, None, st)
                    if isinstance(st, ast.ClassDef):
                        for m in st.body:
                            if isinstance(m, (ast.FunctionDef, ast.AsyncFunctionDef)):
                                self._add(rel, st.name, m)
                self.module_globals[rel] = g

    def ret_fresh(self, name):
        c = self.by_name.get(name)
        return bool(c) and all(g.ret_fresh for g in c)

    def _add(self, rel, cls, node):
        f = FuncInfo(rel, cls, node)
        self.funcs.append(f)
        self.by_name.setdefault(f.name, []).append(f)

    # ---------------------------------------------------------------- one function
    def analyze(self, f, record):
        env = {}
        for p in f.params:
            d = PARAM_DEPTH.get(p, INF)
            env[p] = T_(d) if d > 0 else FRESH
        locals_ = set(f.params)
        for n in ast.walk(f.node):
            if isinstance(n, ast.Name) and isinstance(n.ctx, (ast.Store, ast.Del)):
                locals_.add(n.id)
            if isinstance(n, (ast.FunctionDef, ast.AsyncFunctionDef, ast.Lambda)) and n is not f.node:
                pass
        declared_global = set()
        for n in ast.walk(f.node):
            if isinstance(n, (ast.Global, ast.Nonlocal)):
                declared_global.update(n.names)
        locals_ -= declared_global
        roots = {}          # local name -> set of parameter names it may alias
        iroots = {}         # local name -> what the ITEMS of the (locally created) container may alias
        for p in f.params:
            roots[p] = {p}

        def name_taint(nm):
            if nm in env:
                return env[nm]
            if nm in locals_:
                return FRESH          # not assigned yet in this pass (fixpoint will raise it)
            return TAINT              # module-level object / builtin

        def elem(t):
            if level(t) == 1:
                return T_(depth(t)) if depth(t) > 0 else FRESH
            if level(t) == 2:
                return T_(depth(t) - 1) if depth(t) - 1 > 0 else FRESH
            return FRESH

        def wrap(t):
            """a new container holding an object of taint t"""
            if level(t) == 2:
                return S_(depth(t))
            if level(t) == 1:
                return S_(depth(t) + 1)
            return FRESH

        def wrapmax(ts):
            return max([wrap(t) for t in ts], default=FRESH)

        def T(e):
            if e is None or isinstance(e, (ast.Constant, ast.JoinedStr, ast.Lambda, ast.Compare, ast.FormattedValue)):
                return FRESH
            if isinstance(e, ast.Name):
                return name_taint(e.id)
            if isinstance(e, ast.UnaryOp):
                return FRESH
            if isinstance(e, ast.BinOp):
                # arithmetic / concatenation / repetition build a new object (holding the operands' items)
                t = max(T(e.left), T(e.right))
                return wrap(t) if t >= 1000 and not isinstance(e.op, (ast.Mod, ast.Pow, ast.FloorDiv, ast.Div, ast.Sub,
                                                                         ast.LShift, ast.RShift, ast.BitXor, ast.BitAnd)) else FRESH
            if isinstance(e, ast.BoolOp):
                return max(T(v) for v in e.values)
            if isinstance(e, ast.IfExp):
                return max(T(e.body), T(e.orelse))
            if isinstance(e, ast.NamedExpr):
                return T(e.value)
            if isinstance(e, (ast.List, ast.Tuple, ast.Set)):
                return wrapmax([T(x) for x in e.elts])
            if isinstance(e, ast.Dict):
                return wrapmax([T(x) for x in e.values])
            if isinstance(e, (ast.ListComp, ast.SetComp, ast.GeneratorExp, ast.DictComp)):
                for g in e.generators:
                    bind_iter(g.target, g.iter)
                parts = [e.key, e.value] if isinstance(e, ast.DictComp) else [e.elt]
                return wrapmax([T(x) for x in ([e.value] if isinstance(e, ast.DictComp) else [e.elt])])
            if isinstance(e, ast.Starred):
                return T(e.value)
            if isinstance(e, ast.Subscript):
                tb = T(e.value)
                if isinstance(e.slice, ast.Slice):
                    return wrap(elem(tb))
                return elem(tb)
            if isinstance(e, ast.Attribute):
                if isinstance(e.value, ast.Name) and e.value.id in MODULES and e.value.id not in locals_:
                    return FRESH
                ch = _attr_chain(e)
                if ch[:2] == ["self", "config"] and len(ch) == 3 and ch[2].startswith("param_"):
                    return FRESH          # numeric fields of the configuration object
                return elem(T(e.value))
            if isinstance(e, ast.Await):
                return T(e.value)
            if isinstance(e, ast.Call):
                args = list(e.args) + [k.value for k in e.keywords]
                ta = max([T(a) for a in args], default=FRESH)
                fn = e.func
                if isinstance(fn, ast.Name):
                    if fn.id in FRESH_FUNCS or fn.id in IMMUTABLE_PRODUCERS:
                        return FRESH
                    if fn.id in SHALLOW_FUNCS:
                        return wrapmax([elem(T(a)) for a in args])
                    if fn.id in ELEM_FUNCS:
                        return elem(ta)
                    rt = self.ret_fresh(fn.id)
                    if rt:
                        return FRESH
                    return wrapmax([T(a) for a in args])       # a function / constructor: may keep its arguments
                if isinstance(fn, ast.Attribute):
                    if fn.attr == "deepcopy":
                        return FRESH
                    if fn.attr in IMMUTABLE_PRODUCERS:
                        return FRESH
                    base_is_module = isinstance(fn.value, ast.Name) and fn.value.id in MODULES and fn.value.id not in locals_
                    if base_is_module or (isinstance(fn.value, ast.Attribute) and _root_name(fn.value) in MODULES
                                          and _root_name(fn.value) not in locals_):
                        if fn.attr in ("choice",):
                            return elem(ta)
                        if fn.attr in ("sample", "chunks"):
                            return wrapmax([elem(T(a)) for a in args])
                        if self.ret_fresh(fn.attr):
                            return FRESH
                        return wrapmax([T(a) for a in args])
                    tb = T(fn.value)
                    if fn.attr in ELEM_METHODS:
                        return max(elem(tb), FRESH)
                    if fn.attr in VIEW_METHODS:
                        return tb
                    if fn.attr == "copy":
                        return wrap(elem(tb))
                    # the primitives of the configuration (self.config.prf_f / ske / prp / hash …) return new immutable bytes
                    if _attr_chain(fn.value)[:2] == ["self", "config"] or _attr_chain(fn)[:2] == ["self", "config"]:
                        return FRESH
                    if self.ret_fresh(fn.attr):
                        return FRESH
                    # any other method (a constructor classmethod, …): a new object that may keep its arguments
                    return wrapmax([T(a) for a in args])
                return wrapmax([T(a) for a in args])
            return TAINT

        def e_roots(e):
            """the parameters / module-level names an expression's VALUE may alias (same alias rules as `T`)"""
            if e is None:
                return set()
            if isinstance(e, ast.Name):
                if e.id in roots:
                    return set(roots[e.id])
                if e.id in locals_:
                    return set()
                return {"<global>"}
            if isinstance(e, (ast.Subscript, ast.Attribute, ast.Starred, ast.Await, ast.NamedExpr)):
                if isinstance(e, ast.Attribute) and isinstance(e.value, ast.Name) and e.value.id in MODULES and e.value.id not in locals_:
                    return set()
                extra = set(iroots.get(e.value.id, ())) if isinstance(e.value, ast.Name) else set()
                return e_roots(e.value) | extra
            if isinstance(e, (ast.BoolOp,)):
                return set().union(*[e_roots(v) for v in e.values])
            if isinstance(e, ast.IfExp):
                return e_roots(e.body) | e_roots(e.orelse)
            if isinstance(e, ast.BinOp):
                return e_roots(e.left) | e_roots(e.right)
            if isinstance(e, (ast.List, ast.Tuple, ast.Set)):
                return set().union(*[e_roots(x) for x in e.elts]) if e.elts else set()
            if isinstance(e, ast.Dict):
                return set().union(*[e_roots(x) for x in e.values]) if e.values else set()
            if isinstance(e, (ast.ListComp, ast.SetComp, ast.GeneratorExp, ast.DictComp)):
                out = set()
                for g in e.generators:
                    out |= e_roots(g.iter)
                return out
            if isinstance(e, ast.Call):
                fn = e.func
                out = set()
                for a in list(e.args) + [k.value for k in e.keywords]:
                    out |= e_roots(a)
                if isinstance(fn, ast.Attribute):
                    base_is_module = isinstance(fn.value, ast.Name) and fn.value.id in MODULES and fn.value.id not in locals_
                    if not base_is_module:
                        if fn.attr in ELEM_METHODS or fn.attr in VIEW_METHODS or fn.attr == "copy":
                            return e_roots(fn.value)
                return out
            return set()

        changed = [False]

        def bind(target, t, rs):
            if isinstance(target, ast.Name):
                if target.id in declared_global:
                    return
                old = env.get(target.id, -1)
                if t > old:
                    env[target.id] = t
                    changed[0] = True
                r0 = roots.setdefault(target.id, set())
                if t >= 1000 and not rs <= r0:
                    r0 |= rs
                    changed[0] = True
            elif isinstance(target, (ast.Tuple, ast.List)):
                for x in target.elts:
                    bind(x, elem(t), rs)
            elif isinstance(target, ast.Starred):
                bind(target.value, t, rs)

        def bind_iter(target, it):
            """`for target in it`; in `for k, v in d.items()` the key is hashable, hence immutable"""
            ti, rs = T(it), e_roots(it)
            if isinstance(it, ast.Call) and isinstance(it.func, ast.Attribute) and it.func.attr == "items" and \
                    isinstance(target, (ast.Tuple, ast.List)) and len(target.elts) == 2:
                bind(target.elts[0], FRESH, set())
                bind(target.elts[1], elem(T(it.func.value)), rs)
            elif isinstance(it, ast.Call) and isinstance(it.func, ast.Attribute) and it.func.attr == "keys":
                bind(target, FRESH, set())
            elif isinstance(it, ast.Call) and isinstance(it.func, ast.Name) and it.func.id == "enumerate" and it.args and \
                    isinstance(target, (ast.Tuple, ast.List)) and len(target.elts) == 2:
                bind(target.elts[0], FRESH, set())
                bind(target.elts[1], elem(T(it.args[0])), e_roots(it.args[0]))
            elif isinstance(it, ast.Name) and it.id in DICT_PARAMS and it.id in f.params:
                bind(target, FRESH, set())        # iterating a dict yields its keys
            else:
                bind(target, elem(ti), rs)

        def raise_container(base, tv, rs):
            """a tainted value stored into a container makes the container (at least) SHALLOW; the container's own provenance
            is unchanged, what its ITEMS may alias grows"""
            if tv >= 1000:
                nm = _root_name(base)
                if nm is not None and nm in locals_ and nm != "self":
                    if env.get(nm, FRESH) < wrap(tv):
                        env[nm] = max(env.get(nm, FRESH), wrap(tv))
                        changed[0] = True
                    r0 = iroots.setdefault(nm, set())
                    if not rs <= r0:
                        r0 |= rs
                        changed[0] = True

        def site(node, base, what):
            if not record:
                # summary pass: which parameters does this function mutate?
                if base is not None and is_taint(T(base)):
                    f.mutated_params |= (e_roots(base) & set(f.params[1:] if f.is_method else f.params))
                return
            nm = _root_name(base) if base is not None else None
            t = T(base) if base is not None else TAINT
            src = ast.get_source_segment(self.src[f.path], node) or ""
            src = " ".join(src.split())[:110]
            rs = e_roots(base) if base is not None else {"<global>"}
            self_name = f.params[0] if (f.is_method and f.params) else None
            prs = {r for r in rs if r != "<global>" and r != self_name}
            if not is_taint(t):
                kind = "fresh"
            elif prs and prs <= f.mutable_defaults:
                kind = "default"
            elif prs:
                kind = "param"
            elif self_name is not None and self_name in rs:
                direct = isinstance(base, ast.Name)
                kind = "init" if (f.name in ("__init__", "_parse_config", "__new__", "__post_init__") and direct) else "self"
            else:
                kind = "global"
            f.sites.append({"file": f.path, "func": (f.cls + "." if f.cls else "") + f.name, "line": node.lineno,
                            "stmt": src, "root": nm or "?", "kind": kind, "what": what})

        def visit_call(c):
            fn = c.func
            if isinstance(fn, ast.Attribute):
                if fn.attr in MUTATORS:
                    base_is_module = isinstance(fn.value, ast.Name) and fn.value.id in MODULES and fn.value.id not in locals_
                    if not base_is_module:
                        # hash objects: h.update(x) on a fresh object is fresh; handled by the taint of the base
                        site(c, fn.value, "method " + fn.attr)
                        for a in c.args:
                            raise_container(fn.value, T(a), e_roots(a))
                if fn.attr == "shuffle" and c.args:
                    site(c, c.args[0], "random.shuffle")
            # a repository function that mutates the parameter it is given
            cname = fn.attr if isinstance(fn, ast.Attribute) else (fn.id if isinstance(fn, ast.Name) else None)
            if cname and cname in self.by_name and cname not in MUTATORS:
                cands = self.by_name[cname]
                if isinstance(fn, ast.Attribute) and isinstance(fn.value, ast.Name) and fn.value.id in ("self", "cls") and \
                        any(g.path == f.path for g in cands):
                    cands = [g for g in cands if g.path == f.path]       # a method of this class's own module
                for g in cands:
                    if not g.mutated_params:
                        continue
                    ps = g.params[1:] if (g.is_method and isinstance(fn, ast.Attribute) and g.cls) else g.params
                    for i, a in enumerate(c.args):
                        if i < len(ps) and ps[i] in g.mutated_params and T(a) >= 1000:
                            site(c, a, f"call {cname}(…) mutates its parameter {ps[i]}")
                    for k in c.keywords:
                        if k.arg in g.mutated_params and T(k.value) >= 1000:
                            site(c, k.value, f"call {cname}(…) mutates its parameter {k.arg}")

        def walk(stmts):
            for st in stmts:
                if isinstance(st, (ast.FunctionDef, ast.AsyncFunctionDef, ast.ClassDef)):
                    if isinstance(st, (ast.FunctionDef, ast.AsyncFunctionDef)):
                        walk(st.body)          # nested function: same environment (closure)
                    continue
                for n in ast.walk(st) if not isinstance(st, (ast.For, ast.AsyncFor, ast.While, ast.If, ast.With, ast.AsyncWith, ast.Try)) else []:
                    if isinstance(n, ast.Call):
                        visit_call(n)
                if isinstance(st, ast.Assign):
                    t, rs = T(st.value), e_roots(st.value)
                    for tg in st.targets:
                        assign_target(st, tg, t, rs)
                elif isinstance(st, ast.AnnAssign) and st.value is not None:
                    assign_target(st, st.target, T(st.value), e_roots(st.value))
                elif isinstance(st, ast.AugAssign):
                    if isinstance(st.target, ast.Name):
                        # `x += y` mutates a list / bytearray / set in place; ints and bytes are rebound
                        if isinstance(st.op, (ast.Add, ast.BitOr, ast.BitAnd, ast.Sub, ast.BitXor, ast.Mult)) and \
                                is_taint(name_taint(st.target.id)) and not _is_number_like(st.value):
                            site(st, st.target, "augmented assignment")
                        bind(st.target, max(name_taint(st.target.id), T(st.value)), e_roots(st.value))
                    else:
                        site(st, st.target.value, "augmented store")
                elif isinstance(st, ast.Delete):
                    for tg in st.targets:
                        if isinstance(tg, (ast.Subscript, ast.Attribute)):
                            site(st, tg.value, "del")
                elif isinstance(st, (ast.For, ast.AsyncFor)):
                    for n in ast.walk(st.iter):
                        if isinstance(n, ast.Call):
                            visit_call(n)
                    bind_iter(st.target, st.iter)
                    walk(st.body); walk(st.orelse)
                elif isinstance(st, ast.While):
                    for n in ast.walk(st.test):
                        if isinstance(n, ast.Call):
                            visit_call(n)
                    walk(st.body); walk(st.orelse)
                elif isinstance(st, ast.If):
                    for n in ast.walk(st.test):
                        if isinstance(n, ast.Call):
                            visit_call(n)
                    walk(st.body); walk(st.orelse)
                elif isinstance(st, (ast.With, ast.AsyncWith)):
                    for it in st.items:
                        for n in ast.walk(it.context_expr):
                            if isinstance(n, ast.Call):
                                visit_call(n)
                        if it.optional_vars is not None:
                            bind(it.optional_vars, T(it.context_expr), e_roots(it.context_expr))
                    walk(st.body)
                elif isinstance(st, ast.Try):
                    walk(st.body)
                    for h in st.handlers:
                        walk(h.body)
                    walk(st.orelse); walk(st.finalbody)

        def assign_target(st, tg, t, rs):
            if isinstance(tg, ast.Name):
                if tg.id in declared_global or (tg.id not in locals_):
                    site(st, None, "global rebinding")
                bind(tg, t, rs)
            elif isinstance(tg, (ast.Tuple, ast.List)):
                for x in tg.elts:
                    assign_target(st, x, elem(t), rs)
            elif isinstance(tg, ast.Starred):
                assign_target(st, tg.value, t, rs)
            elif isinstance(tg, (ast.Subscript, ast.Attribute)):
                site(st, tg.value, "store")
                raise_container(tg.value, t, rs)

        # fixpoint on the environment without recording, then one recording pass
        saved_record = record
        record = False
        for _ in range(12):
            changed[0] = False
            before = set(f.mutated_params)
            walk(f.node.body)
            if not changed[0] and before == f.mutated_params:
                break
        rets = [n.value for n in ast.walk(f.node) if isinstance(n, (ast.Return, ast.Yield, ast.YieldFrom)) and n.value is not None]
        f.ret_fresh = all(T(r) == FRESH for r in rets)
        record = saved_record
        if record:
            f.sites = []
            walk(f.node.body)

    def run(self, entry_filter):
        self.src = {}
        for f in self.funcs:
            if f.path not in self.src:
                self.src[f.path] = open(os.path.join(self.repo, f.path)).read()
        # callee summaries: first "returns only objects created inside the call" (starts at False, the safe answer, and is
        # raised when shown), then - with those fixed - "mutates its parameter" from the empty set upwards
        for _ in range(8):
            before = [f.ret_fresh for f in self.funcs]
            for f in self.funcs:
                self.analyze(f, record=False)
            if before == [f.ret_fresh for f in self.funcs]:
                break
        for f in self.funcs:
            f.mutated_params = set()
        for _ in range(8):
            before = [set(f.mutated_params) for f in self.funcs]
            for f in self.funcs:
                self.analyze(f, record=False)
            if before == [f.mutated_params for f in self.funcs]:
                break
        sites, seen = [], set()
        for f in self.funcs:
            self.analyze(f, record=True)
            for s in f.sites:
                key = (s["file"], s["line"], s["stmt"], s["kind"], s["root"])
                if entry_filter(f, s) and key not in seen:
                    seen.add(key)
                    sites.append(s)
        return sites


def _is_number_like(e):
    if isinstance(e, ast.Constant) and isinstance(e.value, (int, float, bytes, str)):
        return True
    if isinstance(e, ast.BinOp):
        return _is_number_like(e.left) or _is_number_like(e.right)
    if isinstance(e, ast.Call):
        n = e.func.attr if isinstance(e.func, ast.Attribute) else (e.func.id if isinstance(e.func, ast.Name) else "")
        return n in FRESH_FUNCS or n in IMMUTABLE_PRODUCERS
    return False


SCHEME_PATTERNS = ["schemes/*/*/construction.py", "schemes/*/*/structures.py", "schemes/*/*/config.py", "schemes/interface/*.py"]
TOOLKIT_PATTERNS = ["toolkit/*.py", "toolkit/prf/*.py", "toolkit/prp/*.py", "toolkit/symmetric_encryption/*.py",
                    "toolkit/data_structures/*.py"]


def extract(repo):
    an = Analyzer(repo)
    an.load(SCHEME_PATTERNS + TOOLKIT_PATTERNS)

    def keep(f, s):
        if f.path.startswith("schemes/"):
            # a helper that works on the argument it is given (sorting the pair list it is handed, filling the dictionary it
            # is asked to update) is judged where it is CALLED (the summary makes the call a site of the caller); the
            # caller's own arguments are the ones of the scheme interface: methods of the classes of the three modules
            if s["kind"] == "param" and f.cls is None:
                return False
            if s["kind"] == "param" and any(isinstance(d, ast.Name) and d.id in ("staticmethod", "classmethod") for d in f.node.decorator_list) \
                    and f.name not in ("deserialize",):
                return False
            return True
        # toolkit: object-level state of the helper classes (Bitset, the primitive wrappers, the persistent containers) is
        # their own business (C14-C20); what concerns C07 is state shared between calls and arguments changed in place
        return s["kind"] in ("global", "default", "param")
    return an.run(keep)


def lean_str(s):
    return '"' + s.replace("\\", "\\\\").replace('"', '\\"').replace("\n", " ") + '"'


def generate(repo, out_path):
    sites = extract(repo)
    sites.sort(key=lambda s: (s["file"], s["line"], s["stmt"]))
    lines = ["/- GENERATED by harness/translate/mutation_sites.py from the working tree of the repository - do not edit. -/",
             "namespace SSEPy.Generated", "",
             "inductive MutKind where", "  | fresh | init | param | self | global | default", "  deriving DecidableEq, Repr", "",
             "structure MutSite where", "  file : String", "  func : String", "  line : Nat", "  root : String",
             "  kind : MutKind", "  stmt : String", "  deriving Repr", "",
             "def mutationSites : List MutSite := ["]
    rows = []
    for s in sites:
        rows.append(f"  ⟨{lean_str(s['file'])}, {lean_str(s['func'])}, {s['line']}, {lean_str(s['root'])}, .{s['kind']}, {lean_str(s['stmt'])}⟩")
    lines.append(",\n".join(rows))
    lines += ["]", "", "end SSEPy.Generated", ""]
    text = "\n".join(lines)
    old = open(out_path).read() if os.path.exists(out_path) else None
    if old != text:
        tmp = out_path + ".tmp"
        open(tmp, "w").write(text)
        os.replace(tmp, out_path)
    return sites


if __name__ == "__main__":
    import sys, collections
    ss = extract(sys.argv[1] if len(sys.argv) > 1 else "/repo")
    print(collections.Counter(s["kind"] for s in ss))
    for s in ss:
        if s["kind"] not in ("fresh", "init"):
            print(s["kind"], s["file"], s["line"], s["func"], "|", s["stmt"], "|", s["what"])
