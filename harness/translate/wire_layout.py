"""Translator for C03: the concatenation wire formats of keys and tokens, read off `schemes/*/*/structures.py`.

For every class derived from SSEKey / SSEToken:
  * `serialize`  -> the list of fields that are joined (`self.a + self.b`, `b''.join([...])`, a single field), or `pickled`;
  * `deserialize` -> the length the parser insists on (`if len(xbytes) != E: raise`) and the widths it cuts at, as arithmetic over
    the configuration's fields.  Recognised cuts: `cls(xbytes)` (one field of the checked length), `xbytes[:E], xbytes[E:]`
    (the second width is the checked length minus E), `split_bytes_given_slice_len(xbytes, [E1, …])`, and
    `[xbytes[i:i+E] for i in range(0, len(xbytes), E)]` (checked length / E fields of E bytes).
Anything else makes the extraction fail (the tie is then broken and the check goes to its failing-input search).

Output: `Generated/WireLayout.lean` — per scheme and object Lean FUNCTIONS of a field valuation `f : String → Int`
(`<S>_<key|token>_check f : Int`, `<S>_<key|token>_widths f : List Int`, `<S>_<key|token>_fields : List String`);
`Props/C03.lean` proves that they coincide with the widths of the hand-written wire model (`*.wire`) for every configuration
and that the checked length is the sum of the widths.
"""
import ast, os

SCHEMES = {"SSE1": "CGKO06/SSE1", "SSE2": "CGKO06/SSE2", "PiBas": "CJJ14/PiBas", "PiPack": "CJJ14/PiPack", "PiPtr": "CJJ14/PiPtr",
           "Pi2Lev": "CJJ14/Pi2Lev", "CT14": "CT14/Pi", "ANSS16": "ANSS16/Scheme3", "DP17": "DP17/Pi"}


class Unrecognised(Exception):
    pass


def lean_int(e, cfgname):
    """Python arithmetic over `config.<field>` -> Lean Int expression over `f "<field>"`"""
    if isinstance(e, ast.Constant) and isinstance(e.value, int):
        return f"({e.value} : Int)"
    if isinstance(e, ast.Attribute) and isinstance(e.value, ast.Name) and e.value.id == cfgname:
        return f'(f "{e.attr}")'
    if isinstance(e, ast.BinOp):
        ops = {ast.Add: "+", ast.Sub: "-", ast.Mult: "*", ast.FloorDiv: "/"}
        if type(e.op) in ops:
            return f"({lean_int(e.left, cfgname)} {ops[type(e.op)]} {lean_int(e.right, cfgname)})"
    raise Unrecognised("length expression " + ast.dump(e)[:120])


def fields_of_serialize(fn):
    rets = [n for n in ast.walk(fn) if isinstance(n, ast.Return) and n.value is not None]
    if len(rets) != 1:
        raise Unrecognised(f"serialize with {len(rets)} return statements")
    e = rets[0].value

    def flat(x):
        if isinstance(x, ast.BinOp) and isinstance(x.op, ast.Add):
            return flat(x.left) + flat(x.right)
        if isinstance(x, ast.Attribute) and isinstance(x.value, ast.Name) and x.value.id == "self":
            return [x.attr]
        raise Unrecognised("serialize term " + ast.dump(x)[:100])
    if isinstance(e, ast.Call) and isinstance(e.func, ast.Attribute) and e.func.attr == "dumps":
        return None                      # pickled
    if isinstance(e, ast.Call) and isinstance(e.func, ast.Attribute) and e.func.attr == "join" and \
            isinstance(e.func.value, ast.Constant) and e.func.value.value == b"" and len(e.args) == 1 and isinstance(e.args[0], (ast.List, ast.Tuple)):
        return sum((flat(x) for x in e.args[0].elts), [])
    return flat(e)


def layout_of_deserialize(fn):
    a = fn.args.args
    if len(a) < 3:
        raise Unrecognised("deserialize signature")
    xb, cfgname = a[1].arg, a[2].arg
    check = None
    for st in fn.body:
        if isinstance(st, ast.If) and isinstance(st.test, ast.Compare) and len(st.test.ops) == 1 and isinstance(st.test.ops[0], ast.NotEq) \
                and isinstance(st.test.left, ast.Call) and isinstance(st.test.left.func, ast.Name) and st.test.left.func.id == "len" \
                and isinstance(st.test.left.args[0], ast.Name) and st.test.left.args[0].id == xb \
                and any(isinstance(b, ast.Raise) for b in st.body):
            if check is not None:
                raise Unrecognised("two length checks")
            check = lean_int(st.test.comparators[0], cfgname)
    if check is None:
        raise Unrecognised("no `if len(xbytes) != …: raise` in deserialize")
    widths = None
    for n in ast.walk(fn):
        # split_bytes_given_slice_len(xbytes, [E1, …])
        if isinstance(n, ast.Call) and (getattr(n.func, "id", None) == "split_bytes_given_slice_len" or getattr(n.func, "attr", None) == "split_bytes_given_slice_len"):
            if not (isinstance(n.args[0], ast.Name) and n.args[0].id == xb):
                raise Unrecognised("split_bytes_given_slice_len arguments")
            w = n.args[1]
            if isinstance(w, (ast.List, ast.Tuple)):
                widths = "[" + ", ".join(lean_int(x, cfgname) for x in w.elts) + "]"
            elif isinstance(w, ast.BinOp) and isinstance(w.op, ast.Mult) and isinstance(w.left, ast.List) and len(w.left.elts) == 1 \
                    and isinstance(w.right, ast.Constant) and isinstance(w.right.value, int) and w.right.value >= 0:
                widths = f"List.replicate {w.right.value} {lean_int(w.left.elts[0], cfgname)}"      # [E] * n
            else:
                raise Unrecognised("split_bytes_given_slice_len width list")
        # [xbytes[i:i+E] for i in range(0, len(xbytes), E)]
        if isinstance(n, ast.ListComp) and isinstance(n.elt, ast.Subscript) and isinstance(n.elt.value, ast.Name) and n.elt.value.id == xb:
            g = n.generators[0]
            if isinstance(g.iter, ast.Call) and getattr(g.iter.func, "id", None) == "range" and len(g.iter.args) == 3:
                step = lean_int(g.iter.args[2], cfgname)
                sl = n.elt.slice
                if not (isinstance(sl, ast.Slice) and isinstance(sl.upper, ast.BinOp) and lean_int(sl.upper.right, cfgname) == step):
                    raise Unrecognised("chunk comprehension")
                widths = f"List.replicate ({check} / {step}).toNat {step}"
        # a, b = xbytes[:E], xbytes[E:]
        if isinstance(n, ast.Assign) and isinstance(n.value, ast.Tuple) and len(n.value.elts) == 2 and \
                all(isinstance(x, ast.Subscript) and isinstance(x.value, ast.Name) and x.value.id == xb and isinstance(x.slice, ast.Slice) for x in n.value.elts):
            s1, s2 = n.value.elts[0].slice, n.value.elts[1].slice
            if s1.lower is None and s1.upper is not None and s2.upper is None and s2.lower is not None and \
                    lean_int(s1.upper, cfgname) == lean_int(s2.lower, cfgname):
                e1 = lean_int(s1.upper, cfgname)
                widths = f"[{e1}, ({check} - {e1})]"
            else:
                raise Unrecognised("two-slice cut")
    if widths is None:
        # return cls(xbytes)
        for n in ast.walk(fn):
            if isinstance(n, ast.Return) and isinstance(n.value, ast.Call) and getattr(n.value.func, "id", None) == "cls" and \
                    n.value.args and isinstance(n.value.args[0], ast.Name) and n.value.args[0].id == xb:
                widths = f"[{check}]"
    if widths is None:
        raise Unrecognised("cut of deserialize not recognised")
    return check, widths


def edb_envelope(repo, name, rel):
    """the encrypted database's envelope: `HEADER + pickle.dumps(<fields>)`; `deserialize` refuses another header, cuts it off, unpickles
    and hands the parts to the constructor in the order the constructor stores them"""
    tree = ast.parse(open(os.path.join(repo, "schemes", rel, "structures.py")).read())
    cfg_tree = ast.parse(open(os.path.join(repo, "schemes", rel, "config.py")).read())
    consts = {}
    for st in cfg_tree.body:
        if isinstance(st, ast.Assign) and len(st.targets) == 1 and isinstance(st.targets[0], ast.Name) and \
                isinstance(st.value, ast.Constant) and isinstance(st.value.value, bytes):
            consts[st.targets[0].id] = st.value.value
    for cls in tree.body:
        if not (isinstance(cls, ast.ClassDef) and "SSEEncryptedDatabase" in [getattr(b, "id", "") for b in cls.bases]):
            continue
        meths = {m.name: m for m in cls.body if isinstance(m, ast.FunctionDef)}
        ser, des, init = meths.get("serialize"), meths.get("deserialize"), meths.get("__init__")
        if not (ser and des and init):
            raise Unrecognised(f"{name}: encrypted database without serialize / deserialize / __init__")
        # serialize: HEADER + pickle.dumps(X | (X, Y, …))
        hdr, fields = None, None
        for n in ast.walk(ser):
            if isinstance(n, ast.BinOp) and isinstance(n.op, ast.Add) and isinstance(n.left, ast.Name) and isinstance(n.right, ast.Call) \
                    and getattr(n.right.func, "attr", None) == "dumps":
                hdr = n.left.id
                a = n.right.args[0]
                elts = a.elts if isinstance(a, ast.Tuple) else [a]
                if not all(isinstance(x, ast.Attribute) and isinstance(x.value, ast.Name) and x.value.id == "self" for x in elts):
                    raise Unrecognised(f"{name}: pickled payload")
                fields = [x.attr for x in elts]
        if hdr is None or hdr not in consts:
            raise Unrecognised(f"{name}: serialize is not HEADER + pickle.dumps(...)")
        xb = des.args.args[1].arg
        # deserialize: `if xbytes[:len(H)] != H: raise`, payload = xbytes[len(H):]
        def is_len_h(e):
            return isinstance(e, ast.Call) and getattr(e.func, "id", None) == "len" and isinstance(e.args[0], ast.Name) and e.args[0].id == hdr
        checks = False
        cut = False
        for n in ast.walk(des):
            if isinstance(n, ast.If) and isinstance(n.test, ast.Compare) and isinstance(n.test.ops[0], ast.NotEq) and \
                    isinstance(n.test.left, ast.Subscript) and isinstance(n.test.left.value, ast.Name) and n.test.left.value.id == xb and \
                    isinstance(n.test.left.slice, ast.Slice) and n.test.left.slice.lower is None and is_len_h(n.test.left.slice.upper) and \
                    isinstance(n.test.comparators[0], ast.Name) and n.test.comparators[0].id == hdr and any(isinstance(b, ast.Raise) for b in n.body):
                checks = True
            if isinstance(n, ast.Subscript) and isinstance(n.value, ast.Name) and n.value.id == xb and isinstance(n.slice, ast.Slice) and \
                    n.slice.upper is None and n.slice.lower is not None and is_len_h(n.slice.lower):
                cut = True
        # the constructor call: cls(a, b, …) with a, b the unpickled parts in order; __init__ stores parameter i in attribute i
        init_params = [a.arg for a in init.args.args[1:]]
        stores = {}
        for n in ast.walk(init):
            if isinstance(n, ast.Assign) and isinstance(n.targets[0], ast.Attribute) and isinstance(n.targets[0].value, ast.Name) and \
                    n.targets[0].value.id == "self" and isinstance(n.value, ast.Name):
                stores[n.value.id] = n.targets[0].attr
            if isinstance(n, ast.Assign) and isinstance(n.targets[0], ast.Tuple) and isinstance(n.value, ast.Tuple) and \
                    len(n.targets[0].elts) == len(n.value.elts):
                for tg, v in zip(n.targets[0].elts, n.value.elts):          # self.A, self.T = A, T
                    if isinstance(tg, ast.Attribute) and isinstance(tg.value, ast.Name) and tg.value.id == "self" and isinstance(v, ast.Name):
                        stores[v.id] = tg.attr
        unpack, call = None, None
        for n in ast.walk(des):
            if isinstance(n, ast.Assign) and isinstance(n.value, ast.Call) and getattr(n.value.func, "attr", None) == "loads":
                t = n.targets[0]
                unpack = [x.id for x in t.elts] if isinstance(t, ast.Tuple) else [t.id]
            if isinstance(n, ast.Return) and isinstance(n.value, ast.Call) and getattr(n.value.func, "id", None) == "cls":
                call = [a.id for a in n.value.args if isinstance(a, ast.Name)]
        if unpack is None or call is None:
            raise Unrecognised(f"{name}: deserialize of the encrypted database")
        # attribute that receives the i-th unpickled part
        got = []
        for u in unpack:
            if u not in call:
                raise Unrecognised(f"{name}: unpickled part {u} is not handed to the constructor")
            got.append(stores.get(init_params[call.index(u)], "?"))
        return {"header": consts[hdr], "checks_header": checks and cut, "ser_fields": fields, "deser_fields": got}
    raise Unrecognised(f"{name}: no encrypted database class")


def extract(repo):
    out = {}
    for name, rel in SCHEMES.items():
        path = os.path.join(repo, "schemes", rel, "structures.py")
        tree = ast.parse(open(path).read())
        for cls in tree.body:
            if not isinstance(cls, ast.ClassDef):
                continue
            bases = [getattr(b, "id", getattr(b, "attr", "")) for b in cls.bases]
            kind = "key" if "SSEKey" in bases else ("token" if "SSEToken" in bases else None)
            if kind is None:
                continue
            meths = {m.name: m for m in cls.body if isinstance(m, ast.FunctionDef)}
            if "serialize" not in meths or "deserialize" not in meths:
                raise Unrecognised(f"{name}.{cls.name}: serialize / deserialize missing")
            fields = fields_of_serialize(meths["serialize"])
            if fields is None:
                out[(name, kind)] = None
                continue
            check, widths = layout_of_deserialize(meths["deserialize"])
            out[(name, kind)] = (fields, check, widths)
        for kind in ("key", "token"):
            if (name, kind) not in out:
                raise Unrecognised(f"{name}: no {kind} class")
    return out


def generate(repo, out_path):
    lay = extract(repo)
    L = ["/- GENERATED by harness/translate/wire_layout.py from schemes/*/*/structures.py of the working tree - do not edit. -/",
         "namespace SSEPy.Generated.Wire", ""]
    for (name, kind), v in sorted(lay.items()):
        if v is None:
            L.append(f"def {name}_{kind}_pickled : Bool := true")
            continue
        fields, check, widths = v
        L.append(f"def {name}_{kind}_pickled : Bool := false")
        L.append(f"def {name}_{kind}_fields : List String := [" + ", ".join(f'"{x}"' for x in fields) + "]")
        L.append(f"def {name}_{kind}_check (f : String → Int) : Int := {check}")
        L.append(f"def {name}_{kind}_widths (f : String → Int) : List Int := {widths}")
    env = {}
    for name, rel in sorted(SCHEMES.items()):
        e = edb_envelope(repo, name, rel)
        env[name] = e
        L.append(f"def {name}_edb_header : List UInt8 := [" + ", ".join(str(b) for b in e["header"]) + "]")
        L.append(f"def {name}_edb_checks_header : Bool := {'true' if e['checks_header'] else 'false'}")
        L.append(f"def {name}_edb_ser_fields : List String := [" + ", ".join(f'"{x}"' for x in e["ser_fields"]) + "]")
        L.append(f"def {name}_edb_deser_fields : List String := [" + ", ".join(f'"{x}"' for x in e["deser_fields"]) + "]")
    L += ["", "end SSEPy.Generated.Wire", ""]
    text = "\n".join(L)
    old = open(out_path).read() if os.path.exists(out_path) else None
    if old != text:
        open(out_path + ".tmp", "w").write(text)
        os.replace(out_path + ".tmp", out_path)
    return {f"{n}.{k}": (None if v is None else {"fields": v[0], "check": v[1], "widths": v[2]}) for (n, k), v in lay.items()}


if __name__ == "__main__":
    import sys, json
    print(json.dumps(generate(sys.argv[1] if len(sys.argv) > 1 else "/repo", "/dev/stdout" if len(sys.argv) < 3 else sys.argv[2]), indent=1))
