"""Correspondence of the scheme models (lean/SSEPyVerif/Model/Schemes/*.lean) with schemes/**: the real scheme is run
under the Recorder, the Lean driver replays the recorded leaves and the randomness tape, and must reproduce the key,
the index cell by cell, every token and every result (or the same error class at the same stage)."""
import common
from common import hx
import schemes_env as se
import schemes_rec as sr

MODELLED = ["PiBas", "PiPack", "PiPtr", "CT14", "ANSS16", "SSE2", "SSE1", "DP17", "Pi2Lev"]


def _tbl(d):
    return ",".join(f"{hx(k)}:{hx(v)}" for k, v in d.items()) if d else "."


def _hxl(l):
    return ",".join(hx(x) for x in l) if l else "."


def _cells(a):
    return ",".join("N" if x is None else hx(x) for x in a) if a else "."


def _i2b(x):
    return x.to_bytes((x.bit_length() + 7) // 8, "big")


ADAPT = {
    "Pi2Lev": dict(key=lambda k: [k.K], edb=lambda e: "D " + _tbl(e.D) + " | A " + _cells(e.A), token=lambda t: [t.K1, t.K2]),
    "DP17": dict(key=lambda k: [k.k1, k.k2, k.k3],
                 edb=lambda e: "HT " + _tbl(e.HT) + " | A " + ";".join(f"{i}=" + _hxl(a) for i, a in e.A_dict.items()),
                 token=lambda t: [t.tag, t.vtag, t.etag]),
    "SSE1": dict(key=lambda k: [k.K1, k.K2, k.K3, k.K4], edb=lambda e: "A " + _hxl(e.A) + " | T " + _tbl(e.T),
                 token=lambda t: [t.gamma, t.eta]),
    "SSE2": dict(key=lambda k: [k.K1, k.K2], edb=lambda e: "I " + (",".join(f"{k}:{hx(v)}" for k, v in e.I.items()) if e.I else "."),
                 token=lambda t: [_i2b(x) for x in t.t]),
    "ANSS16": dict(key=lambda k: [k.K], edb=lambda e: "S " + _tbl(e.HT_S) + " | L " + " | ".join(_tbl(t) for t in e.HT_L_list),
                   token=lambda t: [t.li, t.Ki, t.li_prime, t.Ki_prime]),
    "CT14": dict(key=lambda k: [k.K], edb=lambda e: "HT " + " | ".join(_tbl(t) for t in e.HT_list), token=lambda t: [t.K0, t.K1]),
    "PiPtr": dict(key=lambda k: [k.K], edb=lambda e: "D " + _tbl(e.D) + " | A " + _cells(e.A), token=lambda t: [t.K1, t.K2]),
    "PiBas": dict(key=lambda k: [k.K], edb=lambda e: "D " + _tbl(e.D), token=lambda t: [t.K1, t.K2]),
    "PiPack": dict(key=lambda k: [k.K], edb=lambda e: "D " + _tbl(e.D), token=lambda t: [t.K1, t.K2]),
}


def errname(e):
    return type(e).__name__


def run_impl(name, cfg, db, words, rng):
    """the real scheme under the recorder; returns (observations, recorder)"""
    obs = {}
    ad = ADAPT[name]
    with sr.Recorder(rng) as rec:
        ld = se.loader(name)
        try:
            scheme = ld.SSEScheme(cfg)
            obs["cfg"] = "ok"
            rec.tape.clear()        # draws made while building the configuration (DP17 measures a ciphertext length) are not the model's
        except Exception as e:
            obs["cfg"] = "err " + errname(e)
            return obs, rec
        try:
            key = scheme.KeyGen()
            obs["keygen"] = "ok " + " ".join(hx(x) for x in ad["key"](key))
        except Exception as e:
            obs["keygen"] = "err " + errname(e)
            return obs, rec
        try:
            edb = scheme.EDBSetup(key, db)
            obs["setup"] = "ok 0"
            obs["edb"] = ad["edb"](edb)
        except Exception as e:
            obs["setup"] = "err " + errname(e)
            return obs, rec
        obs["search"] = []
        for w in words:
            try:
                tk = scheme.TokenGen(key, w)
                t = "ok " + " ".join(hx(x) for x in ad["token"](tk))
            except Exception as e:
                obs["search"].append(("err " + errname(e), None))
                continue
            try:
                r = scheme.Search(edb, tk)
                rl = r.result
                s = "ok " + _hxl(sorted(rl) if name == "DP17" else rl)
            except Exception as e:
                s = "err " + errname(e)
            obs["search"].append((t, s))
        obs["_objects"] = (scheme, key, edb)
    return obs, rec


def model_lines(name, cfg, db, words, rec, stage):
    lines = ["tbl clear", sr.cfg_line(name, cfg)]
    if stage == "cfg":
        return lines
    lines += rec.table_lines() + ["sch tape clear"] + rec.tape_lines() + sr.db_lines(db) + ["sch keygen"]
    if stage == "keygen":
        return lines
    lines += ["sch setup"]
    if stage == "setup":
        return lines
    lines += ["sch edb"]
    for w in words:
        lines += [f"sch token {hx(w)}", f"sch search {hx(w)}"]
    return lines


def prepare_case(name, cfg, db, words, rng):
    obs, rec = run_impl(name, cfg, db, words, rng)
    stage = "cfg" if obs["cfg"] != "ok" else "keygen" if not obs["keygen"].startswith("ok") else \
        "setup" if not obs["setup"].startswith("ok") else "all"
    return obs, rec, stage, model_lines(name, cfg, db, words, rec, stage)


def judge_case(name, words, obs, stage, lines, outs):
    by = {}
    search_out = []
    for l, o in zip(lines, outs):
        if l.startswith("sch cfg"): by["cfg"] = o
        elif l == "sch keygen": by["keygen"] = o
        elif l == "sch setup": by["setup"] = o
        elif l == "sch edb": by["edb"] = o
        elif l.startswith("sch token") or l.startswith("sch search"): search_out.append(o)
        elif o != "ok":
            by.setdefault("_bad", []).append((l[:80], o))
    mism = []
    if "_bad" in by:
        mism.append(("driver-request", "ok", str(by["_bad"][:2])))
    for k in ("cfg", "keygen", "setup", "edb"):
        if k in obs and obs[k] != by.get(k):
            mism.append((k, obs[k][:300], str(by.get(k))[:300]))
    if stage == "all":
        it = iter(search_out)
        for w, (t, s) in zip(words, obs["search"]):
            mt, ms = next(it), next(it)
            if s is None:
                if mt != t:
                    mism.append((f"token {hx(w)}", t, mt))
                continue
            if mt != t:
                mism.append((f"token {hx(w)}", t[:200], mt[:200]))
            if name == "DP17" and ms.startswith("ok ") and ms != "ok .":
                ms = "ok " + ",".join(sorted(set(ms[3:].split(","))))
            if ms != s:
                mism.append((f"search {hx(w)}", s[:200], ms[:200]))
    return mism


def compare_cases(driver, cases, rng, hyps=None):
    """cases: list of (name, cfg, db, words); hyps: per case the list of absent keywords for which the theorems'
    no-collision hypotheses are evaluated by the driver (or None).
    Returns a list of (obs, mismatches, recorder-calls, tape length, hyps answer)"""
    prepared = []
    lines = []
    for i, (name, cfg, db, words) in enumerate(cases):
        obs, rec, stage, ls = prepare_case(name, cfg, db, words, rng)
        hl = None
        if hyps is not None and stage == "all":
            hl = "sch hyps " + " ".join(hx(w) for w in hyps[i])
            ls = ls + [hl.strip()]
        prepared.append((name, words, obs, stage, len(lines), len(ls), dict(rec.calls), len(rec.tape), hl is not None))
        lines += ls
    outs = driver.batch(lines) if lines else []
    res = []
    for name, words, obs, stage, off, n, calls, tapelen, has_h in prepared:
        ls, os_ = lines[off:off + n], outs[off:off + n]
        hyp = None
        if has_h:
            hyp = os_[-1]
            ls, os_ = ls[:-1], os_[:-1]
        mism = judge_case(name, words, obs, stage, ls, os_)
        obs.pop("_objects", None)
        res.append((obs, mism, calls, tapelen, hyp))
    return res
