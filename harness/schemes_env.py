"""Shared scaffolding for the scheme layer (C01-C09): the nine schemes, small configuration grids that reach every
case split with databases of tens of postings, generators of VALID databases (the validity predicate of the
properties), and the direct oracle on the real code."""
import copy
import math
import os
import random
import sys

import common

if common.REPO not in sys.path:
    sys.path.insert(0, common.REPO)

NAMES = ["SSE1", "SSE2", "PiBas", "PiPack", "PiPtr", "Pi2Lev", "CT14", "ANSS16", "DP17"]
MODULE = {"SSE1": "CGKO06.SSE1", "SSE2": "CGKO06.SSE2", "PiBas": "CJJ14.PiBas", "PiPack": "CJJ14.PiPack",
          "PiPtr": "CJJ14.PiPtr", "Pi2Lev": "CJJ14.Pi2Lev", "CT14": "CT14.Pi", "ANSS16": "ANSS16.Scheme3", "DP17": "DP17.Pi"}


def loader(name):
    import schemes
    return schemes.load_sse_module(MODULE[name])


def default_cfg(name):
    return copy.deepcopy(loader(name).SSEConfig.DEFAULT_CONFIG)


def grid(name, rng, n):
    """n small, SUPPORTED configurations of a scheme (the first ones are fixed, the rest drawn)"""
    out = []
    for i in range(n):
        c = default_cfg(name)
        fixed = i < 3
        ks = [16, 24, 32]
        pick = (lambda xs, j=i: xs[j % len(xs)]) if fixed else (lambda xs: rng.choice(xs))
        if name == "SSE1":
            c.update(param_k=pick(ks), param_l=pick([8, 12, 32]), param_s=pick([16, 64, 256]),
                     param_dictionary_size=pick([8, 20, 40]), param_identifier_size=pick([4, 8, 3]))
        elif name == "SSE2":
            c.update(param_k=pick(ks), param_l=pick([8, 12, 32]), param_identifier_size=pick([4, 8, 3]),
                     param_max_file_size=pick([1024 * 1024, 300, 70000]))
        elif name == "PiBas":
            k = pick(ks)
            c.update(param_lambda=k, prf_f_output_length=k)
        elif name == "PiPack":
            k = pick(ks)
            c.update(param_lambda=k, prf_f_output_length=k, param_B=pick([1, 2, 3, 4, 64]), param_identifier_size=pick([8, 4, 5]))
        elif name == "PiPtr":
            k = pick(ks)
            c.update(param_lambda=k, prf_f_output_length=k, param_B=pick([1, 2, 3, 4]), param_b=pick([2, 1, 3, 64]),
                     param_identifier_size=pick([8, 4, 5]))
        elif name == "Pi2Lev":
            k = pick(ks)
            # (B*id)//B' == (b*id)//b'  = pointer width
            B, b, Bp, bp, ids = pick([(2, 2, 2, 2, 4), (4, 2, 4, 2, 8), (4, 4, 5, 5, 8), (3, 3, 3, 3, 4), (2, 4, 4, 8, 8), (64, 64, 64, 64, 8),
                                      (4, 4, 8, 8, 4)])
            c.update(param_lambda=k, prf_f_output_length=k, param_B=B, param_b=b, param_B_prime=Bp, param_b_prime=bp,
                     param_identifier_size=ids)
        elif name == "CT14":
            k = pick(ks)
            c.update(param_k=k, param_k_prime=(ks[(i + 1) % 3] if fixed else rng.choice(ks)), param_l=pick([8, 16, 32]),
                     param_identifier_size=pick([4, 16, 3, 8]))
        elif name == "ANSS16":
            k = pick(ks)
            c.update(param_lambda=pick([16, 32, 8]), param_k=k, param_k_prime=k, param_l=pick([8, 16, 32]),
                     param_l_prime=pick([8, 16, 32]), param_identifier_size=pick([4, 16, 3, 8]))
        elif name == "DP17":
            c.update(param_lambda=pick(ks), param_L=pick([1, 2, 3, 1]), param_identifier_size=pick([8, 4, 16, 5]),
                     param_actual_storage_level_ratio=pick([0.2, 0.5, 1.0, 0.34]))
        if i == 3:
            # one configuration per scheme whose encrypted plaintext is an exact multiple of the cipher block (PKCS#7 then adds
            # a whole block): any "IV + body rounded up to blocks" size formula is wrong exactly there
            if name == "SSE1":
                c.update(param_k=16, param_s=256, param_identifier_size=15)      # node = 15 + 16 + 1 = 32 bytes
            elif name == "PiPack":
                c.update(param_B=4, param_identifier_size=4)                     # block = 16 bytes
            elif name == "PiPtr":
                c.update(param_B=2, param_b=2, param_identifier_size=8)          # block = 16 bytes
            elif name == "CT14" or name == "ANSS16":
                c.update(param_identifier_size=16)
            elif name == "DP17":
                c.update(param_lambda=16, param_identifier_size=16)              # id ‖ 0^λ = 32 bytes
        out.append(c)
    return out


def kw_limit(name, cfg):
    return cfg["param_l"] if name in ("SSE1", "SSE2") else 40


def _ident(rng, size, used):
    while True:
        x = bytes(rng.getrandbits(8) for _ in range(size))
        if any(x) and x not in used:
            used.add(x)
            return x


def _structured_ident(rng, size, used, n):
    """identifiers as applications write them - document numbers, left-aligned codes, sparse bit masks: valid (right size, not all
    zero) but full of NUL runs at the start, at the end and across the boundary between two neighbours"""
    for _ in range(200):
        kind = rng.randrange(5)
        v = rng.randint(1, 600)
        if kind == 0:
            x = v.to_bytes(max(size, 2), "big")[-size:]                         # 00 00 00 .. 02 01
        elif kind == 1:
            x = (v.to_bytes(2, "big").lstrip(b"\0") + bytes(size))[:size]       # 02 01 00 00 .. 00
        elif kind == 2:
            x = bytearray(size); x[rng.randrange(size)] = rng.randint(1, 255); x = bytes(x)
        elif kind == 3:
            x = bytes([0xFF] * (size - 1)) + bytes([rng.randint(0, 255)])
        else:
            x = bytes(rng.getrandbits(8) for _ in range(size))
        if any(x) and x not in used:
            used.add(x)
            return x
    return _ident(rng, size, used)


def _keyword(rng, limit, taken, near=None):
    while True:
        n = rng.randint(1, min(limit, 12))
        w = bytes([rng.randint(1, 255)]) + bytes(rng.getrandbits(8) for _ in range(n - 1))
        if w not in taken:
            return w


PROFILES = ["one", "pow2", "pow2_single", "boundary", "many_small", "mixed", "shared_ids", "big_list", "long_keywords", "structured_ids", "close_keywords"]
# large databases (array indexes, counters and pointer widths beyond one byte); run for one configuration per scheme
BIG_PROFILES = ["many_keywords", "long_list", "single_256"]


def capacity(name, cfg):
    """(max postings, max keywords, max list length) that the configuration can hold"""
    if name == "SSE1":
        return cfg["param_s"] - 1, cfg["param_dictionary_size"], 10 ** 9
    if name == "Pi2Lev":
        return 10 ** 9, 10 ** 9, cfg["param_B"] * cfg["param_B_prime"] * cfg["param_b_prime"] - 1
    return 10 ** 9, 10 ** 9, 10 ** 9


def gen_db(name, cfg, rng, profile, scale=1):
    """a VALID database for this configuration"""
    ids = cfg.get("param_identifier_size", 8)
    limit = kw_limit(name, cfg)
    maxN, maxK, maxL = capacity(name, cfg)
    B = cfg.get("param_B", 4)
    if profile == "one":
        lens = [1]
    elif profile == "pow2":
        t = rng.randint(1, 4)
        total = 2 ** t
        lens = []
        while total:
            x = rng.randint(1, total); lens.append(x); total -= x
    elif profile == "pow2_single":
        lens = [2 ** rng.randint(0, 4)]
    elif profile == "boundary":
        base = rng.choice([B, cfg.get("param_b", 2), 2, 4, 8, B * cfg.get("param_b", 2), B * cfg.get("param_b_prime", 2)])
        lens = [max(1, base + d) for d in (-1, 0, 1)] + [1]
        if name == "Pi2Lev" and B * cfg["param_b_prime"] <= 64:
            # all three storage cases at their boundaries: in the dictionary (<= b), one level of pointers (<= B*b'), two levels
            lens = [cfg["param_b"], cfg["param_b"] + 1, B * cfg["param_b_prime"], B * cfg["param_b_prime"] + 1, 1]
    elif profile == "many_small":
        lens = [rng.randint(1, 3) for _ in range(rng.randint(3, 9 * scale))]
    elif profile == "shared_ids":
        lens = [rng.randint(1, 4) for _ in range(rng.randint(2, 6))]
    elif profile == "big_list":
        lens = [rng.randint(9, 30 * scale)] + [rng.randint(1, 3) for _ in range(rng.randint(0, 3))]
    elif profile == "wide":
        lens = [rng.randint(40, 90)] + [rng.randint(1, 3) for _ in range(2)]
    elif profile == "long_keywords":
        lens = [rng.randint(1, 5) for _ in range(rng.randint(1, 4))]
    elif profile == "structured_ids":
        lens = [rng.randint(5, 14 * scale)] + [rng.randint(1, 6) for _ in range(rng.randint(1, 3))]
    elif profile == "close_keywords":
        lens = [rng.randint(1, 5) for _ in range(6)]
    elif profile == "many_keywords":
        lens = [rng.randint(1, 4) for _ in range(150)]
    elif profile == "long_list_2byte":
        lens = [rng.randint(560, 640)] + [rng.randint(1, 3) for _ in range(3)]
    elif profile == "single_256":
        # the whole database is ONE list of 2^8 postings: t = 8 is the first level count that is a multiple of 8 (byte-width
        # formulas of counters and lengths change there: the defect repaired by 7b4d508 lived exactly here)
        lens = [256]
    elif profile == "long_list":
        lens = [rng.randint(290, 330)] + [rng.randint(1, 3) for _ in range(3)]
    else:
        lens = [rng.randint(1, 12 * scale) for _ in range(rng.randint(1, 6))]
    lens = [min(l, maxL, 255 ** min(ids, 2)) for l in lens][:maxK]
    while sum(lens) > maxN:
        lens.pop() if len(lens) > 1 else lens.__setitem__(0, maxN)
    db = {}
    pool = []
    used = set()
    close = []
    if profile == "close_keywords":
        # STORED keywords that are adversarially close to one another: NUL-extended, a prefix, one more byte, one bit flipped -
        # all valid (non-empty, no leading NUL, within the length limit) and pairwise different
        base = bytes([rng.randint(1, 255)]) + bytes(rng.getrandbits(8) for _ in range(min(limit, 8) - 3))
        for c in (base, base + b"\x00", base + b"\x00\x00", base[:-1], base + b"x", base[:-1] + bytes([base[-1] ^ 1])):
            if c and c[0] != 0 and len(c) <= limit and c not in close:
                close.append(c)
    for l in lens:
        w = _keyword(rng, limit, db)
        if close:
            w = close.pop(0)
        if profile == "long_keywords" and limit >= 40:
            # keywords longer than a hash block (the schemes built on HMAC set no limit)
            w = bytes([rng.randint(1, 255)]) + bytes(rng.getrandbits(8) for _ in range(rng.randint(64, 90)))
        if profile == "shared_ids":
            while len(pool) < l:
                pool.append(_ident(rng, ids, used))
            db[w] = rng.sample(pool, l)
        else:
            lu = set()
            if profile == "structured_ids":
                db[w] = [_structured_ident(rng, ids, lu, l) for _ in range(l)]
            else:
                db[w] = [_ident(rng, ids, lu) for _ in range(l)]
    return db


def absent_keywords(rng, name, cfg, db, n=3):
    """keywords not in the database, adversarially close to stored ones"""
    import hashlib
    limit = kw_limit(name, cfg)
    keys = list(db)
    cands = []
    for w in keys[:3]:
        cands += [w[:-1], w + b"\x00", w + b"x", w[1:], bytes([w[0] ^ 1]) + w[1:], w[:1] + w]
        # a stored keyword followed by what looks like a counter (schemes that concatenate keyword and counter without fixed
        # widths confuse it with the keyword's own later entries)
        cands += [w + b"\x01", w + b"\x01\x00", w + b"\x00\x01"]
    cands.append(_keyword(rng, limit, db))
    digests = [hashlib.sha1(w).digest() for w in keys[:2]]          # a digest of a stored keyword
    out = []
    rng.shuffle(cands)
    for c in digests[:1] + cands + digests[1:]:
        if c and c[0] != 0 and len(c) <= limit and c not in db and c not in out:
            out.append(c)
    out = out[:n] if n else out
    if name not in ("SSE1", "SSE2"):
        # structured 32-byte values: what a deterministic stand-in for the random dummy keywords of the padding would be
        out += [c for c in ((i).to_bytes(32, "big") for i in range(3)) if c not in db and c not in out]
    return out


def finalize_cfg(name, cfg, db):
    """configuration fields that are scanned from the database (SSE-2's file count), as the command layer does"""
    if name == "SSE2":
        cfg = dict(cfg)
        from schemes.CGKO06.SSE2.config import scan_database_and_update_config_dict
        scan_database_and_update_config_dict(cfg, db)
        # param_n is an upper bound on the number of files, not necessarily the exact count: every third database gets
        # some slack (a scheme that "corrects" the caller's bound - in the caller's dictionary - shows only then)
        total = sum(len(v) for v in db.values())
        cfg["param_n"] += (0, 0, 3)[total % 3]
    return cfg


MARK = b"\xfe<caller-owned>\xfe"


def _take(r):
    """the caller's view of a search result: a copy of what was returned — after which the caller USES the returned
    container as its own (appends to it, as a caller merging the hits of several searches does).  A result object
    shared between searches shows up in a later copy."""
    x = r.get_result_list() if hasattr(r, "get_result_list") else r.result
    snap = set(x) if isinstance(x, (set, frozenset)) else list(x)
    try:
        if isinstance(x, list):
            x.append(MARK)
        elif isinstance(x, set):
            x.add(MARK)
    except Exception:
        pass
    return snap


def run_real(name, cfg, db, words, history=False):
    """direct oracle on the real code: returns (stage, error-class) or the list of results.
    history=True: afterwards, on the SAME scheme object, (a) a second key and a second index of the same database,
    (b) with the FIRST key, an index of the database without its first keyword — stale per-object / per-process state"""
    ld = loader(name)
    stage = "config"
    try:
        scheme = ld.SSEScheme(cfg)
        stage = "keygen"
        key = scheme.KeyGen()
        stage = "setup"
        edb = scheme.EDBSetup(key, db)
    except Exception as e:
        return {"error": (stage, type(e).__name__, str(e)[:100])}
    res = {}
    for w in words:
        try:
            tk = scheme.TokenGen(key, w)
            r = scheme.Search(edb, tk)
            res[w] = _take(r)
        except Exception as e:
            res[w] = ("error", type(e).__name__, str(e)[:100])
    out = {"results": res, "scheme": scheme, "key": key, "edb": edb}
    if history:
        def one(k, e, w):
            try:
                r = scheme.Search(e, scheme.TokenGen(k, w))
                return _take(r)
            except Exception as ex:
                return ("error", type(ex).__name__, str(ex)[:100])
        try:
            key2 = scheme.KeyGen()
            edb2 = scheme.EDBSetup(key2, db)
            out["second_key"] = {w: one(key2, edb2, w) for w in db}
        except Exception as ex:
            out["second_key"] = {"_setup": ("error", type(ex).__name__, str(ex)[:100])}
        if len(db) > 1:
            first = next(iter(db))
            db3 = {k: v for k, v in db.items() if k != first}
            try:
                cfg3 = cfg
                if name == "SSE2":
                    cfg3 = None if finalize_cfg(name, cfg, db3) != cfg else cfg
                if cfg3 is not None:
                    edb3 = scheme.EDBSetup(key, db3)
                    out["same_key_subset"] = {"removed": first, "removed_result": one(key, edb3, first),
                                              "kept": {w: one(key, edb3, w) for w in db3}}
            except Exception as ex:
                out["same_key_subset"] = {"removed": first, "removed_result": ("error", type(ex).__name__, str(ex)[:100]), "kept": {}}
    return out


def expected(name, db, w):
    r = db.get(w, [])
    return set(r) if name == "DP17" else list(r)


def canon_result(name, r):
    if isinstance(r, tuple):
        return r
    return set(r) if name == "DP17" else list(r)
