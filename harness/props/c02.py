"""C02 — searching a keyword that is not in the database returns an empty result (no exception, no foreign identifiers).
Theorems: Props/C02.lean.  Tie: the scheme correspondence (absent keywords adversarially close to stored ones are part of
every case).  Direct oracle on the real code, all nine schemes."""
import common
from run_check import Result
import schemes_env as se
import schemes_corr as sc
import schemes_check as sk

MODULE = "SSEPyVerif.Props.C02"
LEANCHECK = ["SSEPyVerif.Props.C02"]
TRUSTED = sk.TRUSTED
ASSUMPTIONS = ["absent keywords are valid keywords (non-empty, no leading NUL, within the scheme's keyword-length limit)"]


def oracle_for(res):
    def oracle(c, out):
        if "error" in out:
            return                      # setup failures on valid databases are C01's business
        for w in c["absent"]:
            r = out["results"][w]
            if isinstance(r, tuple):
                sk.violation(res, f"{c['name']}: search for an absent keyword raises {r[1]}",
                             f"{c['name']} ({c['profile']}): absent keyword {w.hex()} (stored: {[k.hex() for k in c['db']][:4]}): {r[1]}: {r[2]}",
                             sk.show_case(c, w))
            elif len(r) != 0:
                sk.violation(res, f"{c['name']}: search for an absent keyword returns identifiers",
                             f"{c['name']} ({c['profile']}): absent keyword {w.hex()} returned {len(r)} identifiers", sk.show_case(c, w))
            res.count("absent keywords searched")
        sub = out.get("same_key_subset")
        if sub:
            r = sub["removed_result"]
            if isinstance(r, tuple) or len(r) != 0:
                sk.violation(res, f"{c['name']}: a keyword that is absent from a second index under the same key is not answered with the empty result",
                             f"{c['name']} ({c['profile']}): EDBSetup(K, DB), then EDBSetup(K, DB without {sub['removed'].hex()}), search of that keyword: "
                             + (f"{r[1]}: {r[2]}" if isinstance(r, tuple) else f"{len(r)} identifiers"),
                             dict(sk.show_case(c, sub["removed"]), history="second index under the same key without this keyword"))
    return oracle


def correspond(ctx):
    res = Result()
    n_cfg = ctx.pick(4, 12)
    cases = sk.gen_cases(ctx, se.NAMES, n_cfg, scale=ctx.pick(1, 4))
    for c in cases:                       # more absent keywords than the shared default
        c["absent"] = se.absent_keywords(ctx.rng, c["name"], c["cfg"], c["db"], n=ctx.pick(6, 0))
    sk.correspond(ctx, res, cases)
    sk.direct(ctx, res, cases, oracle_for(res), history=True)
    res.extra["schemes_with_theorem"] = ["PiBas", "PiPack", "SSE2", "PiPtr", "ANSS16", "CT14", "SSE1", "Pi2Lev", "DP17"]
    res.extra["schemes_modelled"] = list(sc.MODELLED)
    res.rule = (f"per scheme {n_cfg} supported configurations x {len(se.PROFILES)} database profiles; absent keywords derived from stored "
                "ones (last byte dropped, NUL / byte appended, first byte dropped, first bit flipped, first byte doubled) plus a random one; "
                "non-trivial = distinct (scheme, profile, configuration, list-length vector)")
    for c in cases[:2] + cases[-1:]:
        res.sample({"scheme": c["name"], "profile": c["profile"], "stored": [k.hex() for k in c["db"]][:3],
                    "absent": [k.hex() for k in c["absent"]][:4]})
    return res


def search(ctx, broken, res0):
    res = Result()
    for cases in (sk.targeted_cases(ctx, res0), sk.gen_cases(ctx, se.NAMES, ctx.pick(12, 30), scale=3)):
        for c in cases:
            c["absent"] = se.absent_keywords(ctx.rng, c["name"], c["cfg"], c["db"], n=0)
        sk.direct(ctx, res, cases, oracle_for(res), history=True)
        if res.violations:
            break
    return res


def replay(ctx, rp):
    inp = rp["input"]
    db = {bytes.fromhex(k): [bytes.fromhex(i) for i in v] for k, v in inp["database"].items()}
    w = bytes.fromhex(inp["keyword"])
    out = se.run_real(inp["scheme"], dict(inp["config"]), db, [w])
    r = out.get("results", {}).get(w)
    return {"holds": r == [] or r == set(), "observed": str(r)[:300]}
