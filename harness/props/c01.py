"""C01 — search returns exactly the posting list of every stored keyword.
Theorems: Props/C01.lean (per modelled scheme).  Tie: recorded-oracle correspondence of the scheme models with the real
schemes (index cell by cell, tokens, results).  Direct oracle on the real code, all nine schemes:
Search(EDBSetup(K, DB), TokenGen(K, w)) == DB[w] for every stored w, over the boundary profiles."""
import common
from run_check import Result
import schemes_env as se
import schemes_corr as sc
import schemes_check as sk

MODULE = "SSEPyVerif.Props.C01"
LEANCHECK = ["SSEPyVerif.Props.C01"]
TRUSTED = sk.TRUSTED
ASSUMPTIONS = ["databases are valid in the sense of the property (non-empty duplicate-free lists of non-zero identifiers of the configured size, keywords without leading NUL within the length limit, capacities respected)"]


def oracle_for(res):
    def oracle(c, out):
        if "error" in out:
            stage, cls, msg = out["error"]
            sk.violation(res, f"{c['name']}: {stage} raises {cls} on a valid database",
                         f"{c['name']} ({c['profile']}, lists {[len(v) for v in c['db'].values()]}): {stage} raised {cls}: {msg}",
                         sk.show_case(c))
            return
        for w in c["present"]:
            r = se.canon_result(c["name"], out["results"][w])
            if r != se.expected(c["name"], c["db"], w):
                kind = f"raises {r[1]}" if isinstance(r, tuple) else "returns a wrong list"
                sk.violation(res, f"{c['name']}: search for a stored keyword {kind}",
                             f"{c['name']} ({c['profile']}): keyword {w.hex()} with {len(c['db'][w])} postings: "
                             + (f"{r[1]}: {r[2]}" if isinstance(r, tuple) else f"got {len(r)} identifiers, differs from DB[w]"),
                             sk.show_case(c, w))
            res.count("stored keywords searched")
        # the same scheme object, a second key, a second index of the same database
        for w, r in out.get("second_key", {}).items():
            if w == "_setup":
                sk.violation(res, f"{c['name']}: a second EDBSetup on the same scheme object raises {r[1]}",
                             f"{c['name']} ({c['profile']}): {r[1]}: {r[2]}", sk.show_case(c))
                break
            if se.canon_result(c["name"], r) != se.expected(c["name"], c["db"], w):
                sk.violation(res, f"{c['name']}: after a second KeyGen on the same scheme object a stored keyword is answered wrongly",
                             f"{c['name']} ({c['profile']}): KeyGen, EDBSetup, searches, then KeyGen, EDBSetup, TokenGen({w.hex()}), Search: "
                             + (f"{r[1]}: {r[2]}" if isinstance(r, tuple) else f"{len(r)} identifiers, expected {len(c['db'][w])}"),
                             dict(sk.show_case(c, w), history="second key on the same scheme object"))
                break
        sub = out.get("same_key_subset")
        if sub:
            for w, r in sub["kept"].items():
                exp = se.expected(c["name"], c["db"], w)
                if se.canon_result(c["name"], r) != exp:
                    sk.violation(res, f"{c['name']}: a second index under the same key answers a stored keyword wrongly",
                                 f"{c['name']} ({c['profile']}): index of the database without {sub['removed'].hex()}, keyword {w.hex()}",
                                 dict(sk.show_case(c, w), history="second index under the same key without the first keyword"))
                    break
    return oracle


def correspond(ctx):
    res = Result()
    n_cfg = ctx.pick(4, 12)
    cases = sk.gen_cases(ctx, se.NAMES, n_cfg, scale=ctx.pick(1, 4))
    sk.correspond(ctx, res, cases)
    sk.direct(ctx, res, cases, oracle_for(res), history=True)
    res.extra["schemes_with_theorem"] = ["PiBas", "PiPack", "SSE2", "PiPtr", "ANSS16", "CT14", "SSE1", "Pi2Lev", "DP17 (returns, no identifier missed; nothing extra under the trial-decryption hypothesis ProbesClean evaluated on every run)"]
    res.extra["schemes_modelled"] = list(sc.MODELLED)
    res.rule = (f"per scheme {n_cfg} supported configurations (small block / capacity parameters so that every case split is reached) x "
                f"{len(se.PROFILES)} database profiles (one posting; total a power of two; a single list of 2^t; lists one below / on / one above "
                "a block boundary; many small lists; mixed; shared identifiers; one long list), every stored keyword searched; modelled schemes "
                "additionally replayed in the Lean driver from the recorded leaves and randomness tape; non-trivial = distinct (scheme, "
                "profile, configuration, list-length vector)")
    for c in cases[:2] + cases[-1:]:
        res.sample({"scheme": c["name"], "profile": c["profile"], "lists": [len(v) for v in c["db"].values()],
                    "config": {k: v for k, v in c["cfg"].items() if k.startswith("param")}})
    return res


def search(ctx, broken, res0):
    """a proof or the correspondence broke: look for a failing input on the real code, much wider"""
    res = Result()
    sk.direct(ctx, res, sk.targeted_cases(ctx, res0), oracle_for(res), history=True)      # the schemes named by the break, first
    if res.violations:
        return res
    cases = sk.gen_cases(ctx, se.NAMES, ctx.pick(12, 30), scale=3)
    sk.direct(ctx, res, cases, oracle_for(res), history=True)
    return res


def replay(ctx, rp):
    inp = rp["input"]
    db = {bytes.fromhex(k): [bytes.fromhex(i) for i in v] for k, v in inp["database"].items()}
    cfg = dict(inp["config"]); 
    out = se.run_real(inp["scheme"], cfg, db, list(db))
    ok = "error" not in out and all(se.canon_result(inp["scheme"], out["results"][w]) == se.expected(inp["scheme"], db, w) for w in db)
    return {"holds": ok, "observed": str(out.get("error") or {k.hex(): (v if isinstance(v, tuple) else len(v)) for k, v in out["results"].items()})[:500]}
