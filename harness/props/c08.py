"""C08 — a configuration is either refused loudly or yields a correct scheme.
Theorems: Props/C08.lean.  Tie: the configuration builders of the models against the real ones over a grid of
configurations (every numeric field over in-range, boundary and out-of-range values, every primitive name and alias,
every single-field deletion): same accept/refuse decision, same stage, same error class, same results when accepted.
Direct oracle on the real code: an exception somewhere, or every search correct."""
import copy

from run_check import Result
import schemes_env as se
import schemes_corr as sc
import schemes_check as sk

MODULE = "SSEPyVerif.Props.C08"
LEANCHECK = ["SSEPyVerif.Props.C08"]
TRUSTED = sk.TRUSTED + ["non-integer values of integer fields (float, str, None) are outside the theorems: enumerated on the real code, compared with the model only as refused / accepted"]
ASSUMPTIONS = ["databases are valid for the configuration under test (identifier size, keyword length limit, capacities)"]

LENGTHS = [8, 16, 20, 24, 32, 48, 0, -1, -2]
BLOCKS = [-8, -2, -1, 0, 1, 2, 3, 5, 64]
NONINT = [32.0, "32", None]
PRF_NAMES = ["HmacPRF", "hmac-prf", "HMAC_PRF", "NoSuchPRF", ""]
SKE_NAMES = ["AES-CBC", "aes_cbc", "AESCBC", "DES", ""]
PRP_NAMES = ["BitwiseFPEPRP", "bitwise-fpe-prp", "bitwise_fpe_prp", "HmacLubyRackoffPRP", "LubyRackoffPRP", "NoSuchPRP", ""]
HASH_NAMES = ["SHA1", "sha256", "md5", "nosuchhash", ""]

LENGTH_FIELDS = {"param_lambda", "param_k", "param_k_prime", "param_l", "param_l_prime", "prf_f_output_length"}
BLOCK_FIELDS = {"param_B", "param_b", "param_B_prime", "param_b_prime", "param_L", "param_s", "param_dictionary_size",
                "param_identifier_size", "param_n", "param_max_file_size"}

NEEDED = {
    "PiBas": {"param_lambda", "prf_f_output_length", "prf_f", "ske"},
    "PiPack": {"param_lambda", "param_B", "prf_f_output_length", "param_identifier_size", "prf_f", "ske"},
    "PiPtr": {"param_lambda", "param_B", "param_b", "prf_f_output_length", "param_identifier_size", "prf_f", "ske"},
    "Pi2Lev": {"param_lambda", "param_B", "param_b", "param_B_prime", "param_b_prime", "prf_f_output_length", "param_identifier_size", "prf_f", "ske"},
    "CT14": {"param_k", "param_k_prime", "param_l", "param_identifier_size", "prf_f", "prf_f_prime", "ske"},
    "ANSS16": {"param_lambda", "param_k", "param_k_prime", "param_l", "param_l_prime", "param_identifier_size", "prf", "ske"},
    "SSE1": {"param_k", "param_l", "param_s", "param_dictionary_size", "param_identifier_size", "prp_pi", "prp_psi", "prf_f", "ske1", "ske2"},
    "SSE2": {"param_k", "param_l", "param_n", "param_max_file_size", "prp_pi", "ske"},
    "DP17": {"param_lambda", "param_actual_storage_level_ratio", "param_L", "param_identifier_size", "rnd", "prf_f", "hash_h"},
}


def variants(name, base, rng, per_field):
    out = []
    for f, v in base.items():
        if f == "scheme":
            continue
        out.append(("delete " + f, {k: x for k, x in base.items() if k != f}))
        if f in LENGTH_FIELDS:
            vals = rng.sample(LENGTHS, min(per_field, len(LENGTHS))) + [rng.choice(NONINT)]
        elif f in BLOCK_FIELDS:
            vals = rng.sample(BLOCKS, min(per_field, len(BLOCKS))) + [rng.choice(NONINT)]
        elif f == "param_actual_storage_level_ratio":
            vals = [0.0, -0.5, 1.0, 0.5, 2, "0.2"]
        elif f.startswith("prf"):
            vals = PRF_NAMES
        elif f.startswith("ske") or f == "rnd":
            vals = SKE_NAMES
        elif f.startswith("prp"):
            vals = PRP_NAMES
        elif f == "hash_h":
            vals = HASH_NAMES
        else:
            vals = []
        for x in vals:
            if x != v or type(x) is not type(v):
                out.append((f"{f}={x!r}", dict(base, **{f: x})))
    return out


def db_for(name, cfg, base, rng):
    """a database that is valid for `cfg` where the fields that constrain databases are sane, else for the base config"""
    probe = dict(base)
    for f in ("param_identifier_size", "param_l", "param_s", "param_dictionary_size", "param_B", "param_b", "param_B_prime", "param_b_prime"):
        v = cfg.get(f)
        if isinstance(v, int) and not isinstance(v, bool) and 0 < v <= 4096:
            probe[f] = v
    if name == "SSE1":
        probe["param_s"] = max(2, probe["param_s"])
    prof = rng.choice(["mixed", "boundary", "pow2_single", "many_small", "one"])
    try:
        return se.gen_db(name, probe, rng, prof), prof
    except Exception:
        return se.gen_db(name, base, rng, prof), prof


def is_int_cfg(cfg):
    for k, v in cfg.items():
        if isinstance(v, bool):
            return False
        if k == "param_actual_storage_level_ratio":
            if not isinstance(v, (int, float)):
                return False
        elif not isinstance(v, (int, str)):
            return False
        elif isinstance(v, str) and (k in LENGTH_FIELDS or k in BLOCK_FIELDS):
            return False
    return True


def build_cases(ctx):
    rng = ctx.rng
    per_field = ctx.pick(3, 9)
    cases = []
    for name in se.NAMES:
        for base in se.grid(name, rng, ctx.pick(3, 4)):
            if name == "SSE2":
                base = dict(base, param_n=6)
            for label, cfg in variants(name, base, rng, per_field):
                db, prof = db_for(name, cfg, base, rng)
                if name == "SSE2":
                    # keep the number of distinct files within the configured param_n where that is an integer
                    n = cfg.get("param_n")
                    cap = n if isinstance(n, int) and not isinstance(n, bool) and n > 0 else 6
                    ids = sorted({i for v in db.values() for i in v})[:cap]
                    if ids:
                        db = {w: [i for i in v if i in ids] or [ids[0]] for w, v in db.items()}
                cases.append(dict(name=name, cfg=cfg, db=db, present=list(db), absent=se.absent_keywords(rng, name, base, db, n=2),
                                  profile=label, intcfg=is_int_cfg(cfg)))
    return cases, per_field


def translate(ctx):
    """regenerate Generated/ConfigFacts.lean (per scheme: the list handed to check_param_exist, the fields _parse_config reads);
    `Props/C08: required_lists_are_source / missing_required_param_refused / reads_are_required` are re-checked against it"""
    import os, common
    from translate import config_facts
    return config_facts.generate(common.REPO, os.path.join(common.LEAN, "SSEPyVerif", "Generated", "ConfigFacts.lean"))


def correspond(ctx):
    res = Result()
    cases, per_field = build_cases(ctx)
    exact = [c for c in cases if c["intcfg"]]
    sk.correspond(ctx, res, exact, want_hyps=False)
    loose = [c for c in cases if not c["intcfg"]]
    outs = sc.compare_cases(ctx.driver, [(c["name"], c["cfg"], c["db"], c["present"]) for c in loose], ctx.rng)
    for c, (obs, mism, calls, tl, hyp) in zip(loose, outs):
        res.compared += 1
        impl_refused = any(str(obs.get(k, "ok")).startswith("err") for k in ("cfg", "keygen", "setup")) or \
            any((t or "").startswith("err") or (s or "").startswith("err") for t, s in obs.get("search", []))
        if not impl_refused and mism:
            res.disagreements.append({"case": f"{c['name']} {c['profile']}", "impl": "accepted and answered", "model": str(mism[0])[:200]})
    for c in cases:
        out = se.run_real(c["name"], copy.deepcopy(c["cfg"]), c["db"], c["present"] + c["absent"])
        res.evaluations += 1
        res.nontrivial.add((c["name"], c["profile"]))
        if "error" in out:
            res.count("refused at " + out["error"][0])
        else:
            res.count("accepted")
            for w in c["present"] + c["absent"]:
                r = out["results"][w]
                if isinstance(r, tuple):
                    res.count("loud search")
                    continue
                if se.canon_result(c["name"], r) != se.expected(c["name"], c["db"], w):
                    sk.violation(res, f"{c['name']}: configuration with {c['profile'].split('=')[0]} is accepted and a search answers wrongly",
                                 f"{c['name']} with {c['profile']}: keyword {w.hex()} returned {len(r)} identifiers, expected {len(c['db'].get(w, []))}",
                                 sk.show_case(c, w))
        if c["profile"].startswith("delete ") and c["profile"][7:] in NEEDED[c["name"]]:
            f = c["profile"][7:]
            try:
                se.loader(c["name"]).SSEConfig(copy.deepcopy(c["cfg"]))
                sk.violation(res, f"{c['name']}: a configuration without {f} is accepted by the configuration builder",
                             f"{c['name']}: SSEConfig built without {f}", sk.show_case(c))
            except Exception:
                res.count("missing parameter refused at build")
    res.extra["schemes_modelled"] = list(sc.MODELLED)
    res.rule = (f"per scheme {ctx.pick(3, 4)} base configurations; every field deleted once; every length field over {per_field} of {LENGTHS} "
                f"and every block / capacity field over {per_field} of {BLOCKS} plus one non-integer of {NONINT}; every primitive name over valid "
                "aliases, another primitive's name, an unknown name and the empty string; each with a database valid for it; non-trivial = "
                "distinct (scheme, varied field, value)")
    for c in cases[:2] + cases[-1:]:
        res.sample({"scheme": c["name"], "variation": c["profile"]})
    return res


def search(ctx, broken, res0):
    return Result()          # the direct oracle already ran over the whole grid in `correspond`


def replay(ctx, rp):
    c = sk.case_from_replay(rp)
    out = se.run_real(c["name"], c["cfg"], c["db"], c["present"] + c["absent"])
    ok = "error" in out or all(isinstance(out["results"][w], tuple) or
                               se.canon_result(c["name"], out["results"][w]) == se.expected(c["name"], c["db"], w)
                               for w in c["present"] + c["absent"])
    return {"holds": ok}
