"""C06 — index layout does not encode the order in which the database was supplied.
Theorems: Props/C06.lean (label tables are stored in label order; the label sequence is invariant under permutations of the
keyword order).  Tie: scheme correspondence (stored order of dict items is compared; the random placement is recorded and
replayed).  Direct oracle on the real code: (a) shuffle the keyword order, compare label sequences; (b) two setups of
databases with >= 12 array-resident blocks must not read the same slots."""
from run_check import Result
import schemes_env as se
import schemes_corr as sc
import schemes_check as sk
import schemes_oracles as so

MODULE = "SSEPyVerif.Props.C06"
LEANCHECK = ["SSEPyVerif.Props.C06"]
TRUSTED = sk.TRUSTED + ["(b) is a statement about `random` / the PRP: two setups coincide with probability < 1e-8 for >= 12 blocks; the oracle compares the slots read by Search"]
ASSUMPTIONS = []


def placement_cases(ctx, n):
    """databases with >= 12 array-resident blocks: very few long lists, and many lists"""
    rng = ctx.rng
    out = []
    for name in ("PiPtr", "Pi2Lev", "SSE1", "DP17"):
        for cfg in se.grid(name, rng, n):
            if name == "SSE1":
                cfg = dict(cfg, param_s=256, param_dictionary_size=40)
            if name == "Pi2Lev":
                cfg.update(param_B=2, param_b=2, param_B_prime=4, param_b_prime=8, param_identifier_size=4)   # medium up to 16, large up to 63
            if name == "PiPtr":
                cfg.update(param_B=rng.choice([1, 2]))
            for kind in ("single", "few", "many"):
                ids = cfg.get("param_identifier_size", 8)
                B = cfg.get("param_B", 1)
                if kind == "single":
                    lens = [rng.randint(13, 15) * B if name != "Pi2Lev" else rng.randint(26, 40)]
                elif kind == "few":
                    lens = [rng.randint(5, 7) * B for _ in range(3)] if name != "Pi2Lev" else [rng.randint(10, 16) for _ in range(3)]
                else:
                    lens = [rng.randint(1, 3) * B for _ in range(14)] if name != "Pi2Lev" else [rng.randint(3, 6) for _ in range(8)]
                db = {}
                for l in lens:
                    w = se._keyword(rng, se.kw_limit(name, cfg), db)
                    lu = set()
                    db[w] = [se._ident(rng, ids, lu) for _ in range(l)]
                c = se.finalize_cfg(name, cfg, db)
                out.append(dict(name=name, cfg=c, db=db, present=list(db), absent=[], profile="placement-" + kind))
    return out


def large_table_cases(ctx, schemes=None):
    """one database per table scheme whose tables hold more than 4096 entries (8192 in the thorough tier), spread over
    hundreds of keywords: anything that batches, buffers or merges partial sorts works on ONE batch below that"""
    rng = ctx.rng
    out = []
    target = ctx.pick(4300, 8400)
    for name in (schemes or so.TABLE_SCHEMES):
        cfg = se.grid(name, rng, 1)[0]
        if name == "PiPack":
            cfg.update(param_B=1)
        if name == "PiPtr":
            cfg.update(param_B=1, param_b=1)            # one dictionary entry per identifier
        if name == "Pi2Lev":
            n_kw, per = target, 1                        # the dictionary has one entry per keyword
        else:
            n_kw, per = target // 6, 6
        ids = max(cfg.get("param_identifier_size", 8), 4)
        if "param_identifier_size" in cfg:
            cfg["param_identifier_size"] = ids
        db = {}
        for k in range(n_kw):
            w = b"k" + k.to_bytes(3, "big") + bytes(rng.getrandbits(8) for _ in range(2))
            db[w] = [(k * per + j + 1).to_bytes(4, "big") + bytes(rng.getrandbits(8) for _ in range(ids - 4)) for j in range(per)]
        out.append(dict(name=name, cfg=se.finalize_cfg(name, cfg, db), db=db, present=list(db)[:40], absent=[], profile=f"large-table-{target}"))
    return out


def correspond(ctx):
    res = Result()
    n_cfg = ctx.pick(4, 10)
    # the table schemes, and the two array schemes that are not among them (their placement is part of what the model replays)
    cases = sk.gen_cases(ctx, list(so.TABLE_SCHEMES) + [n for n in ("SSE1", "DP17") if n not in so.TABLE_SCHEMES], n_cfg)
    # databases in which a level / table needs no padding at all (every list a power of two, total a power of two)
    for name in ("CT14", "ANSS16"):
        for cfg in se.grid(name, ctx.rng, 2):
            for lens in ([4] * 8, [1] * 16, [2] * 4, [8, 4, 2, 1, 1]):
                db = {}
                for l in lens:
                    w = se._keyword(ctx.rng, 40, db)
                    lu = set()
                    db[w] = [se._ident(ctx.rng, cfg["param_identifier_size"], lu) for _ in range(l)]
                cases.append(dict(name=name, cfg=cfg, db=db, present=list(db), absent=[], profile="exact-levels"))
    sk.correspond(ctx, res, cases)
    for c in cases:
        res.evaluations += 1
        res.nontrivial.add(sk.case_sig(c["name"], c["cfg"], c["db"], c["profile"]))
        so.c06_order(res, c, ctx.rng)
    for c in large_table_cases(ctx):
        res.evaluations += 1
        res.count("large tables")
        so.c06_order(res, c, ctx.rng)
    pc = placement_cases(ctx, ctx.pick(2, 6))
    for c in pc:
        res.evaluations += 1
        res.nontrivial.add(sk.case_sig(c["name"], c["cfg"], c["db"], c["profile"]))
        so.c06_placement(res, c)
    res.extra["schemes_modelled"] = list(sc.MODELLED)
    res.rule = (f"(a) table schemes: {n_cfg} configurations x {len(se.PROFILES)} profiles plus databases whose levels need no padding, plus one database per scheme whose tables hold more than 4096 (thorough: 8192) entries over hundreds of keywords (real code only); the "
                "keyword order is permuted, every table of both indexes must be sorted and the real labels must come in the same order; "
                "(b) PiPtr / Pi2Lev / SSE1 / DP17: databases with >= 12 array-resident blocks as one long list, three lists and many lists; "
                "two setups (same key where placement is random, fresh key where it is key-derived) must not read the same slots")
    for c in cases[:1] + pc[:1]:
        res.sample({"scheme": c["name"], "profile": c["profile"], "lists": [len(v) for v in c["db"].values()]})
    return res


def search(ctx, broken, res0):
    res = Result()
    for c in sk.gen_cases(ctx, so.TABLE_SCHEMES, ctx.pick(10, 25)):
        res.evaluations += 1
        so.c06_order(res, c, ctx.rng)
    for c in placement_cases(ctx, ctx.pick(5, 12)):
        res.evaluations += 1
        so.c06_placement(res, c)
    return res


def replay(ctx, rp):
    c = sk.case_from_replay(rp)
    r = Result()
    so.c06_order(r, c, ctx.rng)
    so.c06_placement(r, c)
    return {"holds": not r.violations, "observed": [v["what"] for v in r.violations][:3]}
