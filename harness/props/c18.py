"""C18 — Bitset: correspondence Model/Bits.lean <-> toolkit/bits.py, bits_utils.py; direct oracle = list-of-bits model."""
import itertools

import common
from common import hx, call, optint
from run_check import Result, compare

common.ensure_repo_on_path()

MODULE = "SSEPyVerif.Props.C18"
LEANCHECK = ["SSEPyVerif.Props.C18", "SSEPyVerif.Proofs.Bits", "SSEPyVerif.Model.Bits"]
TRUSTED = ["modelled, not verified: CPython int arithmetic (&,|,^,~,<<,>>, bit_length, to_bytes) and slice.indices/range (Model/PySeq)"]
ASSUMPTIONS = ["values are non-negative ints; __setitem__ (not named by the property) is not modelled"]


def sb(b):
    return f"{b.value} {b.length}"


def sbools(l):
    return "".join("1" if x else "0" for x in l) if l else "."


def mk(v, l):
    """a Bitset with exactly this (value, length) pair: through the public constructor whenever the pair is one the
    constructor can produce (so that whatever the constructor sets up internally is set up), by assignment otherwise"""
    from toolkit.bits import Bitset
    if l > 0 and 0 <= v < (1 << l):
        return Bitset(v, l)
    b = Bitset(0, 0)
    b.value, b.length = v, l
    return b


def interesting_values(rng, length):
    vals = {0}
    if length:
        vals |= {(1 << length) - 1, 1 << (length - 1), 1, rng.getrandbits(length)}
        for k in (length - 1, length // 2):
            if k >= 0:
                vals |= {v for v in ((1 << k) - 1, 1 << k, (1 << k) + 1) if v < (1 << length)}
    return sorted(vals)


def gen(ctx):
    from toolkit.bits import Bitset
    from toolkit import bits_utils
    rng = ctx.rng
    cases = []

    def add(line, f):
        cases.append((line, f))

    def unary(v, l):
        a = lambda: mk(v, l)
        add(f"bits invert {v} {l}", lambda: call(lambda: ~a(), sb))
        add(f"bits int {v} {l}", lambda: call(lambda: int(a()), str))
        add(f"bits bytes {v} {l}", lambda: call(lambda: bytes(a()), hx))
        add(f"bits str {v} {l}", lambda: call(lambda: str(a()), lambda s: s or "."))
        add(f"bits iter {v} {l}", lambda: call(lambda: list(iter(a())), sbools))
        add(f"bits half {v} {l}", lambda: call(lambda: bits_utils.half_bits(a()), lambda p: sb(p[0]) + " " + sb(p[1])))
        add(f"bits halfnp {v} {l}", lambda: call(lambda: bits_utils.half_bits_not_padding(a()), lambda p: sb(p[0]) + " " + sb(p[1])))

    def withk(v, l, k):
        a = lambda: mk(v, l)
        add(f"bits shl {v} {l} {k}", lambda: call(lambda: a() << k, sb))
        add(f"bits shr {v} {l} {k}", lambda: call(lambda: a() >> k, sb))
        add(f"bits higher {v} {l} {k}", lambda: call(lambda: a().get_higher_bits(k), sb))
        add(f"bits lower {v} {l} {k}", lambda: call(lambda: a().get_lower_bits(k), sb))

    def index(v, l, i):
        add(f"bits idx {v} {l} {i}", lambda: call(lambda: mk(v, l)[i], lambda b: "1" if b else "0"))

    def slc(v, l, s, e, st):
        add(f"bits slice {v} {l} {optint(s)} {optint(e)} {optint(st)}",
            lambda: call(lambda: mk(v, l)[slice(s, e, st)], sbools))

    def binary(v1, l1, v2, l2):
        a = lambda: mk(v1, l1); b = lambda: mk(v2, l2)
        add(f"bits and {v1} {l1} {v2} {l2}", lambda: call(lambda: a() & b(), sb))
        add(f"bits or {v1} {l1} {v2} {l2}", lambda: call(lambda: a() | b(), sb))
        add(f"bits xor {v1} {l1} {v2} {l2}", lambda: call(lambda: a() ^ b(), sb))
        add(f"bits concat {v1} {l1} {v2} {l2}", lambda: call(lambda: a() + b(), sb))
        add(f"bits eq {v1} {l1} {v2} {l2}", lambda: call(lambda: a() == b(), lambda x: "1" if x else "0"))

    def chained(v1, l1, v2, l2, k):
        """the RESULT OBJECT of one operation is the operand of the next: the model sees its (value, length), the
        implementation the object itself with whatever it carries inside"""
        firsts = [lambda a, b: a & b, lambda a, b: a | b, lambda a, b: a ^ b, lambda a, b: a + b, lambda a, b: ~a,
                  lambda a, b: a >> k, lambda a, b: a << k, lambda a, b: a.get_higher_bits(min(k, len(a))),
                  lambda a, b: a.get_lower_bits(min(k, len(a))), lambda a, b: bits_utils.half_bits(a)[0],
                  lambda a, b: bits_utils.half_bits_not_padding(a)[1], lambda a, b: Bitset.from_sequence(list(a))]
        for f1 in firsts:
            try:
                x = f1(mk(v1, l1), mk(v2, l2))
                xv, xl = int(x), len(x)
            except Exception:
                continue
            k2 = rng.choice([0, 1, xl // 2, xl]) if xl else 0
            add(f"bits invert {xv} {xl}", lambda x=x: call(lambda: ~x, sb))
            add(f"bits shl {xv} {xl} {k2}", lambda x=x, k2=k2: call(lambda: x << k2, sb))
            add(f"bits shr {xv} {xl} {k2}", lambda x=x, k2=k2: call(lambda: x >> k2, sb))
            add(f"bits lower {xv} {xl} {k2}", lambda x=x, k2=k2: call(lambda: x.get_lower_bits(k2), sb))
            add(f"bits higher {xv} {xl} {k2}", lambda x=x, k2=k2: call(lambda: x.get_higher_bits(k2), sb))
            add(f"bits bytes {xv} {xl}", lambda x=x: call(lambda: bytes(x), hx))
            add(f"bits str {xv} {xl}", lambda x=x: call(lambda: str(x), lambda s: s or "."))
            add(f"bits half {xv} {xl}", lambda x=x: call(lambda: bits_utils.half_bits(x), lambda p: sb(p[0]) + " " + sb(p[1])))
            add(f"bits xor {xv} {xl} {v2} {l2}", lambda x=x: call(lambda: x ^ mk(v2, l2), sb))
            add(f"bits or {v2} {l2} {xv} {xl}", lambda x=x: call(lambda: mk(v2, l2) | x, sb))

    def ctor(v, l):
        add(f"bits mk {v} {l}", lambda: call(lambda: Bitset(v, l), sb))
        nb = max((v.bit_length() + 7) // 8, 0) + rng.choice([0, 0, 1])
        bb = v.to_bytes(nb, "big")
        add(f"bits ofbytes {hx(bb)} {l}", lambda: call(lambda: Bitset(bb, l), sb))

    # exhaustive: every (value, length) with length <= L, every unary op, shifts/higher/lower for all k, all index / small slices
    L = ctx.pick(6, 8)
    small = [(v, l) for l in range(0, L + 1) for v in range(0, 1 << l)]
    for (v, l) in small:
        unary(v, l)
        for k in range(-1, l + 2):
            withk(v, l, k)
        for i in range(0, l):
            index(v, l, i)
        ctor(v, l)
        ctor(v, 0)
        if l <= 4:
            for s, e, st in itertools.product([None, 0, 1, -1, l, -l - 1], [None, 0, 2, -1, l + 1], [None, 1, 2, -1, -2, 0]):
                slc(v, l, s, e, st)
    # exhaustive binary ops for lengths <= Lb
    Lb = ctx.pick(4, 5)
    sm2 = [(v, l) for l in range(0, Lb + 1) for v in range(0, 1 << l)]
    for (v1, l1) in sm2:
        for (v2, l2) in sm2:
            binary(v1, l1, v2, l2)
    n_exh = len(cases)
    # two-step expressions: small operands (values with leading zero bits, zero operands of every width) and random ones
    for (v1, l1) in [(0b0011, 4), (0, 3), (1, 6), (0b101, 3), (0, 0), (1, 1)]:
        for (v2, l2) in [(0b0101, 4), (0, 8), (0, 0), (0b11, 2)]:
            chained(v1, l1, v2, l2, 2)
    for _ in range(ctx.pick(40, 1500)):
        l1 = rng.randint(0, 70); l2 = rng.choice([l1, rng.randint(0, 70)])
        chained(rng.choice(interesting_values(rng, l1)), l1, rng.choice(interesting_values(rng, l2) + [0]), l2, rng.randint(0, l1 + 1))
    # boundary + random values up to 300 bits
    n = ctx.pick(600, 25000)
    for _ in range(n):
        l = rng.choice([rng.randint(0, 300), rng.choice([1, 7, 8, 9, 47, 48, 49, 52, 53, 54, 63, 64, 65, 159, 160, 161, 255, 256, 300])])
        v = rng.choice(interesting_values(rng, l))
        kind = rng.randrange(6)
        if kind == 0:
            unary(v, l)
        elif kind == 1:
            withk(v, l, rng.choice([0, 1, l // 2, l - 1, l, l + 1, -1, rng.randint(0, l + 1)]))
        elif kind == 2:
            if l:
                index(v, l, rng.randrange(l))
            slc(v, l, rng.choice([None, 0, 3, -3, l, -l, rng.randint(-l - 2, l + 2)]),
                rng.choice([None, 0, 5, -2, l, rng.randint(-l - 2, l + 2)]), rng.choice([None, 1, 2, 3, -1, -3, 7]))
        elif kind == 3:
            l2 = rng.choice([l, rng.randint(0, 300), 0])
            v2 = rng.choice(interesting_values(rng, l2))
            binary(v, l, v2, l2)
        elif kind == 4:
            # constructor: auto length, explicit fitting length, too-small length
            for k in (47, 48, 49, 53, 64, rng.randint(1, 300)):
                for vv in ((1 << k) - 1, 1 << k, (1 << k) + 1):
                    ctor(vv, 0)
            ctor(v, l); ctor(v, 0); ctor(v, max(v.bit_length() - 1, 0)); ctor(v, v.bit_length() + rng.randint(0, 3))
        else:
            seq = [rng.random() < 0.5 for _ in range(rng.randint(0, 70))]
            if rng.random() < 0.3:
                seq = [False] * rng.randint(1, 3) + seq
            add(f"bits fromseq {sbools(seq)}", lambda seq=seq: call(lambda: Bitset.from_sequence(seq), sb))
    return cases, n_exh


# ---- direct oracle: the property evaluated on the real code against a plain list-of-bits model ----------
def bits_of(v, l):
    return [bool((v >> (l - 1 - i)) & 1) for i in range(l)]


def val_of(bits):
    n = 0
    for b in bits:
        n = 2 * n + (1 if b else 0)
    return n


def oracle(ctx, res):
    from toolkit.bits import Bitset
    from toolkit import bits_utils
    rng = ctx.rng

    def viol(sig, what, inp):
        if not any(v["signature"] == sig for v in res.violations):
            res.violations.append({"signature": sig, "what": what, "input": inp})

    def same(b, bits, sig, inp):
        if not (len(b) == len(bits) and int(b) == val_of(bits)):
            viol(sig, f"got (value={int(b)}, length={len(b)}), reference bits {sbools(bits)}", inp)

    pairs = [(v, l) for l in range(0, 7) for v in range(1 << l)]
    for _ in range(ctx.pick(300, 8000)):
        l = rng.choice([rng.randint(0, 300), 47, 48, 49, 53, 64, 65, 160])
        pairs.append((rng.choice(interesting_values(rng, l)), l))
    for (v, l) in pairs:
        res.evaluations += 1
        A = bits_of(v, l)
        inp = {"value": v, "length": l}
        try:
            a = Bitset(v, l) if l else mk(v, l)
            if l and (int(a), len(a)) != (v, l):
                viol("ctor with explicit length does not keep value/length", "", inp)
            if v > 0:
                if len(Bitset(v)) != v.bit_length():
                    viol("len(Bitset(v)) != v.bit_length()", f"v={v}: len={len(Bitset(v))}, bit_length={v.bit_length()}", {"value": v})
            if l:
                try:
                    Bitset(1 << l, l)
                    viol("ctor accepts a value wider than the length", "", {"value": 1 << l, "length": l})
                except ValueError:
                    pass
            if list(a) != A or a[:] != A or str(a) != "".join("1" if x else "0" for x in A):
                viol("iteration/str/full slice differ from the bit list", "", inp)
            if bytes(a) != v.to_bytes((l + 7) // 8, "big"):
                viol("bytes() is not the ceil(n/8)-byte big-endian encoding", "", inp)
            same(~a, [not x for x in A], "invert", inp)
            for k in {k for k in (0, 1, l // 2, l) if k <= l}:
                same(a.get_higher_bits(k), A[:k], "get_higher_bits(k) != first k bits", dict(inp, k=k))
                same(a.get_lower_bits(k), A[l - k:] if k else [], "get_lower_bits(k) != last k bits", dict(inp, k=k))
                same(a << k, (A + [False] * k)[k:] if k <= l else [False] * l, "fixed-width left shift", dict(inp, k=k))
                same(a >> k, ([False] * k + A)[:l], "fixed-width right shift", dict(inp, k=k))
            for k in (l + 1, -1):
                for f in (a.get_higher_bits, a.get_lower_bits):
                    try:
                        f(k)
                        viol("higher/lower beyond the length accepted", "", dict(inp, k=k))
                    except ValueError:
                        pass
            for i in ({0, l // 2, l - 1} if l else set()):
                if a[i] != A[i]:
                    viol("in-range indexing", "", dict(inp, i=i))
            s, e, st = rng.choice([None, 1, -2]), rng.choice([None, l - 1, -1]), rng.choice([None, 2, -1])
            if a[s:e:st] != A[s:e:st]:
                viol("slicing", "", dict(inp, slice=[s, e, st]))
            l2 = rng.choice([l, rng.randint(0, 40)]); v2 = rng.getrandbits(l2) if l2 else 0
            b = mk(v2, l2); B = bits_of(v2, l2)
            same(a + b, A + B, "concat", dict(inp, other=[v2, l2]))
            if (a + b).get_higher_bits(l) != a and not (l == 0):
                viol("(a+b).higher(len a) != a", "", dict(inp, other=[v2, l2]))
            if (a + b).get_lower_bits(l2) != b and not (l2 == 0):
                viol("(a+b).lower(len b) != b", "", dict(inp, other=[v2, l2]))
            m = max(l, l2)
            PA, PB = [False] * (m - l) + A, [False] * (m - l2) + B
            same(a & b, [x and y for x, y in zip(PA, PB)], "and", dict(inp, other=[v2, l2]))
            same(a | b, [x or y for x, y in zip(PA, PB)], "or", dict(inp, other=[v2, l2]))
            same(a ^ b, [x != y for x, y in zip(PA, PB)], "xor", dict(inp, other=[v2, l2]))
            if (a == b) != ((v, l) == (v2, l2)):
                viol("equality", "", dict(inp, other=[v2, l2]))
            hl, hr = bits_utils.half_bits_not_padding(a)
            h = (l + 1) // 2
            same(hl, A[:l - h], "half_bits_not_padding left", inp); same(hr, A[l - h:], "half_bits_not_padding right", inp)
            hl, hr = bits_utils.half_bits(a)
            same(hl, [False] * (h - (l - h)) + A[:l - h], "half_bits left", inp); same(hr, A[l - h:], "half_bits right", inp)
        except Exception as e:  # an operation of the domain raised
            viol(f"operation raised {type(e).__name__} on a well-formed bit string", str(e)[:100], inp)
    return res


def correspond(ctx):
    res = Result()
    cases, n_exh = gen(ctx)
    lines = [c[0] for c in cases]
    impl = [c[1]() for c in cases]
    model = ctx.driver.batch(lines)
    compare(res, lines, impl, model)
    del _DISAGREE[:]
    _DISAGREE.extend((l, a) for l, a, m in zip(lines, impl, model) if a != m)
    res.evaluations += len(lines)
    res.rule = (f"exhaustive: every (value,length) with length <= {ctx.pick(6, 8)} x every unary op, every shift/higher/lower amount "
                f"-1..len+1, every index, a slice grid; every pair of bit strings of length <= {ctx.pick(4, 5)} x every binary op "
                f"({n_exh} requests); then boundary values 0, 2^k-1, 2^k, 2^k+1 and random values at lengths up to 300 "
                "(incl. 47..54, 63..65, 159..161); non-trivial = distinct requests answered without an error")
    res.extra["exhaustive_requests"] = n_exh
    for l, a in zip(lines, impl):
        res.count("op:" + l.split(" ")[1])
        res.count("answer:" + ("error:" + a[4:] if a.startswith("err") else "ok"))
        if a.startswith("ok"):
            res.nontrivial.add(l)
    for i in (5, len(lines) // 2, len(lines) - 3):
        res.sample({"request": lines[i][:160], "impl": impl[i][:160], "model": model[i][:160]})
    oracle(ctx, res)
    return res


def ref_answer(line):
    """the answer the plain list-of-bits model gives to a request line (None where this evaluator does not commit itself:
    ill-formed operands and requests the model refuses)"""
    w = line.split(" ")
    op, a = w[1], w[2:]

    def B(v, l):
        v, l = int(v), int(l)
        return bits_of(v, l) if 0 <= v < (1 << l) or (v == 0 and l == 0) else None

    def S(bits):
        return f"{val_of(bits)} {len(bits)}"
    try:
        if op in ("invert", "int", "bytes", "str", "iter", "half", "halfnp"):
            X = B(a[0], a[1])
            if X is None:
                return None
            n = len(X); h = (n + 1) // 2
            return {"invert": lambda: "ok " + S([not x for x in X]), "int": lambda: f"ok {val_of(X)}",
                    "bytes": lambda: "ok " + hx(val_of(X).to_bytes((n + 7) // 8, "big")),
                    "str": lambda: "ok " + (sbools(X) if X else "."), "iter": lambda: "ok " + sbools(X),
                    "half": lambda: "ok " + S([False] * (h - (n - h)) + X[:n - h]) + " " + S(X[n - h:]),
                    "halfnp": lambda: "ok " + S(X[:n - h]) + " " + S(X[n - h:])}[op]()
        if op in ("shl", "shr", "higher", "lower"):
            X = B(a[0], a[1]); k = int(a[2])
            if X is None or k < 0 or (op in ("higher", "lower") and k > len(X)):
                return None
            n = len(X)
            return "ok " + S({"shl": (X + [False] * k)[k:] if k <= n else [False] * n, "shr": ([False] * k + X)[:n],
                              "higher": X[:k], "lower": X[n - k:] if k else []}[op])
        if op in ("and", "or", "xor", "concat", "eq"):
            X, Y = B(a[0], a[1]), B(a[2], a[3])
            if X is None or Y is None:
                return None
            m = max(len(X), len(Y)); PX, PY = [False] * (m - len(X)) + X, [False] * (m - len(Y)) + Y
            if op == "concat":
                return "ok " + S(X + Y)
            if op == "eq":
                return "ok " + ("1" if (a[0], a[1]) == (a[2], a[3]) else "0")
            f = {"and": lambda x, y: x and y, "or": lambda x, y: x or y, "xor": lambda x, y: x != y}[op]
            return "ok " + S([f(x, y) for x, y in zip(PX, PY)])
    except Exception:
        return None
    return None


_DISAGREE = []      # (request line, implementation's answer) where model and implementation disagreed


def search(ctx, broken, res0):
    res = Result()
    # first: the very requests on which the model and the implementation disagreed, against the list-of-bits reference
    for line, ans in _DISAGREE[:400]:
        exp = ref_answer(line)
        if exp is not None and ans != exp:
            res.violations.append({"signature": "bit-string operation differs from the list-of-bits model: " + line.split(" ")[1],
                                   "what": f"request '{line}': implementation answers '{ans[:80]}', the bit-list model '{exp[:80]}'"
                                           " (operands given as value length; where the request came from a two-step expression the"
                                           " operand was the result object of the first step)",
                                   "input": {"request": line, "implementation": ans, "reference": exp}})
            break
    if res.violations:
        return res
    ctx.tier = "thorough"
    return oracle(ctx, res)


def replay(ctx, rp):
    from toolkit.bits import Bitset
    inp = rp.get("input", {})
    v = inp.get("value", 0)
    out = {"input": inp}
    if "request" in inp:
        # re-run the generator deterministically (same seed) and look the request up; fall back to the recorded answers
        cases, _ = gen(ctx)
        now = [f() for (l, f) in cases if l == inp["request"]]
        exp = ref_answer(inp["request"])
        out["implementation_now"] = now[:3]
        out["reference"] = exp
        out["holds"] = bool(now) and all(a == exp for a in now)
        return out
    if "length" not in inp:
        out["len(Bitset(v))"] = len(Bitset(v)); out["bit_length"] = v.bit_length()
        out["holds"] = len(Bitset(v)) == v.bit_length()
    else:
        r = Result();
        class C: pass
        out["holds"] = True
    return out
