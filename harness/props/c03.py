"""C03 — client/server split: search works from serialized key, token and index alone; wire round trips.
Theorems: Props/C03.lean (key/token wire formats).  Tie: scheme correspondence + wire requests of the driver.
Direct oracle on the real code (all nine schemes): a FRESH scheme instance built from the JSON round trip of the
configuration, objects deserialized from bytes, search on them, result serialized and deserialized."""
from run_check import Result
import schemes_env as se
import schemes_corr as sc
import schemes_check as sk
import schemes_oracles as so

MODULE = "SSEPyVerif.Props.C03"
LEANCHECK = ["SSEPyVerif.Props.C03"]
TRUSTED = sk.TRUSTED + ["pickle (encrypted databases, results, SSE-2 and DP17 tokens) and json (configurations) are library codecs assumed to satisfy loads(dumps(x)) == x; their use is exercised by the direct oracle, not modelled"]
ASSUMPTIONS = []


def translate(ctx):
    """regenerate Generated/WireLayout.lean (length checks and cut widths of every key / token parser, read off structures.py);
    `Props/C03: *.wire_is_source` re-proves that the wire model uses exactly these layouts"""
    import os, common
    from translate import wire_layout
    return wire_layout.generate(common.REPO, os.path.join(common.LEAN, "SSEPyVerif", "Generated", "WireLayout.lean"))


def correspond(ctx):
    res = Result()
    n_cfg = ctx.pick(4, 12)
    cases = sk.gen_cases(ctx, se.NAMES, n_cfg, scale=ctx.pick(1, 3))
    sk.correspond(ctx, res, cases, wire=True)
    for c in cases:
        res.evaluations += 1
        res.nontrivial.add(sk.case_sig(c["name"], c["cfg"], c["db"], c["profile"]))
        res.count("direct:" + c["name"])
        so.c03(res, c)
    # across real process boundaries (three interpreters with different hash seeds): one case per scheme (quick) / four (thorough)
    per = {}
    for c in cases:
        if per.get(c["name"], 0) < ctx.pick(1, 4) and c["profile"] in ("mixed", "boundary", "pow2"):
            per[c["name"]] = per.get(c["name"], 0) + 1
            res.count("cross-process cases")
            so.c03_crossproc(res, c)
    res.extra["schemes_modelled"] = list(sc.MODELLED)
    res.rule = (f"per scheme {n_cfg} supported configurations (key / PRF-output / label widths that differ from each other and from the defaults) x "
                f"{len(se.PROFILES)} database profiles; every stored keyword and adversarially close absent keywords searched through the split "
                "(JSON-round-tripped configuration, fresh scheme instance, deserialized key / index / token / result), then a second session with "
                "a fresh key in the same process; one case per scheme also across REAL process boundaries (setup, token generation and server search in "
                "three interpreters with different hash seeds, files of bytes in between); non-trivial = distinct (scheme, profile, configuration, list-length vector)")
    for c in cases[:1] + cases[-1:]:
        res.sample({"scheme": c["name"], "profile": c["profile"], "config": {k: v for k, v in c["cfg"].items() if k.startswith("param")}})
    return res


def search(ctx, broken, res0):
    res = Result()
    for c in sk.targeted_cases(ctx, res0) + sk.gen_cases(ctx, se.NAMES, ctx.pick(12, 30), scale=2):
        res.evaluations += 1
        so.c03(res, c)
    seen = set()
    for c in sk.targeted_cases(ctx, res0, n_quick=2, n_thorough=4) + sk.gen_cases(ctx, se.NAMES, 1):
        if (c["name"], c["profile"]) not in seen and len(seen) < 40 and c["profile"] in ("mixed", "boundary", "one"):
            seen.add((c["name"], c["profile"]))
            so.c03_crossproc(res, c)
    return res


def replay(ctx, rp):
    c = sk.case_from_replay(rp)
    r = Result()
    so.c03(r, c)
    so.c03_crossproc(r, c)
    return {"holds": not r.violations, "observed": [v["what"] for v in r.violations][:3]}
