"""C05 — index size and layout reveal only the scheme's public size parameter.
Theorems: Props/C05.lean.  Tie: scheme correspondence (padding cells are compared too).  Direct oracle on the real code:
pairs of valid databases with equal public size parameter and different keywords / contents / list-length distributions
must give identically shaped indexes; within every padded table one key length and one value length."""
from run_check import Result
import schemes_env as se
import schemes_corr as sc
import schemes_check as sk
import schemes_oracles as so

MODULE = "SSEPyVerif.Props.C05"
LEANCHECK = ["SSEPyVerif.Props.C05"]
TRUSTED = sk.TRUSTED
ASSUMPTIONS = ["SSE-2: no identifier occurs under more than param_max keywords (inside the configured capacity)"]


def pairs(ctx, n_cfg, tries):
    cases = sk.gen_cases(ctx, se.NAMES, n_cfg)
    out = []
    for c in cases:
        for _ in range(tries):
            c2 = so.same_size_variant(ctx.rng, c)
            if c2 is not None:
                out.append((c, c2))
                break
    return cases, out


def correspond(ctx):
    res = Result()
    n_cfg = ctx.pick(4, 10)
    cases, prs = pairs(ctx, n_cfg, 2)
    sk.correspond(ctx, res, cases)
    for c1, c2 in prs:
        res.evaluations += 1
        res.nontrivial.add((sk.case_sig(c1["name"], c1["cfg"], c1["db"], c1["profile"]), tuple(len(v) for v in c2["db"].values())))
        res.count("pairs:" + c1["name"])
        so.c05_pair(res, c1, c2)
    res.extra["schemes_modelled"] = list(sc.MODELLED)
    res.rule = (f"per scheme {n_cfg} configurations x {len(se.PROFILES)} profiles; for each database a second valid database with the same public "
                "size parameter (SSE1: none; SSE2/PiBas/DP17: N; PiPack: blocks; PiPtr: (blocks, pointer blocks); Pi2Lev: (keywords, array "
                "length); CT14/ANSS16: ceil(log2 N)) but other keywords, contents and list lengths; shapes compared (per container entry "
                "count and multisets of key / value lengths) and length uniformity inside every padded table checked")
    for c1, c2 in prs[:1] + prs[-1:]:
        res.sample({"scheme": c1["name"], "lists_1": [len(v) for v in c1["db"].values()], "lists_2": [len(v) for v in c2["db"].values()],
                    "size_parameter": str(so.size_param(c1["name"], c1["cfg"], c1["db"]))})
    return res


def search(ctx, broken, res0):
    """failing-input search: first the schemes the broken correspondence names (more configurations, every profile incl. the
    big ones, every database checked on its own for uniform padded tables even when no equal-size partner was found), then
    all schemes"""
    res = Result()
    if sk.named_schemes(res0):
        for scale in (1, 2):
            for c in sk.targeted_cases(ctx, res0, scale=scale):
                res.evaluations += 1
                c2 = so.same_size_variant(ctx.rng, c)
                so.c05_pair(res, c, c2 if c2 is not None else c)
                if res.violations:
                    return res
    _, prs = pairs(ctx, ctx.pick(10, 25), 4)
    for c1, c2 in prs:
        res.evaluations += 1
        so.c05_pair(res, c1, c2)
    return res


def replay(ctx, rp):
    inp = rp["input"]
    r = Result()
    if "first" in inp:
        so.c05_pair(r, sk.case_from_replay({"input": inp["first"]}), sk.case_from_replay({"input": inp["second"]}))
    else:
        c = sk.case_from_replay(rp)
        so.c05_pair(r, c, c)
    return {"holds": not r.violations, "observed": [v["what"] for v in r.violations][:3]}
