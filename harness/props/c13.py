"""C13 — crash between persistence steps.

Direct oracle (this file): every file-system mutation k of every persisting handler of server and client is a crash
point; the component is killed immediately before mutation k (k = 0..n, n = after the last), restarted on the same
directory, and the rest of the workflow is run, retrying the interrupted step when the reported state asks for it.
Correspondence: the logged sequence of file operations of every handler must equal the primitive-operation list the
translator extracted (Generated/ServerIR.lean, ClientIR.lean), and the restart outcome at every crash point must equal
the Lean model's."""
import asyncio
import os
import pickle
import shutil

import common
from run_check import Result, compare

MODULE = "SSEPyVerif.Props.C13"
LEANCHECK = ["SSEPyVerif.Props.C13"]
TRUSTED = [
    "crash = the process stops between two file-system calls of the file managers (mkdir, open-for-write, the write, os.replace, unlink); a completed call is durable, os.replace is atomic, no torn writes inside one write call",
    "the interposer (harness/crashlab.py) sees every mutation the file managers perform (the logged sequence is compared with the extracted primitive list)",
]
ASSUMPTIONS = ["one crash per run; the other component stays up", "the user retries an interrupted create-service with the same configuration file"]


def translate(ctx):
    from translate import frontend_ir
    return frontend_ir.generate(which=("server", "client"))


class FakeWS:
    def __init__(self):
        self.sent = []

    async def send(self, data):
        self.sent.append(pickle.loads(data))


def _content(m):
    try:
        return pickle.loads(m["content"])
    except Exception:
        return m["content"]


# ------------------------------------------------------------------------------------------- server ------
async def server_call(env, fx, sid, kind, payload, ip, crash_at=None):
    """one connection object + one request, directly on the real Service class.
    returns dict(init=state|'failed:<exc>', reply=..., crashed=bool, ops=[...])"""
    ssvc = env["ssvc"]
    ws = FakeWS()
    out = {"crashed": False}
    ip.reset(None)
    try:
        svc = ssvc.Service(sid, ws)
    except Exception as e:
        out["init"] = f"failed:{type(e).__name__}"
        return out
    await asyncio.sleep(0)
    out["init"] = _content(ws.sent[0]).get("state") if ws.sent else None
    if kind == "status":
        # a connection that only looks at the state and goes away: what the manager does when it is cleaned up
        try:
            svc.close_service()
        except Exception as e:
            out["raised"] = type(e).__name__
        return out
    if kind is None:
        return out
    ws.sent.clear()
    mt = {"config": "config", "upload": "upload_edb", "search": "token"}[kind]
    ip.reset(crash_at)
    try:
        svc.recv_msg_handler[mt](payload, {"type": mt, "sid": sid, "content": payload, "token_digest": b"d"})
        out["raised"] = None
    except common_crash() as e:
        out["crashed"] = True
    except Exception as e:
        out["raised"] = type(e).__name__
    await asyncio.sleep(0)
    out["ops"] = list(ip.log)
    rep = [m for m in ws.sent]
    out["replies"] = [(m["type"], _content(m) if m["type"] != "result" else m["content"]) for m in rep]
    return out


def common_crash():
    import crashlab
    return crashlab.CrashNow


async def server_lab(env, fx, res, viol):
    import crashlab
    sfm = env["sfm"]
    ip = crashlab.Interposer(sfm, os.path.join(env["home"], ".sse")).install()
    table = []
    try:
        cfg = pickle.dumps(fx.c[1])
        n_sid = 0
        for handler in ("config", "upload"):
            # crash-free run to learn the number of mutations
            n_sid += 1
            sid = f"crash{n_sid:04d}"
            if handler == "upload":
                await server_call(env, fx, sid, "config", cfg, ip)
            r0 = await server_call(env, fx, sid, handler, cfg if handler == "config" else fx.e[1], ip)
            ops = r0["ops"]
            table.append((f"server:{handler}", ops))
            for k in range(len(ops) + 1):
                n_sid += 1
                sid = f"crash{n_sid:04d}"
                if handler == "upload":
                    await server_call(env, fx, sid, "config", cfg, ip)
                r = await server_call(env, fx, sid, handler, cfg if handler == "config" else fx.e[1], ip, crash_at=k)
                point = f"server {handler} killed before mutation {k}/{len(ops)}" + (f" ({ops[k][0]} {ops[k][1].split('/')[-1]})" if k < len(ops) else " (after the last)")
                # restart: a new connection object on the same directory, then the rest of the workflow
                import srvproto
                disk_after = srvproto.impl_disk(fx, sid)[3:]
                r_init = await server_call(env, fx, sid, None, None, ip)
                res.extra.setdefault("server_crash_obs", []).append(
                    (handler, k, disk_after + " | " + (f"init:{r_init['init']}" if isinstance(r_init["init"], int) else "closed")))
                verdict, detail = await server_recover(env, fx, sid, ip)
                res.evaluations += 1
                res.count("server:" + verdict)
                res.extra.setdefault("server_points", []).append({"point": point, "outcome": verdict, "detail": detail})
                if verdict != "ok":
                    viol(f"server:{handler}:k={k}:{verdict}", f"{point}: {verdict} ({detail})",
                         {"component": "server", "handler": handler, "k": k, "ops": ops})
    finally:
        ip.uninstall()
    return table


async def server_recover(env, fx, sid, ip):
    """what a client does after the server came back: follow the reported state"""
    cfg = pickle.dumps(fx.c[1])
    r = await server_call(env, fx, sid, None, None, ip)
    if not isinstance(r["init"], int):
        return "init-fails", str(r["init"])
    state = r["init"]
    # before the retry, a connection that only checks the state and closes (its clean-up stores the connection's view of the
    # state, as every connection's does): it must not change what the next connection is told
    rs0 = await server_call(env, fx, sid, "status", None, ip)
    if rs0.get("raised"):
        return "status-connection-fails", str(rs0.get("raised"))
    r1 = await server_call(env, fx, sid, None, None, ip)
    if r1["init"] != state:
        return "state-changed-by-a-status-connection", f"{state} -> {r1['init']}"
    steps = 0
    while state != 2 and steps < 3:
        steps += 1
        kind = "config" if state == 0 else "upload"
        rr = await server_call(env, fx, sid, kind, cfg if kind == "config" else fx.e[1], ip)
        if not isinstance(rr["init"], int):
            return "init-fails", str(rr["init"])
        if rr.get("raised"):
            return "retry-refused", f"{kind} in reported state {state}: {rr['raised']}"
        r2 = await server_call(env, fx, sid, None, None, ip)
        if not isinstance(r2["init"], int) or r2["init"] <= state:
            return "no-progress", f"state {state} -> {r2['init']}"
        state = r2["init"]
    rs = await server_call(env, fx, sid, "search", fx.t[1], ip)
    if rs.get("raised") or not rs.get("replies"):
        return "search-fails", str(rs.get("raised"))
    got = fx.classify_result(rs["replies"][-1][1])
    if got != "result:_,1,1":
        return "wrong-result", got
    return "ok", f"reported state after restart {r['init']}"


# ------------------------------------------------------------------------------------------- client ------
DB = {b"keyword": [b"\x01" * 8, b"\x05" * 8], b"other": [b"\x07" * 8]}
STEPS = ["create", "key", "encrypt", "upload_config", "upload_edb"]


async def client_step(env, sid, step, cfg, timeout=8):
    """one workflow step with a client object freshly loaded from disk; returns (sid, error or None)"""
    csvc = env["csvc"]
    svc = csvc.Service(sid or "")
    env["last_client"] = svc
    try:
        if step == "create":
            return svc.handle_create_config(dict(cfg)), None
        if step == "key":
            svc.handle_create_key(); return sid, None
        if step == "encrypt":
            svc.handle_encrypt_database(dict(DB)); return sid, None
        if step in ("upload_config", "upload_edb"):
            h = svc.handle_upload_config if step == "upload_config" else svc.handle_upload_encrypted_database
            try:
                await asyncio.wait_for(h(wait=True, wait_callback_func=lambda fut: None), timeout)
            finally:
                await svc.close_service()
            return sid, None
    except common_crash():
        raise
    except Exception as e:
        try:
            if svc.websocket is not None:
                await svc.websocket.close()
        except Exception:
            pass
        return sid, f"{type(e).__name__}: {e}"


async def client_search(env, sid):
    csvc = env["csvc"]
    svc = csvc.Service(sid)
    got = []
    try:
        await asyncio.wait_for(svc.handle_keyword_search(b"keyword", wait=True, wait_callback_func=lambda fut: got.append(fut.result())), 8)
        res = svc.sse_module_loader.SSEResult.deserialize(got[0], svc.config_object).get_result_list()
        return res
    finally:
        await svc.close_service()


async def srvproto_wait(env):
    """let the server finish the cleanup of connections the dead client left behind"""
    mgr = env["connector"]._sse_service_manager
    t = 0.0
    while mgr._service_dict and t < 5:
        await asyncio.sleep(0.005); t += 0.005


def client_flags(env, sid):
    cfm = env["cfm"]
    if not sid or not cfm.check_sid_local_file_valid(sid):
        return 0
    return cfm.read_service_meta(sid)["state"]


async def client_workflow_from(env, sid, cfg, log):
    """run whatever the persisted flags say is still missing, then search"""
    csvc = env["csvc"]
    for _ in range(8):
        try:
            fl = client_flags(env, sid)
        except Exception as e:
            return "client-unusable", f"reading the persisted state: {type(e).__name__}"
        try:
            svc = csvc.Service(sid or "")          # the constructor must work
        except Exception as e:
            return "client-unusable", f"Service(sid): {type(e).__name__}: {e}"
        if not fl & 1:
            step = "create"
        elif not fl & 4:
            step = "key"
        elif not fl & 8 and not fl & 16:
            step = "encrypt"
        elif not fl & 2:
            step = "upload_config"
        elif not fl & 16:
            step = "upload_edb"
        else:
            break
        sid, err = await client_step(env, sid, step, cfg)
        log.append(f"{step}:{'ok' if err is None else err[:60]}")
        if err is not None:
            # the flag may lag behind the server: the client learns the server state at connect and stores it at close
            if "already uploaded" in err:
                continue
            return "step-refused", f"{step}: {err[:100]}"
    else:
        return "no-progress", ",".join(log[-4:])
    try:
        r = await client_search(env, sid)
    except Exception as e:
        return "search-fails", f"{type(e).__name__}: {e}"
    if r != DB[b"keyword"]:
        return "wrong-result", str(r)[:80]
    return "ok", ",".join(log)


async def client_lab(env, fx, res, viol):
    import crashlab
    import frontend_env as fe
    cfm = env["cfm"]
    table = []
    async with fe.Server() as srv:
        ip = crashlab.Interposer(cfm, os.path.join(env["home"], ".sse", "client")).install()
        try:
            cfg = dict(fx.c[1]); cfg.pop("salt", None)
            for target in STEPS:
                # crash-free: how many mutations does the target step perform?
                sid = None
                for st in STEPS[:STEPS.index(target)]:
                    ip.reset(None)
                    sid, err = await client_step(env, sid, st, cfg)
                ip.reset(None)
                sid2, err = await client_step(env, sid, target, cfg)
                ops = list(ip.log)
                table.append((f"client:{target}", ops))
                for k in range(len(ops) + 1):
                    sid = None
                    for st in STEPS[:STEPS.index(target)]:
                        ip.reset(None)
                        sid, err = await client_step(env, sid, st, cfg)
                    ip.reset(k)
                    crashed = False
                    try:
                        t = asyncio.ensure_future(client_step(env, sid, target, cfg))
                        while not t.done():
                            await asyncio.sleep(0.002)
                            if ip.crashed:
                                break
                        if ip.crashed:
                            crashed = True
                            t.cancel()
                            try:
                                await t
                            except BaseException:
                                pass
                        else:
                            r = t.result()
                            if target == "create":
                                sid = r[0]
                    except common_crash():
                        crashed = True
                    ip.reset(None)
                    if crashed:
                        # a killed process loses its sockets (its close_service never runs)
                        lc = env.get("last_client")
                        if lc is not None and lc.websocket is not None:
                            try:
                                await lc.websocket.close()
                            except Exception:
                                pass
                        await srvproto_wait(env)
                    await asyncio.sleep(0.01)
                    point = f"client {target} killed before mutation {k}/{len(ops)}" + (f" ({ops[k][0]} {ops[k][1].split('/')[-1]})" if k < len(ops) else " (after the last)")
                    log = []
                    if target == "create" and crashed:
                        sid = None          # the user never learned the sid: create again from the same configuration file
                    verdict, detail = await client_workflow_from(env, sid, cfg, log)
                    res.evaluations += 1
                    res.count("client:" + verdict)
                    res.extra.setdefault("client_points", []).append({"point": point, "outcome": verdict, "detail": detail[:120]})
                    if verdict != "ok":
                        viol(f"client:{target}:k={k}:{verdict}", f"{point}: {verdict} ({detail[:140]})",
                             {"component": "client", "handler": target, "k": k, "ops": ops})
        finally:
            ip.uninstall()
    return table


def names_lab(env, fx, res, viol):
    """the COMMAND layer (services addressed by name, as the documented workflow does): `commands.create_service` for a second
    service dies before / after every file-system mutation it performs - the service folder, its files AND the name table
    `service_mapping.json` that all services share.  After the restart (a new process: the name table is read from disk again)
    the first service must still be addressed by its name (the state before the interrupted step, for a service that was not
    even involved), and creating the second service must be possible, after which both names resolve to loadable services."""
    import contextlib, io, json, shutil
    import crashlab
    import frontend.client.commands as commands
    import frontend.client.services.service_name_handler as snh
    cfm = env["cfm"]
    client_root = os.path.join(env["home"], ".sse", "client")
    cfg = dict(fx.c[1]); cfg.pop("salt", None)
    cfg_path = os.path.join(env["home"], "names_lab_config.json")
    json.dump(cfg, open(cfg_path, "w"))

    def restart():
        # a new client process: nothing cached (the module does exactly this at import)
        snh.read_service_mapping, snh.write_service_mapping = snh._get_service_mapping_read_and_write_function()

    def create(name):
        out = io.StringIO()
        with contextlib.redirect_stdout(out):
            commands.create_service(cfg_path, name)
        return out.getvalue()

    def resolve(name):
        try:
            sid = snh.get_service_id_by_sname(name)
        except KeyError:
            return None
        return sid

    ip = crashlab.Interposer(cfm, client_root).install()
    ip2 = crashlab.Interposer(snh, client_root, parent=ip).install()
    try:
        def fresh_first():
            shutil.rmtree(client_root, ignore_errors=True)
            os.makedirs(client_root, exist_ok=True)
            restart()
            ip.reset(None)
            create("first")
            restart()
            return resolve("first")
        sid1 = fresh_first()
        if sid1 is None:
            return []
        ip.reset(None)
        create("second")
        ops = list(ip.log)
        for k in range(len(ops) + 1):
            sid1 = fresh_first()
            ip.reset(k)
            try:
                create("second")
            except crashlab.CrashNow:
                pass
            crashed = ip.crashed
            ip.crashed = False
            ip.reset(None)
            restart()
            point = f"client create-service (by name) killed before mutation {k}/{len(ops)}" + \
                    (f" ({ops[k][0]} {ops[k][1].split('/')[-1]})" if k < len(ops) else " (after the last)")
            res.evaluations += 1
            verdict, detail = "ok", ""
            try:
                got1 = resolve("first")
                if got1 != sid1:
                    verdict, detail = "earlier-service-lost", f"the name of the service created before resolves to {got1!r} instead of {sid1[:12]}…"
                else:
                    if resolve("second") is None:
                        msg = create("second")
                        restart()
                    s2 = resolve("second")
                    if s2 is None:
                        verdict, detail = "cannot-complete", "creating the interrupted service again does not register its name: " + msg.strip()[-120:]
                    elif not cfm.check_sid_local_file_valid(s2) or resolve("first") != sid1:
                        verdict, detail = "inconsistent", "after completing the interrupted step a name resolves to a service that cannot be loaded"
            except Exception as e:
                verdict, detail = "client-unusable", f"{type(e).__name__}: {e}"
            res.count("names:" + verdict)
            res.extra.setdefault("client_points", []).append({"point": point, "outcome": verdict, "detail": detail[:120]})
            if verdict != "ok":
                viol(f"names:create:k={k}:{verdict}", f"{point}: {verdict} ({detail[:160]})",
                     {"component": "client command layer", "handler": "create_service", "k": k, "ops": ops})
        return [("client:create_service(by name)", ops)]
    finally:
        ip2.uninstall()
        ip.uninstall()
        shutil.rmtree(client_root, ignore_errors=True)
        os.makedirs(client_root, exist_ok=True)
        restart()


async def e2e_server_lab(env, fx, res, viol):
    """the REAL client against the real server over a websocket; the SERVER dies before / after every file-system mutation
    it performs while it handles the client's configuration or index upload (every later mutation of the dead process fails
    too, so its connection clean-up writes nothing); the server is restarted on the same directory and the real client
    carries on from its own persisted flags: it must be able to finish the workflow and search."""
    import crashlab
    import frontend_env as fe
    sfm = env["sfm"]
    cfg = dict(fx.c[1]); cfg.pop("salt", None)
    async with fe.Server() as srv:
        ip = crashlab.Interposer(sfm, os.path.join(env["home"], ".sse")).install()
        try:
            for target in ("upload_config", "upload_edb"):
                async def prefix():
                    sid = None
                    for st in STEPS[:STEPS.index(target)]:
                        ip.reset(None)
                        sid, err = await client_step(env, sid, st, cfg)
                    return sid
                sid = await prefix()
                ip.reset(None)
                await client_step(env, sid, target, cfg)
                await srvproto_wait(env)
                n = len([o for o in ip.log])
                for k in range(n + 1):
                    sid = await prefix()
                    await srvproto_wait(env)
                    ip.reset(k)
                    _, err = await client_step(env, sid, target, cfg, timeout=2.5)
                    await asyncio.sleep(0.05)
                    crashed = ip.crashed
                    # restart: the dead process's registry is gone, the disk stays
                    await srvproto_wait(env)
                    fe.new_manager()
                    ip.reset(None)
                    log = []
                    verdict, detail = await client_workflow_from(env, sid, cfg, log)
                    point = f"real client, server killed before its mutation {k}/{n} while handling {target}"
                    res.evaluations += 1
                    res.count("e2e-server:" + verdict)
                    res.extra.setdefault("e2e_server_points", []).append({"point": point, "killed": crashed, "outcome": verdict, "detail": detail[:120]})
                    if verdict != "ok":
                        viol(f"e2e-server:{target}:k={k}:{verdict}", f"{point}: {verdict} ({detail[:140]})",
                             {"component": "server (real client)", "handler": target, "k": k})
        finally:
            ip.uninstall()


def run_labs(ctx, res):
    import frontend_env as fe
    import srvproto
    env = fe.setup(cleanup_delay=0.0)
    try:
        fx = srvproto.Fixture()

        def viol(sig, what, inp):
            if not any(v["signature"] == sig for v in res.violations):
                res.violations.append({"signature": sig, "what": what, "input": inp})

        async def main():
            t1 = await server_lab(env, fx, res, viol)
            t2 = await client_lab(env, fx, res, viol)
            await e2e_server_lab(env, fx, res, viol)
            return t1 + t2
        tables = asyncio.run(main())
        names_lab(env, fx, res, viol)          # its mutation list is not compared with the extracted handler programs
        return tables
    finally:
        fe.teardown()


def fmt_ops(ops):
    out = []
    for o, p in ops:
        name = p.split("/")[-1]
        if o == "mkdir":
            out.append("mkdir")
        elif o.startswith("open:"):
            out.append("open " + name)
        else:
            out.append(f"{o} {name}")
    return ",".join(out)


def correspond(ctx):
    res = Result()
    table = run_labs(ctx, res)
    # correspondence 1: the logged mutation sequence of every handler = the primitive list the translator extracted
    lines, impl = [], []
    for name, ops in table:
        comp, h = name.split(":")
        lines.append(("srv" if comp == "server" else "cli") + " fsops " + h)
        impl.append("ok " + fmt_ops(ops))
    # correspondence 2: the server's disk and echo after a kill at every k = the interpreter's
    for handler, k, obs in res.extra.pop("server_crash_obs", []):
        lines.append("srv reset")
        impl.append("ok")
        if handler == "upload":
            lines.append("srv ev config 1"); impl.append("ok init:0 ok:config")
        lines.append(f"srv crash {k} {handler} 1"); impl.append("ok " + obs)
    model = ctx.driver.batch(lines)
    compare(res, lines, impl, model)
    res.exhaustive = True
    res.rule = ("every file-system mutation k of the server's config / index handlers and of the client's create-service, "
                "generate-key, encrypt-database, upload-config-acknowledgement and upload-index-acknowledgement handlers: the "
                "component is killed immediately before mutation k (k = 0 .. n), re-created on the same directory, and the rest "
                "of the workflow is run following the reported state; non-trivial = distinct (handler, k) crash points")
    for name, ops in table:
        res.nontrivial |= {(name, k) for k in range(len(ops) + 1)}
        res.sample({"handler": name, "mutations": [f"{o} {p.split('/')[-1]}" for o, p in ops]})
    res.extra["handler_mutations"] = {name: [f"{o} {p.split('/')[-1]}" for o, p in ops] for name, ops in table}
    return res


def search(ctx, broken, res0):
    return Result()


def replay(ctx, rp):
    res = Result()
    run_labs(ctx, res)
    sig = rp.get("signature")
    return {"holds": not any(v["signature"] == sig for v in res.violations), "signature": sig}
