"""C16 — HmacPRF / hash wrapper: correspondence Model/PHash.lean <-> toolkit/prf/hmac_prf.py, toolkit/hash.py with
recorded HMAC / hash digests (leaves), and the direct oracle (independent RFC 5246 P_hash / counter-mode reference)."""
import hashlib
import hmac as hmac_mod

import common
from common import hx, call
from run_check import Result, compare

common.ensure_repo_on_path()

MODULE = "SSEPyVerif.Props.C16"
LEANCHECK = ["SSEPyVerif.Props.C16", "SSEPyVerif.Proofs.PHash", "SSEPyVerif.Model.PHash"]
TRUSTED = [
    "leaves (not modelled): hmac.new(...).digest() and hashlib.new(...).digest([n]) — recorded from the real library on every run and replayed as tables",
    "assumed of the leaves in the theorems: every digest of one algorithm has the same positive length",
    "outside any theorem (pseudo-randomness): 'distinct keys or messages give distinct outputs' — sampled as a labelled test",
]
ASSUMPTIONS = ["hashlib/hmac digests are deterministic functions of (algorithm, key, message)"]

PRF_DIGESTS = ["sha1", "sha256", "sha512", "md5"]
XOFS = ["shake_128", "shake_256"]
MISS_HEX = "4d495353212121"


class Recorder:
    """records every HMAC / hash digest the implementation computes"""

    def __init__(self):
        self.hmac = {}    # (name, key, msg) -> digest
        self.hash = {}    # (name, msg) -> digest
        self.xof = {}     # (name, msg, n) -> digest
        self._new = hmac_mod.new
        self._hnew = hashlib.new

    def __enter__(self):
        rec = self

        class Proxy:
            """a hash / HMAC object of the real library that records (algorithm, [key,] everything absorbed) -> digest
            whenever a digest is taken — whatever way the message was fed (constructor, update, copy)"""

            def __init__(self_, kind, name, h, key, data):
                self_._kind, self_._name, self_._h, self_._key, self_._data = kind, name, h, key, bytes(data)

            def update(self_, b):
                self_._h.update(b)
                self_._data += bytes(b)

            def copy(self_):
                return Proxy(self_._kind, self_._name, self_._h.copy(), self_._key, self_._data)

            def digest(self_, *a):
                d = self_._h.digest(*a)
                if self_._kind == "hmac":
                    rec.hmac[(self_._name, self_._key, self_._data)] = d
                elif a:
                    rec.xof[(self_._name, self_._data, a[0])] = d
                else:
                    rec.hash[(self_._name, self_._data)] = d
                return d

            def hexdigest(self_, *a):
                return self_.digest(*a).hex()

            def __getattr__(self_, n):          # digest_size, block_size, name
                return getattr(self_._h, n)

        def new(key, msg=None, digestmod=""):
            h = rec._new(key, msg, digestmod)
            return Proxy("hmac", h.name.replace("hmac-", ""), h, bytes(key), msg or b"")

        def hnew(name, data=b"", **kw):
            return Proxy("hash", name.lower(), rec._hnew(name, data, **kw), None, data)
        hmac_mod.new = new
        rec._hdigest = hmac_mod.digest
        hmac_mod.digest = lambda key, msg, digest: new(key, msg, digest).digest()      # the one-shot form is the same leaf
        rec._named = {}
        for nm in ("sha1", "sha224", "sha256", "sha384", "sha512", "md5", "shake_128", "shake_256"):
            rec._named[nm] = getattr(hashlib, nm)
            setattr(hashlib, nm, (lambda data=b"", _nm=nm, **kw: hnew(_nm, data, **kw)))
        hashlib.new = hnew
        return self

    def __exit__(self, *a):
        hmac_mod.new = self._new
        hashlib.new = self._hnew
        hmac_mod.digest = self._hdigest
        for nm, f in self._named.items():
            setattr(hashlib, nm, f)

    def table_lines(self):
        out = []
        for (name, k, m), d in self.hmac.items():
            out.append(f"tbl put2 hmac:{name} {hx(k)} {hx(m)} {hx(d)}")
        for (name, m), d in self.hash.items():
            out.append(f"tbl put hash:{name} {hx(m)} {hx(d)}")
        for (name, m, n), d in self.xof.items():
            out.append(f"tbl put2 xof:{name} {hx(m)} {hx(n.to_bytes(4, 'big'))} {hx(d)}")
        return out


def rb(rng, n):
    return bytes(rng.getrandbits(8) for _ in range(n))


def rfc_p_hash(name, secret, seed, n):
    """independent reference: RFC 5246 section 5"""
    out = b""
    a = seed                                     # A(0)
    while len(out) < n:
        a = hmac_mod.new(secret, a, name).digest()   # A(i)
        out += hmac_mod.new(secret, a + seed, name).digest()
    return out[:n]


def ctr_ref(name, msg, n):
    out = b""
    c = 1
    while len(out) < n:
        out += hashlib.new(name, msg + c.to_bytes((c.bit_length() + 7) // 8, "big")).digest()
        c += 1
    return out[:n]


def correspond(ctx):
    from toolkit.prf.hmac_prf import HmacPRF
    import toolkit.prf
    import toolkit.hash as thash
    rng = ctx.rng
    res = Result()
    reqs, impl = [], []
    n_prf = ctx.pick(300, 10000)
    n_hash = ctx.pick(200, 6000)
    with Recorder() as rec:
        for _ in range(n_prf):
            dg = rng.choice(PRF_DIGESTS)
            hl = hashlib.new(dg).digest_size
            key = rb(rng, rng.choice([0, 1, 16, 24, 32, 64, 65, 80, rng.randint(0, 80)]))
            msg = rb(rng, rng.choice([0, 1, 32, 33, rng.randint(0, 200)]))
            out = rng.choice([0, 1, hl - 1, hl, hl + 1, 2 * hl, 2 * hl + 1, 7 * hl + 3, rng.randint(1, 200)])
            kl = rng.choice([-1, -1, len(key), len(key), len(key) + 1, 0])
            ml = rng.choice([-1, -1, len(msg), len(msg), len(msg) + 2])
            if rng.random() < 0.04:
                out = rng.choice([-1, -5])       # malformed: negative output length -> b''
            reqs.append(f"prf call {dg} {hl} {out} {kl} {ml} {hx(key)} {hx(msg)}")
            cls = toolkit.prf.get_prf_implementation(rng.choice(["HmacPRF", "hmac-prf", "HMAC_PRF"]))
            impl.append(call(lambda: cls(output_length=out, key_length=kl, message_length=ml, hash_func_name=dg)(key, msg), hx))
            res.count("prf:" + dg); res.count("prf-out:" + ("digest" if out == 0 else "short" if 0 < out < hl else "multi" if out > hl else "exact" if out == hl else "neg"))
        for _ in range(n_hash):
            name = rng.choice(PRF_DIGESTS + XOFS + ["SHA1", "sha224"])
            msg = rb(rng, rng.choice([0, 1, 20, rng.randint(0, 200)]))
            isx = name in XOFS
            hl = hashlib.new(name).digest_size
            out = rng.choice([0, 1, 16, 20, 21, 64, 65, rng.randint(1, 200), 300])
            if not isx and rng.random() < 0.03:
                out = 256 * 20 + 5 if name.lower() == "sha1" else out   # counter crosses 255 -> 2-byte counter
            w = thash.get_hash_implementation(name)(output_length=out)
            reqs.append(f"hash call {name.lower()} {1 if isx else 0} {hl} {out} {hx(msg)}")
            impl.append(call(lambda: w(msg), hx))
            res.count("hash:" + name.lower())
    lines = rec.table_lines() + reqs
    outs = ctx.driver.batch(lines)
    model = outs[len(lines) - len(reqs):]
    compare(res, reqs, impl, model)
    misses = sum(1 for m in model if MISS_HEX in m)
    res.extra["recorded_leaf_entries"] = len(lines) - len(reqs)
    res.extra["table_misses"] = misses
    res.evaluations += len(reqs)
    for r, a in zip(reqs, impl):
        res.count("answer:" + ("error:" + a[4:] if a.startswith("err") else "ok"))
        if a.startswith("ok"):
            res.nontrivial.add(r)
    for i in (0, len(reqs) // 2, len(reqs) - 1):
        res.sample({"request": reqs[i][:200], "impl": impl[i][:100], "model": model[i][:100]})
    res.rule = ("PRF: digests sha1/sha256/sha512/md5 x keys 0..80 bytes x messages 0..200 x output lengths 0(=digest),1,"
                "digest-1,digest,digest+1,multiples,random 1..200 x declared key/message lengths (matching, mismatching, "
                "unlimited); hash wrapper: those + shake_128/256 + mixed-case names, lengths to 300 and one >255-block "
                "expansion; leaves recorded from hashlib/hmac and replayed; non-trivial = distinct requests answered ok")
    oracle(ctx, res)
    return res


def oracle(ctx, res):
    """the property on the real code against independent references"""
    import toolkit.prf

    def HmacPRF(**kw):          # through the factory, as the schemes obtain it
        return toolkit.prf.get_prf_implementation(ctx.rng.choice(["HmacPRF", "hmac-prf", "HMAC_PRF"]))(**kw)
    import toolkit.hash as thash
    rng = ctx.rng

    def viol(sig, what, inp):
        if not any(v["signature"] == sig for v in res.violations):
            res.violations.append({"signature": sig, "what": what, "input": inp})

    for _ in range(ctx.pick(300, 8000)):
        dg = rng.choice(PRF_DIGESTS)
        key = rb(rng, rng.randint(0, 80)); msg = rb(rng, rng.randint(0, 200)); n = rng.randint(1, 200)
        inp = {"digest": dg, "key": key.hex(), "msg": msg.hex(), "n": n}
        try:
            r1 = HmacPRF(output_length=n, hash_func_name=dg)(key, msg)
            r2 = HmacPRF(output_length=n, hash_func_name=dg)(key, msg)
            if r1 != rfc_p_hash(dg, key, msg, n):
                viol("HmacPRF != RFC 5246 P_hash", f"{dg} n={n}", inp)
            if len(r1) != n:
                viol("PRF output length != requested", f"{len(r1)} != {n}", inp)
            if r1 != r2:
                viol("PRF not deterministic", "", inp)
            bads = [dict(key_length=len(key) + 1), dict(message_length=len(msg) + 1)]
            # a declared length of 0 is a declaration like any other: only the empty key / message meets it
            bads += [dict(key_length=0)] if key else []
            bads += [dict(message_length=0)] if msg else []
            bads += [dict(key_length=max(0, len(key) - 1))] if key else []
            for bad in bads:
                inst = HmacPRF(output_length=n, hash_func_name=dg, **bad)
                # the contract holds at EVERY call of one instance: the same violating call again, and again after a valid call
                for attempt in ("first", "repeated"):
                    try:
                        inst(key, msg)
                        viol("PRF length contract not enforced", f"{bad} ({attempt} violating call on one instance)", dict(inp, declared=str(bad), attempt=attempt))
                    except ValueError:
                        pass
                if "key_length" in bad:
                    try:
                        good = inst(rb(rng, bad["key_length"]), msg)
                        if len(good) != n:
                            viol("PRF output length != requested", f"{len(good)} != {n}", inp)
                    except Exception as e:
                        viol("PRF raised on valid input", f"{type(e).__name__}: {e} (key of the declared length after a refused call)", inp)
                    try:
                        inst(key, msg)
                        viol("PRF length contract not enforced", f"{bad} (violating call after a valid one on the same instance)", dict(inp, declared=str(bad)))
                    except ValueError:
                        pass
        except Exception as e:
            viol("PRF raised on valid input", f"{type(e).__name__}: {e}", inp)
        name = rng.choice(PRF_DIGESTS + XOFS)
        try:
            w = thash.get_hash_implementation(name)(output_length=n)
            h1 = w(msg)
            ref = hashlib.new(name, msg).digest(n) if name in XOFS else ctr_ref(name, msg, n)
            if h1 != ref or len(h1) != n or w(msg) != h1:
                viol("hash wrapper != reference expansion", f"{name} n={n}", {"name": name, "msg": msg.hex(), "n": n})
        except Exception as e:
            viol("hash wrapper raised on valid input", f"{type(e).__name__}: {e}", {"name": name, "msg": msg.hex(), "n": n})
        res.evaluations += 2
    # labelled test (pseudo-randomness, not a theorem): distinct (k,m) -> distinct outputs for n >= 16
    seen = {}
    prf = HmacPRF(output_length=16, hash_func_name="sha256")
    for i in range(ctx.pick(300, 5000)):
        k = rb(rng, 16); m = rb(rng, rng.randint(0, 12))
        o = prf(k, m)
        if o in seen and seen[o] != (k, m):
            viol("distinct (key,message) gave equal PRF outputs", "", {"a": [k.hex(), m.hex()], "b": [seen[o][0].hex(), seen[o][1].hex()]})
        seen[o] = (k, m)
    res.extra["distinctness_sample"] = len(seen)
    return res


def search(ctx, broken, res0):
    res = Result()
    ctx.tier = "thorough"
    return oracle(ctx, res)


def replay(ctx, rp):
    from toolkit.prf.hmac_prf import HmacPRF
    inp = rp.get("input", {})
    out = {"input": inp, "holds": True}
    if "digest" in inp:
        k, m, n = bytes.fromhex(inp["key"]), bytes.fromhex(inp["msg"]), inp["n"]
        r = HmacPRF(output_length=n, hash_func_name=inp["digest"])(k, m)
        out["holds"] = r == rfc_p_hash(inp["digest"], k, m, n) and len(r) == n
    return out
