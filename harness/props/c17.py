"""C17 — byte-level encodings: correspondence Model/Bytes.lean <-> toolkit/{bytes,database,list}_utils.py
and the direct oracle (the property evaluated on the real code)."""
import itertools

import common
from common import hx, hxl, intl, call
from run_check import Result, compare

common.ensure_repo_on_path()

MODULE = "SSEPyVerif.Props.C17"
LEANCHECK = ["SSEPyVerif.Props.C17", "SSEPyVerif.Proofs.Bytes", "SSEPyVerif.Model.Bytes"]
TRUSTED = [
    "modelled, not verified: CPython's int.to_bytes/from_bytes, bytes.hex/fromhex (without whitespace), slicing, itertools.accumulate",
    "utf-8 encode/decode is compared against Lean's String.toUTF8/fromUTF8? in the correspondence only (no theorem)",
]
ASSUMPTIONS = [
    "identifier lists are lists of bytes objects; capacities, sizes and block sizes are Python ints (negative and zero values are in the malformed stream)",
    "hex strings contain no whitespace (bytes.fromhex skips ASCII whitespace; the model does not)",
]


def _mods():
    import toolkit.bytes_utils as bu
    import toolkit.database_utils as du
    import toolkit.list_utils as lu
    return bu, du, lu


def rand_bytes(rng, n):
    return bytes(rng.getrandbits(8) for _ in range(n))


def rand_id(rng, sz, allow_zero=False):
    while True:
        b = rand_bytes(rng, sz)
        # bias towards identifiers with leading / trailing zero bytes (parsing stops at all-zero pieces only)
        r = rng.random()
        if r < 0.15 and sz > 1:
            b = b"\x00" * (sz - 1) + bytes([rng.randrange(1, 256)])
        elif r < 0.3 and sz > 1:
            b = bytes([rng.randrange(1, 256)]) + b"\x00" * (sz - 1)
        if allow_zero or any(b):
            return b


def gen_cases(ctx):
    rng = ctx.rng
    cases = []   # (line, python thunk -> canonical string)
    bu, du, lu = _mods()
    n_part = ctx.pick(700, 60000)
    n_misc = ctx.pick(250, 20000)

    def add(line, f):
        cases.append((line, f))

    # --- identifier blocks -----------------------------------------------------------------------
    def part_case(ids, cap, sz, bs):
        add(f"bytes part {hxl(ids)} {cap} {sz} {bs}",
            lambda: call(lambda: list(du.partition_identifiers_to_blocks(ids, cap, sz, bs)), hxl))

    def parse_cases(blk, sz, cap):
        add(f"bytes parse_size {hx(blk)} {sz}",
            lambda: call(lambda: du.parse_identifiers_from_block_given_identifier_size(blk, sz), hxl))
        add(f"bytes parse_count {hx(blk)} {cap}",
            lambda: call(lambda: du.parse_identifiers_from_block_given_entry_count_in_one_block(blk, cap), hxl))

    # exhaustive tiny domain
    tiny = []
    for sz in (1, 2):
        for cap in (1, 2, 3):
            for n in range(0, 5):
                for extra in (0, 1):
                    tiny.append((sz, cap, n, extra))
    for (sz, cap, n, extra) in tiny:
        ids = [rand_id(rng, sz) for _ in range(n)]
        bs = 0 if extra == 0 else cap * sz + 1
        part_case(ids, cap, sz, bs)
    for _ in range(n_part):
        r = rng.random()
        sz = rng.randint(1, 40) if r < 0.8 else rng.choice([1, 2, 8, 16, 32])
        cap = rng.randint(1, 70)
        n = rng.choice([0, 1, cap - 1, cap, cap + 1, 2 * cap, 2 * cap + 1, rng.randint(0, 300)])
        n = max(0, min(n, 300))
        if ctx.tier == "quick":
            n = min(n, 90)
        ids = [rand_id(rng, sz) for _ in range(n)]
        bs = rng.choice([0, cap * sz, cap * sz + rng.randint(1, 9), cap * sz + 1])
        mal = rng.random()
        if mal < 0.06:
            bs = max(1, cap * sz - rng.randint(1, 5))          # too small -> ValueError
        elif mal < 0.10:
            cap = rng.choice([0, -1, -3])
        elif mal < 0.13:
            sz = rng.choice([0, -1])
        elif mal < 0.17 and ids:
            ids[rng.randrange(len(ids))] = rand_bytes(rng, max(0, sz + rng.choice([-1, 1])))   # wrong-size id
        elif mal < 0.20 and ids:
            ids[rng.randrange(len(ids))] = b"\x00" * max(sz, 0)   # all-zero id (invalid input)
        part_case(ids, cap, sz, bs)
        # parse the blocks the real packer produced (and a few random blocks)
        try:
            blocks = list(du.partition_identifiers_to_blocks(ids, cap, sz, bs))
        except Exception:
            blocks = []
        for blk in blocks[:3] + blocks[-1:]:
            parse_cases(blk, sz, cap)
        if rng.random() < 0.2:
            blk = rand_bytes(rng, rng.randint(0, 60))
            parse_cases(blk, rng.choice([sz, 1, 3, 0, -2]), rng.choice([cap, 1, 2, 0, -2]))

    # --- xor, ints, leading zeros, split, chunks, hex ----------------------------------------------
    for _ in range(n_misc):
        la = rng.randint(0, 40)
        lb = rng.choice([la, rng.randint(0, la), la + rng.randint(1, 3), 0])
        a, b = rand_bytes(rng, la), rand_bytes(rng, lb)
        add(f"bytes xor {hx(a)} {hx(b)}", lambda a=a, b=b: call(lambda: bu.bytes_xor(a, b), hx))
        k = rng.choice([0, 1, 7, 8, 9, 15, 16, 17, 63, 64, 65, rng.randint(0, 400)])
        x = rng.choice([0, (1 << k) - 1, 1 << k, (1 << k) + 1, rng.getrandbits(k + 1)])
        need = (x.bit_length() + 7) // 8
        w = rng.choice([-1, need, need + 1, need + rng.randint(0, 5), max(0, need - 1), 0, -2])
        if rng.random() < 0.05:
            x = -x - 1
        add(f"bytes i2b {x} {w}", lambda x=x, w=w: call(lambda: bu.int_to_bytes(x, w), hx))
        bb = rand_bytes(rng, rng.randint(0, 20))
        if rng.random() < 0.3:
            bb = b"\x00" * rng.randint(0, 3) + bb
        add(f"bytes b2i {hx(bb)}", lambda bb=bb: call(lambda: bu.int_from_bytes(bb), str))
        n = rng.choice([len(bb), len(bb) + 3, 0, max(0, len(bb) - 2), -1, -5, 40])
        add(f"bytes alz {hx(bb)} {n}", lambda bb=bb, n=n: call(lambda: bu.add_leading_zeros(bb, n), hx))
        # split
        parts = [rng.choice([0, 0, 1, 2, 3, 5, 16, rng.randint(0, 12)]) for _ in range(rng.randint(0, 6))]
        xb = rand_bytes(rng, sum(parts))
        if rng.random() < 0.15:
            xb = xb + rand_bytes(rng, rng.randint(1, 3))       # mismatch
        elif rng.random() < 0.1 and xb:
            xb = xb[:-1]
        add(f"bytes split {hx(xb)} {intl(parts)}",
            lambda xb=xb, parts=parts: call(lambda: bu.split_bytes_given_slice_len(xb, parts), hxl))
        # chunks over a list of byte items
        items = [rand_bytes(rng, rng.randint(1, 3)) for _ in range(rng.randint(0, 12))]
        cn = rng.choice([1, 2, 3, 5, 12, 13, 0])
        add(f"bytes chunks {hxl(items)} {cn}",
            lambda items=items, cn=cn: call(lambda: list(lu.chunks(items, cn)),
                                           lambda gs: "|".join(hxl(g) for g in gs) if gs else "."))
        # hex
        hb = rand_bytes(rng, rng.randint(0, 16))
        add(f"bytes tohex {hx(hb)}", lambda hb=hb: call(lambda: bu.BytesConverter.convert_bytes(hb, "hex"), lambda s: s))
        hs = "".join(rng.choice([c, c.upper()]) for c in hb.hex())
        r = rng.random()
        if r < 0.1:
            hs = hs + rng.choice("0aF")          # odd length
        elif r < 0.2 and hs:
            i = rng.randrange(len(hs))
            hs = hs[:i] + rng.choice("gz:_x") + hs[i + 1:]
        add(f"bytes fromhex {hs or '-'}", lambda hs=hs: call(lambda: bytes.fromhex(hs), hx))
        # identifiers of a JSON database go through convert_database_keyword_to_bytes: same function of the hex string
        hid = "".join(rng.choice([c, c.upper()]) for c in (b"\x00" * rng.choice([0, 0, 1, 2]) + rand_bytes(rng, rng.randint(0, 9))).hex())
        add(f"bytes fromhex {hid or '-'}",
            lambda hid=hid: call(lambda: du.convert_database_keyword_to_bytes({"kw": [hid, hid]})[b"kw"][1], hx))
        # utf8 keyword conversion (convert_database_keyword_to_bytes) and the utf8/int output formats
        cps = [rng.choice([rng.randint(0x20, 0x7e), rng.randint(0xa0, 0x7ff), rng.randint(0x800, 0xd7ff),
                           rng.randint(0xe000, 0xffff), rng.randint(0x10000, 0x10ffff)])
               for _ in range(rng.randint(1, 6))]
        s = "".join(map(chr, cps))
        idhex = rand_bytes(rng, rng.randint(1, 9)).hex()
        add(f"bytes utf8 {intl(cps)}",
            lambda s=s, idhex=idhex: call(lambda: list(du.convert_database_keyword_to_bytes({s: [idhex]}).items())[0][0], hx))
        ub = s.encode() if rng.random() < 0.7 else rand_bytes(rng, rng.randint(1, 6))
        add(f"bytes utf8dec {hx(ub)}",
            lambda ub=ub: call(lambda: bu.BytesConverter.convert_bytes(ub, "utf8"), lambda t: intl([ord(c) for c in t])))
    return cases


def oracle(ctx, res: Result):
    """The property itself, evaluated on the real code (no model involved)."""
    rng = ctx.rng
    bu, du, lu = _mods()
    n = ctx.pick(400, 20000)

    def viol(sig, what, inp):
        res.violations.append({"signature": sig, "what": what, "input": inp})

    for it in range(n):
        sz = rng.randint(1, 40); cap = rng.randint(1, 70)
        ln = rng.choice([0, 1, cap - 1, cap, cap + 1, 3 * cap, rng.randint(0, 300)])
        ln = max(0, min(ln, ctx.pick(120, 300)))
        ids = [rand_id(rng, sz) for _ in range(ln)]
        bs = rng.choice([0, cap * sz, cap * sz + rng.randint(1, 7)])
        inp = {"ids": [i.hex() for i in ids], "cap": cap, "size": sz, "block_size": bs}
        try:
            blocks = list(du.partition_identifiers_to_blocks(ids, cap, sz, bs))
            back = []
            for b in blocks:
                back.extend(du.parse_identifiers_from_block_given_identifier_size(b, sz))
            eff = bs or cap * sz
            if back != ids:
                viol("parse(partition(ids)) != ids", f"round trip by size fails for cap={cap} size={sz} bs={bs} n={ln}", inp)
            if len(blocks) != -(-ln // cap):
                viol("block count != ceil(n/cap)", f"{len(blocks)} blocks for n={ln} cap={cap}", inp)
            if any(len(b) != eff for b in blocks):
                viol("blocks of unequal length", f"block lengths {[len(b) for b in blocks][:5]} expected {eff}", inp)
            if eff // cap == sz:
                back2 = []
                for b in blocks:
                    back2.extend(du.parse_identifiers_from_block_given_entry_count_in_one_block(b, cap))
                if back2 != ids:
                    viol("parse_by_count(partition(ids)) != ids", f"round trip by count fails cap={cap} size={sz} bs={bs}", inp)
        except Exception as e:
            viol("partition/parse raised on valid input", f"{type(e).__name__}: {e}", inp)
        res.evaluations += 1
        # split
        parts = [rng.choice([0, 1, 2, 5, 16, rng.randint(0, 10)]) for _ in range(rng.randint(0, 6))]
        x = rand_bytes(rng, sum(parts))
        try:
            pieces = bu.split_bytes_given_slice_len(x, parts)
            if b"".join(pieces) != x:
                viol("concat(split(x)) != x", "join of pieces differs", {"x": x.hex(), "lens": parts})
            if [len(p) for p in pieces] != parts:
                viol("split piece lengths differ from the length vector",
                     f"lens={parts} piece lengths={[len(p) for p in pieces]}", {"x": x.hex(), "lens": parts})
        except Exception as e:
            viol("split raised on matching lengths", f"{type(e).__name__}", {"x": x.hex(), "lens": parts})
        try:
            bu.split_bytes_given_slice_len(x + b"\x01", parts)
            viol("split accepted a length mismatch", "no ValueError", {"x": (x + b'\x01').hex(), "lens": parts})
        except ValueError:
            pass
        except StopIteration:
            viol("split length mismatch raised StopIteration", "", {"lens": parts})
        # ints, xor, hex
        k = rng.randint(0, 300); v = rng.getrandbits(k + 1); w = (v.bit_length() + 7) // 8 + rng.randint(0, 3)
        if bu.int_from_bytes(bu.int_to_bytes(v, w)) != v or bu.int_from_bytes(bu.int_to_bytes(v)) != v:
            viol("int round trip", f"x={v} w={w}", {"x": v, "w": w})
        a = rand_bytes(rng, rng.randint(0, 40)); b = rand_bytes(rng, rng.randint(0, len(a)))
        if bu.bytes_xor(bu.bytes_xor(a, b), b) != a:
            viol("xor involution", "", {"a": a.hex(), "b": b.hex()})
        hs = "".join(rng.choice([c, c.upper()]) for c in rand_bytes(rng, rng.randint(0, 12)).hex())
        if bu.BytesConverter.bytes_to_hex(bytes.fromhex(hs)) != hs.lower():
            viol("hex round trip", hs, {"h": hs})
        iv = bytes.fromhex(hs)
        if bu.BytesConverter.bytes_to_int(iv) != int(hs or "0", 16):
            viol("int output format", hs, {"h": hs})
        # a JSON database of UTF-8 keywords and hex identifiers: the hex / int / utf8 output formats reproduce it
        kw = "".join(chr(rng.choice([rng.randint(0x21, 0x7e), rng.randint(0xa1, 0x2fff)])) for _ in range(rng.randint(1, 5)))
        ids = [("00" * rng.choice([0, 1, 2]) + rand_bytes(rng, rng.randint(1, 8)).hex()) for _ in range(rng.randint(1, 4))]
        ids = ["".join(rng.choice([c, c.upper()]) for c in h) for h in ids]
        try:
            conv = du.convert_database_keyword_to_bytes({kw: ids})
            (kb, idb), = conv.items()
            if bu.BytesConverter.convert_bytes(kb, "utf8") != kw:
                viol("utf8 keyword does not round-trip through the database conversion", kw, {"keyword": kw})
            if [bu.BytesConverter.convert_bytes(b, "hex") for b in idb] != [h.lower() for h in ids]:
                viol("hex identifiers do not round-trip through the database conversion",
                     f"{ids} -> {[b.hex() for b in idb]}", {"keyword": kw, "ids": ids})
            if [bu.BytesConverter.convert_bytes(b, "int") for b in idb] != [int(h, 16) for h in ids]:
                viol("int output format differs for database identifiers", "", {"ids": ids})
        except Exception as e:
            viol("database conversion raised on a valid JSON database", f"{type(e).__name__}: {e}", {"keyword": kw, "ids": ids})
        res.evaluations += 5
    return res


def correspond(ctx):
    res = Result()
    res.rule = ("cases = generated requests over the property's ranges (identifier sizes 1..40, capacities 1..70, list "
                "lengths 0..300, block sizes 0 / cap*size / larger, boundary list lengths cap-1,cap,cap+1,2cap+1) plus a "
                "malformed stream (cap/size <= 0, wrong-size and all-zero ids, too-small block size, odd/invalid hex, "
                "length-mismatched splits, too-narrow int widths); non-trivial = distinct request lines whose "
                "implementation answer is not an error")
    cases = gen_cases(ctx)
    lines = [c[0] for c in cases]
    impl = [c[1]() for c in cases]
    model = ctx.driver.batch(lines)
    compare(res, lines, impl, model)
    res.evaluations += len(lines)
    for l, a in zip(lines, impl):
        op = l.split(" ")[1]
        res.count("op:" + op)
        res.count("answer:" + ("error:" + a[4:] if a.startswith("err") else "ok"))
        if a.startswith("ok"):
            res.nontrivial.add(l)
    for i in (0, len(lines) // 3, len(lines) // 2, len(lines) - 1):
        res.sample({"request": lines[i][:200], "impl": impl[i][:200], "model": model[i][:200]})
    oracle(ctx, res)
    return res


def search(ctx, broken, res0):
    res = Result()
    ctx.tier = "thorough"
    oracle(ctx, res)
    return res


def replay(ctx, rp):
    bu, du, lu = _mods()
    inp = rp.get("input", {})
    out = {"holds": True, "input": inp}
    if "ids" in inp:
        ids = [bytes.fromhex(i) for i in inp["ids"]]
        blocks = list(du.partition_identifiers_to_blocks(ids, inp["cap"], inp["size"], inp["block_size"]))
        back = []
        for b in blocks:
            back.extend(du.parse_identifiers_from_block_given_identifier_size(b, inp["size"]))
        out["holds"] = back == ids
    elif "lens" in inp and "x" in inp:
        x = bytes.fromhex(inp["x"])
        try:
            pieces = bu.split_bytes_given_slice_len(x, inp["lens"])
            out["pieces"] = [p.hex() for p in pieces]
            out["holds"] = b"".join(pieces) == x and [len(p) for p in pieces] == inp["lens"]
        except Exception as e:
            out["raised"] = type(e).__name__
            out["holds"] = len(x) != sum(inp["lens"]) and isinstance(e, ValueError)
    return out
