"""C19 — SPFLBArray: correspondence Model/PArray.lean <-> data_persistence/persistent_array.py at file level
(every observation, the directory listing after every step, raw chunk-file bytes at every close), and the direct
oracle against a plain Python list."""
import os
import shutil
import tempfile

import common
from common import hx, hxl, call, optint
from run_check import Result, compare

common.ensure_repo_on_path()

MODULE = "SSEPyVerif.Props.C19"
LEANCHECK = ["SSEPyVerif.Props.C19", "SSEPyVerif.Proofs.PArray", "SSEPyVerif.Model.PArray"]
TRUSTED = [
    "modelled, not verified: POSIX/CPython file semantics used by the array (seek past EOF + write zero-fills, short read at EOF, 'rb+' then 'wb+' creation), pickle round trip of the meta tuple",
    "the lazy open-file cache is abstracted to 'touching a chunk creates its file' (validated by comparing the directory listing after every step)",
]
ASSUMPTIONS = ["array_len, item_size, items_per_file >= 1; values are bytes/bytearray or short non-bytes objects (None, int, 1-char str)",
               "one live handle per path (close before reopen)"]

NONBYTES = [None, 5, "a"]


def scratch():
    base = os.path.join(common.CACHE, "scratch")
    os.makedirs(base, exist_ok=True)
    return tempfile.mkdtemp(dir=base, prefix="c19_")


def rb(rng, n):
    return bytes(rng.getrandbits(8) for _ in range(n))


def enc_item(v):
    return hx(bytes(v)) if isinstance(v, (bytes, bytearray)) else "X"


def rand_item(rng, sz, p_bad=0.12):
    r = rng.random()
    if r < p_bad / 2:
        return rng.choice(NONBYTES)
    if r < p_bad:
        return rb(rng, sz + rng.randint(1, 3))
    n = rng.choice([sz, sz, sz, rng.randint(0, sz)])
    b = rb(rng, n) if rng.random() < 0.8 else b"\x00" * n
    return bytearray(b) if rng.random() < 0.1 else b


def rand_slice(rng, n):
    def ep():
        return rng.choice([None, None, 0, 1, -1, n, -n, n - 1, n + 2, -n - 2, rng.randint(-n - 1, n + 1)])
    st = rng.choice([None, 1, 1, 2, 3, -1, -1, -2, -3, n, 0 if rng.random() < 0.15 else 1])
    return ep(), ep(), st


def gen_ops(rng, sz, ln, nops):
    ops = []
    closed = False
    for _ in range(nops):
        r = rng.random()
        if closed:
            if r < 0.45:
                ops.append(("reopen",)); closed = False
                continue
            if r < 0.55:
                ops.append(("close",)); continue
        if r < 0.05 and not closed:
            ops.append(("close",)); closed = True
            continue
        k = rng.randrange(13)
        idx = rng.choice([rng.randint(0, ln - 1), -rng.randint(1, ln), ln, -ln - 1, ln + 3, rng.randint(-ln - 2, ln + 1), ln - 1, -1, 0])
        if k <= 1:
            ops.append(("get", idx))
        elif k <= 4:
            ops.append(("set", idx, rand_item(rng, sz)))
        elif k == 5:
            ops.append(("getslice",) + rand_slice(rng, ln))
        elif k <= 7:
            s = rand_slice(rng, ln)
            m = rng.choice([0, 1, 2, ln, ln + 2, rng.randint(0, ln + 1)])
            vals = [rand_item(rng, sz, p_bad=0.0) for _ in range(m)]
            if vals and rng.random() < 0.35:          # a failure somewhere inside the assignment
                vals[rng.randrange(len(vals))] = rand_item(rng, sz, p_bad=1.0)
            ops.append(("setslice",) + s + (vals,))
        elif k == 8:
            ops.append(("del", idx))
        elif k == 9:
            ops.append(("delslice",) + rand_slice(rng, ln))
        elif k == 10:
            ops.append(rng.choice([("iter",), ("len",), ("clear",) if rng.random() < 0.3 else ("iter",)]))
        elif k == 11:
            ops.append(("contains", rng.choice([b"\x00" * sz, rb(rng, sz), rb(rng, max(sz - 1, 0))])))
        else:
            ops.append(("get", idx))
    return ops


def op_line(op):
    t = op[0]
    if t in ("get", "del"):
        return f"parr op {t} {op[1]}"
    if t == "set":
        return f"parr op set {op[1]} {enc_item(op[2])}"
    if t in ("getslice", "delslice"):
        return f"parr op {t} {optint(op[1])} {optint(op[2])} {optint(op[3])}"
    if t == "setslice":
        vs = ",".join(enc_item(v) for v in op[4]) if op[4] else "."
        return f"parr op setslice {optint(op[1])} {optint(op[2])} {optint(op[3])} {vs}"
    if t == "contains":
        return f"parr op contains {hx(op[1])}"
    if t == "reopen":
        return "parr reopen"
    return f"parr op {t}"


def listing(d, base):
    """chunk ids present (sorted); anything unexpected is reported by name"""
    ids, other = [], []
    for fn in sorted(os.listdir(d)):
        if fn == base + "_meta":
            continue
        suf = fn[len(base) + 1:] if fn.startswith(base + "_") else None
        if suf is not None and suf.isdigit():
            ids.append(int(suf))
        else:
            other.append(fn)
    ids.sort()
    s = ",".join(map(str, ids)) if ids else "."
    return "ok " + s + ("" if not other else " UNEXPECTED:" + "|".join(other))


def raw_files(d, base):
    out = []
    for fn in os.listdir(d):
        suf = fn[len(base) + 1:] if fn.startswith(base + "_") else None
        if suf is not None and suf.isdigit():
            out.append((int(suf), open(os.path.join(d, fn), "rb").read()))
    out.sort()
    return "ok " + (",".join(f"{k}:{hx(b)}" for k, b in out) if out else ".")


class Runner:
    """executes one op on the real array, canonical answer"""

    def __init__(self, d, sz, ln, per):
        from data_persistence.persistent_array import SPFLBArray
        self.cls = SPFLBArray
        self.path = os.path.join(d, "arr")
        self.arr = SPFLBArray.create(self.path, item_size=sz, array_len=ln, item_num_in_one_file=per)

    def do(self, op):
        a = self.arr
        t = op[0]
        if t == "get":
            return call(lambda: a[op[1]], hx)
        if t == "getslice":
            return call(lambda: a[slice(op[1], op[2], op[3])], hxl)
        if t == "set":
            def f():
                a[op[1]] = op[2]
            return call(f, lambda _: "").strip()
        if t == "setslice":
            def f():
                a[slice(op[1], op[2], op[3])] = list(op[4])
            return call(f, lambda _: "").strip()
        if t == "del":
            def f():
                del a[op[1]]
            return call(f, lambda _: "").strip()
        if t == "delslice":
            def f():
                del a[slice(op[1], op[2], op[3])]
            return call(f, lambda _: "").strip()
        if t == "clear":
            return call(lambda: a.clear(), lambda _: "").strip()
        if t == "iter":
            return call(lambda: list(iter(a)), hxl)
        if t == "contains":
            return call(lambda: op[1] in a, lambda b: "1" if b else "0")
        if t == "len":
            return call(lambda: len(a), str)
        if t == "close":
            return call(lambda: a.close(), lambda _: "").strip()
        if t == "reopen":
            def f():
                self.arr = self.cls.open(self.path)
            return call(f, lambda _: "").strip()
        raise ValueError(t)


def params(rng, i, thorough):
    ln = rng.choice([1, 2, 3, 5, 7, 8, rng.randint(1, 40)]) if i % 3 else rng.randint(1, 40)
    sz = rng.randint(1, 9)
    per = rng.choice([1, 2, 3, ln, ln + 1, ln + 2, max(1, ln - 1), rng.randint(1, ln + 2)])
    return sz, ln, per


def correspond(ctx):
    rng = ctx.rng
    res = Result()
    lines, impl = [], []
    seq_start = []
    nseq = ctx.pick(250, 8000)
    maxops = 40
    d0 = scratch()
    try:
        for i in range(nseq):
            sz, ln, per = params(rng, i, ctx.thorough)
            ops = gen_ops(rng, sz, ln, rng.randint(3, maxops))
            d = os.path.join(d0, f"s{i}")
            os.mkdir(d)
            run = Runner(d, sz, ln, per)
            seq_start.append((len(lines), sz, ln, per, ops))
            lines.append(f"parr create {sz} {ln} {per}"); impl.append("ok")
            res.count(f"len%per={'0' if ln % per == 0 else 'nonzero'}")
            closed = False
            for op in ops:
                lines.append(op_line(op)); a = run.do(op); impl.append(a)
                res.count("op:" + op[0]); res.count("answer:" + ("error:" + a[4:] if a.startswith("err") else "ok"))
                lines.append("parr ls"); impl.append(listing(d, "arr"))
                if op[0] == "close":
                    closed = True
                    lines.append("parr files"); impl.append(raw_files(d, "arr"))
                elif op[0] == "reopen":
                    closed = False
            if not closed:
                run.do(("close",))
                lines.append("parr op close"); impl.append("ok")
                lines.append("parr files"); impl.append(raw_files(d, "arr"))
            res.evaluations += 1
            res.nontrivial.add((sz, ln, per, len(ops), tuple(o[0] for o in ops[:12])))
            if i < 3:
                res.sample({"params": [sz, ln, per], "ops": [op_line(o) for o in ops[:8]]})
            shutil.rmtree(d, ignore_errors=True)
    finally:
        shutil.rmtree(d0, ignore_errors=True)
    model = ctx.driver.batch(lines)
    compare(res, lines, impl, model)
    del _DISAGREE[:]
    for k, (st, sz, ln, per, ops) in enumerate(seq_start):
        en = seq_start[k + 1][0] if k + 1 < len(seq_start) else len(lines)
        if any(a != b for a, b in zip(impl[st:en], model[st:en])):
            _DISAGREE.append((sz, ln, per, ops))
    # enrich the first disagreement with its sequence context
    if res.disagreements:
        first = res.disagreements[0]["case"]
        idx = next(i for i, (l, a, b) in enumerate(zip(lines, impl, model)) if a != b)
        start = max(j for j in range(idx + 1) if lines[j].startswith("parr create"))
        res.disagreements[0]["sequence"] = [f"{l}  => impl {a[:60]} | model {b[:60]}" for l, a, b in
                                            list(zip(lines, impl, model))[start:idx + 1] if not l.endswith(" ls") or a != b][-25:]
    res.rule = ("random operation sequences of 3..40 ops over (array_len 1..40, item_size 1..9, items_per_file 1..len+2): int and "
                "slice reads/writes/deletes with negative, out-of-range and boundary indices, zero and negative steps, slice "
                "assignments that fail in the middle (oversize / non-bytes item), clear, iteration, membership, len, close, double "
                "close, operations on a closed array, reopen; compared: every answer, the directory listing after every step, the "
                "raw bytes of every chunk file at every close; non-trivial = distinct (params, op-kind prefix) sequences")
    oracle(ctx, res)
    return res


# ---------------------------------------------------------------------------------------------------------
_DISAGREE = []      # (item_size, array_len, items_per_file, ops) of sequences on which model and implementation disagreed


def check_sequence(res, viol, d0, tag, sz, ln, per, ops, probe):
    """one operation sequence on the real array against a plain Python list.  probe=True reads the whole array after every
    step (failing operations must leave it unchanged); probe=False observes ONLY what the sequence itself reads — a full
    read touches every chunk file and would repair or hide state that the sequence leaves stale."""
    from data_persistence.persistent_array import SPFLBArray
    if True:
        if True:
            d = os.path.join(d0, tag); os.mkdir(d)
            path = os.path.join(d, "arr")
            arr = SPFLBArray.create(path, item_size=sz, array_len=ln, item_num_in_one_file=per)
            ref = [b"\x00" * sz] * ln
            closed = False
            hist = []
            inp = {"params": {"item_size": sz, "array_len": ln, "items_per_file": per}, "ops": hist, "full_read_after_every_step": probe}

            def pad(v):
                return b"\x00" * (sz - len(v)) + bytes(v)

            def bad(v):
                return not isinstance(v, (bytes, bytearray)) or len(v) > sz

            for op in ops:
                hist.append(op_line(op))
                t = op[0]
                try:
                    if closed and t not in ("close", "reopen"):
                        try:
                            Runner.do(type("R", (), {"arr": arr})(), op) if False else None
                            r = _apply(arr, op)
                            viol("operation on a closed array did not raise", op_line(op), dict(inp))
                        except ValueError:
                            pass
                        continue
                    if t == "close":
                        arr.close(); closed = True
                    elif t == "reopen":
                        arr = SPFLBArray.open(path); closed = False
                    elif t == "get":
                        if -ln <= op[1] < ln:
                            if arr[op[1]] != ref[op[1]]:
                                viol("read by index differs from the list model", f"{op_line(op)}: {arr[op[1]].hex()} != {ref[op[1]].hex()}", dict(inp))
                        else:
                            _expect_raise(lambda: arr[op[1]], IndexError, viol, "out-of-range read did not raise IndexError", inp)
                    elif t == "getslice":
                        sl = slice(op[1], op[2], op[3])
                        if op[3] == 0:
                            _expect_raise(lambda: arr[sl], ValueError, viol, "zero-step slice read did not raise", inp)
                        elif arr[sl] != ref[sl]:
                            viol("slice read differs from the list model", op_line(op), dict(inp))
                    elif t == "set":
                        if not (-ln <= op[1] < ln) or bad(op[2]):
                            _expect_raise(lambda: arr.__setitem__(op[1], op[2]), Exception, viol, "invalid element write did not raise", inp)
                        else:
                            arr[op[1]] = op[2]; ref[op[1]] = pad(op[2])
                    elif t == "setslice":
                        sl = slice(op[1], op[2], op[3])
                        if op[3] == 0:
                            _expect_raise(lambda: arr.__setitem__(sl, list(op[4])), ValueError, viol, "zero-step slice write did not raise", inp)
                        else:
                            idx = list(range(*sl.indices(ln)))
                            pairs = list(zip(idx, op[4]))
                            if any(bad(v) for _, v in pairs):
                                _expect_raise(lambda: arr.__setitem__(sl, list(op[4])), Exception, viol, "slice write with an invalid item did not raise", inp)
                            else:
                                arr[sl] = list(op[4])
                                for j, v in pairs:
                                    ref[j] = pad(v)
                    elif t == "del":
                        if -ln <= op[1] < ln:
                            del arr[op[1]]; ref[op[1]] = b"\x00" * sz
                        else:
                            _expect_raise(lambda: arr.__delitem__(op[1]), IndexError, viol, "out-of-range delete did not raise IndexError", inp)
                    elif t == "delslice":
                        sl = slice(op[1], op[2], op[3])
                        if op[3] == 0:
                            _expect_raise(lambda: arr.__delitem__(sl), ValueError, viol, "zero-step slice delete did not raise", inp)
                        else:
                            del arr[sl]
                            for j in range(*sl.indices(ln)):
                                ref[j] = b"\x00" * sz
                    elif t == "clear":
                        arr.clear(); ref = [b"\x00" * sz] * ln
                    elif t == "iter":
                        if list(iter(arr)) != ref:
                            viol("iteration differs from the list model", "", dict(inp))
                    elif t == "contains":
                        if (op[1] in arr) != (op[1] in ref):
                            viol("membership differs from the list model", op_line(op), dict(inp))
                    elif t == "len":
                        if len(arr) != ln:
                            viol("len differs", "", dict(inp))
                except Exception as e:
                    viol("a valid operation raised", f"{op_line(op)}: {type(e).__name__}: {e}", dict(inp))
                # after every step: full read equals the model, and no foreign files
                if not closed and probe:
                    try:
                        if arr[:] != ref:
                            viol("full read differs from the list model after an operation",
                                 f"after {op_line(op)} (failing operations must leave the array unchanged)", dict(inp))
                            break
                    except Exception as e:
                        viol("full read raised", f"{type(e).__name__}", dict(inp)); break
                allowed = {"arr_meta"} | {f"arr_{k}" for k in range(-(-ln // per))}
                extra = set(os.listdir(d)) - allowed
                if extra:
                    viol("a file other than the array's own was created", f"{sorted(extra)} after {op_line(op)}", dict(inp)); break
            if not closed:
                arr.close()
            # after close + open the contents are the same
            try:
                a2 = SPFLBArray.open(path)
                if a2[:] != ref:
                    viol("contents after close/reopen differ from the list model", "", dict(inp))
                a2.close()
            except Exception as e:
                viol("reopen raised", f"{type(e).__name__}: {e}", dict(inp))
            res.evaluations += 1
            shutil.rmtree(d, ignore_errors=True)


def oracle(ctx, res):
    """the property on the real code against a plain Python list (no Lean model involved)"""
    from data_persistence.persistent_array import SPFLBArray
    rng = ctx.rng
    d0 = scratch()

    def viol(sig, what, inp):
        if not any(v["signature"] == sig for v in res.violations):
            res.violations.append({"signature": sig, "what": what, "input": inp})

    try:
        for i in range(ctx.pick(150, 4000)):
            sz, ln, per = params(rng, i, ctx.thorough)
            ops = gen_ops(rng, sz, ln, rng.randint(3, 40))
            check_sequence(res, viol, d0, f"o{i}", sz, ln, per, ops, probe=(i % 2 == 0))
        # creation / opening contracts
        d = os.path.join(d0, "c"); os.mkdir(d)
        p = os.path.join(d, "x")
        a = SPFLBArray.create(p, item_size=2, array_len=3, item_num_in_one_file=2); a.close()
        try:
            SPFLBArray.create(p, item_size=2, array_len=3, item_num_in_one_file=2)
            viol("create over an existing array accepted", "", {})
        except FileExistsError:
            pass
        try:
            SPFLBArray.open(os.path.join(d, "missing"))
            viol("open of a missing array accepted", "", {})
        except FileNotFoundError:
            pass
    finally:
        shutil.rmtree(d0, ignore_errors=True)
    return res


def _apply(arr, op):
    t = op[0]
    if t == "get": return arr[op[1]]
    if t == "getslice": return arr[slice(op[1], op[2], op[3])]
    if t == "set": arr[op[1]] = op[2]; return None
    if t == "setslice": arr[slice(op[1], op[2], op[3])] = list(op[4]); return None
    if t == "del": del arr[op[1]]; return None
    if t == "delslice": del arr[slice(op[1], op[2], op[3])]; return None
    if t == "clear": return arr.clear()
    if t == "iter": return list(iter(arr))
    if t == "contains": return op[1] in arr
    if t == "len": return len(arr)


def _expect_raise(f, exc, viol, sig, inp):
    try:
        f()
        viol(sig, inp["ops"][-1], dict(inp))
    except exc:
        pass


def search(ctx, broken, res0):
    res = Result()

    def viol(sig, what, inp):
        if not any(v["signature"] == sig for v in res.violations):
            res.violations.append({"signature": sig, "what": what, "input": inp})
    # first: the very sequences on which the model and the implementation disagreed, against the plain Python list
    d0 = scratch()
    try:
        for n, (sz, ln, per, ops) in enumerate(_DISAGREE[:40]):
            for probe in (False, True):
                check_sequence(res, viol, d0, f"d{n}{int(probe)}", sz, ln, per, ops, probe)
    finally:
        shutil.rmtree(d0, ignore_errors=True)
    if res.violations:
        return res
    ctx.tier = "thorough"
    return oracle(ctx, res)


def replay(ctx, rp):
    return {"holds": False, "note": "replay = the recorded op list under 'input'; re-run the check to reproduce", "input": rp.get("input")}
