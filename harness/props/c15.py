"""C15 — PRPs: correspondence Model/Feistel.lean <-> toolkit/symmetric_encryption/fpe.py, toolkit/prp/*.py with the
HMAC digests recorded; direct oracle = bijectivity / inverse / length preservation on the real code."""
import common
from common import hx, call
from run_check import Result, compare
from props.c16 import Recorder, rb, MISS_HEX

common.ensure_repo_on_path()

MODULE = "SSEPyVerif.Props.C15"
LEANCHECK = ["SSEPyVerif.Props.C15", "SSEPyVerif.Proofs.Feistel", "SSEPyVerif.Model.Feistel"]
TRUSTED = [
    "leaf: hmac digests (recorded, replayed); struct.pack('I', ...) is modelled as 4 little-endian bytes (native order of this platform)",
    "the theorems hold for every round function / PRF of the stated output length, so no cryptographic assumption is used for bijectivity",
]
ASSUMPTIONS = ["BitwiseFFX is used with its default even round count (10), as every caller in the repository does"]


def sb(b):
    return f"{b.value} {b.length}"


def mkbits(v, l):
    from toolkit.bits import Bitset
    b = Bitset(0, 0)
    b.value, b.length = v, l
    return b


def correspond(ctx):
    from toolkit.symmetric_encryption.fpe import BitwiseFFX
    from toolkit.bits import Bitset
    import toolkit.prp as tprp
    rng = ctx.rng
    res = Result()
    reqs, impl = [], []
    ffx = BitwiseFFX()
    with Recorder() as rec:
        keys = [rb(rng, 24)] + [rb(rng, rng.choice([0, 1, 16, 32, 65])) for _ in range(ctx.pick(1, 4))]
        # exhaustive small widths
        N = ctx.pick(9, 11)
        for key in keys[:ctx.pick(1, 3)]:
            for n in range(2, N + 1):
                for x in range(1 << n):
                    reqs.append(f"ffx enc 10 {hx(key)} {x} {n}")
                    y = [None]

                    def f():
                        y[0] = ffx.encrypt(key, mkbits(x, n)); return y[0]
                    impl.append(call(f, sb))
                    if y[0] is not None:
                        reqs.append(f"ffx dec 10 {hx(key)} {int(y[0])} {len(y[0])}")
                        impl.append(call(lambda: ffx.decrypt(key, y[0]), sb))
        res.extra["exhaustive_widths"] = f"2..{N}"
        # random widths up to 2100 bits, around multiples of 160
        for _ in range(ctx.pick(40, 1500)):
            n = rng.choice([rng.randint(2, 2100), 159, 160, 161, 319, 320, 321, 322, 640, 641, 1, 0, 3, 255, 256, 257])
            x = rng.getrandbits(n) if n else 0
            if n and rng.random() < 0.35:       # boundary patterns: all ones, one half all ones, single bits
                h = (n + 1) // 2
                x = rng.choice([(1 << n) - 1, (1 << h) - 1, ((1 << (n - h)) - 1) << h, 1 << (n - 1), 1, 0,
                                ((1 << n) - 1) ^ (1 << rng.randrange(n))])
            key = rng.choice(keys)
            rounds = rng.choice([10, 10, 10, 2, 4, 1, 3, 0])
            f2 = BitwiseFFX(rounds=rounds)
            reqs.append(f"ffx enc {rounds} {hx(key)} {x} {n}")
            y = [None]

            def f():
                y[0] = f2.encrypt(key, mkbits(x, n)); return y[0]
            impl.append(call(f, sb))
            reqs.append(f"ffx dec {rounds} {hx(key)} {x} {n}")
            impl.append(call(lambda: f2.decrypt(key, mkbits(x, n)), sb))
            res.count(f"ffx-width:{'odd' if n % 2 else 'even'}")
            # the round function itself, short / exact / multi-digest output lengths
            ol = rng.choice([0, 1, n, 159, 160, 161, 320, 321, rng.randint(1, 700)])
            i = rng.randint(0, 9)
            sl = rng.choice([n, rng.randint(0, 40)])
            sv = rng.getrandbits(sl) if sl else 0
            reqs.append(f"ffx round {hx(key)} {i} {sv} {sl} {ol}")
            impl.append(call(lambda: ffx.round(key, i, mkbits(sv, sl), ol), sb))
        # BitwiseFPEPRP with its length contracts
        for _ in range(ctx.pick(40, 800)):
            mb = rng.choice([2, 8, 16, 17, 33, 256, rng.randint(2, 300)])
            kb = rng.choice([8, 64, 128, 192, 256])
            prp = tprp.get_prp_implementation(rng.choice(["BitwiseFPEPRP", "bitwise-fpe-prp", "bitwise_fpe_prp"]))(
                message_bit_length=mb, key_bit_length=kb)
            kl = rng.choice([kb, kb, kb, kb + 8, kb - 1])
            ml = rng.choice([mb, mb, mb, mb + 1, max(mb - 1, 0)])
            kv, mv = rng.getrandbits(kl), rng.getrandbits(ml) if ml else 0
            reqs.append(f"ffx prp {mb} {kb} {kv} {kl} {mv} {ml}")
            impl.append(call(lambda: prp(mkbits(kv, kl), mkbits(mv, ml)), sb))
        # HMAC Luby-Rackoff: construction contracts and calls
        for _ in range(ctx.pick(150, 4000)):
            dg = rng.choice(["sha1", "sha256", "md5"])
            import hashlib
            hl = hashlib.new(dg).digest_size
            ml = rng.choice([2, 2, 4, 8, 16, 32, 64, rng.randrange(2, 66, 2), 3, 7, 0])
            kl = rng.choice([3, 24, 48, 96, 72, 0, 16, 25])
            name = rng.choice(["HmacLubyRackoffPRP", "hmac-luby-rackoff-prp", "hmac_luby_rackoff_prp"])
            cls = tprp.get_prp_implementation(name)
            reqs.append(f"lr new {dg} {hl} {ml} {kl}")
            obj = [None]

            def mk():
                obj[0] = cls(message_length=ml, key_length=kl, hash_func_name=dg); return obj[0]
            impl.append(call(mk, lambda _: "-"))
            key = rb(rng, rng.choice([kl, kl, kl, kl + 1, max(kl - 1, 0)]) if kl >= 0 else 0)
            msg = rb(rng, rng.choice([ml, ml, ml, ml + 1, max(ml - 1, 0)]))
            reqs.append(f"lr call {dg} {hl} {ml} {kl} {hx(key)} {hx(msg)}")
            impl.append(call(lambda: cls(message_length=ml, key_length=kl, hash_func_name=dg)(key, msg), hx))
        # all / sampled 2-byte messages under one key
        cls = tprp.get_prp_implementation("HmacLubyRackoffPRP")
        p2 = cls(message_length=2, key_length=24)
        k2 = rb(rng, 24)
        two = range(65536) if ctx.thorough else rng.sample(range(65536), 600)
        for m in two:
            mbytes = m.to_bytes(2, "big")
            reqs.append(f"lr call sha1 20 2 24 {hx(k2)} {hx(mbytes)}")
            impl.append(call(lambda: p2(k2, mbytes), hx))
    lines = rec.table_lines()
    outs = ctx.driver.batch(lines + reqs)
    model = outs[len(lines):]
    compare(res, reqs, impl, model)
    res.extra["recorded_leaf_entries"] = len(lines)
    res.extra["table_misses"] = sum(1 for m in model if MISS_HEX in m)
    res.evaluations += len(reqs)
    for r, a in zip(reqs, impl):
        res.count("op:" + " ".join(r.split(" ")[:2]))
        res.count("answer:" + ("error:" + a[4:] if a.startswith("err") else "ok"))
        if a.startswith("ok"):
            res.nontrivial.add(r)
    for i in (0, len(reqs) // 2, len(reqs) - 1):
        res.sample({"request": reqs[i][:200], "impl": impl[i][:120], "model": model[i][:120]})
    res.rule = (f"FFX: every n-bit input for n = 2..{N} (encrypt, then decrypt of the result), random widths up to 2100 bits around "
                "multiples of the 160-bit digest with round counts 0,1,2,3,4,10, the round function at short/exact/multi-digest "
                "output lengths; BitwiseFPEPRP with right and wrong key/message bit lengths; HmacLubyRackoffPRP construction grid "
                "(odd lengths, key lengths not divisible by 3) and calls with right and wrong lengths, 2-byte messages "
                "(sampled quick / all 65536 thorough); HMAC digests recorded and replayed; non-trivial = distinct ok requests")
    oracle(ctx, res)
    return res


def oracle(ctx, res):
    from toolkit.symmetric_encryption.fpe import BitwiseFFX
    from toolkit.prp.bitwise_fpe_prp import BitwiseFPEPRP
    from toolkit.prp.hmac_luby_rackoff_prp import HmacLubyRackoffPRP
    rng = ctx.rng

    def viol(sig, what, inp):
        if not any(v["signature"] == sig for v in res.violations):
            res.violations.append({"signature": sig, "what": what, "input": inp})

    ffx = BitwiseFFX()
    N = ctx.pick(10, 12)
    for key in [rb(rng, 24) for _ in range(ctx.pick(1, 3))]:
        for n in range(2, N + 1):
            img = set()
            for x in range(1 << n):
                try:
                    y = ffx.encrypt(key, mkbits(x, n))
                    if len(y) != n:
                        viol("FFX does not preserve the bit length", f"n={n} x={x}: len={len(y)}", {"key": key.hex(), "n": n, "x": x})
                    z = ffx.decrypt(key, y)
                    if (int(z), len(z)) != (x, n):
                        viol("FFX decrypt(encrypt(x)) != x", f"n={n} x={x}", {"key": key.hex(), "n": n, "x": x})
                    img.add(int(y))
                except Exception as e:
                    viol("FFX raised on a valid input", f"{type(e).__name__} n={n} x={x}", {"key": key.hex(), "n": n, "x": x})
                res.evaluations += 1
            if img != set(range(1 << n)):
                viol("FFX is not a bijection on {0,1}^n", f"n={n}: image has {len(img)} of {1 << n} values", {"key": key.hex(), "n": n})
    # history independence: ONE cipher object and key, widths visited in descending and mixed order
    shared = BitwiseFFX(); skey = rb(rng, 24)
    order = list(range(N, 1, -1)) + [rng.randint(2, N) for _ in range(6)]
    for n in order:
        for x in ([0, 1, (1 << n) - 1] + [rng.getrandbits(n) for _ in range(8)]):
            try:
                y = shared.encrypt(skey, mkbits(x, n)); z = shared.decrypt(skey, y)
                fresh = BitwiseFFX().encrypt(skey, mkbits(x, n))
                if len(y) != n or (int(z), len(z)) != (x, n) or (int(y), len(y)) != (int(fresh), len(fresh)):
                    viol("FFX result depends on earlier calls on the same object",
                         f"after wider inputs, n={n} x={x}: got ({int(y)},{len(y)}), a fresh object gives ({int(fresh)},{len(fresh)})",
                         {"key": skey.hex(), "n": n, "x": x, "order": order})
            except Exception as e:
                viol("FFX raised on a valid input", f"{type(e).__name__} n={n} x={x}", {"key": skey.hex(), "n": n, "x": x})
            res.evaluations += 1
    for it in range(ctx.pick(120, 1500)):
        n = rng.choice([rng.randint(2, 2100), 97, 98, 99, 128, 159, 160, 161, 319, 320, 321, 479, 480, 481])
        x = rng.getrandbits(n); key = rb(rng, rng.choice([16, 24, 32]))
        if it % 2 == 0:
            h = (n + 1) // 2
            x = rng.choice([(1 << n) - 1, (1 << h) - 1, ((1 << (n - h)) - 1) << h, 1 << (n - 1), 0])
        inp = {"key": key.hex(), "n": n, "x": x}
        try:
            y = ffx.encrypt(key, mkbits(x, n)); z = ffx.decrypt(key, y)
            if len(y) != n or (int(z), len(z)) != (x, n):
                viol("FFX inverse/length fails at a large width", f"n={n}", inp)
            w = ffx.encrypt(key, ffx.decrypt(key, mkbits(x, n)))
            if (int(w), len(w)) != (x, n):
                viol("FFX encrypt(decrypt(x)) != x", f"n={n}", inp)
        except Exception as e:
            viol("FFX raised on a valid input", f"{type(e).__name__} n={n}", inp)
        res.evaluations += 1
    # bit PRP contracts
    prp = BitwiseFPEPRP(message_bit_length=16, key_bit_length=64)
    for (kl, ml) in ((63, 16), (64, 15), (64, 17), (72, 16)):
        try:
            prp(mkbits(1, kl), mkbits(1, ml))
            viol("BitwiseFPEPRP accepts a wrong key/message length", f"key bits {kl}, message bits {ml}", {})
        except ValueError:
            pass
    # the length contracts hold whatever the object was used for BEFORE: a valid call, then the SAME integer values presented
    # with one bit more / less (a wider message, a key with a leading zero bit) to the same object, and back
    for (ml, kl) in ((2, 16), (16, 64), (9, 24)):
        prp = BitwiseFPEPRP(message_bit_length=ml, key_bit_length=kl)
        kv, mv = rng.getrandbits(kl - 1) | 1, rng.getrandbits(ml - 1) | 1
        try:
            good = prp(mkbits(kv, kl), mkbits(mv, ml))
        except Exception as e:
            viol("BitwiseFPEPRP raised on a valid input", f"{type(e).__name__}: key bits {kl}, message bits {ml}", {}); continue
        for (k2, m2) in ((kl, ml + 1), (kl + 1, ml), (kl + 8, ml), (kl, ml + 8)):
            try:
                out = prp(mkbits(kv, k2), mkbits(mv, m2))
                viol("BitwiseFPEPRP accepts a wrong key/message length right after a valid call with the same values",
                     f"declared key/message bits {kl}/{ml}; after prp(k, m) the call with {k2}/{m2} bits of the same integers returned {len(out)} bits",
                     {"key_bits": kl, "message_bits": ml, "then_key_bits": k2, "then_message_bits": m2, "key": kv, "message": mv})
            except ValueError:
                pass
            again = prp(mkbits(kv, kl), mkbits(mv, ml))
            if (int(again), len(again)) != (int(good), len(good)):
                viol("BitwiseFPEPRP is not deterministic across calls", f"key bits {kl}, message bits {ml}", {})
        res.evaluations += 1
    lrs = HmacLubyRackoffPRP(message_length=4, key_length=24)
    k0, m0 = rb(rng, 24), rb(rng, 4)
    g0 = lrs(k0, m0)
    for (k2, m2) in ((k0, m0 + b"\0"), (k0, b"\0" + m0), (b"\0" + k0, m0), (k0 + b"\0", m0)):
        try:
            lrs(k2, m2); viol("Luby-Rackoff accepts a wrong key/message length right after a valid call", f"{len(k2)}/{len(m2)} bytes", {})
        except ValueError:
            pass
        if lrs(k0, m0) != g0:
            viol("Luby-Rackoff is not deterministic across calls", "", {})
    # Luby-Rackoff: all 2-byte messages, sampled longer ones
    lr = HmacLubyRackoffPRP(message_length=2, key_length=24)
    k = rb(rng, 24)
    outs = {}
    for m in range(65536):
        o = lr(k, m.to_bytes(2, "big"))
        if len(o) != 2:
            viol("Luby-Rackoff does not preserve the length", "", {"key": k.hex(), "m": m}); break
        if o in outs:
            viol("Luby-Rackoff is not injective on the 2-byte messages", f"{outs[o]} and {m} collide", {"key": k.hex(), "m1": outs[o], "m2": m}); break
        outs[o] = m
    res.evaluations += 65536
    for ml in (2, 4, 8, 16, 32, 64, rng.randrange(2, 66, 2)):
        lr = HmacLubyRackoffPRP(message_length=ml, key_length=48, hash_func_name=rng.choice(["sha1", "sha256"]))
        k = rb(rng, 48)
        seen = {}
        base = rb(rng, ml)
        msgs = {base} | {bytes(base[:i] + bytes([base[i] ^ (1 << b)]) + base[i + 1:]) for i in range(ml) for b in (0, 7)} | {rb(rng, ml) for _ in range(50)}
        for m in msgs:
            o = lr(k, m)
            if len(o) != ml or o in seen:
                viol("Luby-Rackoff collision / length", f"message_length={ml}", {"key": k.hex(), "m": m.hex()})
            seen[o] = m
        for bad in (rb(rng, ml + 1), rb(rng, ml - 1)):
            try:
                lr(k, bad); viol("Luby-Rackoff accepts a wrong message length", "", {})
            except ValueError:
                pass
        try:
            lr(k + b"x", base); viol("Luby-Rackoff accepts a wrong key length", "", {})
        except ValueError:
            pass
    for (ml, kl) in ((3, 24), (4, 25)):
        try:
            HmacLubyRackoffPRP(message_length=ml, key_length=kl)
            viol("Luby-Rackoff construction accepts odd message length / key length not divisible by 3", f"{ml},{kl}", {})
        except ValueError:
            pass
    return res


def search(ctx, broken, res0):
    res = Result()
    ctx.tier = "thorough"
    return oracle(ctx, res)


def replay(ctx, rp):
    from toolkit.symmetric_encryption.fpe import BitwiseFFX
    inp = rp.get("input", {})
    out = {"input": inp, "holds": True}
    if "n" in inp and "x" in inp:
        ffx = BitwiseFFX(); k = bytes.fromhex(inp["key"])
        y = ffx.encrypt(k, mkbits(inp["x"], inp["n"])); z = ffx.decrypt(k, y)
        out["holds"] = len(y) == inp["n"] and (int(z), len(z)) == (inp["x"], inp["n"])
    return out
