"""C09 — end to end: results delivered through the real client and the real server over a websocket equal the local
answer, with the client object re-created from disk between steps and the server restarted after the upload.

Theorems: Props/C09.lean (composition of the extracted client program with the reference server: after ANY history that
ends with the index uploaded, and any server restarts, a search delivers the result of the index built under the key on
disk with a token of that same key).  Tie: translator (client + server IR) and this end-to-end run, which drives the real
`frontend.client.services.service.Service` against the real `frontend.server.connector.handler` in one process for all
nine schemes, from a JSON database as `commands.py` reads it, under every placement of client re-creation / server
restart of the schedule list, and compares (a) the outcome of every step with the model's prediction and (b) every
delivered result with DB.get(w, [])."""
import asyncio
import copy
import json
import os

import common
from common import hx
from run_check import Result
import schemes_env as se
import schemes_check as sk

MODULE = "SSEPyVerif.Props.C09"
LEANCHECK = ["SSEPyVerif.Props.C09"]
TRUSTED = [
    "the client / server interpreters and the AST extractor (validated by C10, C11 and this run)",
    "scheme correctness under one key (C01, C02) and the wire formats (C03) are used as given: in the composed model a result is correct iff the answering index and the token come from the same key",
    "websockets library, asyncio; the server's one-second cleanup delay is put under harness control",
]
ASSUMPTIONS = ["one client, one service at a time (overlap is C12), no crash (C13)"]

STEPS = ["create", "key", "encrypt", "upload_config", "upload_edb"]


def json_db(db):
    """the database as a user writes it: utf-8 keywords, hex identifiers"""
    return {k: [i.hex() for i in v] for k, v in db.items()}


def make_db(name, cfg, rng, prof=None):
    """text keywords (the JSON path needs them), valid for the scheme"""
    ids = cfg.get("param_identifier_size", 8)
    lim = se.kw_limit(name, cfg)
    prof = prof or rng.choice(["mixed", "boundary", "pow2", "many_small", "one", "big_list"])
    raw = se.gen_db(name, cfg, rng, prof)
    db = {}
    for n, (w, v) in enumerate(raw.items()):
        kw = ("kw%d-" % n + "".join(rng.choice("abcdefghijklmnopqrstuvwxyzäß€") for _ in range(rng.randint(0, 3))))
        while len(kw.encode()) > lim:
            kw = kw[:-1]
        if kw.encode() in [k.encode() for k in db] or not kw:
            kw = "k%d" % n
        if n == 0 and name not in ("SSE1", "SSE2"):
            # one keyword longer than any label / key / digest length of the configuration (a URL, a sentence): the schemes built
            # on HMAC set no limit on keywords
            kw = "https://example.org/a/rather/long/keyword/" + kw + "/index.html"
        db[kw] = v
    return db, prof


class E2E:
    def __init__(self, env):
        self.env = env
        self.srv = None
        self.fast = False

    async def start_server(self):
        import frontend_env as fe
        self.srv = fe.Server()
        await self.srv.__aenter__()

    async def stop_server(self):
        if self.srv is not None:
            await self.srv.__aexit__(None, None, None)
            self.srv = None

    async def settle(self):
        import time
        mgr = self.env["connector"]._sse_service_manager
        t0 = time.time()
        while mgr._service_dict and time.time() - t0 < 5:
            await asyncio.sleep(0.002)

    async def net(self, svc, coro_fn):
        try:
            return await coro_fn()
        finally:
            if self.fast:
                # the next step starts while the server's cleanup of this connection is still sleeping
                try:
                    await svc.close_service()
                except Exception:
                    pass
                try:
                    if svc.websocket is not None:
                        await svc.websocket.close()
                except Exception:
                    pass
                return
            try:
                await svc.close_service()
            except Exception:
                pass
            try:
                if svc.websocket is not None:
                    await svc.websocket.close()
            except Exception:
                pass
            await self.settle()

    async def workflow(self, name, cfg, dbj, words, schedule):
        """returns (step outcomes, {word: result list | ('error', ..)})"""
        from toolkit.database_utils import convert_database_keyword_to_bytes
        csvc = self.env["csvc"]
        self.fast = bool(schedule.get("fast"))
        self.env["delay"] = 0.08 if self.fast else 0.0
        out = []
        keep = None                  # a client object kept across the local steps when the schedule says so

        def client(sid):
            nonlocal keep
            if schedule["reuse_local"] and keep is not None:
                return keep
            keep = csvc.Service(sid) if sid else csvc.Service()
            return keep
        sid = None
        for step in STEPS:
            try:
                if step == "create":
                    svc = client(None)
                    sid = svc.handle_create_config(copy.deepcopy(cfg))
                elif step == "key":
                    client(sid).handle_create_key()
                elif step == "encrypt":
                    client(sid).handle_encrypt_database(convert_database_keyword_to_bytes(json.loads(json.dumps(dbj))))
                elif step == "upload_config":
                    svc = csvc.Service(sid)
                    await self.net(svc, lambda: asyncio.wait_for(svc.handle_upload_config(wait=True, wait_callback_func=lambda f: None), 8))
                elif step == "upload_edb":
                    svc = csvc.Service(sid)
                    await self.net(svc, lambda: asyncio.wait_for(svc.handle_upload_encrypted_database(wait=True, wait_callback_func=lambda f: None), 8))
                out.append("ok")
            except Exception as e:
                out.append(f"refused {type(e).__name__}: {str(e)[:80]}")
                return out, {}
            if step in schedule["restart_after"]:
                await self.stop_server()
                await self.start_server()
        results = {}
        for n, w in enumerate(words):
            got = []
            try:
                svc = csvc.Service(sid)
                await self.net(svc, lambda: asyncio.wait_for(svc.handle_keyword_search(w, wait=True, wait_callback_func=lambda f: got.append(f.result())), 6))
                r = svc.sse_module_loader.SSEResult.deserialize(got[0], svc.config_object)
                results[w] = list(r.get_result_list())
            except Exception as e:
                results[w] = ("error", type(e).__name__, str(e)[:80])
            if n in schedule.get("restart_before_search", ()):
                await self.stop_server()
                await self.start_server()
        if self.fast:
            self.fast = False
            self.env["delay"] = 0.0
            await self.settle()
        return out, results


SCHEDULES = [
    dict(name="recreate-every-step", reuse_local=False, restart_after=[]),
    dict(name="recreate-every-step+restart-after-upload", reuse_local=False, restart_after=["upload_edb"]),
    dict(name="one-object-for-local-steps+restart-after-config-and-upload", reuse_local=True, restart_after=["upload_config", "upload_edb"]),
    dict(name="recreate+restart-between-searches", reuse_local=False, restart_after=["upload_edb"], restart_before_search=[0, 1]),
    dict(name="recreate-at-once (every next step starts within the server's cleanup delay)", reuse_local=False, restart_after=[], fast=True),
]


def correspond(ctx):
    import frontend_env as fe
    res = Result()
    env = fe.setup(cleanup_delay=0.0)
    rng = ctx.rng
    try:
        plan = []
        for name in se.NAMES:
            cfgs = se.grid(name, rng, ctx.pick(2, 4))
            for cfg in cfgs:
                scheds = SCHEDULES if ctx.thorough else [SCHEDULES[rng.randrange(2)], SCHEDULES[2 + rng.randrange(2)], SCHEDULES[4]]
                for si, sch in enumerate(scheds):
                    # one workflow per configuration carries a list of 40-90 identifiers (as far as the scheme's capacity allows)
                    db, prof = make_db(name, cfg, rng, "wide" if si == 0 else None)
                    c = se.finalize_cfg(name, cfg, {k.encode(): v for k, v in db.items()})
                    plan.append((name, c, db, prof, sch))

        # one workflow whose largest result exceeds 1 MiB on the wire (the default frame limit of the websockets library on either
        # side): 17 000 identifiers of 64 bytes under one keyword, next to two ordinary keywords
        big_cfg = se.grid("PiBas", rng, 1)[0]
        big_db = {"alpha": [os.urandom(64) for _ in range(3)], "beta": [os.urandom(64)],
                  "big": [i.to_bytes(4, "big") + os.urandom(60) for i in range(17000)]}
        plan.append(("PiBas", se.finalize_cfg("PiBas", big_cfg, {k.encode(): v for k, v in big_db.items()}), big_db, "result>1MiB", SCHEDULES[0]))

        async def main():
            outs = []
            e = E2E(env)
            await e.start_server()
            try:
                bad = 0
                for name, cfg, db, prof, sch in plan:
                    bdb = {k.encode(): v for k, v in db.items()}
                    words = list(bdb) + se.absent_keywords(rng, name, cfg, bdb, n=2)
                    words = [w for w in words if _decodable(w)] or list(bdb)
                    if bad >= 4:
                        outs.append(None)          # enough failing workflows to decide: do not wait out more time-outs
                        continue
                    o, r = await e.workflow(name, cfg, json_db(db), words, sch)
                    outs.append((o, r, words, bdb))
                    if any(not x.startswith("ok") for x in o) or any(isinstance(v, tuple) for v in r.values()) \
                            or any(se.canon_result(name, v) != se.expected(name, bdb, w) for w, v in r.items() if not isinstance(v, tuple)):
                        bad += 1
            finally:
                await e.stop_server()
            return outs
        got = asyncio.run(main())
        # the composed model's prediction: every step accepted, every search answered by index = token key
        lines = []
        for _ in plan:
            lines += ["cli reset", "cli cmd create 1 1", "cli cmd key", "cli cmd encrypt", "cli cmd upload_config", "cli cmd upload_edb", "cli cmd search"]
        mo = ctx.driver.batch(lines)
        it = iter(mo)
        for (name, cfg, db, prof, sch), g in zip(plan, got):
            if g is None:
                for _ in range(7):
                    next(it)
                res.count("workflows skipped after 4 failing ones")
                continue
            (o, r, words, bdb) = g
            next(it)
            model_steps = [next(it)[3:].split(" | ")[0] for _ in range(5)]
            model_search = next(it)[3:].split(" | ")[0]
            res.evaluations += 1
            res.compared += 1
            res.nontrivial.add((name, sch["name"], tuple(len(v) for v in bdb.values())))
            res.count("scheme:" + name); res.count("schedule:" + sch["name"])
            impl_steps = [x.split(" ")[0] for x in o]
            case = {"scheme": name, "schedule": sch["name"], "config": {k: v for k, v in cfg.items() if k != "scheme"}, "database": json_db(db)}
            if impl_steps != [m.split(":")[0] for m in model_steps]:
                res.disagreements.append({"case": f"{name} {sch['name']}", "impl": str(o)[:300], "model": str(model_steps)})
                sk.violation(res, f"{name}: a step of the documented workflow is refused",
                             f"{name} ({sch['name']}, {prof}): steps {o}", case)
                continue
            if not model_search.startswith("result:1,1") and not model_search.startswith("result"):
                res.disagreements.append({"case": f"{name} {sch['name']} search", "impl": "answered", "model": model_search})
            for w in words:
                res.count("searches")
                x = r.get(w)
                exp = se.expected(name, bdb, w)
                gotv = se.canon_result(name, x) if not isinstance(x, tuple) else x
                if gotv != exp:
                    sk.violation(res, f"{name}: the result delivered to the client differs from the local answer"
                                 + (f" ({x[1]})" if isinstance(x, tuple) else ""),
                                 f"{name} ({sch['name']}, {prof}): keyword {w!r}: " +
                                 (f"{x[1]}: {x[2]}" if isinstance(x, tuple) else f"{len(x)} identifiers, expected {len(bdb.get(w, []))}"),
                                 dict(case, keyword=hx(w)))
        res.rule = ("all nine schemes x configurations of the small grid x schedules {client re-created at every step; + server restart after "
                    "the upload; one client object for the local steps + restart after both uploads; restarts between searches}; database given as "
                    "JSON (utf-8 keywords incl. non-ASCII, hex identifiers; one workflow per configuration with a list of 40-90 identifiers; one PiBas workflow with a 17 000-identifier list whose result exceeds 1 MiB on the wire); every stored keyword and two adversarially close absent ones searched; "
                    "non-trivial = distinct (scheme, schedule, list-length vector)")
        for (name, cfg, db, prof, sch) in plan[:2]:
            res.sample({"scheme": name, "schedule": sch["name"], "keywords": list(db)[:3]})
    finally:
        fe.teardown()
    return res


def _decodable(w):
    try:
        w.decode("utf-8")
        return True
    except Exception:
        return True          # the search API takes bytes: any keyword can be searched


def search(ctx, broken, res0):
    return Result()


def replay(ctx, rp):
    return {"holds": False, "note": "re-run the check; scheme, schedule, configuration and JSON database are under 'input'", "input": rp.get("input")}
