"""C12 — overlapping connections to one service id.

Schedules of up to three raw websocket connections (open / requests / close) and of the server's cleanup delay
(a schedulable event: the harness holds every cleanup at its delay and releases them one at a time) are executed
against the real server in one event loop.  Direct oracle: (a) no reply to a connection while an earlier-opened
one is still open, (b) the state a fresh probe is told is >= every acknowledged transition, (c) the acknowledged
index is the one searched.  Correspondence: the same schedules on the Lean manager model (interpreting the
manager steps extracted by the translator)."""
import asyncio
import itertools
import pickle

import common
from run_check import Result, compare

MODULE = "SSEPyVerif.Props.C12"
LEANCHECK = ["SSEPyVerif.Props.C12"]
TRUSTED = [
    "asyncio: code between two awaits is atomic, asyncio.Condition wakes waiters in FIFO order; no true parallelism (one event loop)",
    "the websockets library delivers a connection's frames in order; library-internal frame ordering across connections is not modelled",
]
ASSUMPTIONS = ["at most three connections per schedule in the correspondence (the theorems have no such bound)",
               "the cleanup delay is a harness-controlled event"]


def translate(ctx):
    from translate import frontend_ir
    return frontend_ir.generate(which=("server",))


# ---- schedules ------------------------------------------------------------------------------------------------
# actions: ("open", j) ("req", j, kind, arg) ("close", j) ("cleanup",)  — cleanup = release one held cleanup delay
def gen_schedule(rng, nconn):
    scripts = []
    for j in range(nconn):
        sc = [("open", j)]
        for _ in range(rng.randint(0, 2)):
            sc.append(("req", j) + rng.choice([("config", 1), ("upload", j % 2 + 1), ("upload", 1), ("search", 1)]))
        sc.append(("close", j))
        scripts.append(sc)
    # useful bias: connection 0 does the whole workflow
    if rng.random() < 0.6:
        scripts[0] = [("open", 0), ("req", 0, "config", 1), ("req", 0, "upload", 1)] + ([("req", 0, "search", 1)] if rng.random() < 0.4 else []) + [("close", 0)]
    pos = [0] * nconn
    sched = []
    pending_cleanups = 0
    while any(pos[j] < len(scripts[j]) for j in range(nconn)) or pending_cleanups:
        choices = [j for j in range(nconn) if pos[j] < len(scripts[j])]
        # connections open in index order (the property speaks about earlier-/later-opened connections)
        choices = [j for j in choices if scripts[j][pos[j]][0] != "open" or all(pos[i] > 0 for i in range(j))]
        opts = [("c", j) for j in choices] + ([("cleanup",)] * (2 if pending_cleanups else 0))
        if not opts:
            break
        o = rng.choice(opts)
        if o[0] == "cleanup":
            sched.append(("cleanup",)); pending_cleanups -= 1
        else:
            a = scripts[o[1]][pos[o[1]]]
            pos[o[1]] += 1
            sched.append(a)
            if a[0] == "close":
                pending_cleanups += 1
    return sched


def directed_schedules(rng):
    """shapes the random generator reaches rarely: the SERVED connection is killed by a refused request while another one is
    queued behind it and a third arrives later (an early or a double release of the registry entry shows only then); a
    connection that opens inside the clean-up delay of its predecessor and is still open when a third arrives (a clean-up that
    removes the entry by service id instead of by connection shows only then).  The clean-up event is moved around."""
    O, R, C, CL = (lambda j: ("open", j)), (lambda j, k, a: ("req", j, k, a)), (lambda j: ("close", j)), ("cleanup",)
    base = [
        [O(0), O(1), R(0, "search", 1), R(1, "config", 1), CL, O(2), R(1, "upload", 1), R(2, "upload", 2), C(1), CL, C(2), CL],
        [O(0), O(1), R(0, "upload", 1), R(1, "config", 1), CL, O(2), R(1, "upload", 1), R(2, "upload", 2), C(1), CL, C(2), CL],
        [O(0), R(0, "config", 1), O(1), R(0, "config", 1), R(1, "upload", 1), CL, O(2), R(2, "upload", 2), R(1, "search", 1), C(1), CL, C(2), CL],
        [O(0), R(0, "config", 1), C(0), O(1), CL, O(2), R(1, "upload", 1), R(2, "upload", 2), C(1), CL, C(2), CL],
        [O(0), R(0, "config", 1), C(0), O(1), R(1, "upload", 1), CL, O(2), R(2, "upload", 2), R(2, "search", 1), C(2), CL, C(1), CL],
        [O(0), R(0, "config", 1), R(0, "upload", 1), C(0), O(1), O(2), CL, R(1, "search", 1), R(2, "upload", 2), C(1), CL, C(2), CL],
    ]
    out = []
    for b in base:
        out.append(list(b))
        i = b.index(CL)
        for d in (1, 2):                      # the first clean-up one / two actions later
            if i + d < len(b) and b[i + d] != CL:
                v = list(b); v.pop(i); v.insert(i + d, CL); out.append(v)
    return out


def line(a):
    return "mgr " + " ".join(str(x) for x in a)


# ---- execution on the real server ----------------------------------------------------------------------------
class Gate:
    """holds every cleanup at its delay; `release()` lets exactly one continue"""

    def __init__(self, fe):
        self.fe = fe
        self.tokens = 0
        fe._env["gate_fn"] = self.wait

    async def wait(self):
        self.fe._env["gate_sleepers"] = self.fe._env.get("gate_sleepers", 0) + 1
        try:
            while self.tokens <= 0:
                await asyncio.sleep(0.001)
            self.tokens -= 1
        finally:
            self.fe._env["gate_sleepers"] -= 1

    def release(self):
        self.tokens += 1


async def run_schedule(fe, fx, srv, sid, sched, expect=None, settle=0.004):
    import srvproto
    conns, readers, logs = {}, {}, {}
    step = [0]
    gate = fe._env["gate"]

    async def reader(j):
        c = conns[j]
        while True:
            m = await c.recv(30)
            o = srvproto.parse_msg(fx, m)
            if o == "timeout":
                continue
            logs[j].append((step[0], o))
            if o == "closed":
                return

    trace = []
    for i, a in enumerate(sched):
        step[0] = i
        if a[0] == "open":
            j = a[1]
            c = fe.RawConn(srv.port, sid)
            import websockets
            c.ws = await websockets.connect(f"ws://localhost:{srv.port}", max_size=None)
            await c.ws.send(pickle.dumps({"type": "init", "sid": sid}))
            conns[j] = c; logs[j] = []
            readers[j] = asyncio.ensure_future(reader(j))
        elif a[0] == "req":
            j, kind, arg = a[1], a[2], a[3]
            c = conns[j]
            try:
                if kind == "config":
                    await c.send("config", pickle.dumps(fx.c[arg]))
                elif kind == "upload":
                    await c.send("upload_edb", fx.e[arg])
                elif kind == "search":
                    await c.send("token", fx.t[arg], token_digest=b"d")
            except Exception:
                pass
        elif a[0] == "close":
            await conns[a[1]].close()
        elif a[0] == "cleanup":
            gate.release()
        await asyncio.sleep(settle)
        if expect is not None:
            # wait until the real manager has reached the state the model predicts after this action
            want = expect[i]
            mgr = fe._env["connector"]._sse_service_manager
            t = 0.0
            while t < 1.5:
                reg = sid in mgr._service_dict
                q = len(mgr._waiting_dict.get(sid, [])) if hasattr(mgr, "_waiting_dict") else 0
                cl = fe._env.get("gate_sleepers", 0) > 0
                nout = [len([o for _, o in logs.get(j, []) if o != "closed" and not o.startswith("refused:")]) for j in sorted(logs)]
                if f"reg={str(reg).lower()} q={q} cl={str(cl).lower()} n={nout}".replace(" ", "") == want.replace(" ", ""):
                    break
                await asyncio.sleep(0.003); t += 0.003
    # drain: let every cleanup finish
    step[0] = len(sched)
    for _ in range(40):
        gate.release()
        await asyncio.sleep(0.004)
    await srvproto.wait_deregistered(sid, timeout=3)
    for r in readers.values():
        r.cancel()
    # probe
    gate.tokens = 10 ** 6
    p = fe.RawConn(srv.port, sid)
    first = srvproto.parse_msg(fx, await p.open())
    probe = [first]
    if first == "init:2":
        await p.send("token", fx.t[1], token_digest=b"d")
        probe.append(srvproto.parse_msg(fx, await p.recv(3)))
    await p.close()
    await srvproto.wait_deregistered(sid, timeout=3)
    gate.tokens = 0
    return logs, probe, srvproto.impl_disk(fx, sid)


def evaluate(sched, logs, probe):
    """the property on one executed schedule; returns a list of (signature, what)"""
    out = []
    open_at, close_at = {}, {}
    for i, a in enumerate(sched):
        if a[0] == "open":
            open_at[a[1]] = i
        if a[0] == "close":
            close_at[a[1]] = i
    acked_state = 0
    acked_edb = None
    for j, lg in logs.items():
        for (t, o) in lg:
            if o.startswith("ok:") or o.startswith("result:"):
                # (a) an earlier-opened connection still open when j was answered?
                for i in open_at:
                    if i < j and open_at[i] < t and close_at.get(i, 10 ** 9) >= t and not any(x == "closed" and tt <= t for tt, x in logs[i]):
                        out.append(("(a) a later connection was answered while an earlier one was still open",
                                    f"connection {j} got '{o}' at step {t} while connection {i} (opened at {open_at[i]}) was still open"))
                if o == "ok:config":
                    acked_state = max(acked_state, 1)
                if o == "ok:upload_edb":
                    acked_state = max(acked_state, 2)
    # which index was acknowledged (the first acknowledged upload, by request order)
    ups = []
    for j, lg in logs.items():
        reqs = [a for a in sched if a[0] == "req" and a[1] == j]
        k = 0
        answers = [o for _, o in lg if not o.startswith("init") and o != "control"]
        for a, o in zip(reqs, answers):
            if a[2] == "upload" and o == "ok:upload_edb":
                ups.append(a[3])
    # (b) for EVERY connection of the schedule, not only the final probe: the state its init echo reports is >= every state
    # whose transition had been acknowledged before it was opened (a connection opened while another one is still open or
    # being cleaned up is a fresh connection too)
    acks = sorted((t, 1 if o == "ok:config" else 2) for lg in logs.values() for (t, o) in lg if o in ("ok:config", "ok:upload_edb"))
    for j, lg in logs.items():
        inits = [(t, o) for (t, o) in lg if o.startswith("init:")]
        if not inits or j not in open_at:
            continue
        told = int(inits[0][1].split(":")[1])
        before = max([st for (t, st) in acks if t < open_at[j]], default=0)
        if told < before:
            out.append(("(b) the durable state moved backwards",
                        f"state {before} had been acknowledged before connection {j} was opened (step {open_at[j]}), its init echo reports {told}"))
    pst = int(probe[0].split(":")[1]) if probe and probe[0].startswith("init:") else -1
    if pst < acked_state:
        out.append(("(b) the durable state moved backwards", f"acknowledged state {acked_state}, a fresh probe is told {pst}"))
    if len(set(ups)) > 1:
        out.append(("(b) an acknowledged index was replaced", f"uploads {ups} were all acknowledged"))
    if ups and len(probe) > 1 and probe[1] != f"result:_,{ups[0]},1":
        out.append(("(c) the acknowledged index is not the one searched", f"acknowledged e{ups[0]}, probe search gives {probe[1]}"))
    return out


def run_all(ctx, scheds, expects=None):
    import frontend_env as fe
    import srvproto
    env = fe.setup(cleanup_delay=0.0)
    results = []
    try:
        fx = srvproto.Fixture()
        sm = env["sm"]

        async def main():
            gate = Gate(fe)
            env["gate"] = gate

            async def gated_sleep(t, *a, **k):
                await gate.wait()
            sm.asyncio.sleep = gated_sleep            # instance attribute shadows the proxy's default sleep
            async with fe.Server() as srv:
                import time as _t
                slow = 0
                guided = True
                for i, s in enumerate(scheds):
                    t0 = _t.time()
                    results.append(await run_schedule(fe, fx, srv, f"ov{i:05d}", s, expects[i] if (expects and guided) else None))
                    # a run that waits out its time-outs means the implementation left the model's path: after a handful of
                    # those the remaining schedules are executed WITHOUT waiting for the states the model predicts (fixed
                    # settling time per step) — the property is evaluated on what was actually observed either way
                    slow = slow + 1 if (_t.time() - t0) > 2.5 else 0        # consecutive slow runs only
                    if slow >= 3:
                        guided = False
        asyncio.run(main())
    finally:
        fe.teardown()
    return results


def impl_dump(sched, logs, probe, disk):
    n = 1 + max([a[1] for a in sched if a[0] == "open"], default=-1)
    parts = []
    for j in range(n):
        obs = [o for _, o in logs.get(j, []) if o != "closed" and not o.startswith("refused:")]
        parts.append(f"{j}:" + ",".join(obs))
    parts.append(f"{n}:" + ",".join(o for o in probe if o != "closed" and not o.startswith("refused:")))
    return "ok " + "|".join(parts) + " # " + disk[3:]


def model_lines(sched):
    n = 1 + max([a[1] for a in sched if a[0] == "open"], default=-1)
    L = ["mgr reset"] + [line(a) for a in sched] + ["mgr drain", f"mgr open {n}", f"mgr req {n} search 1", "mgr dump"]
    return L


def correspond(ctx):
    import srvproto
    rng = ctx.rng
    res = Result()
    scheds = []
    for _ in range(ctx.pick(120, 2500)):
        scheds.append(gen_schedule(rng, rng.choice([2, 2, 3])))
    scheds += directed_schedules(rng)
    # the Lean manager model runs first (eager internal steps, cleanup delay released by the schedule); its
    # predicted manager state after every action tells the harness when the real server has caught up
    lines, marks, st_marks = [], [], []
    for s in scheds:
        lines.append("mgr reset")
        sm = []
        for a in s:
            lines.append(line(a)); lines.append("mgr state"); sm.append(len(lines) - 1)
        n = 1 + max([a[1] for a in s if a[0] == "open"], default=-1)
        lines += ["mgr drain", f"mgr open {n}", f"mgr req {n} search 1", "mgr dump"]
        marks.append(len(lines) - 1); st_marks.append(sm)
    outs = ctx.driver.batch(lines)
    model = [srvproto.canon_results(outs[m]) for m in marks]
    expects = [[outs[k][3:] for k in sm] for sm in st_marks]
    results = run_all(ctx, scheds, expects)
    impl = [impl_dump(s, logs, probe, disk) for s, (logs, probe, disk) in zip(scheds, results)]
    # replies are sent by fire-and-forget tasks: when a handler raises, replies queued just before it can be lost with
    # the connection.  For a connection the server killed (marked `!` by the model) the client's view must be a prefix
    # of the model's; everything else must be equal.
    norm = []
    for a, b in zip(impl, model):
        try:
            ia, da = a[3:].split(" # "); mb, db = b[3:].split(" # ")
            ca, cb = ia.split("|"), mb.split("|")
            ok = da == db and len(ca) == len(cb)
            if ok:
                for x, y in zip(ca, cb):
                    jx, ox = x.split(":", 1); jy, oy = y.split(":", 1)
                    if jy.endswith("!"):
                        ok = ok and oy.startswith(ox) and jy[:-1] == jx
                    else:
                        ok = ok and (jx, ox) == (jy, oy)
            norm.append(b if ok else a)
        except Exception:
            norm.append(a)
    compare(res, [" ; ".join(" ".join(map(str, a)) for a in s) for s in scheds], norm, model)
    results = [(l, p) for (l, p, d) in results]
    for s, (logs, probe) in zip(scheds, results):
        res.evaluations += 1
        res.nontrivial.add(tuple(s))
        for a in s:
            res.count("action:" + a[0])
        for sig, what in evaluate(s, logs, probe):
            if not any(v["signature"] == sig for v in res.violations):
                res.violations.append({"signature": sig, "what": what,
                                       "input": {"schedule": [list(a) for a in s], "logs": {str(j): l for j, l in logs.items()}, "probe": probe}})
    # the same shapes with MORE clean-up releases than connections have ended so far (a manager that releases an entry twice
    # consumes them): outside what the Lean model's schedule alphabet expresses, so these are judged by the three clauses of the
    # property alone (mutual exclusion, durable state never backwards, the acknowledged index is the one searched)
    extra = []
    for b in directed_schedules(rng):
        i = b.index(("cleanup",))
        for pos in (i + 1, i + 2, i + 3):
            if pos <= len(b):
                v = list(b); v.insert(pos, ("cleanup",)); extra.append(v)
    for s, (logs, probe, _d) in zip(extra, run_all(ctx, extra)):
        res.evaluations += 1
        res.count("schedules with surplus clean-up releases")
        for sig, what in evaluate(s, logs, probe):
            if not any(v["signature"] == sig for v in res.violations):
                res.violations.append({"signature": sig, "what": what + " (schedule with a surplus clean-up release)",
                                       "input": {"schedule": [list(a) for a in s], "logs": {str(j): l for j, l in logs.items()}, "probe": probe}})
    for s, (logs, probe) in list(zip(scheds, results))[:3]:
        res.sample({"schedule": [" ".join(map(str, a)) for a in s], "replies": {str(j): [o for _, o in l] for j, l in logs.items()}, "probe": probe})
    res.rule = ("random interleavings of 2..3 connections on one service id, each with a script of up to 2 requests "
                "(config, upload e1/e2, search) then close, connection 0 often running the whole workflow, with the server's "
                "cleanup delay as a schedulable event, plus directed schedules (the served connection killed by a refused request with one connection queued and a third arriving later; a connection opened inside its predecessor's clean-up delay and still open when a third arrives; the clean-up event moved around); each followed by a probe connection; non-trivial = distinct schedules")
    return res


def search(ctx, broken, res0):
    return Result()


def replay(ctx, rp):
    s = [tuple(a) for a in rp["input"]["schedule"]]
    (logs, probe, _disk), = run_all(ctx, [s])
    v = evaluate(s, logs, probe)
    return {"holds": not v, "violations": v, "probe": probe}
