"""C10 — server state machine: translator (Generated/ServerIR.lean) + correspondence of the IR interpreter with
the real connection handler over a loopback websocket, on all message sequences up to a depth; direct oracle =
the 3-state reference machine written out below."""
import asyncio
import itertools
import os

import common
from run_check import Result, compare

MODULE = "SSEPyVerif.Props.C10"
LEANCHECK = ["SSEPyVerif.Props.C10", "SSEPyVerif.Proofs.Server", "SSEPyVerif.Model.ServerIR", "SSEPyVerif.Generated.ServerIR"]
TRUSTED = [
    "the AST extractor harness/translate/frontend_ir.py (pattern table statement -> IR op; unrecognised statements become `.unknown`) and the interpreter's reading of each IR op — validated against the real handler by this correspondence",
    "asyncio run-to-next-await atomicity and the `websockets` library; a raising handler closes the connection with code 1011 and an undelivered refusal reply (canonicalised on both sides)",
    "configurations, indexes and tokens are opaque in the model; the scheme's Search is the leaf `searchOf cfg edb tok` (C01..C03 cover it)",
]
ASSUMPTIONS = ["one service id is driven by consecutive (non-overlapping) connections here; overlapping connections are C12",
               "the server's one-second cleanup delay is replaced by a harness-controlled awaitable (the order of steps is unchanged)"]

ALPHABET = [("config", 1), ("config", 2), ("upload", 1), ("upload", 2), ("search", 1), ("reconnect",), ("reconnect_fast",),
            ("foreign",), ("unknown",)]
EXTRA = [("config", "X"), ("search", "X"), ("notype",), ("nosid",)]
PROBE = [("reconnect",), ("search", 1)]


def translate(ctx):
    from translate import frontend_ir
    return frontend_ir.generate(which=("server",))


def reference(seq):
    """the 3-state reference machine (independent of the Lean model): per event the canonical observations"""
    state, cfg, edb, alive = 0, None, None, False
    out = []
    for ev in seq:
        o = []
        if ev[0] in ("reconnect", "reconnect_fast") or not alive:
            o.append(f"init:{state}"); alive = True
            if ev[0] in ("reconnect", "reconnect_fast"):
                out.append(o); continue
        k = ev[0]
        if k in ("foreign", "notype", "nosid"):
            pass
        elif k == "unknown":
            o.append("closed"); alive = False
        elif k == "config":
            if state != 0 or ev[1] in ("X", "J"):
                o.append("closed"); alive = False
            else:
                state, cfg = 1, ev[1]; o.append("ok:config")
        elif k == "upload":
            if state != 1 or ev[1] == "J":
                o.append("closed"); alive = False
            else:
                state, edb = 2, ev[1]; o.append("ok:upload_edb")
        elif k == "search":
            if state != 2 or ev[1] == "X":
                o.append("closed"); alive = False
            else:
                o.append(f"result:_,{edb},{ev[1]}")
        out.append(o)
    return out


def sequences(ctx):
    rng = ctx.rng
    depth = ctx.pick(3, 4)
    seqs = [list(s) for d in range(1, depth + 1) for s in itertools.product(ALPHABET, repeat=d)]
    n_exh = len(seqs)
    for _ in range(ctx.pick(250, 3000)):
        d = rng.randint(depth + 1, 9)
        seqs.append([rng.choice(ALPHABET + EXTRA if rng.random() < 0.3 else ALPHABET) for _ in range(d)])
    return seqs, n_exh, depth


async def run_impl(fx, seqs, expected):
    import frontend_env as fe
    import srvproto
    results = [None] * len(seqs)
    async with fe.Server() as srv:
        sem = asyncio.Semaphore(48)
        bad = [0]

        async def one(i, gated=False):
            async with sem:
                sess = srvproto.Session(fx, srv.port, f"sid{i:06d}")
                sess.gated = gated
                if gated:
                    fe._env["gate_closed"] = True
                obs = []
                try:
                    for ev, exp in zip(seqs[i] + PROBE, expected[i]):
                        if bad[0] >= 40:                       # enough disagreements to report: do not wait out the rest
                            obs.append(["skipped"]); continue
                        got = await sess.event(ev, exp)
                        obs.append(srvproto.canon(got))
                        if obs[-1] != list(exp):
                            bad[0] += 1
                            if "timeout" in got:
                                break                            # the rest of this sequence would only time out again
                    extra = await sess.drain() if bad[0] < 40 else []
                    if extra:
                        obs[-1] = obs[-1] + ["EXTRA:" + ",".join(extra)]
                finally:
                    await sess.finish()
                obs.append([srvproto.impl_disk(fx, sess.sid)])
                results[i] = obs
        fast = [i for i in range(len(seqs)) if any(ev[0] == "reconnect_fast" for ev in seqs[i])]
        await asyncio.gather(*[one(i) for i in range(len(seqs)) if i not in set(fast)])
        for i in fast:           # these hold the (global) cleanup gate: one at a time
            await one(i, gated=True)
        fe._env["gate_closed"] = False
    return results


def correspond(ctx):
    import frontend_env as fe
    import srvproto
    res = Result()
    fe.setup(cleanup_delay=0.0)
    try:
        fx = srvproto.Fixture()
        seqs, n_exh, depth = sequences(ctx)
        # model first: its predictions tell the harness how many messages to wait for
        lines, idx = [], []
        for s in seqs:
            lines.append("srv reset")
            for ev in s + PROBE:
                idx.append(len(lines)); lines.append(srvproto.ev_line(ev))
            lines.append("srv disk")
        outs = [srvproto.canon_results(o) for o in ctx.driver.batch(lines)]
        disk_model = [o for l, o in zip(lines, outs) if l == "srv disk"]
        it = iter(idx)
        expected = []
        for s in seqs:
            e = []
            for ev in s + PROBE:
                o = outs[next(it)]
                e.append(srvproto.canon([] if o in ("ok -", "ok") else o[3:].split(" ")))
            expected.append(e)
        # how many messages to wait for after each event is decided by the INDEPENDENT 3-state reference, not by the Lean model:
        # a model that mispredicts (e.g. after a harmless edit the extractor does not understand) must not distort what is
        # observed of the implementation
        waits = [[list(o) for o in reference(s + PROBE)] for s in seqs]
        got = asyncio.run(run_impl(fx, seqs, waits))
        disk_impl = [g.pop()[0] for g in got]
        cases = [" ; ".join(" ".join(map(str, ev)) for ev in s) for s in seqs]
        impl_l = [" | ".join(",".join(o) or "-" for o in g) for g in got]
        model_l = [" | ".join(",".join(o) or "-" for o in e) for e in expected]
        compare(res, cases, impl_l, model_l)
        compare(res, ["final disk after: " + c for c in cases], disk_impl, disk_model)
        res.evaluations += len(seqs)
        res.exhaustive = False
        res.extra["exhaustive_depth"] = depth
        res.extra["exhaustive_sequences"] = n_exh
        for s, g in zip(seqs, got):
            res.nontrivial.add(tuple(tuple(o) for o in g))
            for ev in s:
                res.count("event:" + ev[0])
        for i in (0, len(seqs) // 2, len(seqs) - 1):
            res.sample({"events": cases[i], "impl": impl_l[i], "model": model_l[i]})
        res.rule = (f"ALL sequences of length 1..{depth} over {{config(c1), config(c2), upload(e1), upload(e2), search(t), reconnect (after / before the previous cleanup), "
                    f"foreign-sid, unknown-type}} ({n_exh} sequences) + random longer ones incl. unpicklable config, malformed token, "
                    "messages without type / sid; each followed by a probe (reconnect, search); executed against the real handler "
                    "over a loopback websocket with a real PiBas index; non-trivial = distinct observable traces")
        # direct oracle: the implementation's trace against the reference machine
        for s, g, c in zip(seqs, got, cases):
            ref = reference(s + PROBE)
            if any(x == ["skipped"] for x in g):
                continue                    # not executed to the end (enough deviations were already on record)
            if [list(x) for x in g] != ref:
                if not any(v["signature"] == "trace differs from the 3-state reference machine" for v in res.violations):
                    res.violations.append({"signature": "trace differs from the 3-state reference machine",
                                           "what": f"events [{c}] + probe: observed {g} expected {ref}",
                                           "input": {"events": [list(e) for e in s]}})
        # beyond the model's alphabet, against the reference machine only: a configuration the handler accepts, starts to
        # store and then cannot store (JSON cannot encode a bytes value).  It is a refused request: nothing may change.
        rng = ctx.rng
        seqs2 = []
        for _ in range(ctx.pick(40, 400)):
            bad = [("config", "J"), ("upload", "J")]
            s2 = [rng.choice(ALPHABET) for _ in range(rng.randint(0, 3))] + [rng.choice(bad)] + \
                 [rng.choice(ALPHABET + bad) for _ in range(rng.randint(1, 5))]
            seqs2.append(s2)
        # several DIFFERENT tokens on one ready service, over one or several connections, with the (client-chosen, unchecked)
        # digest field equal for all of them, missing, or the token's own digest: every result must be Search(accepted index, the
        # token of THIS request)
        for _ in range(ctx.pick(40, 300)):
            e = rng.choice([1, 2])
            s2 = [("config", rng.choice([1, 2])), ("upload", e)]
            for _ in range(rng.randint(2, 6)):
                if rng.random() < 0.25:
                    s2.append(("reconnect",))
                s2.append(("search", rng.choice([1, 2]), rng.choice(["same", "same", "none", "own"])))
            seqs2.append(s2)
        waits2 = [[list(o) for o in reference(s + PROBE)] for s in seqs2]
        fe.teardown(); fe.setup(cleanup_delay=0.0)
        fx2 = srvproto.Fixture()
        got2 = asyncio.run(run_impl(fx2, seqs2, waits2))
        for s2, g in zip(seqs2, got2):
            g.pop()
            res.evaluations += 1
            res.count("half-stored configuration sequences")
            if any(x == ["skipped"] for x in g):
                continue
            ref = reference(s2 + PROBE)
            if [list(x) for x in g] != ref:
                if not any(v["signature"] == "trace differs from the 3-state reference machine" for v in res.violations):
                    c2 = " ; ".join(" ".join(map(str, ev)) for ev in s2)
                    res.violations.append({"signature": "trace differs from the 3-state reference machine",
                                           "what": f"events [{c2}] + probe (config J / upload J = a configuration / an index the handler starts to store and cannot; search <token> <digest mode>): observed {g} expected {ref}",
                                           "input": {"events": [list(e) for e in s2]}})
        # requests sent BACK TO BACK (a client need not wait for a reply) with indexes of more than 1 MiB (handlers that hand
        # large writes to another thread stay in the old state meanwhile): the server processes them in order, so the
        # outcome is the reference machine's - judged by what a later connection is told and answered
        fe.teardown(); fe.setup(cleanup_delay=0.0)
        asyncio.run(pipelined_big(res, srvproto.Fixture()))
    finally:
        fe.teardown()
    return res


async def pipelined_big(res, fx):
    import pickle
    import frontend_env as fe
    import schemes
    loader = schemes.load_sse_module("CJJ14.PiBas")
    sch = loader.SSEScheme(fx.c[1])
    key = sch.KeyGen()
    big = {}
    for n, first in ((1, b"\x11"), (2, b"\x22")):
        db = {fx.kw: [first * 64], **{b"w%05d" % i: [i.to_bytes(64, "big")] for i in range(1, 9500)}}
        big[n] = sch.EDBSetup(key, db).serialize()
    tok = sch.TokenGen(key, fx.kw).serialize()
    cfgobj = loader.SSEConfig(fx.c[1])
    answers = {sch.Search(loader.SSEEncryptedDatabase.deserialize(big[n], cfgobj), loader.SSEToken.deserialize(tok, cfgobj)).serialize(): n
               for n in big}
    scenarios = [("upload(E1) upload(E2) back to back", [("upload_edb", big[1]), ("upload_edb", big[2])], 1),
                 ("upload(E2) upload(E1) back to back", [("upload_edb", big[2]), ("upload_edb", big[1])], 2),
                 ("upload(E1) search(t) back to back", [("upload_edb", big[1]), ("token", tok)], 1)]
    async with fe.Server() as srv:
        for si, (name, msgs, expect) in enumerate(scenarios):
            sid = f"pipelined{si}"
            c = fe.RawConn(srv.port, sid)
            await c.open()                                     # returns the init echo
            await c.send("config", pickle.dumps(fx.c[1]))
            await c.recv(10)
            for mt, content in msgs:                           # no waiting in between
                await c.send(mt, content, **({"token_digest": b"d"} if mt == "token" else {}))
            seen = []
            for _ in range(len(msgs)):
                m = await c.recv(20)
                seen.append(m)
                if isinstance(m, tuple):
                    break
            await c.close()
            await srvproto_wait_dereg(sid)
            # what a later connection is told and answered
            c2 = fe.RawConn(srv.port, sid)
            first = await c2.open()
            import srvproto
            state = None
            for n_try in range(6):
                o = srvproto.parse_msg(fx, first if n_try == 0 else await c2.recv(10))
                if o.startswith("init:"):
                    state = int(o[5:]) if o[5:].isdigit() else o[5:]
                    break
                if o != "control":
                    break
            await c2.send("token", tok, token_digest=b"d2")
            r = await c2.recv(20)
            while isinstance(r, dict) and r.get("type") == "control":
                r = await c2.recv(20)
            await c2.close()
            got = answers.get(r.get("content")) if isinstance(r, dict) and r.get("type") == "result" else None
            res.evaluations += 1
            res.count("pipelined large-index scenarios")
            direct = None
            if msgs[-1][0] == "token":
                direct = [answers.get(m.get("content")) for m in seen if isinstance(m, dict) and m.get("type") == "result"]
            if state != 2 or got != expect or (direct is not None and direct not in ([expect], [])):
                if not any(v["signature"] == "pipelined requests: outcome differs from the 3-state reference machine" for v in res.violations):
                    res.violations.append({"signature": "pipelined requests: outcome differs from the 3-state reference machine",
                                           "what": f"config, then {name} (indexes of {len(big[1]) // 1024} KiB): a later connection is told state {state} and "
                                                   f"its search is answered from index {got}; the first accepted index is E{expect}"
                                                   + (f"; the pipelined search was answered from {direct}" if direct is not None else ""),
                                           "input": {"scenario": name, "index_bytes": len(big[1])}})


async def srvproto_wait_dereg(sid):
    import srvproto
    await srvproto.wait_deregistered(sid)


def search(ctx, broken, res0):
    return Result()     # the correspondence already evaluated the reference machine on every explored sequence


def replay(ctx, rp):
    import frontend_env as fe
    import srvproto
    fe.setup()
    try:
        fx = srvproto.Fixture()
        seq = [tuple(e) for e in rp["input"]["events"]]
        ref = reference(seq + PROBE)
        got = asyncio.run(run_impl(fx, [seq], [ref]))[0]
        got.pop()
        return {"events": seq, "observed": got, "reference": ref, "holds": [list(x) for x in got] == ref}
    finally:
        fe.teardown()
