"""C14 — AESxCBC wrapper: correspondence Model/Cbc.lean <-> toolkit/symmetric_encryption/aes.py with the AES block
function recorded (AES-ECB of the same `cryptography` package) and os.urandom replaced by known IVs; direct oracle."""
import os

import common
from common import hx, call
from run_check import Result, compare

common.ensure_repo_on_path()

MODULE = "SSEPyVerif.Props.C14"
LEANCHECK = ["SSEPyVerif.Props.C14", "SSEPyVerif.Proofs.Cbc", "SSEPyVerif.Model.Cbc"]
TRUSTED = [
    "leaf (not modelled): the AES block function of the `cryptography` package, recorded via AES-ECB and replayed as tables; assumed in the theorems: blockDec k (blockEnc k x) = x and 16-byte outputs",
    "modelled from their documentation, validated only by the correspondence: PKCS7 padder/unpadder and CBC chaining of `cryptography`",
    "outside any theorem (AES behaviour): 'decryption under a different key never returns the original message' — sampled as a labelled test",
]
ASSUMPTIONS = ["os.urandom(16) supplies the IV; freshness of two IVs is a property of the OS RNG (the theorem is: different IVs give different ciphertexts)"]
MISS_HEX = "4d495353212121"


def ecb(key, block, enc=True):
    from cryptography.hazmat.primitives.ciphers import Cipher, algorithms, modes
    c = Cipher(algorithms.AES(key), modes.ECB())
    o = c.encryptor() if enc else c.decryptor()
    return o.update(block) + o.finalize()


def rb(rng, n):
    return bytes(rng.getrandbits(8) for _ in range(n))


class FixedUrandom:
    def __init__(self, values):
        self.values = list(values)
        self.orig = os.urandom

    def __enter__(self):
        def ur(n):
            if self.values and len(self.values[0]) == n:
                return self.values.pop(0)
            return self.orig(n)
        os.urandom = ur
        import secrets
        self.orig_tb = secrets.token_bytes
        secrets.token_bytes = lambda n=32: ur(n)      # the same draw, should the wrapper use `secrets`
        return self

    def __exit__(self, *a):
        os.urandom = self.orig
        import secrets
        secrets.token_bytes = self.orig_tb


def pad(m):
    p = 16 - len(m) % 16
    return m + bytes([p]) * p


def xor(a, b):
    return bytes(x ^ y for x, y in zip(a, b))


def correspond(ctx):
    import toolkit.symmetric_encryption as se
    rng = ctx.rng
    res = Result()
    tbl = {}
    reqs, impl = [], []
    AES = se.get_symmetric_encryption_implementation(rng.choice(["AES-CBC", "aes_cbc", "AESCBC"]))

    def rec_enc(key, iv, msg, ct):
        prev = iv
        p = pad(msg)
        for i in range(0, len(p), 16):
            x = xor(p[i:i + 16], prev)
            c = ecb(key, x, True)
            tbl[("aesenc", key, x)] = c
            prev = c

    def rec_dec(key, ct):
        body = ct[16:]
        if len(key) in (16, 24, 32):
            for i in range(0, len(body) - len(body) % 16, 16):
                tbl[("aesdec", key, body[i:i + 16])] = ecb(key, body[i:i + 16], False)

    def enc_case(kl, cl, ml, key, iv, msg):
        reqs.append(f"aes enc {kl} {cl} {ml} {hx(key)} {hx(iv)} {hx(msg)}")
        with FixedUrandom([iv]):
            out = [None]

            def f():
                out[0] = AES(key_length=kl, cipher_length=cl, message_length=ml).Encrypt(key, msg)
                return out[0]
            impl.append(call(f, hx))
        if out[0] is not None:
            rec_enc(key, iv, msg, out[0])
        return out[0]

    def dec_case(kl, cl, ml, key, ct):
        reqs.append(f"aes dec {kl} {cl} {ml} {hx(key)} {hx(ct)}")
        rec_dec(key, ct)
        impl.append(call(lambda: AES(key_length=kl, cipher_length=cl, message_length=ml).Decrypt(key, ct), hx))

    lens = list(range(0, 81)) + [rng.randint(81, 400) for _ in range(ctx.pick(20, 600))]
    # long messages around buffer-sized boundaries (a padded length that is an exact multiple of 1 KiB / 4 KiB / 8 KiB)
    lens += [B - d for B in (1024, 4096, 8192) for d in rng.sample(range(0, 18), ctx.pick(2, 6))] + [4096, 8192 + rng.randint(1, 40)]
    for kl in (16, 24, 32):
        for n in (lens if ctx.thorough or kl == 16 else lens[::3]):
            key, iv, msg = rb(rng, kl), rb(rng, 16), rb(rng, n)
            ct = enc_case(kl, -1, -1, key, iv, msg)
            res.count(f"enc:len%16={n % 16 == 0}")
            if ct is None:
                continue
            dec_case(kl, -1, -1, key, ct)
            r = rng.random()
            if r < 0.25:     # wrong key: model (with the recorded block function) and code must agree on the outcome
                dec_case(kl, -1, -1, rb(rng, kl), ct)
                res.count("dec:wrong-key")
            elif r < 0.5:    # tampered / truncated ciphertexts
                bad = rng.choice([ct[:-1], ct[:16], ct[:15], ct[:rng.randint(0, len(ct))], b"",
                                  ct[:-1] + bytes([ct[-1] ^ rng.randint(1, 255)]), ct + rb(rng, 16)])
                dec_case(kl, -1, -1, key, bad)
                res.count("dec:malformed")
            elif r < 0.75:   # declared lengths, matching and mismatching
                cl = rng.choice([len(ct), len(ct) + 16, 16, 0])
                ml = rng.choice([n, n + 1, 0])
                k2 = rng.choice([key, key + b"x", key[:-1], rb(rng, 16), rb(rng, 24), rb(rng, 32), b""])
                ct2 = enc_case(kl, cl, ml, k2, rb(rng, 16), msg)
                dec_case(kl, cl, ml, k2, ct)
                res.count("contracts")
    # constructor contracts
    for kl in (0, 8, 15, 16, 17, 24, 32, 33, -1, 64):
        for cl in (-1, 0, 16, 32, 33, 8, -5, -16):
            for ml in (-1, 0, 5):
                reqs.append(f"aes new {kl} {cl} {ml}")
                impl.append(call(lambda: AES(key_length=kl, cipher_length=cl, message_length=ml), lambda _: "-"))
    lines = []
    for (name, k, x), v in tbl.items():
        lines.append(f"tbl put2 {name} {hx(k)} {hx(x)} {hx(v)}")
    outs = ctx.driver.batch(lines + reqs)
    model = outs[len(lines):]
    compare(res, reqs, impl, model)
    res.extra["recorded_leaf_entries"] = len(lines)
    res.extra["table_misses"] = sum(1 for m in model if MISS_HEX in m)
    res.evaluations += len(reqs)
    for r, a in zip(reqs, impl):
        res.count("answer:" + ("error:" + a[4:] if a.startswith("err") else "ok"))
        if a.startswith("ok"):
            res.nontrivial.add(r)
    for i in (0, len(reqs) // 2, len(reqs) - 1):
        res.sample({"request": reqs[i][:220], "impl": impl[i][:120], "model": model[i][:120]})
    res.rule = ("all message lengths 0..80 (+ random up to 400) x key lengths 16/24/32 with known IVs: ciphertext bytes must match "
                "exactly; decrypt of the real ciphertext, of wrong-key, truncated, tampered and extended ciphertexts; declared "
                "message/cipher/key length mismatches; constructor grid (key lengths x cipher lengths); non-trivial = distinct ok requests")
    oracle(ctx, res)
    return res


def oracle(ctx, res):
    import toolkit.symmetric_encryption as tse
    rng = ctx.rng

    def AESxCBC(**kw):
        # always through the factory, as the schemes obtain it
        return tse.get_symmetric_encryption_implementation(rng.choice(["AES-CBC", "aes_cbc", "AESCBC"]))(**kw)

    def viol(sig, what, inp):
        if not any(v["signature"] == sig for v in res.violations):
            res.violations.append({"signature": sig, "what": what, "input": inp})

    for kl in (16, 24, 32):
        ske = AESxCBC(key_length=kl)
        for n in list(range(0, 81)) + [rng.randint(81, 300) for _ in range(ctx.pick(10, 300))] + \
                [B - d for B in (1024, 4096, 8192, 65536) for d in range(-1, 18)]:
            key = rb(rng, kl); m = rb(rng, n)
            inp = {"key": key.hex(), "msg": m.hex()}
            try:
                c1, c2 = ske.Encrypt(key, m), ske.Encrypt(key, m)
                if ske.Decrypt(key, c1) != m:
                    viol("Decrypt(k, Encrypt(k, m)) != m", f"len(m)={n} key_length={kl}", inp)
                if len(c1) != 16 + 16 * (n // 16 + 1):
                    viol("ciphertext length is not 16 + 16*(len(m)//16 + 1)", f"len(m)={n}: {len(c1)}", inp)
                if c1 == c2:
                    viol("two encryptions of the same message are equal", f"len(m)={n}", inp)
                k2 = rb(rng, kl)
                try:   # labelled test (AES behaviour)
                    if k2 != key and ske.Decrypt(k2, c1) == m:      # also for m = b'': needs the 2^-128 event D_k'(c) xor iv = 10..10
                        viol("decryption under a different key returned the message", "", inp)
                except ValueError:
                    pass
            except Exception as e:
                viol("Encrypt/Decrypt raised on valid input", f"{type(e).__name__}: {e}", inp)
            res.evaluations += 1
        for bad in (dict(message_length=5), dict(cipher_length=48)):
            s2 = AESxCBC(key_length=kl, **bad)
            try:
                if "message_length" in bad:
                    s2.Encrypt(rb(rng, kl), b"1234")
                else:
                    s2.Decrypt(rb(rng, kl), rb(rng, 32))
                viol("declared length mismatch accepted", str(bad), {})
            except ValueError:
                pass
        for bl in (kl + 1, kl - 1, 0, 16, 24, 32, 64):
            if bl == kl:
                continue
            for op in ("enc", "dec"):
                try:
                    if op == "enc":
                        ske.Encrypt(rb(rng, bl), b"x")
                    else:
                        ske.Decrypt(rb(rng, bl), rb(rng, 32))
                    viol("key length mismatch accepted", f"declared key_length={kl}, key of {bl} bytes accepted by {op}",
                         {"declared": kl, "given": bl, "op": op})
                except ValueError:
                    pass
        # several instances with different declarations alive in one process: each enforces ITS OWN declared lengths
        decls = [dict(key_length=kl, message_length=32), dict(key_length=kl, cipher_length=32), dict(key_length=kl),
                 dict(key_length=kl, message_length=48), dict(key_length=kl, cipher_length=48),
                 dict(key_length=kl, message_length=16, cipher_length=48), dict(key_length=kl, cipher_length=64)]
        rng.shuffle(decls)
        insts = []
        for d in decls:
            try:
                insts.append((d, AESxCBC(**d)))
            except Exception as e:
                # every declaration of the list is consistent (a 16-byte message has a 48-byte ciphertext: IV + two blocks)
                viol("a consistent length declaration is refused at construction", f"AESxCBC(**{d}) raised {type(e).__name__}: {e}", {"declared": d})
        plain = AESxCBC(key_length=kl)
        key = rb(rng, kl)
        for d, inst in insts:
            for n in (0, 5, 16, 31, 32, 33, 48):
                m = rb(rng, n)
                clen = 16 + 16 * (n // 16 + 1)
                ok_msg = d.get("message_length", n) == n
                inp = {"declared": d, "msg_len": n, "created_with": [x for x, _ in insts]}
                try:
                    c = inst.Encrypt(key, m)
                    if not ok_msg:
                        viol("declared length mismatch accepted", f"Encrypt of a {n}-byte message by an instance declared {d}", inp)
                except ValueError:
                    if ok_msg:
                        viol("Encrypt/Decrypt raised on valid input", f"Encrypt of a {n}-byte message refused by an instance declared {d}", inp)
                c = plain.Encrypt(key, m)
                ok_ct = d.get("cipher_length", clen) == clen
                try:
                    back = inst.Decrypt(key, c)
                    if not ok_ct:
                        viol("declared length mismatch accepted", f"Decrypt of a {clen}-byte ciphertext by an instance declared {d}", inp)
                    elif back != m:
                        viol("Decrypt(k, Encrypt(k, m)) != m", f"instance declared {d}", inp)
                except ValueError:
                    if ok_ct:
                        viol("Encrypt/Decrypt raised on valid input", f"Decrypt of a {clen}-byte ciphertext refused by an instance declared {d}", inp)
                res.evaluations += 1
        # fresh randomness must not hang on the state of the process-wide, seedable `random` module: an application that seeds it
        # (for its own reproducible shuffles, say) before each of two encryptions must still get two different ciphertexts
        import random as _random
        _st = _random.getstate()
        try:
            key = rb(rng, kl); m = rb(rng, 21)
            _random.seed(20260930); c1 = ske.Encrypt(key, m)
            _random.seed(20260930); c2 = ske.Encrypt(key, m)
        finally:
            _random.setstate(_st)
        if c1 == c2:
            viol("two encryptions of the same message are equal when `random` is re-seeded in between",
                 "random.seed(x); Encrypt(k, m); random.seed(x); Encrypt(k, m) give the same ciphertext: the IV comes from the seedable global generator",
                 {"key": key.hex(), "msg": m.hex(), "seed": 20260930})
        res.evaluations += 1
        # fresh randomness over a long run on ONE instance: every IV (first 16 bytes) is used once
        ivs = {}
        key = rb(rng, kl); m = rb(rng, 5)
        for i in range(ctx.pick(300, 3000)):
            c = ske.Encrypt(key, m)
            if c in ivs:
                viol("two encryptions of the same message are equal", f"calls {ivs[c]} and {i} on one instance return the same ciphertext",
                     {"key": key.hex(), "msg": m.hex(), "calls": [ivs[c], i]})
                break
            ivs[c] = i
        res.evaluations += len(ivs)
    return res


def search(ctx, broken, res0):
    res = Result()
    ctx.tier = "thorough"
    return oracle(ctx, res)


def replay(ctx, rp):
    from toolkit.symmetric_encryption.aes import AESxCBC
    inp = rp.get("input", {})
    out = {"input": inp, "holds": True}
    if "key" in inp:
        k, m = bytes.fromhex(inp["key"]), bytes.fromhex(inp["msg"])
        s = AESxCBC(key_length=len(k))
        c = s.Encrypt(k, m)
        out["holds"] = s.Decrypt(k, c) == m and len(c) == 16 + 16 * (len(m) // 16 + 1) and c != s.Encrypt(k, m)
    return out
