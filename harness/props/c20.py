"""C20 — PickledDict (full life cycle) and DBMDict (one open session): correspondence Model/PDict.lean <->
data_persistence/persistent_dict.py, and the direct oracle against a Python dict."""
import os
import shutil
import tempfile

import common
from common import hx, hxl, call
from run_check import Result, compare

common.ensure_repo_on_path()

MODULE = "SSEPyVerif.Props.C20"
LEANCHECK = ["SSEPyVerif.Props.C20", "SSEPyVerif.Model.PDict"]
TRUSTED = [
    "modelled, not verified: CPython dict (insertion order, update in place), pickle round trip loads(dumps(d)) = d, dbm.dumb as a dict within one session",
    "DBMDict is covered within one open session only (the reopen path does not work on the dbm backend available here: 10 baseline tests fail for that reason)",
]
ASSUMPTIONS = ["keys are byte strings; values are bytes/bytearray or non-bytes objects (None, int, str)", "one live handle per path"]

KEYS = [b"a", b"b", b"", b"k3", b"\x00", b"zz"]
import array
# not byte strings, some of them buffers all the same (array.array supports the buffer protocol)
NONBYTES = [None, 7, "s", 1.5, [b"x"], array.array("d", [1.5, 2.5]), array.array("B", b"ab")]


def scratch():
    base = os.path.join(common.CACHE, "scratch")
    os.makedirs(base, exist_ok=True)
    return tempfile.mkdtemp(dir=base, prefix="c20_")


def rb(rng, n):
    return bytes(rng.getrandbits(8) for _ in range(n))


def rand_val(rng):
    r = rng.random()
    if r < 0.12:
        return rng.choice(NONBYTES)
    b = rb(rng, rng.choice([0, 0, 1, 2, 6]))
    return bytearray(b) if r < 0.2 else b


def encv(v):
    return hx(bytes(v)) if isinstance(v, (bytes, bytearray)) else "X"


def gen_ops(rng, n, lifecycle, bias=False):
    """`bias`: histories dense in the observations a memo or a lazily refreshed index would get wrong - len / iteration right
    after sync, delete, clear (a key written before the last sync is no longer in a write-back cache)"""
    ops, closed = [], False
    for _ in range(n):
        r = rng.random()
        if closed and lifecycle:
            if r < 0.5:
                ops.append(("reopen",)); closed = False; continue
        if r < 0.04 and lifecycle and not closed:
            ops.append(("close",)); closed = True; continue
        k = rng.choice(KEYS)
        t = rng.choice(["set", "set", "set", "get", "get", "del", "del", "contains", "len", "iter", "getd", "getd",
                        "clear" if rng.random() < 0.3 else "get", "sync", "items"])
        if bias:
            t = rng.choice(["set", "set", "sync", "len", "len", "del", "del", "len", "iter", "contains",
                            "clear" if rng.random() < 0.2 else "len", "items"])
        if t == "set":
            ops.append(("set", k, rand_val(rng)))
        elif t == "getd":
            ops.append(("getd", k, rng.choice([None, b"", b"dflt"])))
        elif t in ("get", "del", "contains"):
            ops.append((t, k))
        else:
            ops.append((t,))
    return ops


def op_line(op):
    t = op[0]
    if t == "set":
        return f"pdict op set {hx(op[1])} {encv(op[2])}"
    if t in ("get", "del", "contains"):
        return f"pdict op {t} {hx(op[1])}"
    if t == "getd":
        return f"pdict op getd {hx(op[1])} {'N' if op[2] is None else hx(op[2])}"
    if t == "reopen":
        return "pdict reopen"
    if t == "items":
        return "pdict items"
    return f"pdict op {t}"


def apply(d, op):
    t = op[0]
    if t == "set":
        def f():
            d[op[1]] = op[2]
        return call(f, lambda _: "").strip()
    if t == "get":
        return call(lambda: d[op[1]], lambda v: hx(bytes(v)))
    if t == "del":
        def f():
            del d[op[1]]
        return call(f, lambda _: "").strip()
    if t == "contains":
        return call(lambda: op[1] in d, lambda b: "1" if b else "0")
    if t == "len":
        return call(lambda: len(d), str)
    if t == "iter":
        return call(lambda: list(iter(d)), hxl)
    if t == "getd":
        return call(lambda: d.get(op[1], op[2]), lambda v: "N" if v is None else hx(bytes(v)))
    if t == "clear":
        return call(lambda: d.clear(), lambda _: "").strip()
    if t == "sync":
        return call(lambda: d.sync(), lambda _: "").strip()
    if t == "close":
        return call(lambda: d.close(), lambda _: "").strip()
    if t == "items":
        return call(lambda: [(k, d[k]) for k in d], lambda l: ",".join(f"{hx(k)}:{hx(bytes(v))}" for k, v in l) if l else ".")
    raise ValueError(t)


def correspond(ctx):
    from data_persistence.persistent_dict import PickledDict, DBMDict
    rng = ctx.rng
    res = Result()
    lines, impl = [], []
    seq_start = []
    d0 = scratch()
    try:
        for i in range(ctx.pick(300, 8000)):
            kind = "pickled" if i % 4 else "dbm"
            path = os.path.join(d0, f"d{i}")
            ops = gen_ops(rng, rng.randint(3, 50), lifecycle=(kind == "pickled"))
            closed = False
            seq_start.append([len(lines), kind, None, ops])
            if kind == "pickled" and rng.random() < 0.3:
                src = {rng.choice(KEYS): rb(rng, rng.randint(0, 4)) for _ in range(rng.randint(0, 4))}
                seq_start[-1][2] = dict(src)
                d = PickledDict.from_dict(src, path)
                lines.append("pdict fromdict " + (",".join(f"{hx(k)}:{hx(v)}" for k, v in src.items()) if src else "."))
                impl.append("ok")
                src[b"later"] = b"mutation"; src.pop(next(iter(src)), None)      # later changes must not show
            else:
                d = (PickledDict if kind == "pickled" else DBMDict).create(path)
                lines.append("pdict create"); impl.append("ok")
            for op in ops:
                if op[0] == "reopen":
                    def f():
                        nonlocal d
                        d = PickledDict.open(path)
                    lines.append("pdict reopen"); impl.append(call(f, lambda _: "").strip()); closed = False
                    continue
                if op[0] == "items" and closed:
                    continue
                lines.append(op_line(op)); a = apply(d, op); impl.append(a)
                if op[0] == "close":
                    closed = True
                res.count(f"{kind}:{op[0]}"); res.count("answer:" + ("error:" + a[4:] if a.startswith("err") else "ok"))
            if not closed:
                d.close()
            res.evaluations += 1
            res.nontrivial.add((kind, tuple(o[0] for o in ops[:14]), len(ops)))
            if i < 3:
                res.sample({"kind": kind, "ops": [op_line(o) for o in ops[:8]]})
            for fn in os.listdir(d0):
                try:
                    os.unlink(os.path.join(d0, fn))
                except OSError:
                    pass
    finally:
        shutil.rmtree(d0, ignore_errors=True)
    model = ctx.driver.batch(lines)
    compare(res, lines, impl, model)
    del _DISAGREE[:]
    for k, (st, kind, src, ops) in enumerate(seq_start):
        en = seq_start[k + 1][0] if k + 1 < len(seq_start) else len(lines)
        if any(a != b for a, b in zip(impl[st:en], model[st:en])):
            _DISAGREE.append((kind, src, ops))
    if res.disagreements:
        idx = next(i for i, (a, b) in enumerate(zip(impl, model)) if a != b)
        start = max(j for j in range(idx + 1) if lines[j].startswith(("pdict create", "pdict fromdict")))
        res.disagreements[0]["sequence"] = [f"{l} => impl {a[:50]} | model {b[:50]}" for l, a, b in list(zip(lines, impl, model))[start:idx + 1]][-25:]
    res.rule = ("random histories of 3..50 operations over a 6-key universe (set with bytes/bytearray/empty/non-bytes values, get, "
                "delete, membership, len, iteration order, get-with-default, clear, sync, full item dump, close, double close, "
                "operations on a closed dict, reopen) for PickledDict incl. from_dict followed by mutation of the source dict; "
                "DBMDict within one session; non-trivial = distinct (class, op-kind prefix) histories")
    oracle(ctx, res)
    return res


_DISAGREE = []      # (kind, initial dict or None, ops) of histories on which model and implementation disagreed


def check_history(res, viol, d0, tag, kind, src0, ops, probe):
    """one history on the real dictionary against a Python dict.  probe=True reads the whole dictionary after every step;
    probe=False observes ONLY what the history itself reads (reading every key refreshes caches a stale memo hides behind)."""
    from data_persistence.persistent_dict import PickledDict, DBMDict
    if True:
        if True:
            cls = PickledDict if kind == "pickled" else DBMDict
            path = os.path.join(d0, tag)
            hist = []
            inp = {"class": cls.__name__, "ops": hist, "full_read_after_every_step": probe}
            ref = {}
            if src0 is not None:
                src = dict(src0)
                ref = dict(src)
                d = cls.from_dict(src, path); hist.append("from_dict " + repr(ref))
                src.clear(); src[b"new"] = b"x"
            else:
                d = cls.create(path)
            closed = False
            for op in ops:
                hist.append(op_line(op))
                t = op[0]
                try:
                    if t == "reopen":
                        d = cls.open(path); closed = False
                        if dict((k, bytes(d[k])) for k in d) != ref:
                            viol("contents after close/open differ from those at close", f"{cls.__name__}", dict(inp))
                        continue
                    if t == "items":
                        t = "iter"; op = ("iter",)
                    if closed:
                        if t == "close":
                            d.close(); continue
                        try:
                            _do(d, op)
                            viol("operation on a closed dictionary did not raise", op_line(op), dict(inp))
                        except (ValueError, TypeError) as e:
                            if isinstance(e, TypeError) and not (t == "set" and not isinstance(op[2], (bytes, bytearray))):
                                viol("operation on a closed dictionary raised the wrong error", op_line(op), dict(inp))
                        continue
                    if t == "close":
                        d.close(); closed = True
                    elif t == "set":
                        if isinstance(op[2], (bytes, bytearray)):
                            d[op[1]] = op[2]; ref[op[1]] = bytes(op[2])
                        else:
                            try:
                                d[op[1]] = op[2]
                                viol("a non-bytes value was accepted", op_line(op), dict(inp))
                            except TypeError:
                                pass
                    elif t == "get":
                        if op[1] in ref:
                            if bytes(d[op[1]]) != ref[op[1]]:
                                viol("get differs from the dict model", op_line(op), dict(inp))
                        else:
                            try:
                                d[op[1]]; viol("get of a missing key did not raise KeyError", op_line(op), dict(inp))
                            except KeyError:
                                pass
                    elif t == "del":
                        if op[1] in ref:
                            del d[op[1]]; del ref[op[1]]
                        else:
                            try:
                                del d[op[1]]; viol("delete of a missing key did not raise KeyError", op_line(op), dict(inp))
                            except KeyError:
                                pass
                    elif t == "contains":
                        if (op[1] in d) != (op[1] in ref):
                            viol("membership differs from the dict model", op_line(op), dict(inp))
                    elif t == "len":
                        if len(d) != len(ref):
                            viol("len differs from the dict model", f"{len(d)} != {len(ref)}", dict(inp))
                    elif t == "iter":
                        if sorted(iter(d)) != sorted(ref):
                            viol("iteration differs from the dict model", "", dict(inp))
                    elif t == "getd":
                        g = d.get(op[1], op[2])
                        if (None if g is None else bytes(g)) != ref.get(op[1], op[2]):
                            viol("get-with-default differs from the dict model", f"{op_line(op)}: {g!r} vs {ref.get(op[1], op[2])!r}", dict(inp))
                    elif t == "clear":
                        d.clear(); ref.clear()
                    elif t == "sync":
                        d.sync()
                except Exception as e:
                    viol("a valid operation raised", f"{op_line(op)}: {type(e).__name__}: {e}", dict(inp))
                    break
                if not closed and probe:
                    try:
                        cur = dict((k, bytes(d[k])) for k in d)
                        if cur != ref or len(d) != len(ref):
                            viol("contents differ from the dict model after an operation", f"after {op_line(op)}", dict(inp))
                            break
                    except Exception as e:
                        viol("reading the dictionary raised", f"{type(e).__name__}: {e} after {op_line(op)}", dict(inp)); break
            if not closed:
                d.close()
            if kind == "pickled":
                try:
                    d2 = cls.open(path)
                    if dict((k, bytes(d2[k])) for k in d2) != ref:
                        viol("contents after close/open differ from those at close", cls.__name__, dict(inp))
                    d2.close()
                except Exception as e:
                    viol("open after close raised", f"{type(e).__name__}: {e}", dict(inp))
            res.evaluations += 1
            for fn in os.listdir(d0):
                try:
                    os.unlink(os.path.join(d0, fn))
                except OSError:
                    pass


def oracle(ctx, res):
    from data_persistence.persistent_dict import PickledDict, DBMDict
    rng = ctx.rng
    d0 = scratch()

    def viol(sig, what, inp):
        if not any(v["signature"] == sig for v in res.violations):
            res.violations.append({"signature": sig, "what": what, "input": inp})

    try:
        for i in range(ctx.pick(200, 5000)):
            kind = "pickled" if i % 3 else "dbm"
            ops = gen_ops(rng, rng.randint(3, 50), lifecycle=(kind == "pickled"), bias=(i % 4 == 1))
            src = None
            if kind == "pickled" and rng.random() < 0.3:
                src = {rng.choice(KEYS): rb(rng, 2) for _ in range(3)}
            check_history(res, viol, d0, f"o{i}", kind, src, ops, probe=(i % 2 == 0))
        # creation / opening contracts
        for cls in (PickledDict, DBMDict):
            p = os.path.join(d0, "exists_" + cls.__name__)
            open(p, "wb").close()
            try:
                cls.create(p); viol("create over an existing path accepted", cls.__name__, {})
            except FileExistsError:
                pass
            try:
                cls.open(os.path.join(d0, "missing_" + cls.__name__)); viol("open of a missing path accepted", cls.__name__, {})
            except FileNotFoundError:
                pass
            # a REFUSED create must not touch the dictionary that is already there - not at once and not when the half-built
            # object is collected later (the existing dictionary is closed: no live handle will write it back)
            import gc
            p2 = os.path.join(d0, "kept_" + cls.__name__)
            try:
                d = cls.create(p2); d[b"k2"] = b"v2"; d[b"k3"] = b"v3"; d.close(); del d
                d = cls.open(p2); before = {k: d[k] for k in d}; d.close(); del d
            except Exception:
                before = None
            if before == {b"k2": b"v2", b"k3": b"v3"}:
                try:
                    cls.create(p2); viol("create over an existing dictionary accepted", cls.__name__, {})
                except FileExistsError:
                    pass
                except Exception:
                    pass
                gc.collect()
                try:
                    d = cls.open(p2); after = {k: d[k] for k in d}; d.close()
                except Exception as e:
                    after = f"{type(e).__name__}: {e}"
                if after != before:
                    viol("a refused create over an existing path destroys the dictionary stored there",
                         f"{cls.__name__}: create, set k2 k3, close; create again (FileExistsError); collect; open gives {after!r}",
                         {"class": cls.__name__, "ops": ["create", "set k2=v2", "set k3=v3", "close", "create (refused)", "gc.collect", "open"]})
    finally:
        shutil.rmtree(d0, ignore_errors=True)
    return res


def _do(d, op):
    t = op[0]
    if t == "set": d[op[1]] = op[2]
    elif t == "get": d[op[1]]
    elif t == "del": del d[op[1]]
    elif t == "contains": op[1] in d
    elif t == "len": len(d)
    elif t == "iter": list(iter(d))
    elif t == "getd": d.get(op[1], op[2])
    elif t == "clear": d.clear()
    elif t == "sync": d.sync()


def search(ctx, broken, res0):
    res = Result()

    def viol(sig, what, inp):
        if not any(v["signature"] == sig for v in res.violations):
            res.violations.append({"signature": sig, "what": what, "input": inp})
    # first: the very histories on which the model and the implementation disagreed, against a Python dict
    d0 = scratch()
    try:
        for n, (kind, src, ops) in enumerate(_DISAGREE[:40]):
            for probe in (False, True):
                check_history(res, viol, d0, f"r{n}{int(probe)}", kind, src, ops, probe)
    finally:
        shutil.rmtree(d0, ignore_errors=True)
    if res.violations:
        return res
    ctx.tier = "thorough"
    return oracle(ctx, res)


def replay(ctx, rp):
    return {"holds": False, "note": "replay = the recorded history under 'input'", "input": rp.get("input")}
