"""C07 — setup and search leave their inputs intact; searches repeat in any order.
Theorems: Props/C07.lean (the models are pure: a search cannot change the index, so any history of searches answers each
keyword as the single search does).  Tie: scheme correspondence + direct oracle on the real code: deep copies of the database,
configuration dict and key before/after EDBSetup; serialized index byte-identical after every search of random histories;
result(w) equal at every occurrence; a second index built by the same scheme object."""
import os
from run_check import Result
import schemes_env as se
import schemes_corr as sc
import schemes_check as sk
import schemes_oracles as so

MODULE = "SSEPyVerif.Props.C07"
LEANCHECK = ["SSEPyVerif.Props.C07"]
TRUSTED = sk.TRUSTED + ["purity is true by construction in a functional model; the assurance that the CODE mutates nothing comes from the mutation-site translator (harness/translate/mutation_sites.py: an unverified, conservative, flow-insensitive alias analysis with declared shapes for the interface's arguments - database: dict of lists of bytes, configuration dict: scalars, keys/tokens: objects of bytes; the primitives of the configuration object are taken to return new immutable values; dict keys are taken to be immutable), from the correspondence and from the before/after comparison on the real objects"]
ASSUMPTIONS = []


def translate(ctx):
    """regenerate Generated/MutationSites.lean from the working tree (every mutating statement of the scheme layer with the
    provenance of the object it changes); `Props/C07: scheme_layer_mutates_only_its_own_objects` is re-checked against it"""
    import common
    from translate import mutation_sites
    sites = mutation_sites.generate(common.REPO, os.path.join(common.LEAN, "SSEPyVerif", "Generated", "MutationSites.lean"))
    bad = [s for s in sites if s["kind"] not in ("fresh", "init")]
    ctx.c07_sites = bad
    import collections
    return {"mutation_sites": len(sites), "by_kind": dict(collections.Counter(s["kind"] for s in sites)),
            "not_fresh": [f'{s["kind"]} {s["file"]}:{s["line"]} {s["func"]}: {s["stmt"]}' for s in bad][:40]}


def _schemes_of_sites(ctx):
    """scheme names whose modules hold a site that is not `fresh` (for the targeted failing-input search)"""
    out = []
    for s in getattr(ctx, "c07_sites", []):
        for n, m in se.MODULE.items():
            if s["file"].startswith("schemes/" + m.replace(".", "/") + "/") and n not in out:
                out.append(n)
    return out


def correspond(ctx):
    res = Result()
    n_cfg = ctx.pick(4, 10)
    cases = sk.gen_cases(ctx, se.NAMES, n_cfg)
    sk.correspond(ctx, res, cases)
    for c in cases:
        res.evaluations += 1
        res.nontrivial.add(sk.case_sig(c["name"], c["cfg"], c["db"], c["profile"]))
        res.count("direct:" + c["name"])
        so.c07(res, c, ctx.rng)
    res.extra["schemes_modelled"] = list(sc.MODELLED)
    res.rule = (f"per scheme {n_cfg} configurations x {len(se.PROFILES)} profiles; deep copies of database / configuration dict / serialized key "
                "compared before and after EDBSetup; a random history (>= 2x the keyword count, present and absent keywords, repetitions) "
                "searched against ONE index object, the serialized index compared after every search and every answer with the answer of a "
                "single search on a freshly deserialized index; then a second index (fresh key, same or another database) built by the same "
                "scheme object")
    for c in cases[:1] + cases[-1:]:
        res.sample({"scheme": c["name"], "profile": c["profile"], "lists": [len(v) for v in c["db"].values()]})
    return res


def search(ctx, broken, res0):
    res = Result()
    named = _schemes_of_sites(ctx)
    for c in sk.targeted_cases(ctx, res0) + (sk.targeted_cases(ctx, res0, names=named) if named else []) + \
            sk.gen_cases(ctx, se.NAMES, ctx.pick(10, 25)):
        res.evaluations += 1
        so.c07(res, c, ctx.rng)
        # databases the generators never produce but the schemes accept: a posting list that names an identifier twice
        c2 = so.with_repeated_identifier(c)
        if c2 is not None:
            res.evaluations += 1
            so.c07_inputs_only(res, c2, "repeated identifier in a list")
    return res


def replay(ctx, rp):
    inp = rp["input"]
    c = sk.case_from_replay({"input": inp.get("first", inp)})
    r = Result()
    so.c07(r, c, ctx.rng)
    so.c07_inputs_only(r, c, "replay")
    return {"holds": not r.violations, "observed": [v["what"] for v in r.violations][:3]}
