"""C04 — the stored index and the tokens never expose keywords or identifiers; encryption is randomized.
Theorems: Props/C04.lean.  Tie: scheme correspondence (every cell of the real index equals the model's cell, which is a
keyed-primitive output, a fresh random draw or a public constant).  Direct oracle on the real code: substring scan of the
serialized index and tokens, pairwise distinct ciphertext entries with one identifier under every keyword, disjoint
ciphertext entries of two setups of the same (key, database)."""
from run_check import Result
import schemes_env as se
import schemes_corr as sc
import schemes_check as sk
import schemes_oracles as so

MODULE = "SSEPyVerif.Props.C04"
LEANCHECK = ["SSEPyVerif.Props.C04"]
TRUSTED = sk.TRUSTED + ["'no keyword / identifier occurs as a substring' is a probability statement about pseudo-random outputs (chance occurrence < 2^-40 for the lengths used); the theorems give the structural premise, the oracle scans the real bytes"]
ASSUMPTIONS = ["keywords scanned for have >= 6 random bytes, identifiers >= 8 random bytes"]


def long_cases(ctx, n_cfg):
    """databases with long random keywords and 8-byte identifiers, one identifier shared by every keyword"""
    rng = ctx.rng
    cases = sk.gen_cases(ctx, se.NAMES, n_cfg, profiles=["shared_ids", "mixed", "boundary", "pow2"])
    out = []
    for c in cases:
        if c["cfg"].get("param_identifier_size", 8) < 8:
            c["cfg"] = dict(c["cfg"], param_identifier_size=8)
            if c["name"] == "Pi2Lev":
                c["cfg"].update(param_B=4, param_b=2, param_B_prime=4, param_b_prime=2)
        lim = se.kw_limit(c["name"], c["cfg"])
        if lim < 8:
            continue
        lens = [len(v) for v in c["db"].values()]
        shared = bytes(rng.getrandbits(8) for _ in range(8))
        db = {}
        for l in lens:
            w = bytes([rng.randint(1, 255)]) + bytes(rng.getrandbits(8) for _ in range(min(lim, 12) - 1))
            ids = [shared]
            while len(ids) < l:
                x = bytes(rng.getrandbits(8) for _ in range(8))
                if any(x) and x not in ids:
                    ids.append(x)
            rng.shuffle(ids)
            db[w] = ids
        c["db"] = db
        c["cfg"] = se.finalize_cfg(c["name"], c["cfg"], db)
        c["present"] = list(db)
        c["absent"] = se.absent_keywords(rng, c["name"], c["cfg"], db)
        out.append(c)
    return out


def correspond(ctx):
    res = Result()
    n_cfg = ctx.pick(3, 10)
    cases = long_cases(ctx, n_cfg)
    sk.correspond(ctx, res, cases)
    for c in cases:
        res.evaluations += 1
        res.nontrivial.add(sk.case_sig(c["name"], c["cfg"], c["db"], c["profile"]))
        res.count("direct:" + c["name"])
        so.c04(res, c)
    so.c04_repeated_setups(res, ctx.rng, ctx.pick(40, 300))
    res.evaluations += 1
    res.extra["schemes_modelled"] = list(sc.MODELLED)
    res.rule = (f"per scheme {n_cfg} configurations x 4 profiles with 8..12-byte random keywords and 8-byte identifiers, ONE identifier shared "
                "by every keyword; scanned: serialized index and every serialized token for every keyword and identifier; compared: all "
                "ciphertext entries of one index pairwise, and against a second setup of the same (key, database); plus one 64-posting "
                "database encrypted 40 (quick) / 300 (thorough) times by one scheme object, no ciphertext entry may ever repeat")
    for c in cases[:1] + cases[-1:]:
        res.sample({"scheme": c["name"], "profile": c["profile"], "keywords": [k.hex() for k in c["db"]][:3]})
    return res


def search(ctx, broken, res0):
    res = Result()
    for c in long_cases(ctx, ctx.pick(10, 25)):
        res.evaluations += 1
        so.c04(res, c)
    so.c04_repeated_setups(res, ctx.rng, ctx.pick(300, 1200))
    return res


def replay(ctx, rp):
    c = sk.case_from_replay(rp)
    r = Result()
    so.c04(r, c)
    return {"holds": not r.violations, "observed": [v["what"] for v in r.violations][:3]}
