"""C11 — client workflow: translator (Generated/ClientIR.lean) + correspondence of the client interpreter with the real
client Service (a fresh object per step, as frontend/client/commands.py does) talking to the real server over a
loopback websocket, on all command sequences up to a depth; direct oracle = the 5-flag reference with the
prerequisite relation of frontend/README.md."""
import asyncio
import itertools
import os

import common
from run_check import Result, compare

MODULE = "SSEPyVerif.Props.C11"
LEANCHECK = ["SSEPyVerif.Props.C11", "SSEPyVerif.Model.Client", "SSEPyVerif.Generated.ClientIR"]
TRUSTED = [
    "the AST extractor (statement -> IR op pattern table) and the interpreter's reading of each IR op, validated by this correspondence",
    "the command layer is mirrored by the harness as commands.py does it: a fresh Service(sid) per step, close_service() in a finally for the three network steps",
    "the server is the 3-state reference machine in the model (the real server refines it: C10); key/index/token are ids, a result is correct iff index id = token id",
]
ASSUMPTIONS = ["one client, one service, no crash (C13) and no second connection (C12) during a history"]

CMDS = [("create", 1), ("create", 0), ("create", -1), ("key",), ("encrypt",), ("upload_config",), ("upload_edb",), ("search",)]
DB = {b"keyword": [b"\x01" * 8, b"\x05" * 8], b"other": [b"\x07" * 8]}
NOSID = "0" * 64


def translate(ctx):
    from translate import frontend_ir
    return frontend_ir.generate(which=("server", "client"))


def reference(seq):
    """5 flags with the documented prerequisite relation; returns per command the outcome and the flag word"""
    created = uploaded = key = enc = dbu = False
    out = []
    for c in seq:
        k = c[0]
        ok = False
        if k == "create":
            ok = (not created) and c[1] == 1
            created = created or ok
        elif k == "key":
            ok = created and not key; key = key or ok
        elif k == "encrypt":
            ok = created and key and not enc; enc = enc or ok
        elif k == "upload_config":
            ok = created and not uploaded; uploaded = uploaded or ok
        elif k == "upload_edb":
            ok = uploaded and key and enc and not dbu; dbu = dbu or ok
        elif k == "search":
            ok = dbu
        word = created * 1 + uploaded * 2 + key * 4 + enc * 8 + dbu * 16
        out.append((("result:correct" if k == "search" else "ok") if ok else "refused", word if created else None))
    return out


class ClientRun:
    def __init__(self, env, fx):
        self.env, self.fx = env, fx
        self.sid = None
        self.keys = {}
        ClientRun.counter = getattr(ClientRun, "counter", 0) + 1
        self.salt = f"salt-{ClientRun.counter}"

    def state(self):
        env = self.env
        cfm, sfm = env["cfm"], env["sfm"]
        sid = self.sid
        root = os.path.join(env["home"], ".sse", "client", sid or NOSID)
        d = os.path.isdir(root)
        bits = "-"
        if sid and cfm.check_sid_local_file_valid(sid):
            bits = str(cfm.read_service_meta(sid)["state"])
        key = "-"
        kp = os.path.join(root, "key")
        if os.path.exists(kp):
            kb = open(kp, "rb").read()
            key = str(self.keys.setdefault(kb, len(self.keys) + 1))
        edb = "present" if os.path.exists(os.path.join(root, "edb")) else "-"
        sst = 0
        if sid and sfm.check_sid_folder_exist(sid):
            sst = sfm.read_service_meta(sid)["state"]
        return f"dir={'true' if d else 'false'} bits={bits} key={key} edb={edb} server={sst}"

    async def cmd(self, c):
        env, fx = self.env, self.fx
        csvc = env["csvc"]
        k = c[0]
        try:
            if k == "create":
                # as commands.create_service: always a fresh Service(); the configuration carries its salt, so the
                # service id is the same every time within one history
                cfg = dict(fx.c[1]); cfg["salt"] = self.salt
                if c[1] == 0:
                    cfg["param_lambda"] = 7          # invalid by value: the scheme cannot be instantiated with this
                elif c[1] == -1:
                    del cfg["ske"]                   # invalid by omission: a parameter the scheme needs is missing
                svc = csvc.Service()
                sid = svc.handle_create_config(cfg)
                self.sid = sid
                return "ok"
            svc = csvc.Service(self.sid or NOSID)
            if k == "key":
                svc.handle_create_key(); return "ok"
            if k == "encrypt":
                svc.handle_encrypt_database(dict(DB)); return "ok"
            got = []
            fast = getattr(self, "fast", False)
            if fast:
                # the clean-up of the PREVIOUS connection is still pending (its delay has not elapsed): it ends shortly after this
                # command has connected - commands issued back to back, as a script does
                import frontend_env as _fe

                async def _release():
                    await asyncio.sleep(0.05)
                    _fe._env["gate_closed"] = False
                asyncio.ensure_future(_release())
            try:
                if k == "upload_config":
                    await asyncio.wait_for(svc.handle_upload_config(wait=True, wait_callback_func=lambda f: None), 6)
                elif k == "upload_edb":
                    await asyncio.wait_for(svc.handle_upload_encrypted_database(wait=True, wait_callback_func=lambda f: None), 6)
                elif k == "search":
                    await asyncio.wait_for(svc.handle_keyword_search(b"keyword", wait=True,
                                                                     wait_callback_func=lambda f: got.append(f.result())), 6)
            finally:
                if fast:
                    import frontend_env as _fe
                    _fe._env["gate_closed"] = True          # this connection's clean-up waits for the next command
                try:
                    await svc.close_service()
                except Exception:
                    pass
                # the command-line process exits here: whatever socket is still open is closed with it
                try:
                    if svc.websocket is not None:
                        await svc.websocket.close()
                except Exception:
                    pass
                if not fast:
                    await self.settle()
            if k == "search":
                r = svc.sse_module_loader.SSEResult.deserialize(got[0], svc.config_object).get_result_list()
                return "result:correct" if r == DB[b"keyword"] else "result:WRONG"
            return "ok"
        except Exception as e:
            self.last_error = f"{type(e).__name__}: {e}"
            return "refused"

    async def settle(self):
        mgr = self.env["connector"]._sse_service_manager
        t = 0.0
        import time
        t0 = time.time()
        while mgr._service_dict and time.time() - t0 < 3:
            await asyncio.sleep(0.002)


def sequences(ctx):
    rng = ctx.rng
    depth = ctx.pick(3, 4)
    seqs = [list(s) for d in range(1, depth + 1) for s in itertools.product(CMDS, repeat=d)]
    n_exh = len(seqs)
    happy = [("create", 1), ("key",), ("encrypt",), ("upload_config",), ("upload_edb",), ("search",)]
    for _ in range(ctx.pick(150, 1500)):
        # random histories biased towards completing the workflow, with repeated / out-of-order steps thrown in
        s = []
        for st in happy:
            while rng.random() < 0.35:
                s.append(rng.choice(CMDS))
            if rng.random() < 0.9:
                s.append(st)
        while rng.random() < 0.5:
            s.append(rng.choice(CMDS))
        seqs.append(s[:12])
    return seqs, n_exh, depth


def cmd_line(c):
    return "cli cmd " + (f"create 1 {1 if c[1] == 1 else 0}" if c[0] == "create" else c[0])


def correspond(ctx):
    import frontend_env as fe
    import srvproto
    res = Result()
    env = fe.setup(cleanup_delay=0.0)
    try:
        fx = srvproto.Fixture()
        seqs, n_exh, depth = sequences(ctx)

        async def main():
            out = []
            async with fe.Server() as srv:
                for s in seqs:
                    run = ClientRun(env, fx)
                    obs = []
                    for c in s:
                        o = await run.cmd(c)
                        obs.append(o + " | " + run.state())
                    out.append(obs)
            return out
        got = asyncio.run(main())
        lines = []
        for s in seqs:
            lines.append("cli reset")
            lines += [cmd_line(c) for c in s]
        outs = ctx.driver.batch(lines)
        it = iter(outs)
        cases, impl_l, model_l = [], [], []
        for s, g in zip(seqs, got):
            next(it)
            m = [next(it)[3:] for _ in s]
            cases.append(" ; ".join(" ".join(map(str, c)) for c in s))
            impl_l.append(" || ".join(g)); model_l.append(" || ".join(m))
        compare(res, cases, impl_l, model_l)
        res.evaluations += len(seqs)
        res.extra["exhaustive_depth"] = depth
        res.extra["exhaustive_sequences"] = n_exh
        for s, g in zip(seqs, got):
            res.nontrivial.add(tuple(g))
            for c in s:
                res.count("cmd:" + c[0])
            for o in g:
                res.count("outcome:" + o.split(" | ")[0])
        for i in (0, len(seqs) // 2, len(seqs) - 1):
            res.sample({"commands": cases[i], "impl": impl_l[i][:400], "model": model_l[i][:400]})
        res.rule = (f"ALL command sequences of length 1..{depth} over {{create(valid, salted), create(invalid by value), create(invalid by omission), generate key, "
                    f"encrypt, upload config, upload index, search}} ({n_exh} sequences) + random histories up to 12 commands biased "
                    "towards completing the workflow with repeated / out-of-order steps; every command with a client object freshly "
                    "loaded from disk against the live in-process server; compared after every command: accepted/refused/result, the "
                    "persisted flag word, the key file (by content), presence of the local index, the server's stored state; "
                    "non-trivial = distinct observation sequences")
        # direct oracle: the 5-flag reference, key write-once, searchability
        for s, g, c in zip(seqs, got, cases):
            ref = reference(s)
            keys_seen = []
            for (o_ref, word), o in zip(ref, g):
                outcome, state = o.split(" | ")
                fields = dict(x.split("=") for x in state.split(" "))
                if outcome != o_ref or (word is not None and fields["bits"] != str(word)):
                    _v(res, "accepted operations / persisted flags differ from the 5-flag reference",
                       f"[{c}]: observed '{o}', reference ({o_ref}, flags {word})", s)
                    break
                if fields["key"] != "-":
                    keys_seen.append(fields["key"])
            if len(set(keys_seen)) > 1:
                _v(res, "the key file changed after it was first created", f"[{c}]: key ids {keys_seen}", s)
    finally:
        fe.teardown()
    fast_histories(ctx, res)
    commands_layer(ctx, res)
    return res


def fast_histories(ctx, res):
    """the same histories with the commands issued BACK TO BACK: every network command connects while the clean-up of the previous
    connection is still pending (the server's one-second grace period has not elapsed).  Timing must not change what is accepted,
    what is persisted or what a search returns: judged against the 5-flag reference."""
    import frontend_env as fe
    import srvproto
    env = fe.setup(cleanup_delay=0.0)
    try:
        fx = srvproto.Fixture()
        rng = ctx.rng
        WF = [("create", 1), ("key",), ("encrypt",), ("upload_config",), ("upload_edb",), ("search",)]
        seqs = [list(WF) + [("search",), ("upload_edb",), ("search",)],
                [("create", 1), ("upload_config",), ("key",), ("upload_config",), ("encrypt",), ("upload_edb",), ("search",), ("upload_edb",), ("search",)]]
        pool, _, _ = sequences(ctx)
        longer = [q for q in pool if len(q) >= 5]
        rng.shuffle(longer)
        seqs += longer[:ctx.pick(25, 200)]

        async def main():
            out = []
            async with fe.Server() as srv:
                for s in seqs:
                    run = ClientRun(env, fx)
                    run.fast = True
                    obs = []
                    for c in s:
                        o = await run.cmd(c)
                        obs.append(o + " | " + run.state())
                    fe._env["gate_closed"] = False
                    await run.settle()
                    out.append(obs)
            fe._env["gate_closed"] = False
            return out
        got = asyncio.run(main())
        for s, g in zip(seqs, got):
            res.evaluations += 1
            res.count("back-to-back histories")
            c = " ; ".join(" ".join(map(str, x)) for x in s)
            for (o_ref, word), o in zip(reference(s), g):
                outcome, state = o.split(" | ")
                fields = dict(x.split("=") for x in state.split(" "))
                if outcome != o_ref or (word is not None and fields["bits"] != str(word)):
                    _v(res, "back-to-back commands: accepted operations / persisted flags differ from the 5-flag reference",
                       f"[{c}] with every network command connecting before the previous connection's clean-up has ended: observed '{o}', reference ({o_ref}, flags {word})", s)
                    break
    finally:
        fe._env["gate_closed"] = False
        fe.teardown()


NAMES = ["alice", "alice ", " alice", "Alice", "bob", "", "\u00e4lice", "alice\t", "a" * 40, "bob  "]


def commands_layer(ctx, res):
    """commands.py + service_name_handler.py: services addressed by NAME.  Random histories of create_service(config, name)
    over adversarially close names (surrounding blanks, case, empty, non-ASCII) with valid and invalid configurations, and
    name look-ups; after every command the set of service folders and the name mapping are compared with Model/Commands.lean;
    at the end every name is used for `generate_key` and the key must appear in the folder the name resolves to."""
    import contextlib
    import io
    import json as _json
    import frontend_env as fe
    rng = ctx.rng
    hexn = lambda n: n.encode().hex() or "-"
    lines, impl = [], []
    cases = []
    for h in range(ctx.pick(25, 400)):
        env = fe.setup(cleanup_delay=0.0)
        try:
            import frontend.client.commands as commands
            import frontend.client.services.service_name_handler as snh
            import schemes
            root = os.path.join(env["home"], ".sse", "client")
            good = schemes.load_sse_module("CJJ14.PiBas").SSEConfig.get_default_config()
            bad = dict(good, param_lambda=17)
            cfgp = {True: os.path.join(env["home"], "good.json"), False: os.path.join(env["home"], "bad.json")}
            _json.dump(good, open(cfgp[True], "w")); _json.dump(bad, open(cfgp[False], "w"))
            order = []          # sids in order of first appearance on disk

            def world():
                dirs = [d for d in (os.listdir(root) if os.path.isdir(root) else []) if os.path.isdir(os.path.join(root, d))]
                for d in sorted(dirs, key=lambda d: os.path.getmtime(os.path.join(root, d))):
                    if d not in order:
                        order.append(d)
                canon = {d: f"s{i}" for i, d in enumerate(order)}
                try:
                    mp = _json.load(open(os.path.join(root, "service_mapping.json")))
                except FileNotFoundError:
                    mp = {}
                return ("ok " + ",".join(canon[d] for d in order if d in dirs) + " | " +
                        ",".join(f"{hexn(n)}={canon.get(v, '?')}" for n, v in mp.items())), mp, canon
            hist = []
            lines.append("cmd reset"); impl.append("ok")
            for _ in range(rng.randint(2, 9)):
                name = rng.choice(NAMES[:4] if rng.random() < 0.6 else NAMES)
                if rng.random() < 0.75:
                    ok = rng.random() < 0.8
                    _, mp0, _ = world()
                    with contextlib.redirect_stdout(io.StringIO()) as out:
                        commands.create_service(cfgp[ok], name)
                    acc = "successfully" in out.getvalue()
                    hist.append(f"create {'valid' if ok else 'invalid'} {name!r}")
                    lines.append(f"cmd create {1 if ok else 0} {hexn(name)} s{len(order)}")
                    impl.append("ok accepted" if acc else "ok refused")
                else:
                    hist.append(f"resolve {name!r}")
                    lines.append(f"cmd resolve {hexn(name)}")
                    try:
                        sid = snh.get_service_id_by_sname(name)
                        w, _, canon = world()
                        impl.append("ok " + canon.get(sid, "?"))
                    except KeyError:
                        impl.append("err KeyError")
                lines.append("cmd world"); impl.append(world()[0])
            # every recorded name reaches its own service
            _, mp, canon = world()
            for name, sid in mp.items():
                before = os.path.exists(os.path.join(root, sid, "key"))
                with contextlib.redirect_stdout(io.StringIO()):
                    commands.generate_key(sname=name)
                others = [d for d in order if d != sid and os.path.exists(os.path.join(root, d, "key"))
                          and d not in [mp[n] for n in list(mp)[:list(mp).index(name)]]]
                if not os.path.exists(os.path.join(root, sid, "key")) or (others and not before):
                    _v(res, "a command addressed by service name reached another service",
                       f"generate_key(sname={name!r}) after {hist}", [("names", hist)])
            cases.append(hist)
            res.evaluations += 1
            res.count("command-layer histories")
        finally:
            fe.teardown()
    outs = ctx.driver.batch(lines)
    compare(res, lines, impl, outs)
    # (the disagreement list is capped: look at the lines themselves, so that an earlier part of the check that already filled the
    # list does not hide a command-layer difference)
    if any(a != m for a, m in zip(impl, outs)):
        # which history?  the property's own clause: a refused create leaves folders and mapping unchanged
        k = -1
        for i, (l, a, m) in enumerate(zip(lines, impl, outs)):
            if l == "cmd reset":
                k += 1
            if a != m:
                _v(res, "command layer (service names): folders / name mapping differ from the model after a command",
                   f"history {cases[k]}: after '{l}' the implementation has '{a}', the model '{m}' "
                   "(s<k> = k-th service folder that appeared; a refused create must leave folders and mapping unchanged)",
                   [("names", cases[k])])
                break


def _v(res, sig, what, s):
    if not any(v["signature"] == sig for v in res.violations):
        res.violations.append({"signature": sig, "what": what, "input": {"commands": [list(c) for c in s]}})


def search(ctx, broken, res0):
    return Result()


def replay(ctx, rp):
    return {"holds": False, "note": "re-run the check; the command sequence is under 'input'", "input": rp.get("input")}
