"""Recorded-oracle execution of the real schemes.

While a `Recorder` is active
  * `os.urandom`, `random.randint/sample/choice/shuffle` draw from the check's seeded PRNG and every draw is logged, in
    call order, as the TAPE the Lean model consumes;
  * the leaves are recorded as tables: HMAC digests (`hmac.new`), hash digests (`hashlib.new`), and the AES block
    function (every block that `AESxCBC.Encrypt/Decrypt` pushes through CBC, recomputed with AES-ECB of the same
    `cryptography` package).
No hook in the repository is needed: everything is patched from outside."""
import hashlib
import hmac
import os
import random

from common import hx

_ecb_cache = {}


def ecb(key, block, enc=True):
    from cryptography.hazmat.primitives.ciphers import Cipher, algorithms, modes
    c = Cipher(algorithms.AES(key), modes.ECB())
    o = c.encryptor() if enc else c.decryptor()
    return o.update(block) + o.finalize()


def _pad(m):
    p = 16 - len(m) % 16
    return m + bytes([p]) * p


def _xor(a, b):
    return bytes(x ^ y for x, y in zip(a, b))


class Recorder:
    def __init__(self, rng):
        self.rng = rng
        self.tape = []          # ("b", bytes) | ("n", int) | ("l", [int])
        self.tables = {}        # (name, k1, k2|None) -> value
        self.calls = {"urandom": 0, "hmac": 0, "aes_blocks": 0, "hash": 0, "random": 0}

    # ---- randomness
    def _urandom(self, n):
        if not isinstance(n, int) or n < 0:
            return self._orig_urandom(n)          # raises what os.urandom raises
        b = bytes(self.rng.getrandbits(8) for _ in range(n))
        self.tape.append(("b", b)); self.calls["urandom"] += 1
        return b

    def _randint(self, a, b):
        v = self.rng.randint(a, b)
        self.tape.append(("n", v)); self.calls["random"] += 1
        return v

    def _sample(self, population, k):
        v = self.rng.sample(list(population), k)
        self.tape.append(("l", list(v))); self.calls["random"] += 1
        return v

    def _choice(self, seq):
        v = self.rng.choice(seq)                  # IndexError on an empty sequence, as random.choice
        self.tape.append(("n", v)); self.calls["random"] += 1
        return v

    def _shuffle(self, lst):
        perm = list(range(len(lst)))
        self.rng.shuffle(perm)
        lst[:] = [lst[i] for i in perm]
        self.tape.append(("l", perm)); self.calls["random"] += 1

    # ---- leaves
    def _hmac_new(self, key, msg=None, digestmod=''):
        h = self._orig_hmac_new(key, msg, digestmod)
        if msg is not None:
            name = h.name[5:] if h.name.startswith("hmac-") else h.name      # "hmac-sha1" -> "sha1"
            self.tables[("hmac:" + name.lower(), bytes(key), bytes(msg))] = h.digest()
            self.calls["hmac"] += 1
        return h

    def _hashlib_new(self, name, data=b'', **kw):
        h = self._orig_hashlib_new(name, data, **kw)
        if isinstance(name, str) and not name.lower().startswith("shake"):
            self.tables[("hash:" + name.lower(), bytes(data), None)] = h.digest()
            self.calls["hash"] += 1
        return h

    def _wrap_aes(self):
        from toolkit.symmetric_encryption.aes import AESxCBC
        rec = self
        self._AES = AESxCBC
        self._orig_enc, self._orig_dec = AESxCBC.Encrypt, AESxCBC.Decrypt

        def Encrypt(self_, key, message):
            ct = rec._orig_enc(self_, key, message)
            prev = ct[:16]
            p = _pad(message)
            for i in range(0, len(p), 16):
                x = _xor(p[i:i + 16], prev)
                c = ct[16 + i:32 + i]
                rec.tables[("aesenc", bytes(key), x)] = c
                prev = c
                rec.calls["aes_blocks"] += 1
            return ct

        def Decrypt(self_, key, cipher_text):
            if isinstance(key, bytes) and len(key) in (16, 24, 32) and isinstance(cipher_text, bytes):
                body = cipher_text[16:]
                for i in range(0, len(body) - len(body) % 16, 16):
                    blk = body[i:i + 16]
                    k = ("aesdec", key, blk)
                    if k not in rec.tables:
                        rec.tables[k] = ecb(key, blk, False)
                        rec.calls["aes_blocks"] += 1
            return rec._orig_dec(self_, key, cipher_text)
        AESxCBC.Encrypt, AESxCBC.Decrypt = Encrypt, Decrypt

    def __enter__(self):
        self._orig_urandom = os.urandom
        self._orig_random = (random.randint, random.sample, random.choice, random.shuffle)
        self._orig_hmac_new = hmac.new
        self._orig_hashlib_new = hashlib.new
        os.urandom = self._urandom
        # the other standard sources of random bytes are the same draw as far as the model is concerned
        import secrets
        self._orig_token_bytes = secrets.token_bytes
        secrets.token_bytes = lambda n=32: self._urandom(n)
        self._orig_randbytes = getattr(random, "randbytes", None)
        if self._orig_randbytes is not None:
            random.randbytes = self._urandom
        random.randint, random.sample, random.choice, random.shuffle = self._randint, self._sample, self._choice, self._shuffle
        hmac.new = self._hmac_new
        hashlib.new = self._hashlib_new
        # the one-shot and the named forms are the same leaves
        self._orig_hmac_digest = hmac.digest
        rec = self

        def _digest(key, msg, digest):
            return rec._hmac_new(key, msg, digest).digest()
        hmac.digest = _digest
        self._orig_named = {}
        for nm in ("sha1", "sha224", "sha256", "sha384", "sha512", "md5"):
            if hasattr(hashlib, nm):
                self._orig_named[nm] = getattr(hashlib, nm)
                setattr(hashlib, nm, (lambda data=b"", _nm=nm, **kw: rec._hashlib_new(_nm, data, **kw)))
        self._wrap_aes()
        return self

    def __exit__(self, *a):
        os.urandom = self._orig_urandom
        import secrets
        secrets.token_bytes = self._orig_token_bytes
        if self._orig_randbytes is not None:
            random.randbytes = self._orig_randbytes
        random.randint, random.sample, random.choice, random.shuffle = self._orig_random
        hmac.new = self._orig_hmac_new
        hashlib.new = self._orig_hashlib_new
        hmac.digest = self._orig_hmac_digest
        for nm, f in self._orig_named.items():
            setattr(hashlib, nm, f)
        self._AES.Encrypt, self._AES.Decrypt = self._orig_enc, self._orig_dec

    # ---- driver lines
    def table_lines(self):
        out = []
        for (name, a, b), v in self.tables.items():
            if b is None:
                out.append(f"tbl put {name} {hx(a)} {hx(v)}")
            else:
                out.append(f"tbl put2 {name} {hx(a)} {hx(b)} {hx(v)}")
        return out

    def tape_lines(self, chunk=200):
        toks = []
        for kind, v in self.tape:
            if kind == "b":
                toks.append("b:" + hx(v))
            elif kind == "n":
                toks.append(f"n:{v}")
            else:
                toks.append("l:" + (",".join(map(str, v)) if v else "."))
        return [("sch tape add " + " ".join(toks[i:i + chunk])) for i in range(0, len(toks), chunk)]


def cfg_line(name, cfg):
    toks = []
    for f, v in cfg.items():
        if f == "scheme":
            continue
        if isinstance(v, bool):
            toks.append(f"{f}=o")
        elif isinstance(v, int):
            toks.append(f"{f}=i:{v}")
        elif isinstance(v, float):
            from fractions import Fraction
            fr = Fraction(str(v))
            toks.append(f"{f}=f:{fr.numerator}/{fr.denominator}")
        elif isinstance(v, str) and v and " " not in v and "=" not in v and ":" not in v:
            toks.append(f"{f}=s:{v}")
        else:
            toks.append(f"{f}=o")
    return f"sch cfg {name} " + " ".join(toks)


def db_lines(db):
    out = ["sch db clear"]
    for w, ids in db.items():
        out.append(f"sch db add {hx(w)} " + (",".join(hx(i) for i in ids) if ids else "."))
    return out
