"""Drive the real server handler with protocol events and canonicalise what a client observes.
Shared by C10 / C12 / C13 / C09."""
import asyncio
import pickle

import frontend_env as fe


class Fixture:
    """real scheme material: two configurations, two indexes built under one key, one token"""

    def __init__(self):
        import schemes
        from schemes.CJJ14.PiBas.config import DEFAULT_CONFIG as C1
        self.c = {1: dict(C1, salt="s1"), 2: dict(C1, salt="s2")}
        loader = schemes.load_sse_module("CJJ14.PiBas")
        sch = loader.SSEScheme(self.c[1])
        key = sch.KeyGen()
        self.kw = b"keyword"
        db1 = {self.kw: [b"\x01" * 8], b"other": [b"\x07" * 8]}
        db2 = {self.kw: [b"\x02" * 8, b"\x03" * 8]}
        self.e = {1: sch.EDBSetup(key, db1).serialize(), 2: sch.EDBSetup(key, db2).serialize()}
        # two tokens: the second keyword is stored in index 1 only (its answer from index 2 is the empty result)
        self.t = {1: sch.TokenGen(key, self.kw).serialize(), 2: sch.TokenGen(key, b"other").serialize()}
        self.res = {}
        cfgobj = loader.SSEConfig(self.c[1])
        for ei, eb in self.e.items():
            for ti, tb in self.t.items():
                edb = loader.SSEEncryptedDatabase.deserialize(eb, cfgobj)
                tk = loader.SSEToken.deserialize(tb, cfgobj)
                self.res[sch.Search(edb, tk).serialize()] = f"result:_,{ei},{ti}"

    def classify_result(self, b):
        return self.res.get(b, "result:?")


def canon(outs):
    """a refusal that is followed by the closure may or may not reach the client: drop it on both sides"""
    o = []
    for i, x in enumerate(outs):
        if x.startswith("refused:") and i + 1 < len(outs) and outs[i + 1] == "closed":
            continue
        o.append(x)
    return o


def parse_msg(fx, m):
    if isinstance(m, tuple):
        return "closed" if m[0] == "closed" else "timeout"
    t = m.get("type")
    if t == "init":
        c = pickle.loads(m["content"])
        return f"init:{c.get('state')}" if c.get("ok") else "init-refused"
    if t == "control":
        return "control"
    if t == "result":
        try:
            c = pickle.loads(m["content"])
            if isinstance(c, dict) and "ok" in c:
                return "ok:result" if c["ok"] else "refused:result"
        except Exception:
            pass
        return fx.classify_result(m["content"])
    try:
        c = pickle.loads(m["content"])
        return (f"ok:{t}" if c.get("ok") else f"refused:{t}")
    except Exception:
        return f"msg:{t}"


async def wait_deregistered(sid, timeout=10):
    mgr = fe._env["connector"]._sse_service_manager
    t = 0.0
    while sid in mgr._service_dict and t < timeout:
        await asyncio.sleep(0.002)
        t += 0.002
    return sid not in mgr._service_dict


class Session:
    """one service id, consecutive connections; executes events and returns canonical observations"""

    def __init__(self, fx, port, sid):
        self.fx, self.port, self.sid = fx, port, sid
        self.conn = None
        self.alive = False
        self.keep_control = False
        self.controls = 0
        self.gated = False          # sequential mode: the cleanup delay is held until the harness releases it

    async def _read(self, n, timeout=2.0):
        """read up to n observations (stops early when the connection closes)"""
        got = []
        while len(got) < n:
            m = await self.conn.recv(timeout)
            o = parse_msg(self.fx, m)
            if o == "timeout":
                got.append("timeout"); break
            if o == "control" and not self.keep_control:     # "wait for the previous connection": informational
                self.controls += 1
                continue
            got.append(o)
            if o == "closed":
                self.alive = False
                break
        return got

    def _mgr(self):
        return fe._env["connector"]._sse_service_manager

    async def _let_cleanup_finish(self):
        """open the cleanup gate until this sid's finished connection has been cleaned up"""
        fe._env["gate_closed"] = False
        await wait_deregistered(self.sid)
        if self.gated:
            fe._env["gate_closed"] = True

    async def reconnect(self, expect, fast=False):
        if fast and self.gated and self.conn is not None:
            # the new Service object is constructed while the old connection's cleanup is held at its delay
            old = self._mgr()._service_dict.get(self.sid)
            await self.conn.close()
            self.conn = fe.RawConn(self.port, self.sid)
            self.alive = True
            first = parse_msg(self.fx, await self.conn.open())
            got = [first]
            fe._env["gate_closed"] = False
            if first == "closed":
                self.alive = False
                await wait_deregistered(self.sid)
            else:
                t = 0.0
                while t < 5:
                    cur = self._mgr()._service_dict.get(self.sid)
                    if cur is not None and cur is not old:
                        break
                    await asyncio.sleep(0.001); t += 0.001
            fe._env["gate_closed"] = True
            if first != "closed" and max(expect - 1, 0):
                got += await self._read(expect - 1)
            return got
        if self.conn is not None:
            await self.conn.close()
        await self._let_cleanup_finish()
        self.conn = fe.RawConn(self.port, self.sid)
        self.alive = True
        try:
            first = parse_msg(self.fx, await self.conn.open())
        except Exception as e:
            self.alive = False
            return [f"open-failed:{type(e).__name__}"]
        got = [first]
        if first == "closed":
            self.alive = False
        elif max(expect - 1, 0):
            got += await self._read(expect - 1)
        return got

    async def event(self, ev, expected):
        """ev: tuple; expected: the model's canonical observations for this event (drives how long we wait)"""
        fx = self.fx
        exp = list(expected)
        got = []
        if ev[0] == "reconnect":
            return await self.reconnect(len(exp))
        if ev[0] == "reconnect_fast":
            return await self.reconnect(len(exp), fast=True)
        if not self.alive:
            n_re = 1
            got += await self.reconnect(1)
            exp = exp[1:] if exp else exp
            if not self.alive:
                return got
        k = ev[0]
        if k == "config":
            if ev[1] == "J":       # unpickles to a dict, but JSON cannot store it (a bytes value): the handler fails half-way
                content = pickle.dumps(dict(fx.c[1], note=b"\x00bytes"))
            else:
                content = pickle.dumps(fx.c[ev[1]]) if ev[1] != "X" else b"\x80not a pickle"
            await self.conn.send("config", content)
        elif k == "upload":
            # "J": an index the handler cannot store (a str where bytes are expected): it fails while writing
            await self.conn.send("upload_edb", fx.e[ev[1]] if ev[1] != "J" else "not bytes")
        elif k == "search":
            content = fx.t[ev[1]] if ev[1] != "X" else b"short"
            mode = ev[2] if len(ev) > 2 else "same"
            if mode == "none":            # the digest field is the client's: it may be missing …
                await self.conn.send_raw({"type": "token", "sid": self.sid, "content": content})
            elif mode == "own":           # … the digest of this token, as the project's client sends it …
                import hashlib
                await self.conn.send("token", content, token_digest=hashlib.sha256(content).digest())
            else:                         # … or the same value for every request (a request counter that restarts, a constant)
                await self.conn.send("token", content, token_digest=b"d")
        elif k == "foreign":
            await self.conn.send("config", pickle.dumps(fx.c[1]), sid=self.sid + "-other")
        elif k == "notype":
            await self.conn.send_raw({"sid": self.sid, "content": b""})
        elif k == "nosid":
            await self.conn.send_raw({"type": "config", "content": pickle.dumps(fx.c[1])})
        elif k == "unknown":
            await self.conn.send("frobnicate", b"")
        n = len(exp)
        if n:
            got += await self._read(n)
        return got

    async def drain(self, t=0.05):
        """anything the server sent that nobody expected"""
        extra = []
        if self.conn is not None and self.alive:
            while True:
                m = await self.conn.recv(t)
                o = parse_msg(self.fx, m)
                if o == "timeout":
                    break
                if o == "control" and not self.keep_control:
                    self.controls += 1
                    continue
                extra.append(o)
                if o == "closed":
                    self.alive = False
                    break
        return extra

    async def finish(self):
        if self.conn is not None:
            await self.conn.close()
        fe._env["gate_closed"] = False
        await wait_deregistered(self.sid)


def impl_disk(fx, sid):
    """the durable state of one service on the real server's disk, in the driver's `srv disk` format"""
    import os, json, pickle as pk
    root = os.path.join(fe._env["home"], ".sse", sid)
    if not os.path.isdir(root):
        return "ok dir=false config=absent meta=absent edb=absent"

    def f(name, show):
        p = os.path.join(root, name)
        if not os.path.exists(p):
            return "absent"
        b = open(p, "rb").read()
        if not b:
            return "empty"
        try:
            return "full:" + show(b)
        except Exception:
            return "corrupt"
    cfg = f("config.json", lambda b: {"s1": "1", "s2": "2"}.get(json.loads(b).get("salt"), "?"))
    meta = f("service_meta", lambda b: str(pk.loads(b)["state"]))
    edb = f("edb", lambda b: next((str(k) for k, v in fx.e.items() if v == b), "?"))
    return f"ok dir=true config={cfg} meta={meta} edb={edb}"


def canon_results(line):
    """the model tags a result with the configuration id; a client cannot see it"""
    import re
    return re.sub(r"result:\d+,", "result:_,", line)


def ev_line(ev):
    return "srv ev " + " ".join(str(x) for x in ev)
