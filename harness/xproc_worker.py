"""One side of the client/server split, run as its OWN interpreter (own PYTHONHASHSEED, own import state):
   setup  <dir>  : configuration JSON + database  ->  key.bin, edb.bin          (client, process 1)
   tokens <dir>  : configuration JSON + key.bin + keywords  ->  tok_<i>.bin     (client, process 2: fresh instance, reloaded key)
   server <dir>  : configuration JSON + edb.bin + tok_<i>.bin  ->  res_<i>.bin  (server: holds only what crossed the wire)
Everything crosses as files of bytes; nothing else is shared."""
import sys, os, json

def main():
    mode, d = sys.argv[1], sys.argv[2]
    sys.path.insert(0, os.environ["SSEPY_REPO"])
    import schemes
    meta = json.load(open(os.path.join(d, "meta.json")))
    ld = schemes.load_sse_module(meta["module"])
    cfg = json.load(open(os.path.join(d, "config.json")))
    scheme = ld.SSEScheme(cfg)
    rd = lambda n: open(os.path.join(d, n), "rb").read()
    wr = lambda n, b: open(os.path.join(d, n), "wb").write(b)
    if mode == "setup":
        db = {bytes.fromhex(k): [bytes.fromhex(i) for i in v] for k, v in json.load(open(os.path.join(d, "db.json"))).items()}
        key = scheme.KeyGen()
        wr("key.bin", key.serialize())
        wr("edb.bin", scheme.EDBSetup(key, db).serialize())
    elif mode == "tokens":
        key = ld.SSEKey.deserialize(rd("key.bin"), scheme.config)
        for i, w in enumerate(meta["words"]):
            wr(f"tok_{i}.bin", scheme.TokenGen(key, bytes.fromhex(w)).serialize())
    elif mode == "server":
        edb = ld.SSEEncryptedDatabase.deserialize(rd("edb.bin"), scheme.config)
        for i, w in enumerate(meta["words"]):
            tk = ld.SSEToken.deserialize(rd(f"tok_{i}.bin"), scheme.config)
            wr(f"res_{i}.bin", scheme.Search(edb, tk).serialize())

main()
