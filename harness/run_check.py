#!/venv/bin/python
"""One check = translate -> lake build -> axiom audit -> correspondence -> verdict (DESIGN.md section 2).

usage: run_check.py --property C17 [--tier quick|thorough] [--replay FILE]
exit 0: property held on everything explored; exit 1: VIOLATION line printed; exit 2: infrastructure failure.
"""
import argparse
import importlib
import json
import os
import random
import sys
import time
import traceback

HERE = os.path.dirname(os.path.abspath(__file__))
sys.path.insert(0, HERE)
import common  # noqa: E402
from common import VERIF  # noqa: E402


class Ctx:
    def __init__(self, pid, tier, seed):
        self.pid = pid
        self.tier = tier
        self.seed = seed
        self.rng = random.Random((seed << 8) ^ int(pid[1:]))
        self.driver = common.Driver()
        self.t0 = time.time()
        self.notes = []

    @property
    def thorough(self):
        return self.tier == "thorough"

    def pick(self, quick, thorough):
        return thorough if self.thorough else quick


class Result:
    """What a correspondence / search run reports."""

    def __init__(self):
        self.evaluations = 0            # cases executed on the implementation
        self.compared = 0               # answer lines compared model vs implementation
        self.nontrivial = set()         # distinct non-trivial case signatures
        self.disagreements = []         # [{'case':..., 'impl':..., 'model':...}]
        self.violations = []            # direct-oracle failures on the real code: {'signature','what','input',...}
        self.samples = []
        self.distribution = {}
        self.rule = ""
        self.exhaustive = False
        self.hypotheses = {}            # name -> [held, evaluated]
        self.extra = {}

    def count(self, key, n=1):
        self.distribution[key] = self.distribution.get(key, 0) + n

    def sample(self, s, cap=6):
        if len(self.samples) < cap:
            self.samples.append(s)

    def merge(self, other):
        self.evaluations += other.evaluations
        self.compared += other.compared
        self.nontrivial |= other.nontrivial
        self.disagreements += other.disagreements
        self.violations += other.violations
        for s in other.samples:
            self.sample(s, cap=10)
        for k, v in other.distribution.items():
            self.count(k, v)
        for k, v in other.hypotheses.items():
            a = self.hypotheses.setdefault(k, [0, 0])
            a[0] += v[0]; a[1] += v[1]
        self.extra.update(other.extra)


def compare(res: Result, cases, impl_lines, model_lines, cap=25):
    for c, a, b in zip(cases, impl_lines, model_lines):
        res.compared += 1
        if a != b and len(res.disagreements) < cap:
            res.disagreements.append({"case": c, "impl": a[:400], "model": b[:400]})
        elif a != b:
            res.extra["more_disagreements"] = res.extra.get("more_disagreements", 0) + 1


def write_replay(pid, kind, payload):
    os.makedirs(os.path.join(VERIF, "replays"), exist_ok=True)
    sig = payload.get("signature") or payload.get("broken", "x")
    import hashlib
    h = hashlib.sha1(json.dumps([pid, kind, sig], default=str).encode()).hexdigest()[:10]
    path = os.path.join(VERIF, "replays", f"{pid}_{kind}_{h}.json")
    common.write_json(path, {"property": pid, "kind": kind, **payload})
    return path


def main():
    ap = argparse.ArgumentParser()
    ap.add_argument("--property", required=True)
    ap.add_argument("--tier", default=os.environ.get("VERIF_TIER", "quick"))
    ap.add_argument("--replay")
    ap.add_argument("--no-build", action="store_true")
    args = ap.parse_args()
    pid = args.property.upper()
    tier = args.tier if args.tier in ("quick", "thorough") else "quick"
    try:
        seed = int(os.environ.get("VERIF_SEED", "0"))
    except ValueError:
        seed = 0
    mod = importlib.import_module(f"props.{pid.lower()}")
    ctx = Ctx(pid, tier, seed)
    if not os.environ.get("VERIF_HAVE_LOCK"):
        # development aid: never run while tools/try_mutant.sh has a seeded change applied to the repository
        import fcntl
        os.makedirs(common.CACHE, exist_ok=True)
        _lk = open(os.path.join(common.CACHE, "mutant.lock"), "a")
        fcntl.flock(_lk, fcntl.LOCK_SH)

    if args.replay:
        rp = json.load(open(args.replay))
        out = mod.replay(ctx, rp)
        print(json.dumps(out, indent=1, default=str))
        return 0 if out.get("holds") else 1

    broken = []          # names of theorems / correspondences that no longer check
    info = {}
    # 1. translate ---------------------------------------------------------------------------
    if hasattr(mod, "translate"):
        try:
            info["translate"] = mod.translate(ctx)
        except Exception as e:  # extraction failed: the tie is broken
            broken.append(f"translator: {type(e).__name__}: {e}")
            info["translate"] = {"error": traceback.format_exc()[-1500:]}
    # 2. build -------------------------------------------------------------------------------
    module = getattr(mod, "MODULE", f"SSEPyVerif.Props.{pid}")
    props_file = module.replace(".", "/") + ".lean"
    build_log = ""
    if not args.no_build:
        try:
            ok_drv, log_drv = common.lake_build(["ssepy-driver"])
            ok, build_log = common.lake_build([module])
        except Exception as e:
            print(f"infrastructure failure: lake build: {e}")
            return 2
        if not ok_drv:
            broken.append("build: model driver (Model/ or Generated/ no longer compiles)")
            build_log = log_drv + build_log
    else:
        ok, ok_drv = True, True
    names = common.theorem_names(props_file)
    discharged = []
    axioms_seen = {}
    if ok:
        # 3. audit ---------------------------------------------------------------------------
        ax, raw = common.audit_axioms(module, names)
        for n in names:
            a = ax.get(n)
            if a is None:
                broken.append(f"theorem {n}: #print axioms gave no answer")
            elif not a <= common.ACCEPTED_AXIOMS:
                broken.append(f"theorem {n}: depends on unaccepted axioms {sorted(a - common.ACCEPTED_AXIOMS)}")
            else:
                discharged.append(n)
                axioms_seen[n] = sorted(a)
        hits = common.grep_forbidden()
        if hits:
            broken.append("forbidden construct in Lean sources: " + "; ".join(hits[:5]))
    else:
        # which theorems failed?  every theorem of the file counts as undischarged; name the first errors
        errs = [l for l in build_log.splitlines() if "error" in l][:6]
        broken.append(f"build of {module} failed: " + " | ".join(errs)[:800])
    # thorough: independent re-check of the compiled modules
    if ctx.thorough and ok and hasattr(mod, "LEANCHECK") and not os.environ.get("VERIF_NO_LEANCHECKER"):
        try:
            rc, out = common.run(["lake", "env", "leanchecker"] + list(mod.LEANCHECK), cwd=common.LEAN, timeout=3000)
            info["leanchecker"] = {"rc": rc, "tail": out[-300:]}
            if rc != 0:
                broken.append("leanchecker rejected " + " ".join(mod.LEANCHECK))
        except Exception as e:
            info["leanchecker"] = {"error": str(e)}
    # 4. correspondence ------------------------------------------------------------------------
    res = Result()
    try:
        if ok_drv and ctx.driver.available():
            r = mod.correspond(ctx)
            res.merge(r); res.rule = r.rule; res.exhaustive = r.exhaustive
        else:
            info["correspondence"] = "skipped: driver unavailable"
    except Exception as e:
        traceback.print_exc()
        print(f"infrastructure failure in correspondence: {e}")
        return 2
    if res.disagreements:
        broken.append(f"correspondence {pid}: {len(res.disagreements)} disagreement(s), first: "
                      + json.dumps(res.disagreements[0], default=str)[:600])
    # 5. verdict -------------------------------------------------------------------------------
    violations = list(res.violations)
    if broken and not violations and hasattr(mod, "search"):
        try:
            sr = mod.search(ctx, broken, res)
            res.merge(sr)
            violations = list(res.violations)
        except Exception as e:
            traceback.print_exc()
            print(f"infrastructure failure in search: {e}")
            return 2
    known = [k for k in common.load_known_findings() if k.get("property") == pid and k.get("status", "open") == "open"]
    known_sigs = {k["signature"]: k for k in known}
    exit_code = 0
    reported = set()
    n_viol = 0
    for v in violations:
        sig = v.get("signature")
        if sig in reported:
            continue
        reported.add(sig)
        if sig in known_sigs:
            print(f"KNOWN-FINDING: property={pid} {known_sigs[sig].get('what', v.get('what'))}")
            continue
        path = write_replay(pid, "failing-input", dict(v, broken=broken))
        print(f"VIOLATION property={pid} replay={os.path.relpath(path, VERIF)}")
        print("  " + str(v.get("what"))[:300])
        exit_code = 1
        n_viol += 1
    if broken and n_viol == 0 and not (violations and all(v.get("signature") in known_sigs for v in violations) and getattr(mod, "KNOWN_EXPLAINS_BROKEN", False)):
        path = write_replay(pid, "no-failing-input-found", {
            "broken": broken, "build_log_tail": build_log[-3000:],
            "disagreements": res.disagreements[:10],
            "searched": {"evaluations": res.evaluations, "rule": res.rule}})
        print(f"VIOLATION property={pid} replay={os.path.relpath(path, VERIF)} no-failing-input-found")
        for b in broken[:5]:
            print("  broken: " + b[:300])
        exit_code = 1
        n_viol += 1
    # evidence -----------------------------------------------------------------------------------
    wall = time.time() - ctx.t0
    cov = {
        "obligations": max(len(names), 1),
        "discharged": len(discharged),
        "checker_cmd": f"cd lean && lake build {module} && lake env lean <(#print axioms of every theorem in {props_file})",
        "trusted_base": common.TRUSTED_BASE_COMMON + list(getattr(mod, "TRUSTED", [])),
        "theorems": discharged,
        "undischarged": [n for n in names if n not in discharged],
        "axioms": axioms_seen,
        "evaluations": res.evaluations,
        "compared_lines": res.compared,
        "traces_validated_against_impl": res.compared - len(res.disagreements),
        "distinct_nontrivial": len(res.nontrivial),
        "rule": res.rule,
        "samples": res.samples or ["(no correspondence cases ran)"],
        "distribution": res.distribution,
        "hypotheses_checked": {k: {"held": v[0], "evaluated": v[1]} for k, v in res.hypotheses.items()},
        "exhaustive": res.exhaustive,
        "broken": broken,
        "explanation": getattr(mod, "EXPLANATION", ""),
    }
    cov.update(res.extra)
    cov.update(info)
    ev = {
        "property_id": pid, "tier": tier, "seed": seed, "level": "proof",
        "coverage": cov,
        "assumptions": list(getattr(mod, "ASSUMPTIONS", [])),
        "wall_s": round(wall, 2),
        "violations": n_viol,
    }
    common.write_json(os.path.join(VERIF, "evidence", f"{pid}.json"), ev)
    print(f"{pid} {tier} seed={seed}: theorems {len(discharged)}/{len(names)}, cases {res.evaluations}, "
          f"lines compared {res.compared}, disagreements {len(res.disagreements)}, violations {n_viol}, {wall:.1f}s")
    return exit_code


if __name__ == "__main__":
    try:
        sys.exit(main())
    except SystemExit:
        raise
    except Exception:
        traceback.print_exc()
        sys.exit(2)
