"""In-process front end: the real server handler and the real client service on a loopback websocket.

HOME is redirected to a scratch directory BEFORE any frontend module is imported (both file managers
derive their root from Path.home() at import time). The one-second cleanup delay of the server's
ServicesManager is replaced by an awaitable under harness control (default: a short sleep)."""
import asyncio
import importlib
import os
import pickle
import shutil
import sys
import tempfile

import common

_env = {}


def setup(fresh=True, cleanup_delay=0.0):
    """(re)create the scratch HOME and import the frontend against it; returns the env dict"""
    common.ensure_repo_on_path()
    base = os.path.join(common.CACHE, "scratch")
    os.makedirs(base, exist_ok=True)
    home = tempfile.mkdtemp(dir=base, prefix="home_")
    os.environ["HOME"] = home
    for m in [m for m in sys.modules if m == "frontend" or m.startswith("frontend.") or m == "global_config"]:
        del sys.modules[m]
    import logging
    logging.disable(logging.CRITICAL)
    import frontend.server.connector as connector
    import frontend.server.services.services_manager as sm
    import frontend.server.services.service as ssvc
    import frontend.server.services.file_manager as sfm
    import frontend.client.services.service as csvc
    import frontend.client.services.file_manager as cfm
    import global_config
    _env.update(home=home, connector=connector, sm=sm, ssvc=ssvc, sfm=sfm, csvc=csvc, cfm=cfm, gc=global_config,
                delay=cleanup_delay)

    class _AsyncioProxy:
        """services_manager's view of asyncio: only `sleep` is under harness control"""
        def __getattr__(self, name):
            return getattr(asyncio, name)

        async def sleep(self, t, *a, **k):
            # the cleanup delay: passes immediately unless the harness holds the gate closed
            _env["sleeping"] = _env.get("sleeping", 0) + 1
            try:
                while _env.get("gate_closed", False):
                    await asyncio.sleep(0.001)
                d = _env.get("delay", 0.0)
                await asyncio.sleep(d)
            finally:
                _env["sleeping"] -= 1
    sm.asyncio = _AsyncioProxy()
    return _env


def teardown():
    h = _env.get("home")
    if h:
        shutil.rmtree(h, ignore_errors=True)


def new_manager():
    """server restart: all connection objects and the registry are dropped, the disk stays"""
    _env["connector"]._sse_service_manager = _env["sm"].ServicesManager()


class Server:
    def __init__(self):
        self.server = None
        self.port = None

    async def __aenter__(self):
        import websockets
        new_manager()
        self.server = await websockets.serve(_env["connector"].handler, "localhost", 0, max_size=None)
        self.port = self.server.sockets[0].getsockname()[1]
        _env["gc"].ClientConfig.SERVER_URI = f"ws://localhost:{self.port}"
        return self

    async def __aexit__(self, *a):
        self.server.close()
        try:
            await asyncio.wait_for(self.server.wait_closed(), 5)
        except Exception:
            pass


class RawConn:
    """a raw protocol client: one websocket connection for one sid"""

    def __init__(self, port, sid):
        self.port, self.sid, self.ws = port, sid, None

    async def open(self, timeout=10):
        import websockets
        self.ws = await websockets.connect(f"ws://localhost:{self.port}", max_size=None)
        await self.ws.send(pickle.dumps({"type": "init", "sid": self.sid}))
        return await self.recv(timeout)

    async def send(self, mtype, content, sid=None, **extra):
        d = {"type": mtype, "sid": self.sid if sid is None else sid, "content": content}
        d.update(extra)
        await self.ws.send(pickle.dumps(d))

    async def send_raw(self, d):
        await self.ws.send(pickle.dumps(d))

    async def recv(self, timeout=10):
        """next message as a dict, or ('closed', code)"""
        import websockets
        try:
            m = await asyncio.wait_for(self.ws.recv(), timeout)
            return pickle.loads(m)
        except websockets.ConnectionClosed as e:
            return ("closed", e.rcvd.code if e.rcvd else None)
        except asyncio.TimeoutError:
            return ("timeout", None)

    async def close(self):
        try:
            await self.ws.close()
        except Exception:
            pass
