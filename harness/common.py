"""Shared plumbing for the checks: build, audit, driver, evidence, replay, known findings.

Run with /venv/bin/python (3.12, repo dependencies installed).  cwd-independent: all paths are
derived from this file's location; the repository under test is $SSEPY_REPO (default /repo).
"""
import fcntl
import hashlib
import json
import os
import random
import re
import subprocess
import sys
import time

VERIF = os.path.dirname(os.path.dirname(os.path.abspath(__file__)))
REPO = os.environ.get("SSEPY_REPO", "/repo")
LEAN = os.path.join(VERIF, "lean")
DRIVER = os.path.join(LEAN, ".lake", "build", "bin", "ssepy-driver")
CACHE = os.path.join(VERIF, ".cache")
ACCEPTED_AXIOMS = {"propext", "Classical.choice", "Quot.sound"}
FORBIDDEN = re.compile(r"\bsorry\b|\badmit\b|^\s*axiom\s|native_decide|bv_decide|implemented_by|\bunsafe\s|maxHeartbeats\s+0\b")

TRUSTED_BASE_COMMON = [
    "Lean 4.33.0 kernel; axioms accepted: propext, Classical.choice, Quot.sound (audited by #print axioms on every run)",
    "no sorry/admit/native_decide/bv_decide/implemented_by/unsafe/own axioms (grep on every run)",
    "the correspondence harness, its canonicalisation and the Lean driver's parsing (checked only against each other)",
    "CPython semantics of int/bytes/list/dict/slice as modelled in Model/PySeq, Model/Bytes",
]


def ensure_repo_on_path():
    if REPO not in sys.path:
        sys.path.insert(0, REPO)


def hx(b: bytes) -> str:
    return b.hex() if len(b) else "-"


def unhx(s: str) -> bytes:
    return b"" if s == "-" else bytes.fromhex(s)


def hxl(l) -> str:
    return ",".join(hx(x) for x in l) if len(l) else "."


def intl(l) -> str:
    return ",".join(str(x) for x in l) if len(l) else "."


def optint(x) -> str:
    return "N" if x is None else str(x)


ERRNAMES = {
    ValueError: "ValueError", TypeError: "TypeError", IndexError: "IndexError", KeyError: "KeyError",
    OverflowError: "OverflowError", ZeroDivisionError: "ZeroDivisionError",
    FileExistsError: "FileExistsError", FileNotFoundError: "FileNotFoundError",
    AttributeError: "AttributeError", StopIteration: "StopIteration",
}


def errname(e: BaseException) -> str:
    for cls in type(e).__mro__:
        if cls in ERRNAMES:
            return ERRNAMES[cls]
    return "Other:" + type(e).__name__


def call(f, show):
    """Run f(); canonical 'ok <payload>' / 'err <Class>' line."""
    try:
        r = f()
    except Exception as e:  # noqa
        return "err " + errname(e)
    return "ok " + show(r)


class Lock:
    def __init__(self, name="build"):
        os.makedirs(CACHE, exist_ok=True)
        self.path = os.path.join(CACHE, name + ".lock")

    def __enter__(self):
        self.f = open(self.path, "w")
        fcntl.flock(self.f, fcntl.LOCK_EX)
        return self

    def __exit__(self, *a):
        fcntl.flock(self.f, fcntl.LOCK_UN)
        self.f.close()


def run(cmd, cwd=None, timeout=None, env=None, input=None):
    p = subprocess.run(cmd, cwd=cwd, stdout=subprocess.PIPE, stderr=subprocess.STDOUT, text=True,
                       timeout=timeout, env=env, input=input)
    return p.returncode, p.stdout


def lake_build(targets, timeout=3000):
    """Build the given lake targets (module names / exe). Returns (ok, log)."""
    with Lock("build"):
        rc, out = run(["lake", "build"] + list(targets), cwd=LEAN, timeout=timeout)
    return rc == 0, out


def theorem_names(relpath):
    """Names of the theorems declared in a Props file (fully qualified by enclosing namespaces)."""
    names = []
    ns = []
    src = open(os.path.join(LEAN, relpath)).read()
    src = strip_comments(src)
    for line in src.splitlines():
        m = re.match(r"\s*namespace\s+(\S+)", line)
        if m:
            ns.append(m.group(1)); continue
        m = re.match(r"\s*end\s+(\S+)", line)
        if m and ns and ns[-1] == m.group(1):
            ns.pop(); continue
        m = re.match(r"\s*(?:@\[[^\]]*\]\s*)?(?:private\s+|protected\s+)?theorem\s+(\S+)", line)
        if m:
            names.append(".".join(ns + [m.group(1)]))
    return names


def strip_comments(src: str) -> str:
    # remove nested /- -/ block comments and -- line comments (good enough for the audit grep)
    out = []
    i = 0
    depth = 0
    while i < len(src):
        if src.startswith("/-", i):
            depth += 1; i += 2; continue
        if depth and src.startswith("-/", i):
            depth -= 1; i += 2; continue
        if depth:
            if src[i] == "\n":
                out.append("\n")
            i += 1; continue
        if src.startswith("--", i):
            while i < len(src) and src[i] != "\n":
                i += 1
            continue
        out.append(src[i]); i += 1
    return "".join(out)


def grep_forbidden():
    """Scan every .lean file of the project (comments stripped) for forbidden constructs."""
    hits = []
    for root, _, files in os.walk(LEAN):
        if ".lake" in root:
            continue
        for fn in files:
            if not fn.endswith(".lean"):
                continue
            p = os.path.join(root, fn)
            for n, line in enumerate(strip_comments(open(p).read()).splitlines(), 1):
                if FORBIDDEN.search(line):
                    hits.append(f"{os.path.relpath(p, LEAN)}:{n}: {line.strip()}")
    return hits


def audit_axioms(module, names):
    """#print axioms for each theorem; returns dict name -> set(axioms) (None if it failed)."""
    os.makedirs(CACHE, exist_ok=True)
    path = os.path.join(CACHE, f"audit_{module.replace('.', '_')}_{os.getpid()}.lean")
    with open(path, "w") as f:
        f.write(f"import {module}\n")
        for n in names:
            f.write(f"#print axioms {n}\n")
    try:
        rc, out = run(["lake", "env", "lean", path], cwd=LEAN, timeout=1200)
    finally:
        try:
            os.unlink(path)
        except OSError:
            pass
    res = {n: None for n in names}
    # output: "'name' depends on axioms: [a, b]" (possibly wrapped) or "'name' does not depend on any axioms"
    text = out.replace("\n", " ")
    for m in re.finditer(r"'([^']+)' depends on axioms: \[([^\]]*)\]", text):
        res[m.group(1)] = {a.strip() for a in m.group(2).split(",") if a.strip()}
    for m in re.finditer(r"'([^']+)' does not depend on any axioms", text):
        res[m.group(1)] = set()
    return res, out


class Driver:
    """Batch access to the compiled model driver."""

    def __init__(self):
        self.path = DRIVER

    def available(self):
        return os.path.exists(self.path)

    def batch(self, lines, timeout=3000):
        data = "\n".join(lines) + "\n"
        p = subprocess.run([self.path], input=data, stdout=subprocess.PIPE, stderr=subprocess.PIPE,
                           text=True, timeout=timeout)
        out = p.stdout.split("\n")
        if out and out[-1] == "":
            out.pop()
        if len(out) != len(lines):
            raise RuntimeError(f"driver answered {len(out)} lines for {len(lines)} requests; stderr={p.stderr[:500]}")
        return out


def write_json(path, obj):
    os.makedirs(os.path.dirname(path), exist_ok=True)
    tmp = path + f".tmp{os.getpid()}"
    with open(tmp, "w") as f:
        json.dump(obj, f, indent=1, sort_keys=False, default=str)
        f.write("\n")
    os.replace(tmp, path)


def load_known_findings():
    p = os.path.join(VERIF, "known_findings.json")
    if not os.path.exists(p):
        return []
    return json.load(open(p)).get("findings", [])


def repo_tree_hash(paths):
    h = hashlib.sha256()
    for rel in sorted(paths):
        p = os.path.join(REPO, rel)
        h.update(rel.encode())
        try:
            h.update(open(p, "rb").read())
        except OSError:
            h.update(b"<missing>")
    return h.hexdigest()[:16]
