"""Shared driver of the scheme-layer checks (C01–C08): case generation, recorded-oracle correspondence for the modelled
schemes, evaluation of the theorems' no-collision hypotheses on every recorded run, and the direct oracles on the real
code for all nine schemes."""
import copy

import common
from common import hx
from run_check import Result
import schemes_env as se
import schemes_corr as sc

TRUSTED = [
    "leaves (recorded and replayed as tables, not modelled): HMAC-SHA1 digests (hmac.new), SHA-1 digests (hashlib), the AES block function of the `cryptography` package; assumed in the theorems: the AES block function is invertible on 16-byte blocks and digests have their nominal length",
    "randomness: os.urandom / random.randint / sample / choice / shuffle are replaced by a seeded generator and logged in call order as the tape the model consumes; the theorems quantify over every tape",
    "the no-collision hypotheses of the theorems (distinct PRF labels; the label after a keyword's last chunk is not stored; an absent keyword's first label is not stored) are statements about HMAC/PRP outputs that hold except with negligible probability; the driver evaluates them on every recorded run",
    "pickle / json are not modelled: the index is compared as Python objects (dict items in stored order, array cells), not as pickled bytes",
    "math.log2 on database sizes is modelled by exact integer logarithms (they agree far beyond 2^49 postings)",
]


def case_sig(name, cfg, db, profile):
    return (name, profile, tuple(sorted((k, str(v)) for k, v in cfg.items() if k.startswith("param"))),
            tuple(len(v) for v in db.values()))


def gen_cases(ctx, names, n_cfg, profiles=None, scale=1):
    rng = ctx.rng
    out = []
    for name in names:
        for ci, cfg in enumerate(se.grid(name, rng, n_cfg)):
            big = se.BIG_PROFILES if (ci == 0 and name != "SSE2") else []     # SSE-2 tokens cost param_n PRP calls each
            if name == "SSE2" and ci == 0:
                big = ["long_list"]      # one list of ~300 postings: counters beyond one byte
            if name == "PiPtr" and ci == 1:
                big = ["long_list_2byte"]      # pointers of two bytes with ONE pointer per pointer block (B=2, b=1): index 256 ends a block
            for prof in (profiles or (se.PROFILES + big)):
                db = se.gen_db(name, cfg, rng, prof, scale)
                c = se.finalize_cfg(name, cfg, db)
                absent = se.absent_keywords(rng, name, c, db)
                if prof in se.BIG_PROFILES:
                    # the keyword with the longest list followed by a counter-like byte: its look-up label must not be one of the
                    # labels the long list itself occupies
                    wl = max(db, key=lambda k: len(db[k]))
                    for extra in (wl + b"\x01", wl + b"\x00"):
                        if len(extra) <= se.kw_limit(name, c) and extra not in db and extra not in absent:
                            absent.append(extra)
                present = list(db)
                if prof in se.BIG_PROFILES + ["long_list_2byte"] and len(present) > 12:
                    # search a sample: the longest lists and a few others
                    present = sorted(present, key=lambda w: -len(db[w]))[:4] + rng.sample(present, 8)
                    present = list(dict.fromkeys(present))
                out.append(dict(name=name, cfg=c, db=db, present=present, absent=absent, profile=prof))
    return out


def named_schemes(res0, names=None):
    """the schemes a broken correspondence names (its disagreements start with the scheme name): the failing-input search
    looks at these first, with more configurations and the big profiles"""
    names = names or se.NAMES
    return [n for n in names if any(str(d.get("case", "")).startswith(n + " ") for d in res0.disagreements)]


def targeted_cases(ctx, res0, n_quick=24, n_thorough=60, scale=1, names=None):
    named = named_schemes(res0, names)
    if not named:
        return []
    out = []
    if "SSE2" in named:
        # SSE-2 tokens cost param_n PRP calls each: fewer configurations, one big profile (a list with counters beyond one byte)
        out += gen_cases(ctx, ["SSE2"], ctx.pick(min(n_quick, 6), min(n_thorough, 16)), profiles=se.PROFILES + ["long_list"], scale=scale)
        named = [n for n in named if n != "SSE2"]
    if named:
        out += gen_cases(ctx, named, ctx.pick(n_quick, n_thorough), profiles=se.PROFILES + se.BIG_PROFILES, scale=scale)
    return out


def show_case(c, w=None):
    d = {"scheme": c["name"], "config": {k: v for k, v in c["cfg"].items() if k != "scheme"},
         "database": {hx(k): [hx(i) for i in v] for k, v in c["db"].items()}}
    if w is not None:
        d["keyword"] = hx(w)
    return d


def violation(res, sig, what, inp):
    if not any(v["signature"] == sig for v in res.violations):
        res.violations.append({"signature": sig, "what": what, "input": inp})


WITH_HYPS = {"PiBas", "PiPack", "SSE2", "PiPtr", "ANSS16", "CT14", "SSE1", "Pi2Lev", "DP17"}


def case_from_replay(rp):
    inp = rp["input"]
    db = {bytes.fromhex(k): [bytes.fromhex(i) for i in v] for k, v in inp["database"].items()}
    cfg = dict(inp["config"])
    words = [bytes.fromhex(inp["keyword"])] if "keyword" in inp else []
    present = [w for w in words if w in db] or list(db)
    return dict(name=inp["scheme"], cfg=cfg, db=db, present=present, absent=[w for w in words if w not in db], profile="replay")


def correspond(ctx, res, cases, want_hyps=True, wire=False):
    """recorded-oracle correspondence for the modelled schemes among `cases`"""
    todo = [c for c in cases if c["name"] in sc.MODELLED]
    triples = [(c["name"], c["cfg"], c["db"], c["present"] + c["absent"]) for c in todo]
    outs = sc.compare_cases(ctx.driver, triples, ctx.rng, hyps=[c["absent"] for c in todo] if want_hyps else None)
    for c, (obs, mism, calls, tapelen, hyp) in zip(todo, outs):
        res.evaluations += 1
        res.compared += 4 + 2 * len(c["present"] + c["absent"])
        res.nontrivial.add(case_sig(c["name"], c["cfg"], c["db"], c["profile"]))
        res.count("corr:" + c["name"])
        res.count("tape draws", tapelen)
        for k, v in calls.items():
            res.count("leaf calls:" + k, v)
        for what, a, b in mism:
            if len(res.disagreements) < 25:
                res.disagreements.append({"case": f"{c['name']} {c['profile']} {what}", "impl": a, "model": b,
                                          "input": show_case(c)})
        if hyp is not None and c["name"] in WITH_HYPS:
            h = res.hypotheses.setdefault("no-collision (" + c["name"] + ")", [0, 0])
            h[1] += 1
            h[0] += 1 if hyp == "1" else 0
        c["obs"] = obs
    return todo


def direct(ctx, res, cases, oracle, history=False):
    """run the real scheme (no recorder) and hand every case to `oracle(case, out)`"""
    for c in cases:
        out = se.run_real(c["name"], copy.deepcopy(c["cfg"]), c["db"], c["present"] + c["absent"], history=history)
        res.evaluations += 1
        res.nontrivial.add(case_sig(c["name"], c["cfg"], c["db"], c["profile"]))
        res.count("direct:" + c["name"])
        oracle(c, out)
