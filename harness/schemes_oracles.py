import os
"""Direct oracles on the real code for C03–C08 (all nine schemes).  Each oracle takes a generated case
(schemes_check.gen_cases) and reports violations with the concrete failing input."""
import copy
import json
import pickle
import random as _random

import schemes_env as se
import schemes_check as sk

TABLE_SCHEMES = ["PiBas", "PiPack", "PiPtr", "Pi2Lev", "CT14", "ANSS16"]


def build(c):
    ld = se.loader(c["name"])
    scheme = ld.SSEScheme(copy.deepcopy(c["cfg"]))
    key = scheme.KeyGen()
    edb = scheme.EDBSetup(key, c["db"])
    return ld, scheme, key, edb


def result_of(name, r):
    rl = r.get_result_list() if hasattr(r, "get_result_list") else r.result
    return set(rl) if name == "DP17" else list(rl)


# ------------------------------------------------------------------------------------------- C03
def c03(res, c):
    name = c["name"]
    try:
        ld, scheme, key, edb = build(c)
    except Exception as e:
        return      # C01's business
    cfg2 = json.loads(json.dumps(c["cfg"]))
    try:
        scheme2 = ld.SSEScheme(cfg2)
    except Exception as e:
        sk.violation(res, f"{name}: configuration does not survive a JSON round trip", f"{name}: {type(e).__name__}: {e}", sk.show_case(c))
        return
    conf2 = scheme2.config

    def rt(kind, obj, cls):
        try:
            back = cls.deserialize(obj.serialize(), conf2)
        except Exception as e:
            sk.violation(res, f"{name}: {kind} cannot be deserialized from its own serialization",
                         f"{name} ({c['profile']}): {kind}.deserialize(serialize()) raised {type(e).__name__}: {e}", sk.show_case(c))
            return None
        if not (back == obj):
            sk.violation(res, f"{name}: {kind} changes in a serialize/deserialize round trip",
                         f"{name} ({c['profile']}): deserialized {kind} != original", sk.show_case(c))
        return back
    key2 = rt("key", key, ld.SSEKey)
    edb2 = rt("encrypted database", edb, ld.SSEEncryptedDatabase)
    if key2 is None or edb2 is None:
        return
    for w in c["present"] + c["absent"]:
        res.count("remote searches")
        try:
            tk_local = scheme.TokenGen(key, w)
            tk2 = scheme2.TokenGen(key2, w)
            tk_wire = ld.SSEToken.deserialize(tk2.serialize(), conf2)
            if not (tk_wire == tk_local):
                sk.violation(res, f"{name}: token from the reloaded key differs / changes on the wire",
                             f"{name}: keyword {w.hex()}", sk.show_case(c, w))
                continue
            r = scheme2.Search(edb2, tk_wire)
            r_wire = ld.SSEResult.deserialize(r.serialize(), conf2)
            got = result_of(name, r_wire)
        except Exception as e:
            sk.violation(res, f"{name}: client/server split raises {type(e).__name__}",
                         f"{name} ({c['profile']}): keyword {w.hex()}: {type(e).__name__}: {e}", sk.show_case(c, w))
            continue
        if got != se.expected(name, c["db"], w):
            sk.violation(res, f"{name}: result computed from serialized key/token/index differs from DB.get(w)",
                         f"{name} ({c['profile']}): keyword {w.hex()}: {len(got)} identifiers vs {len(c['db'].get(w, []))}", sk.show_case(c, w))
        elif not (r_wire == r):
            sk.violation(res, f"{name}: result changes in a serialize/deserialize round trip", f"{name}: keyword {w.hex()}", sk.show_case(c, w))


    # a second session in the same process: fresh scheme instance, fresh key, same database (stale process-wide state)
    try:
        scheme3 = ld.SSEScheme(json.loads(json.dumps(c["cfg"])))
        key3 = ld.SSEKey.deserialize(scheme3.KeyGen().serialize(), scheme3.config)
        edb3 = ld.SSEEncryptedDatabase.deserialize(scheme3.EDBSetup(key3, c["db"]).serialize(), scheme3.config)
        for w in c["present"]:
            tk = ld.SSEToken.deserialize(scheme3.TokenGen(key3, w).serialize(), scheme3.config)
            got = result_of(name, ld.SSEResult.deserialize(scheme3.Search(edb3, tk).serialize(), scheme3.config))
            if got != se.expected(name, c["db"], w):
                sk.violation(res, f"{name}: a second session (fresh key) in the same process gets wrong results",
                             f"{name} ({c['profile']}): keyword {w.hex()}: {len(got)} identifiers vs {len(c['db'][w])}", sk.show_case(c, w))
                break
    except Exception as e:
        sk.violation(res, f"{name}: a second session in the same process raises {type(e).__name__}", f"{name}: {e}", sk.show_case(c))


# ------------------------------------------------------------------------------------------- C04
def ciphertext_entries(name, edb):
    """the ciphertext-bearing entries of an index, cut into single ciphertexts where several are joined"""
    out = []
    if name in ("PiBas", "PiPack"):
        out += list(edb.D.values())
    elif name in ("PiPtr", "Pi2Lev"):
        out += list(edb.D.values()) + [x for x in edb.A if x is not None]
    elif name == "CT14":
        for i, ht in enumerate(edb.HT_list):
            for v in ht.values():
                n = len(v) // (2 ** i)
                out += [v[j:j + n] for j in range(0, len(v), n)]
    elif name == "ANSS16":
        for i, ht in enumerate(edb.HT_L_list):
            for v in ht.values():
                n = len(v) // (2 ** i)
                out += [v[j:j + n] for j in range(0, len(v), n)]
        out += list(edb.HT_S.values())
    elif name == "SSE1":
        out += list(edb.A) + list(edb.T.values())
    elif name == "SSE2":
        pass                            # identifiers are stored in the clear, by construction
    elif name == "DP17":
        for arr in edb.A_dict.values():
            for b in arr:
                n = len(b)
                # bucket = joined equal-length ciphertexts
                for k in range(48, 0, -16):
                    pass
        # cut with the configured ciphertext length (done by the caller, which has the config)
    return out


def c04(res, c):
    name = c["name"]
    try:
        ld, scheme, key, edb = build(c)
        edb_b = scheme.EDBSetup(key, c["db"])
    except Exception:
        return
    blob = edb.serialize()
    toks = []
    for w in c["present"] + c["absent"]:
        try:
            toks.append((w, scheme.TokenGen(key, w).serialize()))
        except Exception:
            pass
    long_kw = [w for w in c["db"] if len(w) >= 6]
    long_id = sorted({i for ids in c["db"].values() for i in ids if len(i) >= 8})
    for w in long_kw:
        res.count("substring scans")
        if w in blob:
            sk.violation(res, f"{name}: a stored keyword occurs in the serialized index", f"{name}: keyword {w.hex()}", sk.show_case(c, w))
        for w2, tb in toks:
            if w in tb:
                sk.violation(res, f"{name}: a keyword occurs in a serialized token", f"{name}: keyword {w.hex()} in token of {w2.hex()}", sk.show_case(c, w))
    if name != "SSE2":
        for i in long_id:
            if i in blob:
                sk.violation(res, f"{name}: a stored identifier occurs in the serialized index", f"{name}: identifier {i.hex()}", sk.show_case(c))
            for w2, tb in toks:
                if i in tb:
                    sk.violation(res, f"{name}: an identifier occurs in a serialized token", f"{name}: identifier {i.hex()}", sk.show_case(c))

    # the index as it is stored AFTER it has been used: every keyword searched (twice), then serialized again - what a server
    # writes back, or ships to a replica, must expose as little as the freshly built index
    try:
        for w in (c["present"] + c["absent"]) * 2:
            scheme.Search(edb, scheme.TokenGen(key, w))
        blob_after = edb.serialize()
    except Exception:
        blob_after = b""
    for w in long_kw:
        if w in blob_after:
            sk.violation(res, f"{name}: a stored keyword occurs in the index serialized after searches",
                         f"{name}: keyword {w.hex()}", sk.show_case(c, w))
            break
    if name != "SSE2":
        hits = [i for i in long_id if i in blob_after]
        if hits:
            sk.violation(res, f"{name}: stored identifiers occur in the index serialized after searches",
                         f"{name} ({c['profile']}): {len(hits)} identifiers, e.g. {hits[0].hex()}", sk.show_case(c))

    def entries(e):
        if name == "DP17":
            n = scheme.config.param_identifier_cipher_len
            return [b[j:j + n] for arr in e.A_dict.values() for b in arr for j in range(0, len(b), n)]
        return ciphertext_entries(name, e)
    ea, eb = entries(edb), entries(edb_b)
    if len(set(ea)) != len(ea):
        sk.violation(res, f"{name}: two ciphertext entries of one index are equal",
                     f"{name} ({c['profile']}): {len(ea) - len(set(ea))} repeated entries among {len(ea)}", sk.show_case(c))
    if set(ea) & set(eb):
        sk.violation(res, f"{name}: two setups of the same (key, database) share ciphertext entries",
                     f"{name} ({c['profile']}): {len(set(ea) & set(eb))} shared entries", sk.show_case(c))
    # a second scheme OBJECT in the same process (what every front-end command creates), same key, same database
    try:
        scheme2 = ld.SSEScheme(copy.deepcopy(c["cfg"]))
        ec = entries(scheme2.EDBSetup(key, c["db"]))
    except Exception:
        ec = []
    if (set(ea) | set(eb)) & set(ec):
        sk.violation(res, f"{name}: a second scheme object encrypting the same (key, database) reproduces ciphertext entries",
                     f"{name} ({c['profile']}): {len((set(ea) | set(eb)) & set(ec))} entries shared with an index built by another scheme object", sk.show_case(c))
    res.count("ciphertext entries compared", len(ea))


def c04_repeated_setups(res, rng, rounds):
    """the same (key, database) encrypted again and again by ONE scheme object: no ciphertext entry may ever repeat
    (a randomness source that cycles shows up as soon as the cycle closes)"""
    name = "PiBas"
    cfg = se.default_cfg(name)
    db = {}
    used = set()
    for k in range(8):
        w = se._keyword(rng, 20, db)
        db[w] = [se._ident(rng, 8, used) for _ in range(8)]          # 64 postings
    c = dict(name=name, cfg=cfg, db=db, present=list(db), absent=[], profile=f"{rounds} setups of one 64-posting database")
    ld = se.loader(name)
    scheme = ld.SSEScheme(copy.deepcopy(cfg))
    key = scheme.KeyGen()
    seen = {}
    for r in range(rounds):
        edb = scheme.EDBSetup(key, db)
        for label, v in edb.D.items():
            if v in seen:
                sk.violation(res, f"{name}: encrypting the same database again under the same key reproduces a ciphertext entry",
                             f"{name}: setup #{r + 1} stores under label {label.hex()[:16]} the ciphertext that setup #{seen[v] + 1} stored "
                             f"(64 postings per setup, {r * 64} encryptions apart at most)", dict(sk.show_case(c), setups=r + 1))
                return
            seen[v] = r
    res.count("repeated setups", rounds)


# ------------------------------------------------------------------------------------------- C05
def shape(name, edb):
    """per container: entry count, multiset of key lengths, multiset of value lengths"""
    def tbl(d):
        ks, vs = {}, {}
        for k, v in d.items():
            kl = len(k) if isinstance(k, bytes) else "int"
            ks[kl] = ks.get(kl, 0) + 1
            vs[len(v)] = vs.get(len(v), 0) + 1
        return ("table", len(d), tuple(sorted(ks.items(), key=str)), tuple(sorted(vs.items())))

    def arr(a):
        ls = {}
        for x in a:
            l = None if x is None else len(x)
            ls[l] = ls.get(l, 0) + 1
        return ("array", len(a), tuple(sorted(ls.items(), key=str)))
    if name in ("PiBas", "PiPack"):
        return (tbl(edb.D),)
    if name in ("PiPtr", "Pi2Lev"):
        return (tbl(edb.D), arr(edb.A))
    if name == "CT14":
        return tuple(tbl(h) for h in edb.HT_list)
    if name == "ANSS16":
        return (tbl(edb.HT_S),) + tuple(tbl(h) for h in edb.HT_L_list)
    if name == "SSE1":
        return (arr(edb.A), tbl(edb.T))
    if name == "SSE2":
        return (tbl(edb.I),)
    if name == "DP17":
        return (tbl(edb.HT),) + tuple(("level", i) + arr(a) for i, a in sorted(edb.A_dict.items()))


def size_param(name, cfg, db):
    import math
    N = sum(len(v) for v in db.values())
    if name == "SSE1":
        return ()
    if name in ("SSE2", "PiBas", "DP17"):
        return N
    if name == "PiPack":
        return sum(math.ceil(len(v) / cfg["param_B"]) for v in db.values())
    if name == "PiPtr":
        return (sum(math.ceil(len(v) / cfg["param_B"]) for v in db.values()),
                sum(math.ceil(math.ceil(len(v) / cfg["param_B"]) / cfg["param_b"]) for v in db.values()))
    if name == "Pi2Lev":
        a = 1
        for v in db.values():
            if len(v) > cfg["param_b"]:
                a += math.ceil(len(v) / cfg["param_B"])
            if len(v) > cfg["param_b_prime"] * cfg["param_B"]:
                a += math.ceil(len(v) / (cfg["param_B"] * cfg["param_B_prime"]))
        return (len(db), a)
    if name in ("CT14", "ANSS16"):
        return math.ceil(math.log2(N))


def uniform_tables(name, edb):
    """within every padded table all keys have one length and all values one length"""
    tabs = []
    if name in ("PiBas", "PiPack", "PiPtr", "Pi2Lev"):
        tabs = [("D", edb.D)]
    elif name == "CT14":
        tabs = [(f"HT_{i}", h) for i, h in enumerate(edb.HT_list)]
    elif name == "ANSS16":
        tabs = [("HT_S", edb.HT_S)] + [(f"HT_L{i}", h) for i, h in enumerate(edb.HT_L_list)]
    elif name == "SSE1":
        tabs = [("T", edb.T)]
    elif name == "DP17":
        tabs = [("HT", edb.HT)]
    bad = []
    for n, t in tabs:
        if len({len(k) for k in t}) > 1 or len({len(v) for v in t.values()}) > 1:
            bad.append(n)
    if name in ("SSE1", "PiPtr", "Pi2Lev"):
        if len({len(x) for x in edb.A if x is not None}) > 1:
            bad.append("A")
    if name == "DP17":
        for i, a in edb.A_dict.items():
            if len({len(x) for x in a[:-1]}) > 1:       # the last bucket of a level may be shorter
                bad.append(f"A_{i}")
    return bad


def c05_pair(res, c1, c2):
    """c1, c2: same scheme, same configuration, same public size parameter, different contents / distribution"""
    name = c1["name"]
    try:
        _, s1, k1, e1 = build(c1)
        _, s2, k2, e2 = build(c2)
    except Exception:
        return
    res.count("shape pairs")
    sh1, sh2 = shape(name, e1), shape(name, e2)
    if sh1 != sh2:
        sk.violation(res, f"{name}: two databases with the same public size parameter give differently shaped indexes",
                     f"{name}: size parameter {size_param(name, c1['cfg'], c1['db'])}, lists {[len(v) for v in c1['db'].values()]} vs "
                     f"{[len(v) for v in c2['db'].values()]}: {str(sh1)[:150]} vs {str(sh2)[:150]}",
                     {"first": sk.show_case(c1), "second": sk.show_case(c2)})
    for c, e in ((c1, e1), (c2, e2)):
        bad = uniform_tables(name, e)
        if bad:
            sk.violation(res, f"{name}: entries of one padded table differ in length (padding distinguishable)",
                         f"{name}: tables {bad}, lists {[len(v) for v in c['db'].values()]}", sk.show_case(c))


def same_size_variant(rng, c):
    """another valid database for the same configuration with the same public size parameter but a different profile"""
    name, cfg, db = c["name"], c["cfg"], c["db"]
    want = size_param(name, cfg, db)
    for _ in range(60):
        prof = rng.choice(se.PROFILES)
        d2 = se.gen_db(name, cfg, rng, prof)
        if name == "SSE2":
            pass
        if size_param(name, cfg, d2) == want and [len(v) for v in d2.values()] != [len(v) for v in db.values()]:
            if name == "SSE2" and se.finalize_cfg(name, cfg, d2) != cfg:
                continue
            return dict(c, db=d2, present=list(d2), absent=[], profile=prof)
    # constructive: redistribute the same number of postings
    N = sum(len(v) for v in db.values())
    if name in ("PiBas", "CT14", "ANSS16", "DP17") and N >= 2:
        ids = cfg.get("param_identifier_size", 8)
        used = set()
        k = rng.randint(1, min(N, 4))
        cuts = sorted(rng.sample(range(1, N), k - 1)) if k > 1 else []
        lens = [b - a for a, b in zip([0] + cuts, cuts + [N])]
        if lens == [len(v) for v in db.values()]:
            return None
        d2 = {}
        for l in lens:
            w = se._keyword(rng, se.kw_limit(name, cfg), d2)
            lu = set()
            d2[w] = [se._ident(rng, ids, lu) for _ in range(l)]
        return dict(c, db=d2, present=list(d2), absent=[], profile="redistributed")
    return None


# ------------------------------------------------------------------------------------------- C06
def label_sequences(name, edb):
    if name in ("PiBas", "PiPack", "PiPtr", "Pi2Lev"):
        return [list(edb.D.keys())]
    if name == "CT14":
        return [list(h.keys()) for h in edb.HT_list]
    if name == "ANSS16":
        return [list(edb.HT_S.keys())] + [list(h.keys()) for h in edb.HT_L_list]
    return []


def c06_order(res, c, rng):
    """(a) label order is sorted and independent of the keyword order — with the SAME key and the same randomness"""
    name = c["name"]
    if name not in TABLE_SCHEMES:
        return
    import os
    try:
        ld = se.loader(name)
        scheme = ld.SSEScheme(copy.deepcopy(c["cfg"]))
        key = scheme.KeyGen()
        items = list(c["db"].items())
        perm = items[:]
        rng.shuffle(perm)
        if len(items) > 1 and perm == items:
            perm = items[::-1]
        # random filler labels differ between runs; they are drawn by os.urandom: fix them by seeding a private stream that
        # depends only on the requested length sequence is not possible across orders, so compare the REAL labels only:
        e1 = scheme.EDBSetup(key, dict(items))
        e2 = scheme.EDBSetup(key, dict(perm))
    except Exception:
        return
    res.count("order pairs")
    for which, e in (("given order", e1), ("permuted order", e2)):
        for ti, seq in enumerate(label_sequences(name, e)):
            if seq != sorted(seq):
                sk.violation(res, f"{name}: labels of a table are not stored in label order",
                             f"{name} ({c['profile']}, {which}): table {ti} with {len(seq)} labels is not sorted", sk.show_case(c))
    # the labels that belong to real entries are the same set in both; with sorted storage their relative order is equal
    real1 = real_labels(name, scheme, key, c["db"], e1)
    real2 = real_labels(name, scheme, key, c["db"], e2)
    if real1 is not None and real1 != real2:
        sk.violation(res, f"{name}: the sequence of real labels depends on the keyword order of the input",
                     f"{name} ({c['profile']}): keyword order {[k.hex() for k, _ in perm][:4]}", sk.show_case(c))


def real_labels(name, scheme, key, db, edb):
    """per table, the stored labels that some keyword's search reads, in stored order"""
    seqs = label_sequences(name, edb)
    touched = [set() for _ in seqs]

    class Spy(dict):
        pass
    # record which labels Search asks for
    tables = []
    if name in ("PiBas", "PiPack", "PiPtr", "Pi2Lev"):
        tables = [edb.D]
    elif name == "CT14":
        tables = edb.HT_list
    elif name == "ANSS16":
        tables = [edb.HT_S] + list(edb.HT_L_list)
    asked = [set() for _ in tables]
    spies = []
    for i, t in enumerate(tables):
        class S(dict):
            def get(self, k, d=None, _i=i):
                asked[_i].add(k)
                return dict.get(self, k, d)

            def __getitem__(self, k, _i=i):
                asked[_i].add(k)
                return dict.__getitem__(self, k)

            def __contains__(self, k, _i=i):
                asked[_i].add(k)
                return dict.__contains__(self, k)
        spies.append(S(t))
    try:
        if name in ("PiBas", "PiPack"):
            e = type(edb)(spies[0])
        elif name in ("PiPtr", "Pi2Lev"):
            e = type(edb)(spies[0], edb.A)
        elif name == "CT14":
            e = type(edb)(spies, scheme.config)
        else:
            e = type(edb)(spies[0], spies[1:], scheme.config)
        for w in db:
            scheme.Search(e, scheme.TokenGen(key, w))
    except Exception:
        return None
    return [[l for l in seq if l in a] for seq, a in zip(seqs, asked)]


def read_slots(name, scheme, key, db, edb):
    """the array slots Search reads, over all keywords"""
    slots = set()

    class SpyList(list):
        def __getitem__(self, i):
            if isinstance(i, int):
                slots.add(i)
            return list.__getitem__(self, i)
    if name in ("PiPtr", "Pi2Lev"):
        e = type(edb)(edb.D, SpyList(edb.A))
    elif name == "SSE1":
        e = type(edb)(SpyList(edb.A), edb.T)
    elif name == "DP17":
        spy = {}
        for i, a in edb.A_dict.items():
            class L(list):
                def __getitem__(self, j, _i=i):
                    if isinstance(j, int):
                        slots.add((_i, j))
                    return list.__getitem__(self, j)
            spy[i] = L(a)
        e = type(edb)(edb.HT, spy)
    else:
        return None
    for w in db:
        scheme.Search(e, scheme.TokenGen(key, w))
    return slots


_OTHERS = {}


def other_schemes_run(skip):
    """a fixed piece of process history: every OTHER scheme builds a small fixed index.  Whatever process-wide state a scheme
    touches (the `random` module's generator, module-level caches) is touched here, identically each time it is called."""
    for name in se.NAMES:
        if name == skip:
            continue
        if name not in _OTHERS:
            import random as _r
            rng = _r.Random(99)
            cfg = se.grid(name, rng, 1)[0]
            db = se.gen_db(name, cfg, rng, "mixed")
            _OTHERS[name] = (se.finalize_cfg(name, cfg, db), db)
        cfg, db = _OTHERS[name]
        try:
            sch = se.loader(name).SSEScheme(copy.deepcopy(cfg))
            sch.EDBSetup(sch.KeyGen(), db)
        except Exception:
            pass


def c06_placement(res, c):
    """(b) two setups place array-resident blocks at different positions (>= 12 such blocks) — also when the same piece of
    process history (the other schemes at work) precedes each of them"""
    name = c["name"]
    if name not in ("PiPtr", "Pi2Lev", "SSE1", "DP17"):
        return
    try:
        other_schemes_run(name)
        ld, scheme, key, edb = build(c)
        other_schemes_run(name)
        s1 = read_slots(name, scheme, key, c["db"], edb)
        if name in ("SSE1",):                       # placement is key-derived: fresh key
            key2 = scheme.KeyGen()
        else:
            key2 = key
        edb2 = scheme.EDBSetup(key2, c["db"])
        s2 = read_slots(name, scheme, key2, c["db"], edb2)
    except Exception:
        return
    if name == "DP17":
        # buckets are few and shared: compare which bucket every chunk of every keyword went to.  Every chunk has (at least)
        # two eligible buckets, so >= 12 chunks coincide in two setups with probability <= 2^-12; four setups in a row: < 1e-10
        a1 = slot_assignment(name, scheme, key, c["db"], edb)
        if sum(len(x) for x in a1) < 12:
            return
        res.count("placement pairs")
        same = slot_assignment(name, scheme, key, c["db"], edb2) == a1
        for _ in range(2):
            if not same:
                break
            other_schemes_run(name)
            same = slot_assignment(name, scheme, key, c["db"], scheme.EDBSetup(key, c["db"])) == a1
        if same:
            sk.violation(res, "DP17: four setups put every chunk into the same bucket",
                         f"DP17 ({c['profile']}): the chunk-to-bucket assignment of {sum(len(x) for x in a1)} chunks is identical in four setups", sk.show_case(c))
        return
    if s1 is None or len(s1) < 12:
        return
    total = sum(len(a) for a in edb.A_dict.values()) if name == "DP17" else (len(edb.A) if name == "SSE1" else len(edb.A) - 1)
    # the slot SET can only differ when there are more slots than blocks; otherwise compare the assignment
    res.count("placement pairs")
    if total > len(s1) + 3:
        if s1 == s2:
            sk.violation(res, f"{name}: two setups put the blocks into the same array slots",
                         f"{name} ({c['profile']}): {len(s1)} slots read by Search are identical in two setups ({total} slots available)", sk.show_case(c))
    else:
        a1 = slot_assignment(name, scheme, key, c["db"], edb)
        a2 = slot_assignment(name, scheme, key2, c["db"], edb2)
        if a1 is not None and a1 == a2:
            sk.violation(res, f"{name}: two setups assign the blocks to the same array slots",
                         f"{name} ({c['profile']}): the block-to-slot assignment of {len(s1)} blocks is identical in two setups", sk.show_case(c))


def slot_assignment(name, scheme, key, db, edb):
    out = []
    for w in db:
        one = {w: db[w]}
        s = read_slots_for(name, scheme, key, w, edb)
        out.append(tuple(s))
    return out


def read_slots_for(name, scheme, key, w, edb):
    order = []

    class SpyList(list):
        def __getitem__(self, i):
            if isinstance(i, int):
                order.append(i)
            return list.__getitem__(self, i)
    if name in ("PiPtr", "Pi2Lev"):
        e = type(edb)(edb.D, SpyList(edb.A))
    elif name == "SSE1":
        e = type(edb)(SpyList(edb.A), edb.T)
    elif name == "DP17":
        spy = {}
        for i, a in edb.A_dict.items():
            class L(list):
                def __getitem__(self, j, _i=i):
                    if isinstance(j, int):
                        order.append((_i, j))
                    return list.__getitem__(self, j)
            spy[i] = L(a)
        e = type(edb)(edb.HT, spy)
    else:
        return None
    scheme.Search(e, scheme.TokenGen(key, w))
    return order


# ------------------------------------------------------------------------------------------- C07
def c07(res, c, rng):
    name = c["name"]
    ld = se.loader(name)
    cfg = copy.deepcopy(c["cfg"])
    cfg_before = copy.deepcopy(cfg)
    db = c["db"]
    db_before = copy.deepcopy(db)
    order_before = list(db.keys())
    try:
        scheme = ld.SSEScheme(cfg)
        key = scheme.KeyGen()
        key_before = key.serialize()
        edb = scheme.EDBSetup(key, db)
    except Exception:
        return
    if db != db_before or list(db.keys()) != order_before:
        sk.violation(res, f"{name}: EDBSetup changes the caller's database", f"{name} ({c['profile']})", sk.show_case(dict(c, db=db_before)))
        return
    if cfg != cfg_before:
        sk.violation(res, f"{name}: building the scheme / index changes the caller's configuration dict", f"{name}: {cfg} vs {cfg_before}", sk.show_case(c))
    if key.serialize() != key_before:
        sk.violation(res, f"{name}: EDBSetup changes the key", f"{name}", sk.show_case(c))
    blob = edb.serialize()
    words = c["present"] + c["absent"]
    single = {}
    for w in words:
        try:
            e1 = ld.SSEEncryptedDatabase.deserialize(blob, scheme.config)
            single[w] = result_of(name, scheme.Search(e1, scheme.TokenGen(key, w)))
        except Exception as e:
            single[w] = ("error", type(e).__name__)
    hist = [rng.choice(words) for _ in range(max(6, 2 * len(words)))] + words
    for n, w in enumerate(hist):
        res.count("history searches")
        try:
            tk = scheme.TokenGen(key, w)
            tb = tk.serialize()
            r = result_of(name, scheme.Search(edb, tk))
            if tk.serialize() != tb:
                sk.violation(res, f"{name}: Search changes the token", f"{name}: keyword {w.hex()}", sk.show_case(c, w))
        except Exception as e:
            r = ("error", type(e).__name__)
        if r != single[w]:
            sk.violation(res, f"{name}: the answer to a keyword depends on the searches made before",
                         f"{name} ({c['profile']}): search #{n + 1} of the history for {w.hex()} gives {str(r)[:80]}, alone it gives {str(single[w])[:80]}",
                         dict(sk.show_case(c, w), history=[x.hex() for x in hist[:n + 1]]))
            break
        if edb.serialize() != blob:
            sk.violation(res, f"{name}: Search changes the encrypted database",
                         f"{name} ({c['profile']}): serialized index differs after search #{n + 1} ({w.hex()})",
                         dict(sk.show_case(c, w), history=[x.hex() for x in hist[:n + 1]]))
            break
    # a second index built by the same scheme object (stale per-object state)
    try:
        key2 = scheme.KeyGen()
        db2 = copy.deepcopy(db) if rng.random() < 0.5 else se.gen_db(name, c["cfg"], rng, "mixed")
        if name == "SSE2" and se.finalize_cfg(name, c["cfg"], db2) != c["cfg"]:
            db2 = copy.deepcopy(db)
        edb2 = scheme.EDBSetup(key2, db2)
        for w in db2:
            if result_of(name, scheme.Search(edb2, scheme.TokenGen(key2, w))) != se.expected(name, db2, w):
                sk.violation(res, f"{name}: a second index built by the same scheme object answers wrongly",
                             f"{name}: keyword {w.hex()} of the second database", {"first": sk.show_case(c), "second": sk.show_case(dict(c, db=db2), w)})
                break
        for w in c["present"][:3]:
            if result_of(name, scheme.Search(edb, scheme.TokenGen(key, w))) != se.expected(name, db, w):
                sk.violation(res, f"{name}: building a second index changes the answers of the first",
                             f"{name}: keyword {w.hex()}", {"first": sk.show_case(c, w), "second": sk.show_case(dict(c, db=db2))})
                break
    except Exception as e:
        sk.violation(res, f"{name}: a second setup on the same scheme object raises {type(e).__name__}", f"{name}: {e}", sk.show_case(c))


def c07_inputs_only(res, c, label):
    """EDBSetup on a variant of the case's database (e.g. one with a repeated identifier in a list): whatever the scheme makes
    of it - an index or an exception - the caller's database, configuration dict and key must be what they were"""
    name = c["name"]
    ld = se.loader(name)
    cfg = copy.deepcopy(c["cfg"])
    cfg_before = copy.deepcopy(cfg)
    db = c["db"]
    db_before = copy.deepcopy(db)
    order_before = list(db.keys())
    try:
        scheme = ld.SSEScheme(cfg)
        key = scheme.KeyGen()
    except Exception:
        return
    try:
        scheme.EDBSetup(key, db)
    except Exception:
        pass
    if db != db_before or list(db.keys()) != order_before:
        sk.violation(res, f"{name}: EDBSetup changes the caller's database ({label})", f"{name} ({c['profile']}, {label})",
                     sk.show_case(dict(c, db=db_before)))
    if cfg != cfg_before:
        sk.violation(res, f"{name}: building the scheme / index changes the caller's configuration dict ({label})",
                     f"{name}: {cfg} vs {cfg_before}", sk.show_case(dict(c, db=db_before)))


def with_repeated_identifier(c):
    """the case with one identifier of its longest list repeated (same total size): a multiset posting list"""
    db = copy.deepcopy(c["db"])
    w = max(db, key=lambda k: len(db[k]))
    if len(db[w]) < 2:
        return None
    db[w][-1] = db[w][0]
    return dict(c, db=db, profile=c["profile"] + "+repeated-id")


def c03_crossproc(res, c, max_words=6):
    """the split across REAL process boundaries: index built in one interpreter, tokens made in a second (fresh instance, key
    reloaded from bytes), searched in a third that holds only the JSON configuration, the serialized index and the serialized
    tokens - each with its own hash seed.  Anything that is valid only inside the process that made it (ids, hash() values,
    interned objects, module-level state) fails here and nowhere else."""
    import subprocess, tempfile, shutil, sys as _sys
    import common
    name = c["name"]
    words = (c["present"][:max_words - 2] + c["absent"][:2])[:max_words]
    base = os.path.join(common.CACHE, "xproc")
    os.makedirs(base, exist_ok=True)
    d = tempfile.mkdtemp(dir=base)
    try:
        json.dump(c["cfg"], open(os.path.join(d, "config.json"), "w"))
        json.dump({k.hex(): [i.hex() for i in v] for k, v in c["db"].items()}, open(os.path.join(d, "db.json"), "w"))
        json.dump({"module": se.MODULE[name], "words": [w.hex() for w in words]}, open(os.path.join(d, "meta.json"), "w"))
        worker = os.path.join(os.path.dirname(os.path.abspath(__file__)), "xproc_worker.py")
        for mode, seed in (("setup", "101"), ("tokens", "202"), ("server", "303")):
            env = dict(os.environ, PYTHONHASHSEED=seed, SSEPY_REPO=common.REPO)
            p = subprocess.run([_sys.executable, worker, mode, d], env=env, stdout=subprocess.PIPE, stderr=subprocess.STDOUT, text=True, timeout=600)
            if p.returncode != 0:
                if mode == "setup":
                    return          # C01's business
                sk.violation(res, f"{name}: client/server split across processes raises in the {mode} process",
                             f"{name} ({c['profile']}): {p.stdout.strip().splitlines()[-1][:200] if p.stdout.strip() else ''}", sk.show_case(c))
                return
        ld = se.loader(name)
        conf = ld.SSEScheme(json.loads(json.dumps(c["cfg"]))).config
        for i, w in enumerate(words):
            res.count("cross-process searches")
            try:
                got = result_of(name, ld.SSEResult.deserialize(open(os.path.join(d, f"res_{i}.bin"), "rb").read(), conf))
            except Exception as e:
                sk.violation(res, f"{name}: result from the server process cannot be deserialized", f"{name}: {type(e).__name__}: {e}", sk.show_case(c, w))
                continue
            if got != se.expected(name, c["db"], w):
                sk.violation(res, f"{name}: a server in another process, holding only the serialized index and token, answers differently from DB.get(w)",
                             f"{name} ({c['profile']}): keyword {w.hex()}: {len(got)} identifiers vs {len(c['db'].get(w, []))}", sk.show_case(c, w))
    finally:
        shutil.rmtree(d, ignore_errors=True)
