#!/venv/bin/python
"""Regenerate every translator output (lean/SSEPyVerif/Generated/*.lean) from /repo's current working tree."""
import os, sys
sys.path.insert(0, os.path.dirname(os.path.abspath(__file__)))
from translate import frontend_ir
print(frontend_ir.generate(which=("server", "client")))
from translate import mutation_sites
import common
print("mutation sites:", len(mutation_sites.generate(common.REPO, os.path.join(common.LEAN, "SSEPyVerif", "Generated", "MutationSites.lean"))))
from translate import wire_layout
print("wire layouts:", len(wire_layout.generate(common.REPO, os.path.join(common.LEAN, "SSEPyVerif", "Generated", "WireLayout.lean"))))
from translate import config_facts
print("config facts:", len(config_facts.generate(common.REPO, os.path.join(common.LEAN, "SSEPyVerif", "Generated", "ConfigFacts.lean"))))
