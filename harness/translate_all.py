#!/venv/bin/python
"""Regenerate every translator output (lean/SSEPyVerif/Generated/*.lean) from /repo's current working tree."""
import os, sys
sys.path.insert(0, os.path.dirname(os.path.abspath(__file__)))
from translate import frontend_ir
print(frontend_ir.generate(which=("server", "client")))
