"""Crash interposition for the front end's persistence code (C13).

The file managers of server and client perform their file-system mutations through `Path.mkdir`, `open(..., 'w'|'wb')`,
the subsequent `dump`/`write`, `Path.unlink`, `shutil.rmtree` and (after the repair) `os.replace`.  `Interposer`
replaces the names a file-manager module uses (its `open`, `json`, `pickle`, `shutil`, `os`, `pathlib`) by counting
proxies: every mutation is logged, and the process is 'killed' (CrashNow, a BaseException) immediately before
mutation number `crash_at`."""
import builtins
import io
import json
import os
import pathlib
import pickle
import shutil


class CrashNow(BaseException):
    pass


class Interposer:
    def __init__(self, module, root, parent=None):
        self.parent = parent     # a second module of the same process: its mutations are counted by the parent
        self.m = module
        self.root = os.path.realpath(root)
        self.log = []            # (op, relative path)
        self.crash_at = None     # index of the mutation before which the process dies (0 = before the first)
        self.crashed = False
        self.saved = {}

    # -- bookkeeping ---------------------------------------------------------------------------------
    def _rel(self, p):
        p = os.path.realpath(str(p))
        return os.path.relpath(p, self.root) if p.startswith(self.root) else p

    def _mut(self, op, path):
        if self.parent is not None:
            return self.parent._mut(op, path)
        if self.crash_at is not None and len(self.log) == self.crash_at:
            self.crashed = True
            raise CrashNow(f"killed before mutation {len(self.log)}: {op} {self._rel(path)}")
        self.log.append((op, self._rel(path)))

    # -- proxies -------------------------------------------------------------------------------------
    def install(self):
        ip = self
        m = self.m
        real_open = builtins.open

        class FileProxy:
            def __init__(self, f, path):
                self._f, self._path, self._written = f, path, False

            def write(self, data):
                if not self._written:                 # one logical write per file (json.dump writes in pieces)
                    ip._mut("write", self._path)
                    self._written = True
                return self._f.write(data)

            def __enter__(self):
                return self

            def __exit__(self, *a):
                self._f.close()
                return False

            def __getattr__(self, n):
                return getattr(self._f, n)

        def open_(path, mode="r", *a, **k):
            if any(c in mode for c in "wax"):
                ip._mut("open:" + mode, path)
                return FileProxy(real_open(path, mode, *a, **k), path)
            return real_open(path, mode, *a, **k)

        class PathProxy(type(pathlib.Path())):
            def mkdir(self, *a, **k):
                existed = self.exists()
                if not (existed and k.get("exist_ok")):
                    ip._mut("mkdir", self)
                return super().mkdir(*a, **k)

            def unlink(self, *a, **k):
                if self.exists():
                    ip._mut("unlink", self)
                return super().unlink(*a, **k)

            def write_text(self, *a, **k):
                ip._mut("open:w", self); ip._mut("write", self)
                return super().write_text(*a, **k)

            def write_bytes(self, *a, **k):
                ip._mut("open:wb", self); ip._mut("write", self)
                return super().write_bytes(*a, **k)

        class OsProxy:
            def __getattr__(self, n):
                return getattr(os, n)

            def replace(self, a, b):
                ip._mut("replace", b)
                return os.replace(a, b)

            def unlink(self, p):
                ip._mut("unlink", p)
                return os.unlink(p)

            def mkdir(self, p, *a, **k):
                ip._mut("mkdir", p)
                return os.mkdir(p, *a, **k)

        class ShutilProxy:
            def __getattr__(self, n):
                return getattr(shutil, n)

            def rmtree(self, p, *a, **k):
                ip._mut("rmtree", p)
                return shutil.rmtree(p, *a, **k)

        for name, val in (("open", open_), ("os", OsProxy()), ("shutil", ShutilProxy())):
            self.saved[name] = m.__dict__.get(name, None)
            setattr(m, name, val)
        # the module-level root path objects become counting paths
        for name in ("_PROGRAM_PATH", "_PROGRAM_DIR_PATH"):
            if name in m.__dict__:
                self.saved[name] = m.__dict__[name]
                setattr(m, name, PathProxy(str(m.__dict__[name])))
        return self

    def uninstall(self):
        for name, val in self.saved.items():
            if val is None:
                try:
                    delattr(self.m, name)
                except AttributeError:
                    pass
            else:
                setattr(self.m, name, val)
        self.saved = {}

    def reset(self, crash_at=None):
        self.log = []
        self.crash_at = crash_at
        self.crashed = False
