-- Root of the `SSEPyVerif` library: models, proofs and property theorems.
import SSEPyVerif.Model.Basic
import SSEPyVerif.Model.PySeq
import SSEPyVerif.Model.Bytes
import SSEPyVerif.Model.Bits
import SSEPyVerif.Driver.BytesD
import SSEPyVerif.Proofs.Bytes
import SSEPyVerif.Props.C17
import SSEPyVerif.Proofs.Bits
import SSEPyVerif.Props.C18
import SSEPyVerif.Model.PHash
import SSEPyVerif.Proofs.PHash
import SSEPyVerif.Props.C16
import SSEPyVerif.Driver.CryptoD
import SSEPyVerif.Model.Cbc
import SSEPyVerif.Proofs.Cbc
import SSEPyVerif.Props.C14
