import SSEPyVerif.Driver.BytesD

open SSEPy SSEPy.Driver

def dispatch (line : String) : String :=
  match (line.trimAscii.toString.splitOn " ") with
  | "bytes" :: rest => bytesReq rest
  | "bits" :: rest => bitsReq rest
  | _ => Proto.bad

partial def loop (hin : IO.FS.Stream) (hout : IO.FS.Stream) : IO Unit := do
  let line ← hin.getLine
  if line.isEmpty then return ()
  hout.putStrLn (dispatch line)
  loop hin hout

def main : IO Unit := do
  let hin ← IO.getStdin
  let hout ← IO.getStdout
  loop hin hout
  hout.flush
