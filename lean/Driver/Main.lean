import SSEPyVerif.Driver.BytesD
import SSEPyVerif.Driver.CryptoD
import SSEPyVerif.Driver.PersistD
import SSEPyVerif.Driver.ServerD
import SSEPyVerif.Driver.ClientD
import SSEPyVerif.Driver.ManagerD
import SSEPyVerif.Driver.SchemeD
import SSEPyVerif.Driver.CmdD

open SSEPy SSEPy.Driver

structure DState where
  tables : Tables := {}
  parr : Option PArray.PArr := none
  pdict : Option PDict.PDict := none
  srv : ServerIR.SrvD := {}
  mgr : MgrD := {}
  cw : ClientIR.World := {}
  sch : SchD := {}
  cmd : SSEPy.Cmd.World := {}

def dispatch (st : DState) (line : String) : DState × String :=
  match (line.trimAscii.toString.splitOn " ") with
  | "bytes" :: rest => (st, bytesReq rest)
  | "bits" :: rest => (st, bitsReq rest)
  | "tbl" :: rest => let (t, r) := tblReq st.tables rest; ({ st with tables := t }, r)
  | "prf" :: rest => (st, prfReq st.tables rest)
  | "hash" :: rest => (st, hashReq st.tables rest)
  | "aes" :: rest => (st, aesReq st.tables rest)
  | "ffx" :: rest => (st, ffxReq st.tables rest)
  | "lr" :: rest => (st, lrReq st.tables rest)
  | "pdict" :: rest => let (p, r) := pdictReq st.pdict rest; ({ st with pdict := p }, r)
  | "cli" :: "fsops" :: rest => (st, cliReq ("fsops" :: rest))
  | "cli" :: rest => let (w, r) := cliStateReq st.cw rest; ({ st with cw := w }, r)
  | "mgr" :: rest => let (p, r) := mgrReq st.mgr rest; ({ st with mgr := p }, r)
  | "srv" :: rest => let (p, r) := srvReq st.srv rest; ({ st with srv := p }, r)
  | "sch" :: rest => let (p, r) := schReq st.tables st.sch rest; ({ st with sch := p }, r)
  | "cmd" :: rest => let (p, r) := cmdReq st.cmd rest; ({ st with cmd := p }, r)
  | "parr" :: rest => let (p, r) := parrReq st.parr rest; ({ st with parr := p }, r)
  | _ => (st, Proto.bad)

partial def loop (hin : IO.FS.Stream) (hout : IO.FS.Stream) (st : DState) : IO Unit := do
  let line ← hin.getLine
  if line.isEmpty then return ()
  let (st', out) := dispatch st line
  hout.putStrLn out
  loop hin hout st'

def main : IO Unit := do
  let hin ← IO.getStdin
  let hout ← IO.getStdout
  loop hin hout {}
  hout.flush
