/-
  Facts about Python's `slice.indices` / `range` model: the indices a slice selects are in range and
  pairwise distinct.
-/
import SSEPyVerif.Model.PySeq
namespace SSEPy

theorem pyRange_mem {a b st x : Int} (h : x ∈ pyRange a b st) :
    ∃ k : Nat, k < rangeLen a b st ∧ x = a + (k : Int) * st := by
  unfold pyRange at h
  simp only [List.mem_map, List.mem_range] at h
  obtain ⟨k, hk, rfl⟩ := h
  exact ⟨k, hk, rfl⟩

/-- positive step: every element lies in `[a, b)` -/
theorem pyRange_pos_bounds {a b st x : Int} (hst : 0 < st) (h : x ∈ pyRange a b st) : a ≤ x ∧ x < b := by
  obtain ⟨k, hk, rfl⟩ := pyRange_mem h
  unfold rangeLen at hk
  simp only [gt_iff_lt, hst, ↓reduceIte] at hk
  split at hk
  · rename_i hab
    have hq1 := Int.ediv_mul_le (b - a + st - 1) (Int.ne_of_gt hst)
    have hkq : (k : Int) < (b - a + st - 1) / st := by omega
    have hk0 : (0 : Int) ≤ (k : Int) := Int.natCast_nonneg k
    have hmul : (k : Int) * st ≤ ((b - a + st - 1) / st - 1) * st :=
      Int.mul_le_mul_of_nonneg_right (by omega) (Int.le_of_lt hst)
    rw [Int.sub_mul, Int.one_mul] at hmul
    have hnn : 0 ≤ (k : Int) * st := Int.mul_nonneg hk0 (Int.le_of_lt hst)
    constructor <;> omega
  · omega

/-- negative step: every element lies in `(b, a]` -/
theorem pyRange_neg_bounds {a b st x : Int} (hst : st < 0) (h : x ∈ pyRange a b st) : b < x ∧ x ≤ a := by
  obtain ⟨k, hk, rfl⟩ := pyRange_mem h
  unfold rangeLen at hk
  have hn : ¬ (st > 0) := by omega
  simp only [hn, ↓reduceIte] at hk
  split at hk
  · rename_i hab
    have hpos : 0 < -st := by omega
    have hq1 := Int.ediv_mul_le (a - b - st - 1) (Int.ne_of_gt hpos)
    have hkq : (k : Int) < (a - b - st - 1) / (-st) := by omega
    have hk0 : (0 : Int) ≤ (k : Int) := Int.natCast_nonneg k
    have hmul : (k : Int) * (-st) ≤ ((a - b - st - 1) / (-st) - 1) * (-st) :=
      Int.mul_le_mul_of_nonneg_right (by omega) (Int.le_of_lt hpos)
    rw [Int.sub_mul, Int.one_mul] at hmul
    have hnn : 0 ≤ (k : Int) * (-st) := Int.mul_nonneg hk0 (Int.le_of_lt hpos)
    have e : (k : Int) * (-st) = -((k : Int) * st) := Int.mul_neg _ _
    rw [e] at hmul hnn
    constructor <;> omega
  · omega

theorem pyRange_nodup (a b st : Int) (hst : st ≠ 0) : (pyRange a b st).Nodup := by
  unfold pyRange
  have h := @List.nodup_range (rangeLen a b st)
  unfold List.Nodup at h ⊢
  apply List.Pairwise.map _ _ h
  intro x y hxy hE
  have : (x : Int) * st = (y : Int) * st := by omega
  have := Int.eq_of_mul_eq_mul_right hst this
  omega

theorem clampIdx_bounds (v n lower upper : Int) (hl : lower ≤ upper) (hu : n - 1 ≤ upper) (hl0 : lower ≤ 0) :
    lower ≤ clampIdx v n lower upper ∧ clampIdx v n lower upper ≤ upper := by
  unfold clampIdx
  rw [Int.max_def, Int.min_def]
  split <;> split <;> omega

/-- the triple computed by `slice.indices`, case by case -/
theorem sliceIndices_ok {s e st : Option Int} {len : Nat} {a b c : Int}
    (h : sliceIndices s e st len = .ok (a, b, c)) :
    c = st.getD 1 ∧ c ≠ 0 ∧
    (0 < c → 0 ≤ a ∧ a ≤ len ∧ 0 ≤ b ∧ b ≤ len) ∧
    (c < 0 → -1 ≤ a ∧ a ≤ (len : Int) - 1 ∧ -1 ≤ b ∧ b ≤ (len : Int) - 1) := by
  unfold sliceIndices at h
  simp only at h
  split at h
  · cases h
  · rename_i hstep
    simp only [Except.ok.injEq, Prod.mk.injEq] at h
    obtain ⟨ha, hb, hc⟩ := h
    have hc0 : st.getD 1 ≠ 0 := by simpa using hstep
    refine ⟨hc.symm, by rw [← hc]; exact hc0, ?_, ?_⟩
    · intro hpos
      have hneg : ¬ (st.getD 1 < 0) := by omega
      simp only [hneg, ↓reduceIte] at ha hb
      have hn : (0 : Int) ≤ (len : Int) := Int.natCast_nonneg len
      have ca : ∀ v, 0 ≤ clampIdx v len 0 len ∧ clampIdx v len 0 len ≤ len :=
        fun v => clampIdx_bounds v len 0 len hn (by omega) (Int.le_refl _)
      cases s <;> cases e <;> simp only at ha hb <;> subst ha <;> subst hb
      · omega
      · have := ca ‹Int›; omega
      · have := ca ‹Int›; omega
      · rename_i v w; have := ca v; have := ca w; omega
    · intro hneg'
      have hneg : st.getD 1 < 0 := by omega
      simp only [hneg, ↓reduceIte] at ha hb
      have hn : (0 : Int) ≤ (len : Int) := Int.natCast_nonneg len
      have ca : ∀ v, -1 ≤ clampIdx v len (-1) ((len : Int) - 1) ∧ clampIdx v len (-1) ((len : Int) - 1) ≤ (len : Int) - 1 :=
        fun v => clampIdx_bounds v len (-1) ((len : Int) - 1) (by omega) (by omega) (by omega)
      cases s <;> cases e <;> simp only at ha hb <;> subst ha <;> subst hb
      · omega
      · have := ca ‹Int›; omega
      · have := ca ‹Int›; omega
      · rename_i v w; have := ca v; have := ca w; omega

theorem sliceRange_cases {s e st : Option Int} {len : Nat} {idx : List Int}
    (h : sliceRange s e st len = .ok idx) :
    ∃ a b c, sliceIndices s e st len = .ok (a, b, c) ∧ idx = pyRange a b c := by
  unfold sliceRange at h
  cases hsi : sliceIndices s e st len with
  | error err => simp [hsi, bind, Except.bind] at h
  | ok t =>
    obtain ⟨a, b, c⟩ := t
    simp only [hsi, bind, Except.bind, Except.ok.injEq] at h
    exact ⟨a, b, c, rfl, h.symm⟩

/-- the indices selected by a slice over a sequence of length `len` are valid positions -/
theorem sliceRange_bounds {s e st : Option Int} {len : Nat} {idx : List Int}
    (h : sliceRange s e st len = .ok idx) : ∀ p ∈ idx, 0 ≤ p ∧ p < (len : Int) := by
  obtain ⟨a, b, c, hsi, rfl⟩ := sliceRange_cases h
  obtain ⟨_, hc0, hpos, hneg⟩ := sliceIndices_ok hsi
  intro p hp
  by_cases hc : 0 < c
  · have := pyRange_pos_bounds hc hp
    have := hpos hc
    omega
  · have hc' : c < 0 := by omega
    have := pyRange_neg_bounds hc' hp
    have := hneg hc'
    omega

theorem sliceRange_nodup {s e st : Option Int} {len : Nat} {idx : List Int}
    (h : sliceRange s e st len = .ok idx) : idx.Nodup := by
  obtain ⟨a, b, c, hsi, rfl⟩ := sliceRange_cases h
  exact pyRange_nodup _ _ _ (sliceIndices_ok hsi).2.1

/-- the only way a slice is refused is a zero step (`ValueError`) -/
theorem sliceRange_error {s e st : Option Int} {len : Nat} {err : Err}
    (h : sliceRange s e st len = .error err) : err = .valueError ∧ st = some 0 := by
  unfold sliceRange at h
  cases hsi : sliceIndices s e st len with
  | ok t => obtain ⟨a, b, c⟩ := t; simp [hsi, bind, Except.bind] at h
  | error e' =>
    simp only [hsi, bind, Except.bind, Except.error.injEq] at h
    subst h
    unfold sliceIndices at hsi
    simp only at hsi
    split at hsi
    · rename_i hstep
      simp only [Except.error.injEq] at hsi
      refine ⟨hsi.symm, ?_⟩
      cases st with
      | none => simp at hstep
      | some v => simp at hstep; simp [hstep]
    · cases hsi

end SSEPy
