import SSEPyVerif.Model.Cbc
import SSEPyVerif.Proofs.Bytes
namespace SSEPy

/-- chunking the concatenation of `n`-byte blocks gives the blocks back -/
theorem chunksFuel_flatten_blocks (n : Nat) (hn : 0 < n) :
    ∀ (bs : List Bytes), (∀ b ∈ bs, b.length = n) →
      ∀ fuel, bs.flatten.length ≤ fuel → chunksFuel fuel bs.flatten n = bs := by
  intro bs
  induction bs with
  | nil => intro _ fuel _; cases fuel <;> simp [chunksFuel]
  | cons b rest ih =>
    intro hall fuel hf
    have hb := hall b (by simp)
    simp only [List.flatten_cons, List.length_append] at hf ⊢
    cases fuel with
    | zero => omega
    | succ f =>
      unfold chunksFuel
      have hne : (b ++ rest.flatten).isEmpty = false := by
        cases b with
        | nil => simp at hb; omega
        | cons _ _ => simp
      simp only [hne, Bool.false_eq_true, ↓reduceIte]
      have htake : List.take n (b ++ rest.flatten) = b := by
        rw [List.take_append_of_le_length (by omega)]; exact List.take_of_length_le (by omega)
      have hdrop : List.drop n (b ++ rest.flatten) = rest.flatten := by
        rw [← hb]; exact List.drop_left
      rw [htake, hdrop, ih (fun x hx => hall x (by simp [hx])) f (by omega)]

/-- every chunk of a list whose length is a multiple of `n` has exactly `n` elements -/
theorem chunksFuel_exact (n : Nat) (hn : 0 < n) :
    ∀ (fuel : Nat) (l : List α), l.length ≤ fuel → l.length % n = 0 →
      ∀ c ∈ chunksFuel fuel l n, c.length = n := by
  intro fuel
  induction fuel with
  | zero => intro l _ _ c hc; simp [chunksFuel] at hc
  | succ f ih =>
    intro l h hm c hc
    unfold chunksFuel at hc
    by_cases he : l.isEmpty
    · simp [he] at hc
    · simp only [he, Bool.false_eq_true, ↓reduceIte, List.mem_cons] at hc
      have hl : 0 < l.length := by
        cases l with
        | nil => simp at he
        | cons _ _ => simp
      have hge : n ≤ l.length := Nat.le_of_dvd hl (Nat.dvd_of_mod_eq_zero hm)
      rcases hc with rfl | hc
      · simp [List.length_take]; omega
      · apply ih (l.drop n) (by simp; omega) _ c hc
        simp only [List.length_drop]
        have := Nat.sub_mod_eq_zero_of_mod_eq (m := l.length) (n := n) (k := n) (by simp [hm])
        exact this

theorem blocks16_all16 (x : Bytes) (h : x.length % 16 = 0) : ∀ b ∈ blocks16 x, b.length = 16 :=
  chunksFuel_exact 16 (by omega) x.length x (Nat.le_refl _) h

theorem blocks16_flatten (x : Bytes) : (blocks16 x).flatten = x :=
  chunksFuel_flatten 16 (by omega) x.length x (Nat.le_refl _)

theorem blocks16_of_flatten (bs : List Bytes) (h : ∀ b ∈ bs, b.length = 16) : blocks16 bs.flatten = bs :=
  chunksFuel_flatten_blocks 16 (by omega) bs h _ (Nat.le_refl _)

theorem cbcEnc_length (E : BlockFn) (k prev : Bytes) (ps : List Bytes) :
    (cbcEnc E k prev ps).length = ps.length := by
  induction ps generalizing prev with
  | nil => simp [cbcEnc]
  | cons p ps ih => simp [cbcEnc, ih]

theorem cbcEnc_all16 (E : BlockFn) (k : Bytes) (hE : ∀ x : Bytes, x.length = 16 → (E k x).length = 16) :
    ∀ (ps : List Bytes) (prev : Bytes), (∀ p ∈ ps, p.length = 16) →
      ∀ c ∈ cbcEnc E k prev ps, c.length = 16 := by
  intro ps
  induction ps with
  | nil => intro prev _ c hc; simp [cbcEnc] at hc
  | cons p ps ih =>
    intro prev hp c hc
    simp only [cbcEnc, List.mem_cons] at hc
    have h16 : (xorPrefix p prev).length = 16 := by rw [xorPrefix_length]; exact hp p (by simp)
    rcases hc with rfl | hc
    · exact hE _ h16
    · exact ih _ (fun q hq => hp q (by simp [hq])) c hc

theorem cbcDec_cbcEnc (E D : BlockFn) (k : Bytes)
    (hDE : ∀ x : Bytes, x.length = 16 → D k (E k x) = x) :
    ∀ (ps : List Bytes) (prev : Bytes), (∀ p ∈ ps, p.length = 16) →
      cbcDec D k prev (cbcEnc E k prev ps) = ps := by
  intro ps
  induction ps with
  | nil => intro prev _; simp [cbcEnc, cbcDec]
  | cons p ps ih =>
    intro prev hp
    simp only [cbcEnc, cbcDec]
    have h16 : (xorPrefix p prev).length = 16 := by rw [xorPrefix_length]; exact hp p (by simp)
    rw [hDE _ h16, xorPrefix_involution, ih _ (fun q hq => hp q (by simp [hq]))]

theorem pkcs7Pad_length (m : Bytes) : (pkcs7Pad m).length = 16 * (m.length / 16 + 1) := by
  unfold pkcs7Pad
  simp only [List.length_append, List.length_replicate]
  have := Nat.div_add_mod m.length 16
  have := Nat.mod_lt m.length (show 0 < 16 by omega)
  omega

theorem pkcs7Unpad_pad (m : Bytes) : pkcs7Unpad (pkcs7Pad m) = .ok m := by
  have hlen := pkcs7Pad_length m
  have hmod := Nat.mod_lt m.length (show 0 < 16 by omega)
  unfold pkcs7Unpad
  have h1 : ((pkcs7Pad m).length == 0 || (pkcs7Pad m).length % 16 != 0) = false := by
    rw [hlen]; simp
  simp only [h1, Bool.false_eq_true, ↓reduceIte]
  have hp : 0 < 16 - m.length % 16 := by omega
  have hlast : (pkcs7Pad m).getLastD 0 = UInt8.ofNat (16 - m.length % 16) := by
    unfold pkcs7Pad
    simp only
    obtain ⟨q, hq⟩ : ∃ q, 16 - m.length % 16 = q + 1 := ⟨16 - m.length % 16 - 1, by omega⟩
    rw [hq, List.replicate_succ', ← List.append_assoc, List.getLastD_concat]
  have hnat : (UInt8.ofNat (16 - m.length % 16)).toNat = 16 - m.length % 16 := by
    simp [UInt8.toNat_ofNat']; omega
  simp only [hlast, hnat]
  have h2 : ((16 - m.length % 16 == 0) || decide (16 - m.length % 16 > 16)) = false := by
    simp; omega
  simp only [h2, Bool.false_eq_true, ↓reduceIte]
  have hsub : (pkcs7Pad m).length - (16 - m.length % 16) = m.length := by
    unfold pkcs7Pad; simp
  rw [hsub]
  have hdrop : List.drop m.length (pkcs7Pad m) = List.replicate (16 - m.length % 16) (UInt8.ofNat (16 - m.length % 16)) := by
    unfold pkcs7Pad; simp
  have htake : List.take m.length (pkcs7Pad m) = m := by
    unfold pkcs7Pad; simp
  rw [hdrop, htake]
  simp

end SSEPy
