import SSEPyVerif.Model.PHash
namespace SSEPy

theorem range_succ_map {β} (f : Nat → β) (n : Nat) :
    (List.range (n + 1)).map f = f 0 :: (List.range n).map (fun i => f (i + 1)) := by
  rw [List.range_succ_eq_map]; simp [List.map_map, Function.comp_def]

/-- loop invariant of `_tls_p_hash`: starting at `A(j+1)`, `n` more iterations append blocks `j+1 … j+n` -/
theorem pHashLoop_eq (hmac : Hmac) (key msg : Bytes) :
    ∀ (n j : Nat) (res : Bytes),
      pHashLoop hmac key msg n (rfcA hmac key msg (j + 1)) res
        = res ++ ((List.range n).map fun i => rfcBlock hmac key msg (j + 1 + i)).flatten := by
  intro n
  induction n with
  | zero => intro j res; simp [pHashLoop]
  | succ n ih =>
    intro j res
    unfold pHashLoop
    have hA : hmac key (rfcA hmac key msg (j + 1)) = rfcA hmac key msg (j + 1 + 1) := rfl
    rw [hA, ih (j + 1)]
    rw [range_succ_map]
    simp only [List.flatten_cons, List.append_assoc, Nat.add_zero]
    congr 2
    · congr 1
      apply List.map_congr_left
      intro i _
      congr 1; omega

theorem pHashLoop_rfc (hmac : Hmac) (key msg : Bytes) (n : Nat) :
    pHashLoop hmac key msg n (hmac key msg) [] = rfcStream hmac key msg n := by
  have := pHashLoop_eq hmac key msg n 0 []
  simp only [Nat.zero_add, List.nil_append] at this
  unfold rfcStream
  have hA : rfcA hmac key msg 1 = hmac key msg := rfl
  rw [hA] at this
  rw [this]
  congr 2
  funext i
  rw [Nat.add_comm]

theorem rfcStream_length (hmac : Hmac) (key msg : Bytes) (d : Nat) (hd : ∀ k m, (hmac k m).length = d) (n : Nat) :
    (rfcStream hmac key msg n).length = n * d := by
  unfold rfcStream
  induction n with
  | zero => simp
  | succ n ih =>
    rw [List.range_succ, List.map_append, List.flatten_append, List.length_append, ih]
    simp [rfcBlock, hd, Nat.succ_mul]

theorem rfcStream_prefix (hmac : Hmac) (key msg : Bytes) (n m : Nat) (h : n ≤ m) :
    ∃ t, rfcStream hmac key msg m = rfcStream hmac key msg n ++ t := by
  obtain ⟨k, rfl⟩ := Nat.exists_eq_add_of_le h
  induction k with
  | zero => exact ⟨[], by simp⟩
  | succ k ih =>
    obtain ⟨t, ht⟩ := ih (by omega)
    refine ⟨t ++ rfcBlock hmac key msg (n + k + 1), ?_⟩
    have : n + (k + 1) = (n + k) + 1 := by omega
    rw [this]
    unfold rfcStream at ht ⊢
    rw [List.range_succ, List.map_append, List.flatten_append, ht]
    simp

theorem ceil_mul_ge (x d : Nat) (hd : 0 < d) : x ≤ (x + d - 1) / d * d := by
  have h1 := Nat.div_add_mod (x + d - 1) d
  have h2 := Nat.mod_lt (x + d - 1) hd
  rw [Nat.mul_comm] at h1
  omega

end SSEPy

namespace SSEPy

/-- counter-mode stream: `H(m ‖ 1) ‖ H(m ‖ 2) ‖ … ‖ H(m ‖ n)` with minimal big-endian counters -/
def ctrStream (hash : Bytes → Bytes) (msg : Bytes) (n : Nat) : Bytes :=
  ((List.range n).map fun i => hash (msg ++ natToBytesMin (i + 1))).flatten

theorem ctrStream_succ (hash : Bytes → Bytes) (msg : Bytes) (n : Nat) :
    ctrStream hash msg (n + 1) = ctrStream hash msg n ++ hash (msg ++ natToBytesMin (n + 1)) := by
  unfold ctrStream
  rw [List.range_succ, List.map_append, List.flatten_append]; simp

theorem ctrStream_length (hash : Bytes → Bytes) (msg : Bytes) (d : Nat) (hd : ∀ m, (hash m).length = d) (n : Nat) :
    (ctrStream hash msg n).length = n * d := by
  induction n with
  | zero => simp [ctrStream]
  | succ n ih => rw [ctrStream_succ, List.length_append, ih, hd, Nat.succ_mul]

theorem ctrStream_prefix (hash : Bytes → Bytes) (msg : Bytes) (n m : Nat) (h : n ≤ m) :
    ∃ t, ctrStream hash msg m = ctrStream hash msg n ++ t := by
  obtain ⟨k, rfl⟩ := Nat.exists_eq_add_of_le h
  induction k with
  | zero => exact ⟨[], by simp⟩
  | succ k ih =>
    obtain ⟨t, ht⟩ := ih (by omega)
    refine ⟨t ++ hash (msg ++ natToBytesMin (n + k + 1)), ?_⟩
    have : n + (k + 1) = (n + k) + 1 := by omega
    rw [this, ctrStream_succ, ht]; simp

/-- the `_ctr_expand` loop, started after `j` digests, returns the first `outLen` bytes of a stream
    that is long enough; it never runs out of fuel when the digest is non-empty. -/
theorem ctrLoop_spec (hash : Bytes → Bytes) (msg : Bytes) (d : Nat) (hd : ∀ m, (hash m).length = d)
    (hd0 : 0 < d) (outLen : Nat) :
    ∀ (fuel j : Nat), 1 ≤ fuel → outLen + 1 ≤ fuel + j * d →
      ∃ n, outLen ≤ n * d ∧
        ctrLoop hash msg outLen fuel (j + 1) (ctrStream hash msg j) = .ok ((ctrStream hash msg n).take outLen) := by
  intro fuel
  induction fuel with
  | zero => intro j h1 _; omega
  | succ f ih =>
    intro j _ h
    unfold ctrLoop
    by_cases hlt : (ctrStream hash msg j).length < outLen
    · simp only [hlt, ↓reduceIte]
      rw [← ctrStream_succ]
      rw [ctrStream_length hash msg d hd] at hlt
      exact ih (j + 1) (by omega) (by rw [Nat.succ_mul]; omega)
    · simp only [hlt, ↓reduceIte]
      rw [ctrStream_length hash msg d hd] at hlt
      exact ⟨j, by omega, rfl⟩

end SSEPy
