/-
  Invariants of the connection manager's transition system (Model/Manager.lean) for the expected program:
  exclusivity and arrival order of the registered connection, consistency of its snapshot with the disk.
-/
import SSEPyVerif.Model.Manager
import SSEPyVerif.Proofs.Server
namespace SSEPy.Manager
open SSEPy.ServerIR

def Active (ph : Phase) : Prop := ph = .serving ∨ ph = .finished ∨ ph = .cleaning
def Pending (ph : Phase) : Prop := ph = .queued ∨ ph = .waiting

instance (ph : Phase) : Decidable (Active ph) := by unfold Active; infer_instance
instance (ph : Phase) : Decidable (Pending ph) := by unfold Pending; infer_instance

/-- the invariant of every reachable state -/
structure J (s : MState) : Prop where
  shape : ∃ st cfg edb, Shape s.disk st cfg edb ∧
    ∀ (j : Nat) (c : CRec), s.conns[j]? = some c → Active c.phase → ConnOk st cfg edb c.obj
  active_reg : ∀ (j : Nat) (c : CRec), s.conns[j]? = some c → Active c.phase → s.registry = some j
  reg_active : ∀ (j : Nat), s.registry = some j → ∃ c : CRec, s.conns[j]? = some c ∧ Active c.phase
  queue_iff : ∀ (j : Nat), j ∈ s.queue ↔ ∃ c : CRec, s.conns[j]? = some c ∧ Pending c.phase
  queue_sorted : s.queue.Pairwise (· < ·)
  reg_lt_queue : ∀ r, s.registry = some r → ∀ q ∈ s.queue, r < q

theorem J_init : J {} where
  shape := ⟨0, none, none, .fresh, fun j c h => by simp at h⟩
  active_reg := fun j c h => by simp at h
  reg_active := fun j h => by cases h
  queue_iff := fun j => by simp
  queue_sorted := List.Pairwise.nil
  reg_lt_queue := fun r h => by cases h

/-! ### list bookkeeping -/

theorem get_set {s : MState} {j : Nat} {c : CRec} (h : s.conns[j]? = some c) (c' : CRec) (i : Nat) :
    (setConn s j c').conns[i]? = if i = j then some c' else s.conns[i]? := by
  unfold setConn
  simp only [List.getElem?_set]
  by_cases hij : j = i
  · subst hij
    have hl : j < s.conns.length := by
      rcases Nat.lt_or_ge j s.conns.length with h' | h'
      · exact h'
      · rw [List.getElem?_eq_none h'] at h; cases h
    simp [hl]
  · have : ¬ i = j := fun e => hij e.symm
    simp [hij, this]

theorem idx_lt {s : MState} {j : Nat} {c : CRec} (h : s.conns[j]? = some c) : j < s.conns.length := by
  rcases Nat.lt_or_ge j s.conns.length with h' | h'
  · exact h'
  · rw [List.getElem?_eq_none h'] at h; cases h

/-- changing one connection without changing its phase class, the disk, the registry or the queue keeps
    the invariant, provided an active connection's object stays consistent -/
theorem J_setConn_same {s : MState} (hJ : J s) {j : Nat} {c c' : CRec} (h : s.conns[j]? = some c)
    (hA : Active c'.phase ↔ Active c.phase) (hP : Pending c'.phase ↔ Pending c.phase)
    (hobj : c'.obj = c.obj) : J (setConn s j c') := by
  have g := fun i => get_set h c' i
  obtain ⟨st, cfg, edb, hs, hc⟩ := hJ.shape
  refine ⟨⟨st, cfg, edb, hs, ?_⟩, ?_, ?_, ?_, hJ.queue_sorted, hJ.reg_lt_queue⟩
  · intro i ci hi ha
    rw [g] at hi
    by_cases hij : i = j
    · subst hij; simp at hi; subst hi; rw [hobj]; exact hc i c h (hA.mp ha)
    · simp [hij] at hi; exact hc i ci hi ha
  · intro i ci hi ha
    rw [g] at hi
    by_cases hij : i = j
    · subst hij; simp at hi; subst hi; exact hJ.active_reg i c h (hA.mp ha)
    · simp [hij] at hi; exact hJ.active_reg i ci hi ha
  · intro r hr
    obtain ⟨cr, hcr, har⟩ := hJ.reg_active r hr
    by_cases hrj : r = j
    · subst hrj
      refine ⟨c', by rw [g]; simp, ?_⟩
      rw [hcr] at h; cases h; exact hA.mpr har
    · exact ⟨cr, by rw [g]; simp [hrj, hcr], har⟩
  · intro i
    show i ∈ s.queue ↔ _
    rw [hJ.queue_iff i]
    constructor
    · rintro ⟨ci, hi, hp⟩
      by_cases hij : i = j
      · subst hij; rw [h] at hi; cases hi
        exact ⟨c', by rw [g]; simp, hP.mpr hp⟩
      · exact ⟨ci, by rw [g]; simp [hij, hi], hp⟩
    · rintro ⟨ci, hi, hp⟩
      rw [g] at hi
      by_cases hij : i = j
      · subst hij; simp at hi; subst hi; exact ⟨c, h, hP.mp hp⟩
      · simp [hij] at hi; exact ⟨ci, hi, hp⟩


theorem not_active_of_pending {ph : Phase} (h : Pending ph) : ¬ Active ph := by
  rcases h with h | h <;> subst h <;> intro ha <;> rcases ha with h | h | h <;> cases h

theorem not_pending_of_active {ph : Phase} (h : Active ph) : ¬ Pending ph := fun hp => not_active_of_pending hp h

/-- the only active connection is the registered one -/
theorem active_unique {s : MState} (hJ : J s) {i j : Nat} {ci cj : CRec} (hi : s.conns[i]? = some ci)
    (hj : s.conns[j]? = some cj) (ai : Active ci.phase) (aj : Active cj.phase) : i = j := by
  have h1 := hJ.active_reg i ci hi ai
  have h2 := hJ.active_reg j cj hj aj
  rw [h1] at h2; exact Option.some.inj h2

/-- a new connection arrives -/
theorem J_open {s : MState} (hJ : J s) : ∀ s', step P s .openConn = some s' → J s' := by
  intro s' hstep
  obtain ⟨st, cfg, edb, hs, hc⟩ := hJ.shape
  obtain ⟨o, hcons, _⟩ := construct_shape s.disk st cfg edb hs
  simp only [step, hcons, Option.some.injEq] at hstep
  subst hstep
  have g : ∀ i, (s.conns ++ [({ obj := o, outs := [Out.initEcho st] } : CRec)])[i]? =
      if i < s.conns.length then s.conns[i]? else if i = s.conns.length then some { obj := o, outs := [Out.initEcho st] } else none := by
    intro i
    rw [List.getElem?_append]
    by_cases hi : i < s.conns.length
    · simp [hi]
    · simp only [hi, ↓reduceIte]
      by_cases he : i = s.conns.length
      · subst he; simp
      · have : i - s.conns.length ≠ 0 := by omega
        simp [he]
        cases hk : i - s.conns.length with
        | zero => omega
        | succ k => simp
  refine ⟨⟨st, cfg, edb, hs, ?_⟩, ?_, ?_, ?_, ?_, ?_⟩
  · intro i ci hi ha
    simp only at hi
    rw [g] at hi
    by_cases hlt : i < s.conns.length
    · rw [if_pos hlt] at hi; exact hc i ci hi ha
    · simp only [hlt, ↓reduceIte] at hi
      split at hi
      · cases hi; rcases ha with h | h | h <;> cases h
      · cases hi
  · intro i ci hi ha
    simp only at hi
    rw [g] at hi
    by_cases hlt : i < s.conns.length
    · rw [if_pos hlt] at hi; exact hJ.active_reg i ci hi ha
    · simp only [hlt, ↓reduceIte] at hi
      split at hi
      · cases hi; rcases ha with h | h | h <;> cases h
      · cases hi
  · intro r hr
    obtain ⟨cr, hcr, har⟩ := hJ.reg_active r hr
    exact ⟨cr, by show (s.conns ++ [_])[r]? = _; rw [g, if_pos (idx_lt hcr)]; exact hcr, har⟩
  · intro i
    simp only [List.mem_append, List.mem_singleton]
    rw [hJ.queue_iff i, g]
    constructor
    · rintro (⟨ci, hi, hp⟩ | rfl)
      · exact ⟨ci, by rw [if_pos (idx_lt hi)]; exact hi, hp⟩
      · exact ⟨{ obj := o, outs := [Out.initEcho st] }, by simp, Or.inl rfl⟩
    · rintro ⟨ci, hi, hp⟩
      by_cases hlt : i < s.conns.length
      · rw [if_pos hlt] at hi; exact Or.inl ⟨ci, hi, hp⟩
      · simp only [hlt, ↓reduceIte] at hi
        split at hi
        · rename_i he; exact Or.inr he
        · cases hi
  · simp only
    rw [List.pairwise_append]
    refine ⟨hJ.queue_sorted, List.pairwise_singleton _ _, ?_⟩
    intro a ha b hb
    simp at hb; subst hb
    obtain ⟨ca, hca, _⟩ := (hJ.queue_iff a).mp ha
    exact idx_lt hca
  · intro r hr q hq
    simp only [List.mem_append, List.mem_singleton] at hq
    rcases hq with hq | rfl
    · exact hJ.reg_lt_queue r hr q hq
    · obtain ⟨cr, hcr, _⟩ := hJ.reg_active r hr
      exact idx_lt hcr


/-- the connection at the head of the waiting list becomes the registered one -/
theorem J_register {s : MState} (hJ : J s) {j : Nat} {c : CRec} (h : s.conns[j]? = some c)
    (hp : Pending c.phase) (hreg : s.registry = none) (hhead : s.queue.head? = some j) :
    J (registerConn P s j c) := by
  obtain ⟨st, cfg, edb, hs, hc⟩ := hJ.shape
  obtain ⟨o, hcons, hok⟩ := construct_shape s.disk st cfg edb hs
  have hq : s.queue = j :: s.queue.tail := by
    cases hqq : s.queue with
    | nil => simp [hqq] at hhead
    | cons a t => simp [hqq] at hhead; subst hhead; rfl
  -- nobody is active while the registry is empty
  have noact : ∀ (i : Nat) (ci : CRec), s.conns[i]? = some ci → ¬ Active ci.phase := by
    intro i ci hi ha
    have := hJ.active_reg i ci hi ha
    rw [hreg] at this; cases this
  have g := fun i => get_set h ({ c with obj := o, phase := .serving } : CRec) i
  have hsorted := hJ.queue_sorted
  rw [hq] at hsorted
  have hlt : ∀ q ∈ s.queue.tail, j < q := (List.pairwise_cons.mp hsorted).1
  unfold registerConn
  simp only [hcons]
  refine ⟨⟨st, cfg, edb, hs, ?_⟩, ?_, ?_, ?_, ?_, ?_⟩
  · intro i ci hi ha
    simp only at hi
    rw [g] at hi
    by_cases hij : i = j
    · subst hij; simp at hi; subst hi; exact hok
    · simp [hij] at hi; exact absurd ha (noact i ci hi)
  · intro i ci hi ha
    simp only at hi
    rw [g] at hi
    by_cases hij : i = j
    · subst hij; rfl
    · simp [hij] at hi; exact absurd ha (noact i ci hi)
  · intro r hr
    simp only [Option.some.injEq] at hr
    subst hr
    exact ⟨({ c with obj := o, phase := .serving } : CRec), by show (setConn s j _).conns[j]? = _; rw [g]; simp, Or.inl rfl⟩
  · intro i
    show i ∈ s.queue.tail ↔ _
    constructor
    · intro hi
      have hne : i ≠ j := fun e => by subst e; exact Nat.lt_irrefl _ (hlt i hi)
      have : i ∈ s.queue := by rw [hq]; exact List.mem_cons_of_mem _ hi
      obtain ⟨ci, hci, hpi⟩ := (hJ.queue_iff i).mp this
      exact ⟨ci, by show (setConn s j _).conns[i]? = _; rw [g]; simp [hne, hci], hpi⟩
    · rintro ⟨ci, hci, hpi⟩
      have hci' : (setConn s j ({ c with obj := o, phase := .serving } : CRec)).conns[i]? = some ci := hci
      rw [g] at hci'
      by_cases hij : i = j
      · subst hij; simp at hci'; subst hci'; rcases hpi with h' | h' <;> cases h'
      · simp [hij] at hci'
        have : i ∈ s.queue := (hJ.queue_iff i).mpr ⟨ci, hci', hpi⟩
        rw [hq] at this
        rcases List.mem_cons.mp this with e | e
        · exact absurd e hij
        · exact e
  · exact (List.pairwise_cons.mp hsorted).2
  · intro r hr q hqm
    simp only [Option.some.injEq] at hr
    subst hr
    exact hlt q hqm

/-- the registered connection processes a request -/
theorem J_deliver {s : MState} (hJ : J s) {j : Nat} {c : CRec} (h : s.conns[j]? = some c)
    (hserv : c.phase = .serving) (m : Msg) (c' : CRec) (hph : c'.phase = c.phase)
    (hobj : c'.obj = (handleMsg P s.disk c.obj m).2.1) :
    J { setConn s j c' with disk := (handleMsg P s.disk c.obj m).1 } := by
  obtain ⟨st, cfg, edb, hs, hc⟩ := hJ.shape
  have hact : Active c.phase := Or.inl hserv
  have hact' : Active c'.phase := by rw [hph]; exact hact
  obtain ⟨st', cfg', edb', hs', hc', _, _⟩ := handleMsg_refines s.disk st cfg edb c.obj m hs (hc j c h hact)
  have g := fun i => get_set h c' i
  refine ⟨⟨st', cfg', edb', hs', ?_⟩, ?_, ?_, ?_, hJ.queue_sorted, hJ.reg_lt_queue⟩
  · intro i ci hi ha
    have hi' : (setConn s j c').conns[i]? = some ci := hi
    rw [g] at hi'
    by_cases hij : i = j
    · subst hij; simp at hi'; subst hi'; rw [hobj]; exact hc'
    · simp [hij] at hi'
      exact absurd (active_unique hJ hi' h ha hact) hij
  · intro i ci hi ha
    have hi' : (setConn s j c').conns[i]? = some ci := hi
    rw [g] at hi'
    by_cases hij : i = j
    · subst hij; exact hJ.active_reg i c h hact
    · simp [hij] at hi'; exact hJ.active_reg i ci hi' ha
  · intro r hr
    obtain ⟨cr, hcr, har⟩ := hJ.reg_active r hr
    by_cases hrj : r = j
    · subst hrj
      exact ⟨c', by show (setConn s r c').conns[r]? = _; rw [g]; simp, hact'⟩
    · exact ⟨cr, by show (setConn s j c').conns[r]? = _; rw [g]; simp [hrj, hcr], har⟩
  · intro i
    show i ∈ s.queue ↔ _
    rw [hJ.queue_iff i]
    constructor
    · rintro ⟨ci, hi, hp⟩
      by_cases hij : i = j
      · subst hij; rw [h] at hi; cases hi; exact absurd hact (not_active_of_pending hp)
      · exact ⟨ci, by show (setConn s j c').conns[i]? = _; rw [g]; simp [hij, hi], hp⟩
    · rintro ⟨ci, hi, hp⟩
      have hi' : (setConn s j c').conns[i]? = some ci := hi
      rw [g] at hi'
      by_cases hij : i = j
      · subst hij; simp at hi'; subst hi'; exact absurd hact' (not_active_of_pending hp)
      · simp [hij] at hi'; exact ⟨ci, hi', hp⟩

/-- the cleanup of the registered connection completes -/
theorem J_cleanupEnd {s : MState} (hJ : J s) {j : Nat} {c : CRec} (h : s.conns[j]? = some c)
    (hcl : c.phase = .cleaning) :
    J { setConn s j { c with phase := .done } with
        disk := (match s.registry.bind (fun r => s.conns[r]?) with
          | some rc => closeConn P s.disk rc.obj
          | none => s.disk),
        registry := none, lockHeld := false } := by
  obtain ⟨st, cfg, edb, hs, hc⟩ := hJ.shape
  have hact : Active c.phase := Or.inr (Or.inr hcl)
  have hreg := hJ.active_reg j c h hact
  have hdisk : (match s.registry.bind (fun r => s.conns[r]?) with
      | some rc => closeConn P s.disk rc.obj
      | none => s.disk) = closeConn P s.disk c.obj := by
    simp [hreg, h]
  rw [hdisk]
  have hs' := closeConn_shape s.disk st cfg edb c.obj hs (hc j c h hact).1
  have g := fun i => get_set h ({ c with phase := .done } : CRec) i
  have others : ∀ (i : Nat) (ci : CRec), i ≠ j → s.conns[i]? = some ci → ¬ Active ci.phase :=
    fun i ci hij hi ha => hij (active_unique hJ hi h ha hact)
  refine ⟨⟨st, cfg, edb, hs', ?_⟩, ?_, ?_, ?_, hJ.queue_sorted, ?_⟩
  · intro i ci hi ha
    have hi' : (setConn s j _).conns[i]? = some ci := hi
    rw [g] at hi'
    by_cases hij : i = j
    · subst hij; simp at hi'; subst hi'; rcases ha with h' | h' | h' <;> cases h'
    · simp [hij] at hi'; exact absurd ha (others i ci hij hi')
  · intro i ci hi ha
    have hi' : (setConn s j _).conns[i]? = some ci := hi
    rw [g] at hi'
    by_cases hij : i = j
    · subst hij; simp at hi'; subst hi'; rcases ha with h' | h' | h' <;> cases h'
    · simp [hij] at hi'; exact absurd ha (others i ci hij hi')
  · intro r hr; cases hr
  · intro i
    show i ∈ s.queue ↔ _
    rw [hJ.queue_iff i]
    constructor
    · rintro ⟨ci, hi, hp⟩
      by_cases hij : i = j
      · subst hij; rw [h] at hi; cases hi; exact absurd hact (not_active_of_pending hp)
      · exact ⟨ci, by show (setConn s j _).conns[i]? = _; rw [g]; simp [hij, hi], hp⟩
    · rintro ⟨ci, hi, hp⟩
      have hi' : (setConn s j _).conns[i]? = some ci := hi
      rw [g] at hi'
      by_cases hij : i = j
      · subst hij; simp at hi'; subst hi'; rcases hp with h' | h' <;> cases h'
      · simp [hij] at hi'; exact ⟨ci, hi', hp⟩
  · intro r hr; cases hr


/-- every step preserves the invariant -/
theorem J_step {s s' : MState} (hJ : J s) (a : Act) (hstep : step P s a = some s') : J s' := by
  cases a with
  | openConn => exact J_open hJ s' hstep
  | enter j =>
    simp only [step] at hstep
    cases hc : s.conns[j]? with
    | none => simp [hc] at hstep
    | some c =>
      simp only [hc] at hstep
      split at hstep
      · rename_i hcond
        split at hstep
        · cases hstep
          exact J_setConn_same hJ hc (by simp [Active, hcond.1]) (by simp [Pending, hcond.1]) rfl
        · rename_i hturn
          cases hstep
          have hreg : s.registry = none := by
            cases hr : s.registry with
            | none => rfl
            | some r => exact absurd (Or.inl (by simp [hr])) hturn
          have hhead : s.queue.head? = some j := by
            by_cases hh : s.queue.head? = some j
            · exact hh
            · exact absurd (Or.inr hh) hturn
          exact J_register hJ hc (Or.inl hcond.1) hreg hhead
      · cases hstep
  | wake j =>
    simp only [step] at hstep
    cases hc : s.conns[j]? with
    | none => simp [hc] at hstep
    | some c =>
      simp only [hc] at hstep
      split at hstep
      · rename_i hcond
        cases hstep
        exact J_register hJ hc (Or.inr hcond.1) hcond.2.2.1 hcond.2.2.2
      · cases hstep
  | send j m =>
    simp only [step] at hstep
    cases hc : s.conns[j]? with
    | none => simp [hc] at hstep
    | some c =>
      simp only [hc] at hstep
      split at hstep
      · cases hstep; exact J_setConn_same hJ hc Iff.rfl Iff.rfl rfl
      · cases hstep
  | deliver j =>
    simp only [step] at hstep
    cases hc : s.conns[j]? with
    | none => simp [hc] at hstep
    | some c =>
      simp only [hc] at hstep
      split at hstep
      · rename_i hcond
        cases hin : c.inbox with
        | nil => simp [hin] at hstep
        | cons m rest =>
          simp only [hin, Option.some.injEq] at hstep
          subst hstep
          exact J_deliver hJ hc hcond.1 m _ rfl rfl
      · cases hstep
  | clientClose j =>
    simp only [step] at hstep
    cases hc : s.conns[j]? with
    | none => simp [hc] at hstep
    | some c =>
      simp only [hc] at hstep
      split at hstep
      · cases hstep; exact J_setConn_same hJ hc Iff.rfl Iff.rfl rfl
      · cases hstep
  | finish j =>
    simp only [step] at hstep
    cases hc : s.conns[j]? with
    | none => simp [hc] at hstep
    | some c =>
      simp only [hc] at hstep
      split at hstep
      · rename_i hcond
        cases hstep
        exact J_setConn_same hJ hc (by simp [Active, hcond.1]) (by simp [Pending, hcond.1]) rfl
      · cases hstep
  | cleanupStart j =>
    simp only [step] at hstep
    cases hc : s.conns[j]? with
    | none => simp [hc] at hstep
    | some c =>
      simp only [hc] at hstep
      split at hstep
      · rename_i hcond
        cases hstep
        have := J_setConn_same hJ hc (c' := { c with phase := .cleaning }) (by simp [Active, hcond.1])
          (by simp [Pending, hcond.1]) rfl
        exact ⟨this.shape, this.active_reg, this.reg_active, this.queue_iff, this.queue_sorted, this.reg_lt_queue⟩
      · cases hstep
  | cleanupEnd j =>
    simp only [step] at hstep
    cases hc : s.conns[j]? with
    | none => simp [hc] at hstep
    | some c =>
      simp only [hc] at hstep
      split at hstep
      · rename_i hcond
        cases hstep
        exact J_cleanupEnd hJ hc hcond
      · cases hstep

theorem J_reachable {s : MState} (h : Reachable P s) : J s := by
  induction h with
  | init => exact J_init
  | step s s' a _ hs ih => exact J_step ih a hs

/-- exclusivity in arrival order: while a connection is registered (being served, or closed but not yet
    cleaned up), every connection opened before it has been closed and cleaned up -/
theorem earlier_done {s : MState} (hJ : J s) {j : Nat} {c : CRec} (h : s.conns[j]? = some c)
    (ha : Active c.phase) (i : Nat) (hij : i < j) : ∃ ci : CRec, s.conns[i]? = some ci ∧ ci.phase = .done := by
  have hi : i < s.conns.length := Nat.lt_trans hij (idx_lt h)
  refine ⟨s.conns[i], by simp [hi], ?_⟩
  have hget : s.conns[i]? = some s.conns[i] := by simp [hi]
  have hreg := hJ.active_reg j c h ha
  by_cases hai : Active s.conns[i].phase
  · exact absurd (active_unique hJ hget h hai ha) (Nat.ne_of_lt hij)
  · by_cases hpi : Pending s.conns[i].phase
    · have hq : i ∈ s.queue := (hJ.queue_iff i).mpr ⟨_, hget, hpi⟩
      have := hJ.reg_lt_queue j hreg i hq
      omega
    · cases hph : s.conns[i].phase <;> simp [Active, Pending, hph] at hai hpi
      rfl


theorem cleanupEnd_disk {s s' : MState} (hJ : J s) {j : Nat} {c : CRec} (h : s.conns[j]? = some c)
    (hcl : c.phase = .cleaning) (hstep : step P s (.cleanupEnd j) = some s') :
    s'.disk = closeConn P s.disk c.obj := by
  have hreg := hJ.active_reg j c h (Or.inr (Or.inr hcl))
  simp only [step, h, hcl, ↓reduceIte, Option.some.injEq] at hstep
  subst hstep
  simp [hreg, h]

end SSEPy.Manager
