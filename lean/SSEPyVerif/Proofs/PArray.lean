/-
  Helper lemmas for C19: file-level read/write algebra of the persistent array.
-/
import SSEPyVerif.Model.PArray
import SSEPyVerif.Proofs.PySeq
namespace SSEPy.PArray

/-- the byte at position `p` of a file, zero at and beyond EOF -/
def byteAt (f : File) (p : Nat) : UInt8 := f.getD p 0

theorem byteAt_def (f : File) (p : Nat) : byteAt f p = (f[p]?).getD 0 := by
  simp [byteAt, List.getD_eq_getElem?_getD]

/-- a padded read of `n` bytes at `o` is the window `[o, o+n)` of `byteAt` -/
theorem padded_read (f : File) (o n : Nat) :
    readAt f o n ++ zeros (n - (readAt f o n).length) = (List.range n).map fun k => byteAt f (o + k) := by
  apply List.ext_getElem?
  intro k
  simp only [List.getElem?_append, List.getElem?_map, readAt, zeros,
    List.length_take, List.length_drop, List.getElem?_take, List.getElem?_drop, List.getElem?_replicate, byteAt_def]
  by_cases hk : k < n
  · by_cases hf : o + k < f.length
    · have h1 : k < min n (f.length - o) := by omega
      simp [hk, h1, hf]
    · have h1 : ¬ (k < min n (f.length - o)) := by omega
      have h2 : k - min n (f.length - o) < n - min n (f.length - o) := by omega
      simp [hk, h1, h2, List.getElem?_eq_none (by omega : f.length ≤ o + k)]
  · have h1 : ¬ (k < min n (f.length - o)) := by omega
    have h2 : ¬ (k - min n (f.length - o) < n - min n (f.length - o)) := by omega
    simp [hk, h1, h2]

theorem byteAt_writeAt (f : File) (o : Nat) (c : Bytes) (p : Nat) :
    byteAt (writeAt f o c) p =
      if p < o then byteAt f p else if p < o + c.length then c.getD (p - o) 0 else byteAt f p := by
  unfold writeAt
  simp only [byteAt_def, List.getD_eq_getElem?_getD, List.getElem?_append, List.length_append, List.length_take,
    zeros, List.length_replicate, List.getElem?_take, List.getElem?_drop, List.getElem?_replicate]
  have hmin : min o (f.length + (o - f.length)) = o := by omega
  rw [hmin]
  by_cases h1 : p < o
  · have h0 : p < o + c.length := by omega
    simp only [h1, h0, ↓reduceIte]
    by_cases hpf : p < f.length
    · simp [hpf]
    · have : p - f.length < o - f.length := by omega
      simp [hpf, this]
  · by_cases h2 : p < o + c.length
    · simp only [h1, h2, ↓reduceIte]
    · simp only [h1, h2, ↓reduceIte]
      congr 2; omega

/-- `readIdx` as a window of `byteAt` -/
theorem readIdx_eq (s : PArr) (i : Nat) :
    readIdx s i = (List.range s.sz).map fun k => byteAt (fileOf s (i / s.per)) (i % s.per * s.sz + k) := by
  unfold readIdx
  exact padded_read _ _ _

theorem fileOf_touch (s : PArr) (fid k : Nat) : fileOf (touch s fid) k = fileOf s k := by
  unfold fileOf touch
  by_cases h : k = fid
  · subst h; simp
  · simp [h]

theorem readIdx_touch (s : PArr) (fid i : Nat) : readIdx (touch s fid) i = readIdx s i := by
  rw [readIdx_eq, readIdx_eq]
  have h1 : (touch s fid).sz = s.sz := rfl
  have h2 : (touch s fid).per = s.per := rfl
  rw [h1, h2, fileOf_touch]

theorem slots_disjoint (a b sz k : Nat) (hab : a ≠ b) (hk : k < sz) :
    a * sz + k < b * sz ∨ b * sz + sz ≤ a * sz + k := by
  rcases Nat.lt_or_gt_of_ne hab with h | h
  · left
    calc a * sz + k < a * sz + sz := by omega
      _ = (a + 1) * sz := by rw [Nat.add_mul]; omega
      _ ≤ b * sz := Nat.mul_le_mul_right _ h
  · right
    calc b * sz + sz = (b + 1) * sz := by rw [Nat.add_mul]; omega
      _ ≤ a * sz := Nat.mul_le_mul_right _ h
      _ ≤ a * sz + k := by omega

/-- the central lemma: after writing item `i`, reading `i` gives the left-padded value and reading any
    other position gives what it gave before -/
theorem readIdx_writeIdx (s : PArr) (i j : Nat) (b : Bytes) (hb : b.length ≤ s.sz) :
    readIdx (writeIdx s i b) j = if j = i then leftPad s.sz b else readIdx s j := by
  have hc : (zeros (s.sz - b.length) ++ b).length = s.sz := by simp [zeros]; omega
  rw [readIdx_eq]
  have hsz : (writeIdx s i b).sz = s.sz := rfl
  have hpr : (writeIdx s i b).per = s.per := rfl
  rw [hsz, hpr]
  by_cases hji : j = i
  · subst hji
    simp only [↓reduceIte]
    have hf : fileOf (writeIdx s j b) (j / s.per)
        = writeAt (fileOf s (j / s.per)) (j % s.per * s.sz) (zeros (s.sz - b.length) ++ b) := by
      simp [fileOf, writeIdx]
    rw [hf]
    apply List.ext_getElem
    · simp [leftPad, zeros]; omega
    · intro k h1 h2
      simp only [List.length_map, List.length_range] at h1
      simp only [List.getElem_map, List.getElem_range, byteAt_writeAt]
      have h3 : ¬ (j % s.per * s.sz + k < j % s.per * s.sz) := by omega
      have h4 : j % s.per * s.sz + k < j % s.per * s.sz + (zeros (s.sz - b.length) ++ b).length := by omega
      simp only [h3, h4, ↓reduceIte, leftPad]
      have e : j % s.per * s.sz + k - j % s.per * s.sz = k := by omega
      rw [e, List.getD_eq_getElem?_getD, List.getElem?_eq_getElem (by omega)]
      rfl
  · simp only [hji, ↓reduceIte]
    rw [readIdx_eq]
    by_cases hfile : j / s.per = i / s.per
    · have hf : fileOf (writeIdx s i b) (j / s.per)
          = writeAt (fileOf s (i / s.per)) (i % s.per * s.sz) (zeros (s.sz - b.length) ++ b) := by
        simp [fileOf, writeIdx, hfile]
      rw [hf, hfile]
      apply List.map_congr_left
      intro k hk
      simp only [List.mem_range] at hk
      rw [byteAt_writeAt]
      have hslot : j % s.per ≠ i % s.per := by
        intro he
        have h1 := Nat.div_add_mod j s.per
        have h2 := Nat.div_add_mod i s.per
        rw [hfile, he] at h1
        omega
      rcases slots_disjoint (j % s.per) (i % s.per) s.sz k hslot hk with h | h
      · simp [h]
      · have h3 : ¬ (j % s.per * s.sz + k < i % s.per * s.sz) := by omega
        have h4 : ¬ (j % s.per * s.sz + k < i % s.per * s.sz + (zeros (s.sz - b.length) ++ b).length) := by omega
        simp only [h3, h4, ↓reduceIte]
    · have hf : fileOf (writeIdx s i b) (j / s.per) = fileOf s (j / s.per) := by
        simp [fileOf, writeIdx, hfile]
      rw [hf]


/-! ### content functions and the abstraction -/

/-- pointwise update -/
def upd (c : Nat → Bytes) (i : Nat) (v : Bytes) : Nat → Bytes := fun j => if j = i then v else c j

/-- same meta values -/
def SameParams (a b : PArr) : Prop := a.sz = b.sz ∧ a.len = b.len ∧ a.per = b.per ∧ a.closed = b.closed

theorem SameParams.refl (a : PArr) : SameParams a a := ⟨rfl, rfl, rfl, rfl⟩
theorem SameParams.trans {a b c : PArr} (h1 : SameParams a b) (h2 : SameParams b c) : SameParams a c :=
  ⟨h1.1.trans h2.1, h1.2.1.trans h2.2.1, h1.2.2.1.trans h2.2.2.1, h1.2.2.2.trans h2.2.2.2⟩

theorem sameParams_touch (s : PArr) (f : Nat) : SameParams (touch s f) s := ⟨rfl, rfl, rfl, rfl⟩
theorem sameParams_writeIdx (s : PArr) (i : Nat) (b : Bytes) : SameParams (writeIdx s i b) s := ⟨rfl, rfl, rfl, rfl⟩

theorem readIdx_write_touch (s : PArr) (f i : Nat) (b : Bytes) (hb : b.length ≤ s.sz) :
    readIdx (writeIdx (touch s f) i b) = upd (readIdx s) i (leftPad s.sz b) := by
  funext j
  have := readIdx_writeIdx (touch s f) i j b hb
  rw [this]
  unfold upd
  simp only [readIdx_touch]
  rfl

theorem abs_items_length (s : PArr) : (abs s).items.length = s.len := by simp [abs]

theorem abs_eq_of (a b : PArr) (hp : SameParams a b) (hc : ∀ j, j < b.len → readIdx a j = readIdx b j) : abs a = abs b := by
  obtain ⟨h1, h2, h3, h4⟩ := hp
  unfold abs
  rw [h1, h2, h4]
  congr 1
  apply List.map_congr_left
  intro j hj
  exact hc j (by simpa using hj)

theorem abs_touch (s : PArr) (f : Nat) : abs (touch s f) = abs s :=
  abs_eq_of _ _ (sameParams_touch s f) (fun j _ => readIdx_touch s f j)

theorem getD_abs (s : PArr) (k : Nat) (hk : k < s.len) : (abs s).items.getD k [] = readIdx s k := by
  simp [abs, List.getD_eq_getElem?_getD, hk]

/-- `(range n).map (upd c k v) = ((range n).map c).set k v` -/
theorem map_upd (c : Nat → Bytes) (k : Nat) (v : Bytes) (n : Nat) :
    (List.range n).map (upd c k v) = ((List.range n).map c).set k v := by
  apply List.ext_getElem
  · simp
  · intro j h1 h2
    simp only [List.length_map, List.length_range] at h1
    simp only [List.getElem_map, List.getElem_range, List.getElem_set, upd]
    by_cases hjk : k = j
    · subst hjk; simp
    · have : ¬ j = k := fun h => hjk h.symm
      simp [hjk, this]

theorem abs_write (s : PArr) (f k : Nat) (b : Bytes) (hb : b.length ≤ s.sz) :
    abs (writeIdx (touch s f) k b) = { abs s with items := (abs s).items.set k (leftPad s.sz b) } := by
  unfold abs
  simp only [readIdx_write_touch s f k b hb, map_upd]
  rfl

theorem normIdx_lt {len : Nat} {i : Int} {k : Nat} (h : normIdx len i = some k) : k < len := by
  unfold normIdx at h
  split at h
  · cases h
  · rename_i hn
    simp only [Option.some.injEq] at h
    have hl : 0 < (len : Int) := by omega
    have h1 := Int.emod_nonneg i (Int.ne_of_gt hl)
    have h2 := Int.emod_lt_of_pos i hl
    omega

theorem foldl_touch_same (idx : List Nat) : ∀ (s : PArr),
    SameParams (idx.foldl (fun st i => touch st (i / st.per)) s) s ∧
    readIdx (idx.foldl (fun st i => touch st (i / st.per)) s) = readIdx s := by
  induction idx with
  | nil => intro s; exact ⟨SameParams.refl s, rfl⟩
  | cons i is ih =>
    intro s
    obtain ⟨h1, h2⟩ := ih (touch s (i / s.per))
    refine ⟨h1.trans (sameParams_touch _ _), ?_⟩
    simp only [List.foldl_cons, h2]
    funext j; exact readIdx_touch _ _ _

theorem leftPad_zeros (n : Nat) : leftPad n (zeros n) = zeros n := by simp [leftPad, zeros]

/-- zero-filling a list of valid positions -/
theorem zeroRange_spec (idx : List Nat) : ∀ (s : PArr), (∀ k ∈ idx, k < s.len) →
    abs (zeroRange s idx) = { abs s with items := idx.foldl (fun l k => l.set k (zeros s.sz)) (abs s).items } := by
  unfold zeroRange
  induction idx with
  | nil => intro s _; rfl
  | cons i is ih =>
    intro s h
    simp only [List.foldl_cons]
    have hw := abs_write s (i / s.per) i (zeros s.sz) (by simp [zeros])
    rw [leftPad_zeros] at hw
    have hsp : SameParams (writeIdx (touch s (i / s.per)) i (zeros s.sz)) s :=
      (sameParams_writeIdx _ _ _).trans (sameParams_touch _ _)
    rw [ih _ (fun k hk => by rw [hsp.2.1]; exact h k (by simp [hk]))]
    rw [hw, hsp.1]

/-- `foldl set` over `range n` overwrites everything -/
theorem foldl_set_all (z : Bytes) (l : List Bytes) :
    (List.range l.length).foldl (fun l k => l.set k z) l = l.map fun _ => z := by
  have key : ∀ (idx : List Nat) (l : List Bytes),
      idx.foldl (fun l k => l.set k z) l
        = (List.range l.length).map (fun j => if j ∈ idx then z else l.getD j []) := by
    intro idx
    induction idx with
    | nil =>
      intro l
      apply List.ext_getElem
      · simp
      · intro j h1 h2
        simp only [List.foldl_nil] at h1
        simp [List.getD_eq_getElem?_getD, List.getElem?_eq_getElem h1]
    | cons i is ih =>
      intro l
      simp only [List.foldl_cons]
      rw [ih]
      simp only [List.length_set]
      apply List.map_congr_left
      intro j hj
      simp only [List.mem_range] at hj
      by_cases hjis : j ∈ is
      · simp [hjis]
      · simp only [hjis, ↓reduceIte, List.mem_cons, or_false]
        by_cases hji : j = i
        · subst hji; simp [List.getD_eq_getElem?_getD, hj]
        · have : ¬ i = j := fun h => hji h.symm
          simp [hji, List.getD_eq_getElem?_getD, this]
  rw [key]
  apply List.ext_getElem
  · simp
  · intro j h1 h2
    simp only [List.length_map, List.length_range] at h1
    simp [h1]


/-! ### slice assignment: the loop, its agreement with the reference, and the rollback -/

/-- reference assignment on content functions -/
def assignFn (sz : Nat) (c : Nat → Bytes) : List Nat → List Item → Except Err (Nat → Bytes)
  | [], _ => .ok c
  | _, [] => .ok c
  | i :: is, v :: vs =>
    match v with
    | .nonBytes => .error .typeError
    | .bytes b => if b.length > sz then .error .valueError else assignFn sz (upd c i (leftPad sz b)) is vs

theorem assignAll_of_fn (sz n : Nat) : ∀ (idx : List Nat) (vs : List Item) (c : Nat → Bytes),
    assignAll sz ((List.range n).map c) idx vs = (assignFn sz c idx vs).map (fun c' => (List.range n).map c') := by
  intro idx
  induction idx with
  | nil => intro vs c; simp [assignAll, assignFn, Except.map]
  | cons i is ih =>
    intro vs c
    cases vs with
    | nil => simp [assignAll, assignFn, Except.map]
    | cons v vs =>
      cases v with
      | nonBytes => simp [assignAll, assignFn, Except.map]
      | bytes b =>
        simp only [assignAll, assignFn]
        split
        · simp [Except.map]
        · rw [← map_upd, ih]

/-- restoring saved values (most recent first in `olds`) in visiting order -/
def restore (c : Nat → Bytes) (olds : List (Nat × Bytes)) : Nat → Bytes :=
  olds.reverse.foldl (fun c p => upd c p.1 p.2) c

theorem restore_cons (c : Nat → Bytes) (p : Nat × Bytes) (olds : List (Nat × Bytes)) :
    restore c (p :: olds) = upd (restore c olds) p.1 p.2 := by
  simp [restore, List.foldl_append]

theorem foldl_upd_not_mem (l : List (Nat × Bytes)) (c : Nat → Bytes) (j : Nat) (h : j ∉ l.map Prod.fst) :
    l.foldl (fun c p => upd c p.1 p.2) c j = c j := by
  induction l generalizing c with
  | nil => rfl
  | cons p ps ih =>
    simp only [List.map_cons, List.mem_cons, not_or] at h
    simp only [List.foldl_cons]
    rw [ih _ h.2]
    simp [upd, h.1]

theorem foldl_upd_comm (l : List (Nat × Bytes)) (c : Nat → Bytes) (i : Nat) (x : Bytes) (h : i ∉ l.map Prod.fst) :
    l.foldl (fun c p => upd c p.1 p.2) (upd c i x) = upd (l.foldl (fun c p => upd c p.1 p.2) c) i x := by
  induction l generalizing c with
  | nil => rfl
  | cons p ps ih =>
    simp only [List.map_cons, List.mem_cons, not_or] at h
    simp only [List.foldl_cons]
    have hcomm : upd (upd c i x) p.1 p.2 = upd (upd c p.1 p.2) i x := by
      funext j
      by_cases h1 : j = p.1
      · by_cases h2 : j = i
        · exfalso; apply h.1; rw [← h2, h1]
        · simp only [upd, if_pos h1, if_neg h2]
      · by_cases h2 : j = i
        · simp only [upd, if_neg h1, if_pos h2]
        · simp only [upd, if_neg h1, if_neg h2]
    rw [hcomm, ih _ h.2]

theorem restore_not_mem (c : Nat → Bytes) (olds : List (Nat × Bytes)) (j : Nat) (h : j ∉ olds.map Prod.fst) :
    restore c olds j = c j := by
  unfold restore
  apply foldl_upd_not_mem
  simpa using h

theorem restore_upd (c : Nat → Bytes) (olds : List (Nat × Bytes)) (i : Nat) (x : Bytes) (h : i ∉ olds.map Prod.fst) :
    restore (upd c i x) olds = upd (restore c olds) i x := by
  unfold restore
  apply foldl_upd_comm
  simpa using h

theorem readIdx_length (s : PArr) (i : Nat) : (readIdx s i).length = s.sz := by
  rw [readIdx_eq]; simp

theorem leftPad_full (sz : Nat) (b : Bytes) (h : b.length = sz) : leftPad sz b = b := by
  simp [leftPad, zeros, h]

/-- the loop invariant of a slice assignment -/
theorem setSliceLoop_inv : ∀ (rem : List Nat) (vs : List Item) (olds : List (Nat × Bytes)) (s : PArr),
    (olds.map Prod.fst ++ rem).Nodup →
    let r := setSliceLoop s rem vs olds
    SameParams r.1 s ∧
    (∃ k, r.2.1.reverse.map Prod.fst = olds.reverse.map Prod.fst ++ rem.take k) ∧
    restore (readIdx r.1) r.2.1 = restore (readIdx s) olds ∧
    (match assignFn s.sz (readIdx s) rem vs with
     | .ok c' => r.2.2 = none ∧ readIdx r.1 = c'
     | .error e => r.2.2 = some e) := by
  intro rem
  induction rem with
  | nil =>
    intro vs olds s _
    simp only [setSliceLoop, assignFn]
    exact ⟨SameParams.refl s, ⟨0, by simp⟩, (by first | rfl | trivial), (by first | exact ⟨trivial, rfl⟩ | exact ⟨rfl, rfl⟩ | rfl | trivial)⟩
  | cons i is ih =>
    intro vs olds s hnd
    cases vs with
    | nil =>
      simp only [setSliceLoop, assignFn]
      refine ⟨sameParams_touch _ _, ⟨0, by simp⟩, ?_, ?_⟩
      · congr 1; funext j; exact readIdx_touch _ _ _
      · have e : readIdx (touch s (i / s.per)) = readIdx s := funext fun j => readIdx_touch _ _ _
        first
          | exact ⟨trivial, e⟩
          | exact ⟨rfl, e⟩
          | exact e
    | cons v vs =>
      have hi_notin : i ∉ olds.map Prod.fst := by
        intro hmem
        have := List.nodup_append.mp hnd
        exact this.2.2 i hmem i (by simp) rfl
      have hold : readIdx (touch s (i / s.per)) i = readIdx s i := readIdx_touch _ _ _
      -- restoring after visiting `i` (without overwriting it) is the same as before
      have hrest_touch : restore (readIdx (touch s (i / s.per))) ((i, readIdx (touch s (i / s.per)) i) :: olds)
          = restore (readIdx s) olds := by
        rw [restore_cons]
        have e : readIdx (touch s (i / s.per)) = readIdx s := by funext j; exact readIdx_touch _ _ _
        rw [e]
        funext j
        simp only [upd]
        by_cases hj : j = i
        · subst hj; simp [restore_not_mem _ _ _ hi_notin]
        · simp [hj]
      cases v with
      | nonBytes =>
        simp only [setSliceLoop, assignFn]
        refine ⟨sameParams_touch _ _, ⟨1, by simp⟩, hrest_touch, (by first | exact ⟨rfl, rfl⟩ | rfl | trivial)⟩
      | bytes b =>
        simp only [setSliceLoop, assignFn]
        by_cases hb : b.length > s.sz
        · have hb' : b.length > (touch s (i / s.per)).sz := hb
          simp only [hb, ↓reduceIte]
          refine ⟨sameParams_touch _ _, ⟨1, by simp⟩, hrest_touch, (by first | exact ⟨rfl, rfl⟩ | rfl | trivial)⟩
        · simp only [hb, ↓reduceIte]
          have hble : b.length ≤ s.sz := by omega
          have hnd' : (((i, readIdx (touch s (i / s.per)) i) :: olds).map Prod.fst ++ is).Nodup := by
            simp only [List.map_cons, List.cons_append]
            have h1 := List.nodup_append.mp hnd
            have h2 := List.nodup_cons.mp h1.2.1
            refine List.nodup_cons.mpr ⟨?_, ?_⟩
            · simp only [List.mem_append, not_or]
              exact ⟨hi_notin, h2.1⟩
            · refine List.nodup_append.mpr ⟨h1.1, h2.2, ?_⟩
              intro a ha b' hb'
              exact h1.2.2 a ha b' (by simp [hb'])
          obtain ⟨hp, ⟨k, hk⟩, hr, hm⟩ := ih vs ((i, readIdx (touch s (i / s.per)) i) :: olds)
            (writeIdx (touch s (i / s.per)) i b) hnd'
          have hsp : SameParams (writeIdx (touch s (i / s.per)) i b) s :=
            (sameParams_writeIdx _ _ _).trans (sameParams_touch _ _)
          have hw : readIdx (writeIdx (touch s (i / s.per)) i b) = upd (readIdx s) i (leftPad s.sz b) :=
            readIdx_write_touch s _ i b hble
          refine ⟨hp.trans hsp, ⟨k + 1, ?_⟩, ?_, ?_⟩
          · rw [hk]; simp
          · rw [hr, restore_cons, hw, hold]
            simp only
            rw [restore_upd _ _ _ _ hi_notin]
            funext j
            simp only [upd]
            by_cases hj : j = i
            · subst hj; simp [restore_not_mem _ _ _ hi_notin]
            · simp [hj]
          · rw [hsp.1, hw] at hm
            exact hm


theorem setSliceLoop_olds_len : ∀ (rem : List Nat) (vs : List Item) (olds : List (Nat × Bytes)) (s : PArr),
    (∀ p ∈ olds, p.2.length = s.sz) → ∀ p ∈ (setSliceLoop s rem vs olds).2.1, p.2.length = s.sz := by
  intro rem
  induction rem with
  | nil => intro vs olds s h; simpa [setSliceLoop] using h
  | cons i is ih =>
    intro vs olds s h
    cases vs with
    | nil => simpa [setSliceLoop] using h
    | cons v vs =>
      have hnew : ∀ p ∈ (i, readIdx (touch s (i / s.per)) i) :: olds, p.2.length = s.sz := by
        intro p hp
        simp only [List.mem_cons] at hp
        rcases hp with rfl | hp
        · exact readIdx_length (touch s (i / s.per)) i
        · exact h p hp
      cases v with
      | nonBytes => simpa [setSliceLoop] using hnew
      | bytes b =>
        simp only [setSliceLoop]
        split
        · exact hnew
        · exact ih vs _ (writeIdx (touch s (i / s.per)) i b) hnew

theorem assignFn_pairs (sz : Nat) : ∀ (ps : List (Nat × Bytes)) (rest : List Nat) (c : Nat → Bytes),
    (∀ p ∈ ps, p.2.length = sz) →
    assignFn sz c (ps.map Prod.fst ++ rest) ((ps.map Prod.snd).map Item.bytes)
      = .ok (ps.foldl (fun c p => upd c p.1 p.2) c) := by
  intro ps
  induction ps with
  | nil => intro rest c _; cases rest <;> simp [assignFn]
  | cons p ps ih =>
    intro rest c h
    have hp := h p (by simp)
    simp only [List.map_cons, List.cons_append, assignFn, List.foldl_cons]
    have : ¬ (p.2.length > sz) := by omega
    simp only [this, ↓reduceIte]
    rw [leftPad_full sz p.2 hp]
    exact ih rest _ (fun q hq => h q (by simp [hq]))

/-- a failing slice assignment followed by the rollback leaves every item as it was -/
theorem rollback_restores (s : PArr) (idx : List Nat) (vs : List Item) (hnd : idx.Nodup) :
    let r := setSliceLoop s idx vs []
    SameParams (rollback r.1 idx r.2.1) s ∧ readIdx (rollback r.1 idx r.2.1) = readIdx s := by
  intro r
  obtain ⟨hp, ⟨k, hk⟩, hr, _⟩ := setSliceLoop_inv idx vs [] s (by simpa using hnd)
  have hlen := setSliceLoop_olds_len idx vs [] s (by simp)
  simp only [List.reverse_nil, List.map_nil, List.nil_append] at hk
  have hr' : restore (readIdx r.1) r.2.1 = readIdx s := by simpa [restore] using hr
  unfold rollback
  obtain ⟨hp2, _, _, hm2⟩ := setSliceLoop_inv idx (r.2.1.reverse.map fun p => Item.bytes p.2) [] r.1 (by simpa using hnd)
  have hsplit : idx = r.2.1.reverse.map Prod.fst ++ idx.drop k := by
    rw [hk]; exact (List.take_append_drop k idx).symm
  have hvals : (r.2.1.reverse.map fun p => Item.bytes p.2) = (r.2.1.reverse.map Prod.snd).map Item.bytes := by
    simp [List.map_map, Function.comp_def]
  have hA := assignFn_pairs r.1.sz r.2.1.reverse (idx.drop k) (readIdx r.1)
    (fun p hp' => by rw [hp.1]; exact hlen p (by simpa using hp'))
  rw [← hsplit, ← hvals] at hA
  rw [hA] at hm2
  refine ⟨hp2.trans hp, ?_⟩
  rw [hm2.2]
  exact hr'


/-! ### which files exist -/

/-- every existing chunk file has an id below `ceil(array_len / items_per_file)` -/
def FilesOk (s : PArr) : Prop := ∀ fid, (s.files fid).isSome → fid < fileNum s

theorem div_lt_fileNum (s : PArr) (hper : 0 < s.per) (k : Nat) (hk : k < s.len) : k / s.per < fileNum s := by
  unfold fileNum ceilDiv
  have h1 : k / s.per ≤ (s.len - 1) / s.per := Nat.div_le_div_right (by omega)
  have h2 : s.len + s.per - 1 = (s.len - 1) + s.per := by omega
  rw [h2, Nat.add_div_right _ hper]
  omega

theorem filesOk_of_same {a b : PArr} (hp : SameParams a b) : fileNum a = fileNum b := by
  unfold fileNum; rw [hp.2.1, hp.2.2.1]

theorem filesOk_touch (s : PArr) (hper : 0 < s.per) (h : FilesOk s) (k : Nat) (hk : k < s.len) :
    FilesOk (touch s (k / s.per)) := by
  intro fid hf
  have hn : fileNum (touch s (k / s.per)) = fileNum s := rfl
  rw [hn]
  unfold touch at hf
  simp only at hf
  by_cases he : fid = k / s.per
  · rw [he]; exact div_lt_fileNum s hper k hk
  · simp only [he, ↓reduceIte] at hf; exact h fid hf

theorem filesOk_writeIdx (s : PArr) (hper : 0 < s.per) (h : FilesOk s) (k : Nat) (hk : k < s.len) (b : Bytes) :
    FilesOk (writeIdx s k b) := by
  intro fid hf
  have hn : fileNum (writeIdx s k b) = fileNum s := rfl
  rw [hn]
  unfold writeIdx at hf
  simp only at hf
  by_cases he : fid = k / s.per
  · rw [he]; exact div_lt_fileNum s hper k hk
  · simp only [he, ↓reduceIte] at hf; exact h fid hf

theorem filesOk_write_touch (s : PArr) (hper : 0 < s.per) (h : FilesOk s) (k : Nat) (hk : k < s.len) (b : Bytes) :
    FilesOk (writeIdx (touch s (k / s.per)) k b) :=
  filesOk_writeIdx (touch s (k / s.per)) hper (filesOk_touch s hper h k hk) k hk b

theorem filesOk_foldl_touch (idx : List Nat) : ∀ (s : PArr), 0 < s.per → FilesOk s → (∀ k ∈ idx, k < s.len) →
    FilesOk (idx.foldl (fun st i => touch st (i / st.per)) s) := by
  induction idx with
  | nil => intro s _ h _; exact h
  | cons i is ih =>
    intro s hper h hb
    simp only [List.foldl_cons]
    exact ih _ hper (filesOk_touch s hper h i (hb i (by simp))) (fun k hk => hb k (by simp [hk]))

theorem filesOk_zeroRange (idx : List Nat) : ∀ (s : PArr), 0 < s.per → FilesOk s → (∀ k ∈ idx, k < s.len) →
    FilesOk (zeroRange s idx) := by
  unfold zeroRange
  induction idx with
  | nil => intro s _ h _; exact h
  | cons i is ih =>
    intro s hper h hb
    simp only [List.foldl_cons]
    exact ih _ hper (filesOk_write_touch s hper h i (hb i (by simp)) _) (fun k hk => hb k (by simp [hk]))

theorem filesOk_setSliceLoop : ∀ (rem : List Nat) (vs : List Item) (olds : List (Nat × Bytes)) (s : PArr),
    0 < s.per → FilesOk s → (∀ k ∈ rem, k < s.len) → FilesOk (setSliceLoop s rem vs olds).1 := by
  intro rem
  induction rem with
  | nil => intro vs olds s _ h _; simpa [setSliceLoop] using h
  | cons i is ih =>
    intro vs olds s hper h hb
    have hi := hb i (by simp)
    cases vs with
    | nil => simpa [setSliceLoop] using filesOk_touch s hper h i hi
    | cons v vs =>
      cases v with
      | nonBytes => simpa [setSliceLoop] using filesOk_touch s hper h i hi
      | bytes b =>
        simp only [setSliceLoop]
        split
        · exact filesOk_touch s hper h i hi
        · exact ih vs _ _ hper (filesOk_write_touch s hper h i hi b) (fun k hk => hb k (by simp [hk]))

end SSEPy.PArray
