/-
  The server program the theorems are about (`expectedProgram`), the three-state reference machine,
  and the refinement of the IR interpreter to it for consecutive connections on one service id.
  Props/C10.lean checks `Generated.serverProgram = expectedProgram` on every run.
-/
import SSEPyVerif.Model.ServerIR
namespace SSEPy.ServerIR

def expectedProgram : Program := {
  handleConfig := [.guardRefuse .ne 0 "config", .loadsConfig, .mkdirSid, .writeConfig, .setMemConfig,
    .setState 1, .writeMeta, .sendOk "config"],
  handleUpload := [.guardRefuse .eq 0 "upload_edb", .guardRefuse .eq 2 "upload_edb", .writeEdb, .setState 2,
    .writeMeta, .sendOk "upload_edb"],
  handleSearch := [.guardRefuse .eq 0 "result", .guardRefuse .eq 1 "result", .loadScheme, .loadEdb, .getDigest,
    .deserToken, .doSearch, .sendResult],
  dispatch := [("config", "handle_upload_config"), ("upload_edb", "handle_upload_encrypted_database"),
    ("token", "handle_search_token")],
  ctor := [.ifDirExists [.readConfig, .readMeta, .loadModule, .loadConfigObject] [.initMeta 0], .buildDispatch,
    .ifStateEq 2 [.loadModule], .sendInitEcho],
  recvLoopIsStandard := true,
  closeService := [.writeMeta],
  fmCreateSidFolder := [.mkdirExistOk],
  fmWriteConfig := [.returnIfNoDir, .openTmp "config.json", .writeTmp "config.json", .replace "config.json"],
  fmWriteMeta := [.returnIfNoDir, .openTmp "service_meta", .writeTmp "service_meta", .replace "service_meta"],
  fmWriteEdb := [.returnIfNoDir, .openTmp "edb", .writeTmp "edb", .replace "edb"],
  fmReadConfig := [.readFile "config.json"],
  fmReadMeta := [.readFile "service_meta"],
  fmReadEdb := [.readFile "edb"],
  fmCheckDir := [.retAllExist ["config.json", "service_meta"]],
  mgrCreate := [.construct, .enqueue, .locked [.waitTurn, .dequeue, .refresh, .register], .spawnCleanup,
    .serve, .awaitCleanup],
  mgrCleanup := [.awaitClosed, .locked [.sleep, .closeService, .delEntry, .notifyAll]],
  mgrLockIsCondition := true }

abbrev P := expectedProgram

/-! ### invariant of the sequential server -/

/-- the shapes the durable state can have, with the reference state they denote.  Besides the three
    regular ones there are the folders an interrupted configuration upload leaves behind (`z…`): the
    folder exists, `config.json` may or may not have been renamed into place, and `service_meta` is
    missing or says 0 (written back by a later connection's cleanup).  All of them denote
    "not configured". -/
inductive Shape : Disk → Nat → Option Cfg → Option Edb → Prop where
  | fresh : Shape {} 0 none none
  | z00 : Shape { dir := true, config := .absent, metaSt := .absent, edb := .absent } 0 none none
  | z01 : Shape { dir := true, config := .absent, metaSt := .full 0, edb := .absent } 0 none none
  | z10 (v : Cfg) : Shape { dir := true, config := .full v, metaSt := .absent, edb := .absent } 0 none none
  | z11 (v : Cfg) : Shape { dir := true, config := .full v, metaSt := .full 0, edb := .absent } 0 none none
  | configured (cfg : Cfg) :
      Shape { dir := true, config := .full cfg, metaSt := .full 1, edb := .absent } 1 (some cfg) none
  | configuredE (cfg : Cfg) (e : Edb) :   -- an index file was renamed into place but never acknowledged
      Shape { dir := true, config := .full cfg, metaSt := .full 1, edb := .full e } 1 (some cfg) none
  | ready (cfg : Cfg) (e : Edb) :
      Shape { dir := true, config := .full cfg, metaSt := .full 2, edb := .full e } 2 (some cfg) (some e)

/-- a `Service` object agrees with the durable state (its in-memory configuration matters only once
    the service is configured) -/
def ConnOk (st : Nat) (cfg : Option Cfg) (edb : Option Edb) (c : Conn) : Prop :=
  c.state = st ∧ (st ≠ 0 → c.memConfig = cfg) ∧ (c.edbCache = none ∨ c.edbCache = edb)

def Inv (s : SrvD) : Prop :=
  ∃ st cfg edb, Shape s.disk st cfg edb ∧ (∀ c, s.conn = some c → ConnOk st cfg edb c) ∧
    (s.alive = true → s.conn.isSome)

def stOf (d : Disk) : Nat := match d.metaSt with | .full n => n | _ => 0

def absS (s : SrvD) : Spec3 :=
  { st := stOf s.disk,
    cfg := if stOf s.disk = 0 then none else match s.disk.config with | .full c => some c | _ => none,
    edb := if stOf s.disk ≤ 1 then none else match s.disk.edb with | .full e => some e | _ => none,
    alive := s.alive }

end SSEPy.ServerIR

namespace SSEPy.ServerIR

/-! ### the interpreter on each shape -/

/-- opening a connection on a well-shaped disk: the echo reports the durable state and the new object
    agrees with it -/
theorem construct_shape (d : Disk) (st : Nat) (cfg : Option Cfg) (edb : Option Edb) (hs : Shape d st cfg edb) :
    ∃ c, construct P d = some (c, [.initEcho st]) ∧ ConnOk st cfg edb c := by
  cases hs with
  | fresh => exact ⟨_, rfl, rfl, fun h => absurd rfl h, Or.inl rfl⟩
  | z00 => exact ⟨_, rfl, rfl, fun h => absurd rfl h, Or.inl rfl⟩
  | z01 => exact ⟨_, rfl, rfl, fun h => absurd rfl h, Or.inl rfl⟩
  | z10 v => exact ⟨_, rfl, rfl, fun h => absurd rfl h, Or.inl rfl⟩
  | z11 v => exact ⟨_, rfl, rfl, fun h => absurd rfl h, Or.inl rfl⟩
  | configured cfg => exact ⟨_, rfl, rfl, fun _ => rfl, Or.inl rfl⟩
  | configuredE cfg e => exact ⟨_, rfl, rfl, fun _ => rfl, Or.inl rfl⟩
  | ready cfg e => exact ⟨_, rfl, rfl, fun _ => rfl, Or.inl rfl⟩

/-- the cleanup's write-back of a consistent snapshot keeps the disk in a shape that denotes the same
    reference state (on a half-created folder it adds a `service_meta` saying 0) -/
theorem closeConn_shape (d : Disk) (st : Nat) (cfg : Option Cfg) (edb : Option Edb) (c : Conn)
    (hs : Shape d st cfg edb) (hc : c.state = st) : Shape (closeConn P d c) st cfg edb := by
  cases hs with
  | fresh => exact .fresh
  | z00 =>
    have : closeConn P { dir := true, config := .absent, metaSt := .absent, edb := .absent } c
        = { dir := true, config := .absent, metaSt := .full 0, edb := .absent } := by
      simp [closeConn, runEffs, P, expectedProgram, runFsWrite, tick, fileIdOf, hc]
    rw [this]; exact .z01
  | z01 =>
    have : closeConn P { dir := true, config := .absent, metaSt := .full 0, edb := .absent } c
        = { dir := true, config := .absent, metaSt := .full 0, edb := .absent } := by
      simp [closeConn, runEffs, P, expectedProgram, runFsWrite, tick, fileIdOf, hc]
    rw [this]; exact .z01
  | z10 v =>
    have : closeConn P { dir := true, config := .full v, metaSt := .absent, edb := .absent } c
        = { dir := true, config := .full v, metaSt := .full 0, edb := .absent } := by
      simp [closeConn, runEffs, P, expectedProgram, runFsWrite, tick, fileIdOf, hc]
    rw [this]; exact .z11 v
  | z11 v =>
    have : closeConn P { dir := true, config := .full v, metaSt := .full 0, edb := .absent } c
        = { dir := true, config := .full v, metaSt := .full 0, edb := .absent } := by
      simp [closeConn, runEffs, P, expectedProgram, runFsWrite, tick, fileIdOf, hc]
    rw [this]; exact .z11 v
  | configured cf =>
    have : closeConn P { dir := true, config := .full cf, metaSt := .full 1, edb := .absent } c
        = { dir := true, config := .full cf, metaSt := .full 1, edb := .absent } := by
      simp [closeConn, runEffs, P, expectedProgram, runFsWrite, tick, fileIdOf, hc]
    rw [this]; exact .configured cf
  | configuredE cf e =>
    have : closeConn P { dir := true, config := .full cf, metaSt := .full 1, edb := .full e } c
        = { dir := true, config := .full cf, metaSt := .full 1, edb := .full e } := by
      simp [closeConn, runEffs, P, expectedProgram, runFsWrite, tick, fileIdOf, hc]
    rw [this]; exact .configuredE cf e
  | ready cf e =>
    have : closeConn P { dir := true, config := .full cf, metaSt := .full 2, edb := .full e } c
        = { dir := true, config := .full cf, metaSt := .full 2, edb := .full e } := by
      simp [closeConn, runEffs, P, expectedProgram, runFsWrite, tick, fileIdOf, hc]
    rw [this]; exact .ready cf e

theorem handleMsg_refines (d : Disk) (st : Nat) (cfg : Option Cfg) (edb : Option Edb) (c : Conn) (m : Msg)
    (hs : Shape d st cfg edb) (hc : ConnOk st cfg edb c) :
    ∃ st' cfg' edb', Shape (handleMsg P d c m).1 st' cfg' edb' ∧ ConnOk st' cfg' edb' (handleMsg P d c m).2.1 ∧
      (handleMsg P d c m).2.2.2.1 = (spec3Msg { st, cfg, edb, alive := true } m).2 ∧
      (spec3Msg { st, cfg, edb, alive := true } m).1
        = { st := st', cfg := cfg', edb := edb', alive := (handleMsg P d c m).2.2.1 } := by
  obtain ⟨cst, cmc, cml, csl, cec⟩ := c
  obtain ⟨h1, h2, h3⟩ := hc
  simp only at h1 h2 h3
  subst h1
  have ok0 : ∀ mc, ConnOk 0 none none ⟨0, mc, cml, csl, none⟩ := fun mc => ⟨rfl, fun h => absurd rfl h, Or.inl rfl⟩
  cases hs with
  | fresh | z00 | z01 | z10 _ | z11 _ =>
    have hec : cec = none := by rcases h3 with h | h <;> exact h
    subst hec
    cases m with
    | config co =>
      cases co with
      | none => first
        | exact ⟨0, none, none, .fresh, ok0 _, rfl, rfl⟩
        | exact ⟨0, none, none, .z00, ok0 _, rfl, rfl⟩
        | exact ⟨0, none, none, .z01, ok0 _, rfl, rfl⟩
        | exact ⟨0, none, none, .z10 _, ok0 _, rfl, rfl⟩
        | exact ⟨0, none, none, .z11 _, ok0 _, rfl, rfl⟩
      | some v => exact ⟨1, some v, none, .configured v, ⟨rfl, fun _ => rfl, Or.inl rfl⟩, rfl, rfl⟩
    | upload _ | search _ | foreignSid | noType | noSid | unknownType => first
      | exact ⟨0, none, none, .fresh, ok0 _, rfl, rfl⟩
      | exact ⟨0, none, none, .z00, ok0 _, rfl, rfl⟩
      | exact ⟨0, none, none, .z01, ok0 _, rfl, rfl⟩
      | exact ⟨0, none, none, .z10 _, ok0 _, rfl, rfl⟩
      | exact ⟨0, none, none, .z11 _, ok0 _, rfl, rfl⟩
  | configured cf =>
    have hmc : cmc = some cf := h2 (by decide)
    subst hmc
    have hec : cec = none := by rcases h3 with h | h <;> exact h
    subst hec
    cases m with
    | upload e => exact ⟨2, some cf, some e, .ready cf e, ⟨rfl, fun _ => rfl, Or.inl rfl⟩, rfl, rfl⟩
    | config _ | search _ | foreignSid | noType | noSid | unknownType =>
      exact ⟨1, some cf, none, .configured cf, ⟨rfl, fun _ => rfl, Or.inl rfl⟩, rfl, rfl⟩
  | configuredE cf e0 =>
    have hmc : cmc = some cf := h2 (by decide)
    subst hmc
    have hec : cec = none := by rcases h3 with h | h <;> exact h
    subst hec
    cases m with
    | upload e => exact ⟨2, some cf, some e, .ready cf e, ⟨rfl, fun _ => rfl, Or.inl rfl⟩, rfl, rfl⟩
    | config _ | search _ | foreignSid | noType | noSid | unknownType =>
      exact ⟨1, some cf, none, .configuredE cf e0, ⟨rfl, fun _ => rfl, Or.inl rfl⟩, rfl, rfl⟩
  | ready cf e =>
    have hmc : cmc = some cf := h2 (by decide)
    subst hmc
    cases m with
    | search t =>
      rcases h3 with h | h <;> subst h <;> cases t <;>
        exact ⟨2, some cf, some e, .ready cf e, ⟨rfl, fun _ => rfl, Or.inr rfl⟩, rfl, rfl⟩
    | config _ | upload _ | foreignSid | noType | noSid | unknownType =>
      exact ⟨2, some cf, some e, .ready cf e, ⟨rfl, fun _ => rfl, h3⟩, rfl, rfl⟩

theorem absS_of_shape (s : SrvD) (st : Nat) (cfg : Option Cfg) (edb : Option Edb) (h : Shape s.disk st cfg edb) :
    absS s = { st := st, cfg := cfg, edb := edb, alive := s.alive } := by
  unfold absS
  cases h' : s.disk
  rw [h'] at h
  cases h <;> rfl

theorem cleanupDisk_shape (s : SrvD) (st : Nat) (cfg : Option Cfg) (edb : Option Edb)
    (hs : Shape s.disk st cfg edb) (hc : ∀ c, s.conn = some c → ConnOk st cfg edb c) :
    Shape (cleanupDisk P s) st cfg edb := by
  unfold cleanupDisk
  cases hconn : s.conn with
  | none => exact hs
  | some old => exact closeConn_shape s.disk st cfg edb old hs (hc old hconn).1

/-- connecting when the disk read by the constructor and the disk left afterwards both denote the
    same reference state -/
theorem connectOn_refines (dRead dAfter : Disk) (st : Nat) (cfg : Option Cfg) (edb : Option Edb)
    (h1 : Shape dRead st cfg edb) (h2 : Shape dAfter st cfg edb) :
    ∃ c, connectOn P dRead dAfter = ({ disk := dAfter, conn := some c, alive := true }, [.initEcho st]) ∧
      Inv { disk := dAfter, conn := some c, alive := true } := by
  obtain ⟨c, hcons, hcok⟩ := construct_shape dRead st cfg edb h1
  refine ⟨c, by simp [connectOn, hcons], st, cfg, edb, h2, ?_, fun _ => rfl⟩
  intro c' hc'; cases hc'; exact hcok

/-- (re)connecting on a consistent state, after or before the old connection's cleanup -/
theorem reconnect_refines (s : SrvD) (hinv : Inv s) (fast : Bool) :
    ∃ s', (if fast then reconnectFast P s else reconnectSlow P s) = (s', [.initEcho (absS s).st]) ∧
      Inv s' ∧ s'.alive = true ∧ s'.conn.isSome ∧ absS s' = { absS s with alive := true } := by
  obtain ⟨st, cfg, edb, hs, hc, ha⟩ := hinv
  have habs := absS_of_shape s st cfg edb hs
  have hcl := cleanupDisk_shape s st cfg edb hs hc
  have fin : ∀ (dRead : Disk), Shape dRead st cfg edb →
      ∃ s', connectOn P dRead (cleanupDisk P s) = (s', [.initEcho (absS s).st]) ∧
        Inv s' ∧ s'.alive = true ∧ s'.conn.isSome ∧ absS s' = { absS s with alive := true } := by
    intro dRead hR
    obtain ⟨c, hco, hinv'⟩ := connectOn_refines dRead (cleanupDisk P s) st cfg edb hR hcl
    refine ⟨_, by rw [hco, habs], hinv', rfl, rfl, ?_⟩
    rw [absS_of_shape (⟨cleanupDisk P s, some c, true⟩ : SrvD) st cfg edb hcl, habs]
  cases fast with
  | false => simpa [reconnectSlow] using fin _ hcl
  | true => simpa [reconnectFast] using fin _ hs

theorem msg_refines (s1 : SrvD) (c : Conn) (m : Msg) (hinv1 : Inv s1) (hconn : s1.conn = some c) :
    Inv { disk := (handleMsg P s1.disk c m).1, conn := some (handleMsg P s1.disk c m).2.1,
          alive := (handleMsg P s1.disk c m).2.2.1 } ∧
    (handleMsg P s1.disk c m).2.2.2.1 = (spec3Msg { absS s1 with alive := true } m).2 ∧
    absS { disk := (handleMsg P s1.disk c m).1, conn := some (handleMsg P s1.disk c m).2.1,
           alive := (handleMsg P s1.disk c m).2.2.1 } = (spec3Msg { absS s1 with alive := true } m).1 := by
  obtain ⟨st, cfg, edb, hs, hc, _⟩ := hinv1
  have habs := absS_of_shape s1 st cfg edb hs
  obtain ⟨st', cfg', edb', hs', hc', ho, hsp⟩ := handleMsg_refines s1.disk st cfg edb c m hs (hc c hconn)
  rw [habs]
  refine ⟨⟨st', cfg', edb', hs', ?_, fun _ => rfl⟩, ho, ?_⟩
  · intro c' h'; cases h'; exact hc'
  · have := absS_of_shape ⟨(handleMsg P s1.disk c m).1, some (handleMsg P s1.disk c m).2.1,
        (handleMsg P s1.disk c m).2.2.1⟩ st' cfg' edb' hs'
    rw [this]
    exact hsp.symm

/-- One event of the server is one event of the three-state reference machine: same observations, and
    the durable state it leaves denotes the reference machine's next state. -/
theorem step_refines (s : SrvD) (hinv : Inv s) (ev : Ev) :
    Inv (stepEv P s ev).1 ∧ (stepEv P s ev).2 = (spec3Step (absS s) ev).2 ∧
      absS (stepEv P s ev).1 = (spec3Step (absS s) ev).1 := by
  cases ev with
  | reconnect =>
    obtain ⟨s', h, hi, _, _, ha⟩ := reconnect_refines s hinv false
    simp only [Bool.false_eq_true, ↓reduceIte] at h
    simp only [stepEv, h, spec3Step]
    exact ⟨hi, (by first | rfl | trivial), ha⟩
  | reconnectFast =>
    obtain ⟨s', h, hi, _, _, ha⟩ := reconnect_refines s hinv true
    simp only [↓reduceIte] at h
    simp only [stepEv, h, spec3Step]
    exact ⟨hi, (by first | rfl | trivial), ha⟩
  | msg m =>
    by_cases halive : s.alive = true
    · obtain ⟨st, cfg, edb, hs, hc, ha⟩ := hinv
      obtain ⟨c, hconn⟩ := Option.isSome_iff_exists.mp (ha halive)
      have h := msg_refines s c m ⟨st, cfg, edb, hs, hc, ha⟩ hconn
      have habs_alive : ({ absS s with alive := true } : Spec3) = absS s := by simp [absS, halive]
      rw [habs_alive] at h
      have hal : (absS s).alive = true := by simp [absS, halive]
      simp only [stepEv, halive, ↓reduceIte, hconn, List.nil_append, spec3Step, hal]
      exact h
    · have hdead : s.alive = false := by simpa using halive
      obtain ⟨s', hre, hi, hal', hsome, habs'⟩ := reconnect_refines s hinv false
      simp only [Bool.false_eq_true, ↓reduceIte] at hre
      obtain ⟨c0, hc0⟩ := Option.isSome_iff_exists.mp hsome
      have h := msg_refines s' c0 m hi hc0
      rw [habs'] at h
      have hal : (absS s).alive = false := by simp [absS, hdead]
      simp only [stepEv, hdead, Bool.false_eq_true, ↓reduceIte, hre, hc0, hal', spec3Step, hal]
      refine ⟨h.1, ?_, h.2.2⟩
      rw [h.2.1]

/-- every history of events on one service id, from any consistent state -/
theorem run_refines (evs : List Ev) : ∀ (s : SrvD), Inv s →
    Inv (runEvs P s evs).1 ∧ (runEvs P s evs).2 = (spec3Run (absS s) evs).2 ∧
      absS (runEvs P s evs).1 = (spec3Run (absS s) evs).1 := by
  induction evs with
  | nil => intro s h; exact ⟨h, rfl, rfl⟩
  | cons e es ih =>
    intro s h
    obtain ⟨h1, h2, h3⟩ := step_refines s h e
    obtain ⟨g1, g2, g3⟩ := ih _ h1
    simp only [runEvs, spec3Run]
    rw [← h3, h2, g2]
    exact ⟨g1, rfl, g3⟩

theorem inv_init : Inv {} := by
  refine ⟨0, none, none, .fresh, ?_, ?_⟩
  · intro c h; cases h
  · intro h; cases h


/-! ### crash prefixes (C13): the server dies after `k` file-system mutations of a handler -/

/-- storing a configuration, interrupted anywhere: the disk denotes the state before or the state after -/
theorem crash_config (d : Disk) (st : Nat) (cfg : Option Cfg) (edb : Option Edb) (hs : Shape d st cfg edb)
    (c : Conn) (hc : ConnOk st cfg edb c) (v : Cfg) (k : Nat) :
    Shape (handleMsg P d c (.config (some v)) (some k)).1 st cfg edb ∨
    Shape (handleMsg P d c (.config (some v)) (some k)).1 1 (some v) none := by
  obtain ⟨cst, cmc, cml, csl, cec⟩ := c
  obtain ⟨h1, h2, h3⟩ := hc
  simp only at h1 h2 h3
  subst h1
  cases hs with
  | fresh =>
    rcases k with _|_|_|_|_|_|_|k
    · exact Or.inl .fresh
    · exact Or.inl .z00
    · exact Or.inl .z00
    · exact Or.inl .z00
    · exact Or.inl (.z10 v)
    · exact Or.inl (.z10 v)
    · exact Or.inl (.z10 v)
    · exact Or.inr (.configured v)
  | z00 =>
    rcases k with _|_|_|_|_|_|k
    · exact Or.inl .z00
    · exact Or.inl .z00
    · exact Or.inl .z00
    · exact Or.inl (.z10 v)
    · exact Or.inl (.z10 v)
    · exact Or.inl (.z10 v)
    · exact Or.inr (.configured v)
  | z01 =>
    rcases k with _|_|_|_|_|_|k
    · exact Or.inl .z01
    · exact Or.inl .z01
    · exact Or.inl .z01
    · exact Or.inl (.z11 v)
    · exact Or.inl (.z11 v)
    · exact Or.inl (.z11 v)
    · exact Or.inr (.configured v)
  | z10 w =>
    rcases k with _|_|_|_|_|_|k
    · exact Or.inl (.z10 w)
    · exact Or.inl (.z10 w)
    · exact Or.inl (.z10 w)
    · exact Or.inl (.z10 v)
    · exact Or.inl (.z10 v)
    · exact Or.inl (.z10 v)
    · exact Or.inr (.configured v)
  | z11 w =>
    rcases k with _|_|_|_|_|_|k
    · exact Or.inl (.z11 w)
    · exact Or.inl (.z11 w)
    · exact Or.inl (.z11 w)
    · exact Or.inl (.z11 v)
    · exact Or.inl (.z11 v)
    · exact Or.inl (.z11 v)
    · exact Or.inr (.configured v)
  | configured cf => exact Or.inl (.configured cf)
  | configuredE cf e => exact Or.inl (.configuredE cf e)
  | ready cf e => exact Or.inl (.ready cf e)

/-- storing an index, interrupted anywhere: the disk denotes the state before or the state after -/
theorem crash_upload (d : Disk) (st : Nat) (cfg : Option Cfg) (edb : Option Edb) (hs : Shape d st cfg edb)
    (c : Conn) (hc : ConnOk st cfg edb c) (e : Edb) (k : Nat) :
    Shape (handleMsg P d c (.upload e) (some k)).1 st cfg edb ∨
    (∃ cf, cfg = some cf ∧ Shape (handleMsg P d c (.upload e) (some k)).1 2 (some cf) (some e)) := by
  obtain ⟨cst, cmc, cml, csl, cec⟩ := c
  obtain ⟨h1, h2, h3⟩ := hc
  simp only at h1 h2 h3
  subst h1
  cases hs with
  | fresh => exact Or.inl .fresh
  | z00 => exact Or.inl .z00
  | z01 => exact Or.inl .z01
  | z10 w => exact Or.inl (.z10 w)
  | z11 w => exact Or.inl (.z11 w)
  | configured cf =>
    rcases k with _|_|_|_|_|_|k
    · exact Or.inl (.configured cf)
    · exact Or.inl (.configured cf)
    · exact Or.inl (.configured cf)
    · exact Or.inl (.configuredE cf e)
    · exact Or.inl (.configuredE cf e)
    · exact Or.inl (.configuredE cf e)
    · exact Or.inr ⟨cf, rfl, .ready cf e⟩
  | configuredE cf e0 =>
    rcases k with _|_|_|_|_|_|k
    · exact Or.inl (.configuredE cf e0)
    · exact Or.inl (.configuredE cf e0)
    · exact Or.inl (.configuredE cf e0)
    · exact Or.inl (.configuredE cf e)
    · exact Or.inl (.configuredE cf e)
    · exact Or.inl (.configuredE cf e)
    · exact Or.inr ⟨cf, rfl, .ready cf e⟩
  | ready cf e0 => exact Or.inl (.ready cf e0)

/-- requests that store nothing perform no file-system mutation: a crash budget is irrelevant -/
theorem crash_other (d : Disk) (c : Conn) (m : Msg) (k : Nat)
    (hm : ∀ v, m ≠ .config v) (hu : ∀ e, m ≠ .upload e) :
    (handleMsg P d c m (some k)).1 = d := by
  cases m with
  | config v => exact absurd rfl (hm v)
  | upload e => exact absurd rfl (hu e)
  | search t =>
    obtain ⟨cst, cmc, cml, csl, cec⟩ := c
    rcases cst with _|_|cst
    · rfl
    · rfl
    · cases cmc with
      | none => rfl
      | some mc =>
        cases cec with
        | some ec => cases t <;> rfl
        | none =>
          obtain ⟨dd, dc, dm, de⟩ := d
          cases de <;> cases t <;> rfl
  | foreignSid => rfl
  | noType => rfl
  | noSid => rfl
  | unknownType => rfl

end SSEPy.ServerIR
