/-
  The server program the theorems are about (`expectedProgram`), the three-state reference machine,
  and the refinement of the IR interpreter to it for consecutive connections on one service id.
  Props/C10.lean checks `Generated.serverProgram = expectedProgram` on every run.
-/
import SSEPyVerif.Model.ServerIR
namespace SSEPy.ServerIR

def expectedProgram : Program := {
  handleConfig := [.guardRefuse .ne 0 "config", .loadsConfig, .mkdirSid, .writeConfig, .setMemConfig,
    .setState 1, .writeMeta, .sendOk "config"],
  handleUpload := [.guardRefuse .eq 0 "upload_edb", .guardRefuse .eq 2 "upload_edb", .writeEdb, .setState 2,
    .writeMeta, .sendOk "upload_edb"],
  handleSearch := [.guardRefuse .eq 0 "result", .guardRefuse .eq 1 "result", .loadScheme, .loadEdb, .getDigest,
    .deserToken, .doSearch, .sendResult],
  dispatch := [("config", "handle_upload_config"), ("upload_edb", "handle_upload_encrypted_database"),
    ("token", "handle_search_token")],
  ctor := [.ifDirExists [.readConfig, .readMeta, .loadModule, .loadConfigObject] [.initMeta 0], .buildDispatch,
    .ifStateEq 2 [.loadModule], .sendInitEcho],
  recvLoopIsStandard := true,
  closeService := [.writeMeta],
  fmCreateSidFolder := [.mkdir],
  fmWriteConfig := [.returnIfNoDir, .openTrunc "config.json", .write "config.json"],
  fmWriteMeta := [.returnIfNoDir, .openTrunc "service_meta", .write "service_meta"],
  fmWriteEdb := [.returnIfNoDir, .openTrunc "edb", .write "edb"],
  fmReadConfig := [.readFile "config.json"],
  fmReadMeta := [.readFile "service_meta"],
  fmReadEdb := [.readFile "edb"],
  fmCheckDir := [.retDirExists],
  mgrCreate := [.construct, .ifRegistered [.sendControl, .awaitPrevClosed], .locked [.register], .spawnCleanup,
    .serve, .awaitCleanup],
  mgrCleanup := [.awaitClosed, .locked [.sleep, .closeService, .delEntry]] }

abbrev P := expectedProgram

/-! ### the three-state reference machine (not-configured → configured → ready) -/

structure Spec3 where
  st : Nat := 0
  cfg : Option Cfg := none
  edb : Option Edb := none
  alive : Bool := false
  deriving DecidableEq, Repr

def Spec3.die (t : Spec3) : Spec3 := { t with alive := false }

def spec3Msg (t : Spec3) : Msg → Spec3 × List Out
  | .foreignSid | .noType | .noSid => (t, [])
  | .unknownType => (t.die, [.closed])
  | .config c =>
    if t.st ≠ 0 then (t.die, [.refused "config", .closed]) else
    match c with
    | none => (t.die, [.closed])
    | some v => ({ t with st := 1, cfg := some v }, [.ok "config"])
  | .upload e =>
    if t.st ≠ 1 then (t.die, [.refused "upload_edb", .closed])
    else ({ t with st := 2, edb := some e }, [.ok "upload_edb"])
  | .search tk =>
    if t.st ≠ 2 then (t.die, [.refused "result", .closed]) else
    match tk, t.cfg, t.edb with
    | some k, some c, some e => (t, [.result c e k])
    | _, _, _ => (t.die, [.closed])

def spec3Step (t : Spec3) : Ev → Spec3 × List Out
  | .reconnect | .reconnectFast => ({ t with alive := true }, [.initEcho t.st])
  | .msg m =>
    let (t1, o1) := if t.alive then (t, []) else ({ t with alive := true }, [Out.initEcho t.st])
    let (t2, o2) := spec3Msg t1 m
    (t2, o1 ++ o2)

def spec3Run (t : Spec3) : List Ev → Spec3 × List Out
  | [] => (t, [])
  | e :: es => let (t1, o) := spec3Step t e; let (t2, os) := spec3Run t1 es; (t2, o ++ os)

/-! ### invariant of the sequential server -/

/-- the three shapes the durable state can have, with the reference state they denote -/
inductive Shape : Disk → Nat → Option Cfg → Option Edb → Prop where
  | fresh : Shape {} 0 none none
  | configured (cfg : Cfg) :
      Shape { dir := true, config := .full cfg, metaSt := .full 1, edb := .absent } 1 (some cfg) none
  | ready (cfg : Cfg) (e : Edb) :
      Shape { dir := true, config := .full cfg, metaSt := .full 2, edb := .full e } 2 (some cfg) (some e)

/-- a `Service` object agrees with the durable state -/
def ConnOk (st : Nat) (cfg : Option Cfg) (edb : Option Edb) (c : Conn) : Prop :=
  c.state = st ∧ c.memConfig = cfg ∧ (c.edbCache = none ∨ c.edbCache = edb)

def Inv (s : SrvD) : Prop :=
  ∃ st cfg edb, Shape s.disk st cfg edb ∧ (∀ c, s.conn = some c → ConnOk st cfg edb c) ∧
    (s.alive = true → s.conn.isSome)

def absS (s : SrvD) : Spec3 :=
  { st := match s.disk.metaSt with | .full n => n | _ => 0,
    cfg := match s.disk.config with | .full c => some c | _ => none,
    edb := match s.disk.edb with | .full e => some e | _ => none,
    alive := s.alive }

end SSEPy.ServerIR

namespace SSEPy.ServerIR

/-! ### closed forms of the interpreter on the three shapes -/

theorem construct_fresh : construct P {} = some ({ state := 0 }, [.initEcho 0]) := by rfl

theorem construct_configured (cfg : Cfg) :
    construct P { dir := true, config := .full cfg, metaSt := .full 1, edb := .absent }
      = some ({ state := 1, memConfig := some cfg, moduleLoaded := true }, [.initEcho 1]) := by rfl

theorem construct_ready (cfg : Cfg) (e : Edb) :
    construct P { dir := true, config := .full cfg, metaSt := .full 2, edb := .full e }
      = some ({ state := 2, memConfig := some cfg, moduleLoaded := true }, [.initEcho 2]) := by rfl

/-- the cleanup's write-back of a consistent snapshot leaves the disk as it is -/
theorem closeConn_id (d : Disk) (st : Nat) (cfg : Option Cfg) (edb : Option Edb) (c : Conn)
    (hs : Shape d st cfg edb) (hc : c.state = st) : closeConn P d c = d := by
  cases hs with
  | fresh => rfl
  | configured cfg => simp [closeConn, runEffs, P, expectedProgram, runFsWrite, tick, fileIdOf, hc]
  | ready cfg e => simp [closeConn, runEffs, P, expectedProgram, runFsWrite, tick, fileIdOf, hc]

/-- opening a connection on a well-shaped disk: the echo reports the durable state and the new object
    agrees with it -/
theorem construct_shape (d : Disk) (st : Nat) (cfg : Option Cfg) (edb : Option Edb) (hs : Shape d st cfg edb) :
    ∃ c, construct P d = some (c, [.initEcho st]) ∧ ConnOk st cfg edb c := by
  cases hs with
  | fresh => exact ⟨_, construct_fresh, rfl, rfl, Or.inl rfl⟩
  | configured cfg => exact ⟨_, construct_configured cfg, rfl, rfl, Or.inl rfl⟩
  | ready cfg e => exact ⟨_, construct_ready cfg e, rfl, rfl, Or.inl rfl⟩

theorem handleMsg_refines (d : Disk) (st : Nat) (cfg : Option Cfg) (edb : Option Edb) (c : Conn) (m : Msg)
    (hs : Shape d st cfg edb) (hc : ConnOk st cfg edb c) :
    ∃ st' cfg' edb', Shape (handleMsg P d c m).1 st' cfg' edb' ∧ ConnOk st' cfg' edb' (handleMsg P d c m).2.1 ∧
      (handleMsg P d c m).2.2.2.1 = (spec3Msg { st, cfg, edb, alive := true } m).2 ∧
      (spec3Msg { st, cfg, edb, alive := true } m).1
        = { st := st', cfg := cfg', edb := edb', alive := (handleMsg P d c m).2.2.1 } := by
  obtain ⟨cst, cmc, cml, csl, cec⟩ := c
  obtain ⟨h1, h2, h3⟩ := hc
  simp only at h1 h2 h3
  subst h1 h2
  cases hs with
  | fresh =>
    have hec : cec = none := by rcases h3 with h | h <;> exact h
    subst hec
    cases m with
    | config co =>
      cases co with
      | none => exact ⟨0, none, none, .fresh, ⟨rfl, rfl, Or.inl rfl⟩, rfl, rfl⟩
      | some v => exact ⟨1, some v, none, .configured v, ⟨rfl, rfl, Or.inl rfl⟩, rfl, rfl⟩
    | upload e => exact ⟨0, none, none, .fresh, ⟨rfl, rfl, Or.inl rfl⟩, rfl, rfl⟩
    | search t => exact ⟨0, none, none, .fresh, ⟨rfl, rfl, Or.inl rfl⟩, rfl, rfl⟩
    | foreignSid => exact ⟨0, none, none, .fresh, ⟨rfl, rfl, Or.inl rfl⟩, rfl, rfl⟩
    | noType => exact ⟨0, none, none, .fresh, ⟨rfl, rfl, Or.inl rfl⟩, rfl, rfl⟩
    | noSid => exact ⟨0, none, none, .fresh, ⟨rfl, rfl, Or.inl rfl⟩, rfl, rfl⟩
    | unknownType => exact ⟨0, none, none, .fresh, ⟨rfl, rfl, Or.inl rfl⟩, rfl, rfl⟩
  | configured cf =>
    have hec : cec = none := by rcases h3 with h | h <;> exact h
    subst hec
    cases m with
    | config co => exact ⟨1, some cf, none, .configured cf, ⟨rfl, rfl, Or.inl rfl⟩, rfl, rfl⟩
    | upload e => exact ⟨2, some cf, some e, .ready cf e, ⟨rfl, rfl, Or.inl rfl⟩, rfl, rfl⟩
    | search t => exact ⟨1, some cf, none, .configured cf, ⟨rfl, rfl, Or.inl rfl⟩, rfl, rfl⟩
    | foreignSid => exact ⟨1, some cf, none, .configured cf, ⟨rfl, rfl, Or.inl rfl⟩, rfl, rfl⟩
    | noType => exact ⟨1, some cf, none, .configured cf, ⟨rfl, rfl, Or.inl rfl⟩, rfl, rfl⟩
    | noSid => exact ⟨1, some cf, none, .configured cf, ⟨rfl, rfl, Or.inl rfl⟩, rfl, rfl⟩
    | unknownType => exact ⟨1, some cf, none, .configured cf, ⟨rfl, rfl, Or.inl rfl⟩, rfl, rfl⟩
  | ready cf e =>
    cases m with
    | config co => exact ⟨2, some cf, some e, .ready cf e, ⟨rfl, rfl, h3⟩, rfl, rfl⟩
    | upload e' => exact ⟨2, some cf, some e, .ready cf e, ⟨rfl, rfl, h3⟩, rfl, rfl⟩
    | search t =>
      rcases h3 with h | h <;> subst h <;> cases t with
      | none => exact ⟨2, some cf, some e, .ready cf e, ⟨rfl, rfl, Or.inr rfl⟩, rfl, rfl⟩
      | some k => exact ⟨2, some cf, some e, .ready cf e, ⟨rfl, rfl, Or.inr rfl⟩, rfl, rfl⟩
    | foreignSid => exact ⟨2, some cf, some e, .ready cf e, ⟨rfl, rfl, h3⟩, rfl, rfl⟩
    | noType => exact ⟨2, some cf, some e, .ready cf e, ⟨rfl, rfl, h3⟩, rfl, rfl⟩
    | noSid => exact ⟨2, some cf, some e, .ready cf e, ⟨rfl, rfl, h3⟩, rfl, rfl⟩
    | unknownType => exact ⟨2, some cf, some e, .ready cf e, ⟨rfl, rfl, h3⟩, rfl, rfl⟩


theorem absS_of_shape (s : SrvD) (st : Nat) (cfg : Option Cfg) (edb : Option Edb) (h : Shape s.disk st cfg edb) :
    absS s = { st := st, cfg := cfg, edb := edb, alive := s.alive } := by
  unfold absS
  cases h' : s.disk
  rw [h'] at h
  cases h <;> rfl

theorem cleanupDisk_id (s : SrvD) (st : Nat) (cfg : Option Cfg) (edb : Option Edb)
    (hs : Shape s.disk st cfg edb) (hc : ∀ c, s.conn = some c → ConnOk st cfg edb c) : cleanupDisk P s = s.disk := by
  unfold cleanupDisk
  cases hconn : s.conn with
  | none => rfl
  | some old => exact closeConn_id s.disk st cfg edb old hs (hc old hconn).1

/-- (re)connecting on a consistent state, in either order relative to the old connection's cleanup -/
theorem reconnect_refines (s : SrvD) (hinv : Inv s) :
    ∃ c, reconnectSlow P s = ({ disk := s.disk, conn := some c, alive := true }, [.initEcho (absS s).st]) ∧
      reconnectFast P s = reconnectSlow P s ∧
      Inv { disk := s.disk, conn := some c, alive := true } ∧
      absS { disk := s.disk, conn := some c, alive := true } = { absS s with alive := true } := by
  obtain ⟨st, cfg, edb, hs, hc, ha⟩ := hinv
  have habs := absS_of_shape s st cfg edb hs
  obtain ⟨c, hcons, hcok⟩ := construct_shape s.disk st cfg edb hs
  have hclose := cleanupDisk_id s st cfg edb hs hc
  refine ⟨c, ?_, ?_, ⟨st, cfg, edb, hs, ?_, fun _ => rfl⟩, ?_⟩
  · simp [reconnectSlow, connectOn, hclose, hcons, habs]
  · simp [reconnectSlow, reconnectFast, hclose]
  · intro c' hc'; cases hc'; exact hcok
  · rw [absS_of_shape ({ disk := s.disk, conn := some c, alive := true } : SrvD) st cfg edb hs, habs]

theorem msg_refines (s1 : SrvD) (c : Conn) (m : Msg) (hinv1 : Inv s1) (hconn : s1.conn = some c) :
    Inv { disk := (handleMsg P s1.disk c m).1, conn := some (handleMsg P s1.disk c m).2.1,
          alive := (handleMsg P s1.disk c m).2.2.1 } ∧
    (handleMsg P s1.disk c m).2.2.2.1 = (spec3Msg { absS s1 with alive := true } m).2 ∧
    absS { disk := (handleMsg P s1.disk c m).1, conn := some (handleMsg P s1.disk c m).2.1,
           alive := (handleMsg P s1.disk c m).2.2.1 } = (spec3Msg { absS s1 with alive := true } m).1 := by
  obtain ⟨st, cfg, edb, hs, hc, _⟩ := hinv1
  have habs := absS_of_shape s1 st cfg edb hs
  obtain ⟨st', cfg', edb', hs', hc', ho, hsp⟩ := handleMsg_refines s1.disk st cfg edb c m hs (hc c hconn)
  rw [habs]
  refine ⟨⟨st', cfg', edb', hs', ?_, fun _ => rfl⟩, ho, ?_⟩
  · intro c' h'; cases h'; exact hc'
  · have := absS_of_shape ⟨(handleMsg P s1.disk c m).1, some (handleMsg P s1.disk c m).2.1,
        (handleMsg P s1.disk c m).2.2.1⟩ st' cfg' edb' hs'
    rw [this]
    exact hsp.symm

/-- One event of the server is one event of the three-state reference machine: same observations, and
    the durable state it leaves denotes the reference machine's next state. -/
theorem step_refines (s : SrvD) (hinv : Inv s) (ev : Ev) :
    Inv (stepEv P s ev).1 ∧ (stepEv P s ev).2 = (spec3Step (absS s) ev).2 ∧
      absS (stepEv P s ev).1 = (spec3Step (absS s) ev).1 := by
  obtain ⟨c0, hslow, hfast, hinv0, habs0⟩ := reconnect_refines s hinv
  cases ev with
  | reconnect =>
    simp only [stepEv, hslow, spec3Step]
    exact ⟨hinv0, (by first | rfl | trivial), habs0⟩
  | reconnectFast =>
    simp only [stepEv, hfast, hslow, spec3Step]
    exact ⟨hinv0, (by first | rfl | trivial), habs0⟩
  | msg m =>
    by_cases halive : s.alive = true
    · obtain ⟨st, cfg, edb, hs, hc, ha⟩ := hinv
      obtain ⟨c, hconn⟩ := Option.isSome_iff_exists.mp (ha halive)
      have h := msg_refines s c m ⟨st, cfg, edb, hs, hc, ha⟩ hconn
      have habs_alive : ({ absS s with alive := true } : Spec3) = absS s := by simp [absS, halive]
      rw [habs_alive] at h
      have hal : (absS s).alive = true := by simp [absS, halive]
      simp only [stepEv, halive, ↓reduceIte, hconn, List.nil_append, spec3Step, hal]
      exact h
    · have hdead : s.alive = false := by simpa using halive
      have h := msg_refines { disk := s.disk, conn := some c0, alive := true } c0 m hinv0 rfl
      rw [habs0] at h
      have hal : (absS s).alive = false := by simp [absS, hdead]
      simp only [stepEv, hdead, Bool.false_eq_true, ↓reduceIte, hslow, spec3Step, hal]
      refine ⟨h.1, ?_, h.2.2⟩
      rw [h.2.1]

/-- every history of events on one service id, from the empty disk -/
theorem run_refines (evs : List Ev) : ∀ (s : SrvD), Inv s →
    Inv (runEvs P s evs).1 ∧ (runEvs P s evs).2 = (spec3Run (absS s) evs).2 ∧
      absS (runEvs P s evs).1 = (spec3Run (absS s) evs).1 := by
  induction evs with
  | nil => intro s h; exact ⟨h, rfl, rfl⟩
  | cons e es ih =>
    intro s h
    obtain ⟨h1, h2, h3⟩ := step_refines s h e
    obtain ⟨g1, g2, g3⟩ := ih _ h1
    simp only [runEvs, spec3Run]
    rw [← h3, h2, g2]
    exact ⟨g1, rfl, g3⟩

theorem inv_init : Inv {} := by
  refine ⟨0, none, none, .fresh, ?_, ?_⟩
  · intro c h; cases h
  · intro h; cases h

end SSEPy.ServerIR
