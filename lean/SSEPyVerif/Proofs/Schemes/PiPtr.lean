/-
  PiPtr: where the identifier blocks go in the array, and how search finds them again.
-/
import SSEPyVerif.Proofs.Schemes.ChainCfg
import SSEPyVerif.Model.Schemes.PiPtr
namespace SSEPy.Sch.PiPtr
open SSEPy.Sch

variable (cfg : PiPtrCfg) (lv : Leaves)

/-- block `j` sits, encrypted, at position `poss[j]` of the array, and `ptrs[j]` is that position written in `idx` bytes -/
inductive Placed (K2 : Bytes) (idx : Nat) (A : List (Option Bytes)) : List Bytes → List Nat → List Bytes → Prop where
  | nil : Placed K2 idx A [] [] []
  | cons (blk : Bytes) (rest : List Bytes) (pos : Nat) (poss : List Nat) (ptr : Bytes) (ptrs : List Bytes) (d : Bytes) :
      intToBytesNat pos idx = .ok ptr → A[pos]? = some (some d) → cfg.ske.decrypt lv.D K2 d = .ok blk →
      Placed K2 idx A rest poss ptrs → Placed K2 idx A (blk :: rest) (pos :: poss) (ptr :: ptrs)

theorem Placed.mono {K2 : Bytes} {idx : Nat} {A A2 : List (Option Bytes)} {blocks : List Bytes} {poss : List Nat}
    {ptrs : List Bytes} (h : Placed cfg lv K2 idx A blocks poss ptrs) (hag : ∀ i ∈ poss, A2[i]? = A[i]?) :
    Placed cfg lv K2 idx A2 blocks poss ptrs := by
  induction h with
  | nil => exact .nil
  | cons blk rest pos poss ptr ptrs d h1 h2 h3 _ ih =>
    exact .cons blk rest pos poss ptr ptrs d h1 (by rw [hag pos (by simp)]; exact h2) h3
      (ih (fun i hi => hag i (by simp [hi])))

theorem Placed.lengths {K2 : Bytes} {idx : Nat} {A : List (Option Bytes)} {blocks : List Bytes} {poss : List Nat}
    {ptrs : List Bytes} (h : Placed cfg lv K2 idx A blocks poss ptrs) :
    poss.length = blocks.length ∧ ptrs.length = blocks.length := by
  induction h with
  | nil => exact ⟨rfl, rfl⟩
  | cons _ _ _ _ _ _ _ _ _ _ _ ih => simp [ih.1, ih.2]

theorem getLast_dropLast_nodup {l : List Nat} {x : Nat} (h : l.getLast? = some x) (hn : l.Nodup) :
    l = l.dropLast ++ [x] ∧ x ∉ l.dropLast := by
  have hl : l = l.dropLast ++ [x] := by
    have hne : l ≠ [] := by intro e; simp [e] at h
    rw [List.getLast?_eq_some_getLast hne] at h
    cases h
    exact (List.dropLast_concat_getLast hne).symm
  refine ⟨hl, ?_⟩
  rw [hl] at hn
  rw [List.nodup_append] at hn
  intro hm
  exact hn.2.2 x hm x (by simp) rfl

theorem placeBlocks_spec (hde : ∀ key iv msg c, iv.length = 16 → cfg.ske.encrypt lv.E key iv msg = .ok c →
      cfg.ske.decrypt lv.D key c = .ok msg)
    (K2 : Bytes) (idx : Nat) (blocks : List Bytes) (avail : List Nat) (A : List (Option Bytes)) (t : Tape)
    (ptrs : List Bytes) (avail' : List Nat) (A' : List (Option Bytes)) (t' : Tape)
    (h : placeBlocks cfg lv K2 idx blocks avail A t = .ok (ptrs, avail', A', t')) (hn : avail.Nodup) :
    ∃ poss, Placed cfg lv K2 idx A' blocks poss ptrs ∧ avail = avail' ++ poss.reverse ∧ A'.length = A.length ∧
      ∀ i, i ∉ poss → A'[i]? = A[i]? := by
  induction blocks generalizing avail A t ptrs with
  | nil =>
    simp [placeBlocks] at h
    obtain ⟨rfl, rfl, rfl, rfl⟩ := h
    exact ⟨[], .nil, by simp, rfl, fun _ _ => rfl⟩
  | cons blk rest ih =>
    simp only [placeBlocks] at h
    split at h
    · cases h
    · rename_i pos hpos
      simp only [bind, Except.bind] at h
      split at h
      · cases h
      · rename_i ptr hptr
        split at h
        · cases h
        · rename_i r hr0
          obtain ⟨d, t1⟩ := r
          obtain ⟨iv, hr, hd⟩ := skeEncrypt_ok hr0
          simp only at h
          split at h
          · simp [throw, throwThe, MonadExceptOf.throw] at h
          · rename_i hpl
            simp only [pure, Except.pure] at h
            split at h
            · cases h
            · rename_i r2 hr2
              obtain ⟨ptrs', avail2, A2, t2⟩ := r2
              simp only at h
              cases h
              obtain ⟨hav, hnot⟩ := getLast_dropLast_nodup hpos hn
              have hn' : avail.dropLast.Nodup := by
                rw [hav] at hn; exact (List.nodup_append.mp hn).1
              obtain ⟨poss, hP, havail, hlen, hother⟩ := ih avail.dropLast (A.set pos (some d)) t1 ptrs' hr2 hn'
              have hposnot : pos ∉ poss := by
                intro hm
                apply hnot
                rw [havail]
                exact List.mem_append_right _ (List.mem_reverse.mpr hm)
              have hlt : pos < A.length := by omega
              refine ⟨pos :: poss, ?_, ?_, ?_, ?_⟩
              · refine .cons blk rest pos poss ptr ptrs' d hptr ?_ (hde _ _ _ _ (Chain.takeBytes_len hr) hd) hP
                rw [hother pos hposnot]
                simp [hlt]
              · rw [hav, havail]; simp
              · simpa using hlen
              · intro i hi
                simp only [List.mem_cons, not_or] at hi
                rw [hother i hi.2]
                simp [Ne.symm hi.1]

/-- fetching through the pointers returns the parsed blocks, in order -/
theorem fetch_placed (K2 : Bytes) (idx : Nat) (A : List (Option Bytes)) (blocks : List Bytes) (poss : List Nat)
    (ptrs : List Bytes) (hP : Placed cfg lv K2 idx A blocks poss ptrs) (parts : List (List Bytes))
    (hparts : mapE (fun b => parseBySize b cfg.idSize) blocks = .ok parts) :
    fetch cfg lv A K2 ptrs = .ok parts.flatten := by
  induction hP generalizing parts with
  | nil => simp [mapE] at hparts; subst hparts; rfl
  | cons blk rest pos poss ptr ptrs d h1 h2 h3 _ ih =>
    simp only [mapE, bind, Except.bind] at hparts
    split at hparts
    · cases hparts
    · rename_i ids hids
      split at hparts
      · cases hparts
      · rename_i parts' hp'
        simp only [pure, Except.pure] at hparts
        cases hparts
        have hpos : intFromBytes ptr = pos := (C17.int_roundtrip pos idx ptr h1).1
        simp only [fetch, hpos, h2, h3, hids, ih parts' hp', bind, Except.bind, pure, Except.pure, List.flatten_cons]

/-- one iteration of the keyword loop of `_Enc`, spelled out -/
theorem encDb_cons (K : Bytes) (idx : Nat) (w : Bytes) (ids : List Bytes) (rest : DB) (avail : List Nat)
    (A : List (Option Bytes)) (t : Tape) (L : List (Bytes × Bytes)) (A' : List (Option Bytes)) (t' : Tape)
    (h : encDb cfg lv K idx ((w, ids) :: rest) avail A t = .ok (L, A', t')) :
    ∃ K1 K2 blocks ptrs avail1 A1 t1 pblocks ps t2 qs,
      token cfg lv K w = .ok (K1, K2) ∧ partitionBlocks ids cfg.B cfg.idSize = .ok blocks ∧
      placeBlocks cfg lv K2 idx blocks avail A t = .ok (ptrs, avail1, A1, t1) ∧
      partitionBlocks ptrs cfg.b idx = .ok pblocks ∧
      Chain.encChunks cfg.chain lv K1 K2 0 pblocks t1 = .ok (ps, t2) ∧
      encDb cfg lv K idx rest avail1 A1 t2 = .ok (qs, A', t') ∧ L = ps ++ qs := by
  simp only [encDb, bind, Except.bind] at h
  split at h
  · cases h
  · rename_i tk htk
    obtain ⟨K1, K2⟩ := tk
    simp only at h
    split at h
    · cases h
    · rename_i blocks hb
      split at h
      · cases h
      · rename_i r hr
        obtain ⟨ptrs, avail1, A1, t1⟩ := r
        simp only at h
        split at h
        · cases h
        · rename_i pblocks hpb
          split at h
          · cases h
          · rename_i r2 hr2
            obtain ⟨ps, t2⟩ := r2
            simp only at h
            split at h
            · cases h
            · rename_i r3 hr3
              obtain ⟨qs, A2, t3⟩ := r3
              simp only [pure, Except.pure] at h
              cases h
              exact ⟨K1, K2, blocks, ptrs, avail1, A1, t1, pblocks, ps, t2, qs, htk, hb, hr, hpb, hr2, hr3, rfl⟩

variable (hde : ∀ key iv msg c, iv.length = 16 → cfg.ske.encrypt lv.E key iv msg = .ok c →
      cfg.ske.decrypt lv.D key c = .ok msg)
include hde

/-- cells outside the free list are never touched -/
theorem encDb_preserves (K : Bytes) (idx : Nat) (db : DB) (avail : List Nat) (A : List (Option Bytes)) (t : Tape)
    (L : List (Bytes × Bytes)) (A' : List (Option Bytes)) (t' : Tape)
    (h : encDb cfg lv K idx db avail A t = .ok (L, A', t')) (hn : avail.Nodup) :
    ∀ i, i ∉ avail → A'[i]? = A[i]? := by
  induction db generalizing avail A t L with
  | nil => simp [encDb] at h; obtain ⟨_, rfl, _⟩ := h; exact fun _ _ => rfl
  | cons p rest ih =>
    obtain ⟨w, ids⟩ := p
    obtain ⟨K1, K2, blocks, ptrs, avail1, A1, t1, pblocks, ps, t2, qs, _, _, hpl, _, _, hrest, _⟩ :=
      encDb_cons cfg lv K idx w ids rest avail A t L A' t' h
    obtain ⟨poss, _, hav, _, hother⟩ := placeBlocks_spec cfg lv hde K2 idx blocks avail A t ptrs avail1 A1 t1 hpl hn
    have hn1 : avail1.Nodup := by rw [hav] at hn; exact (List.nodup_append.mp hn).1
    intro i hi
    rw [hav] at hi
    simp only [List.mem_append, List.mem_reverse, not_or] at hi
    rw [ih avail1 A1 t2 qs hrest hn1 i hi.1, hother i hi.2]

/-- what the index holds for a keyword of the database -/
theorem encDb_split (K : Bytes) (idx : Nat) (db : DB) (avail : List Nat) (A : List (Option Bytes)) (t : Tape)
    (L : List (Bytes × Bytes)) (A' : List (Option Bytes)) (t' : Tape)
    (h : encDb cfg lv K idx db avail A t = .ok (L, A', t')) (hn : avail.Nodup)
    (w : Bytes) (ids : List Bytes) (hm : (w, ids) ∈ db) :
    ∃ K1 K2 blocks poss ptrs pblocks ps pre post,
      token cfg lv K w = .ok (K1, K2) ∧ partitionBlocks ids cfg.B cfg.idSize = .ok blocks ∧
      Placed cfg lv K2 idx A' blocks poss ptrs ∧ partitionBlocks ptrs cfg.b idx = .ok pblocks ∧
      Chain.ChunkRel cfg.chain lv K1 K2 0 pblocks ps ∧ L = pre ++ ps ++ post ∧ (∀ p ∈ poss, p ∈ avail) := by
  induction db generalizing avail A t L with
  | nil => cases hm
  | cons p rest ih =>
    obtain ⟨w0, ids0⟩ := p
    obtain ⟨K1, K2, blocks, ptrs, avail1, A1, t1, pblocks, ps, t2, qs, htk, hb, hpl, hpb, hch, hrest, rfl⟩ :=
      encDb_cons cfg lv K idx w0 ids0 rest avail A t L A' t' h
    obtain ⟨poss, hP, hav, _, _⟩ := placeBlocks_spec cfg lv hde K2 idx blocks avail A t ptrs avail1 A1 t1 hpl hn
    have hn1 : avail1.Nodup := by rw [hav] at hn; exact (List.nodup_append.mp hn).1
    simp only [List.mem_cons, Prod.mk.injEq] at hm
    rcases hm with ⟨rfl, rfl⟩ | hm
    · refine ⟨K1, K2, blocks, poss, ptrs, pblocks, ps, [], qs, htk, hb, ?_, hpb, ?_, by simp, ?_⟩
      · apply hP.mono
        intro i hi
        apply encDb_preserves cfg lv hde K idx rest avail1 A1 t2 qs A' t' hrest hn1
        intro hm1
        rw [hav] at hn
        exact (List.nodup_append.mp hn).2.2 i hm1 i (List.mem_reverse.mpr hi) rfl
      · exact Chain.encChunks_rel cfg.chain lv hde K1 K2 0 pblocks t1 t2 ps hch
      · intro p hp; rw [hav]; exact List.mem_append_right _ (List.mem_reverse.mpr hp)
    · obtain ⟨K1', K2', blocks', poss', ptrs', pblocks', ps', pre, post, a1, a2, a3, a4, a5, a6, a7⟩ :=
        ih avail1 A1 t2 qs hrest hn1 hm
      exact ⟨K1', K2', blocks', poss', ptrs', pblocks', ps', ps ++ pre, post, a1, a2, a3, a4, a5, by simp [a6],
        fun p hp => by rw [hav]; exact List.mem_append_left _ (a7 p hp)⟩

omit hde in
theorem fromBE_zeros (n : Nat) : fromBE (zeros n) = 0 := by
  induction n with
  | zero => rfl
  | succ m ih =>
    have : zeros (m + 1) = zeros m ++ [0] := by
      simp [zeros, List.replicate_succ']
    rw [this, fromBE_append, ih]; simp [fromBE]

omit hde in
/-- a pointer to a position ≥ 1 is a non-zero string of exactly `idx` bytes -/
theorem ptr_valid (pos idx : Nat) (ptr : Bytes) (h : intToBytesNat pos idx = .ok ptr) (hpos : 0 < pos) :
    ptr.length = idx ∧ allZero ptr = false := by
  obtain ⟨hv, hl⟩ := C17.int_roundtrip pos idx ptr h
  refine ⟨hl, ?_⟩
  cases hz : allZero ptr with
  | false => rfl
  | true =>
    have := (allZero_iff ptr).mp hz
    rw [this, show intFromBytes (zeros ptr.length) = fromBE (zeros ptr.length) from rfl, fromBE_zeros] at hv
    omega

omit hde in
theorem Placed.ptrs_valid {K2 : Bytes} {idx : Nat} {A : List (Option Bytes)} {blocks : List Bytes} {poss : List Nat}
    {ptrs : List Bytes} (h : Placed cfg lv K2 idx A blocks poss ptrs) (hpos : ∀ p ∈ poss, 0 < p) :
    C17.ValidIds ptrs idx := by
  induction h with
  | nil => intro id hid; cases hid
  | cons blk rest pos poss ptr ptrs d h1 _ _ _ ih =>
    intro id hid
    simp only [List.mem_cons] at hid
    rcases hid with rfl | hid
    · exact ptr_valid pos idx id h1 (hpos pos (by simp))
    · exact ih (fun p hp => hpos p (by simp [hp])) id hid

omit hde in
/-- packing identifiers (or pointers) into blocks of `cap` entries and parsing the blocks gives them back -/
theorem blocks_roundtrip (ids : List Bytes) (cap sz : Int) (hcap : 0 < cap) (hsz : 0 < sz)
    (hv : C17.ValidIds ids sz.toNat) (blocks : List Bytes) (hb : partitionBlocks ids cap sz = .ok blocks) :
    ∃ parts, mapE (fun b => parseBySize b sz) blocks = .ok parts ∧ parts.flatten = ids ∧
      blocks.length = ceilDiv ids.length cap.toNat ∧ ∀ b ∈ blocks, b.length = cap.toNat * sz.toNat := by
  obtain ⟨blocks', hb1, hb2, hb3⟩ := C17.parse_partition ids cap.toNat sz.toNat 0 (by omega) (by omega) (Or.inl rfl) hv
  have hw : partitionBlocks ids cap sz = partitionBlocksNat ids cap.toNat sz.toNat 0 := by
    unfold partitionBlocks
    have : (0 ≤ cap ∧ 0 ≤ sz ∧ (0 : Int) ≤ 0) := ⟨by omega, by omega, by omega⟩
    simp [this]
  rw [hw, hb1] at hb
  cases hb
  refine ⟨blocks.map fun b => parseLoop b.length b sz.toNat, ?_, ?_, ?_, ?_⟩
  · apply mapE_total
    intro b
    simp only [parseBySize]
    have : ¬ sz < 0 := by omega
    simp [this, hb2 b]
  · rw [← hb3, List.flatMap_def]
  · exact C17.partition_count ids cap.toNat sz.toNat 0 (by omega) blocks hb1
  · have := C17.partition_block_len ids cap.toNat sz.toNat 0 (by omega) (fun id hid => (hv id hid).1) blocks hb1
    simpa [C17.effBs] using this

omit hde in
theorem mapE_congr {f g : Bytes → Except Err (List Bytes)} (l : List Bytes) (h : ∀ b ∈ l, f b = g b) : mapE f l = mapE g l := by
  induction l with
  | nil => rfl
  | cons a as ih =>
    simp only [mapE, h a (by simp), ih (fun b hb => h b (by simp [hb]))]

/-- the no-collision hypotheses of the PiPtr theorem for one run: labels distinct, and for the searched keyword the label
    one past its last pointer block is not stored -/
def NoColl (K : Bytes) (L : List (Bytes × Bytes)) (w : Bytes) (ids : List Bytes) : Prop :=
  (L.map (·.1)).Nodup ∧
  ∀ K1 K2, token cfg lv K w = .ok (K1, K2) →
    ∃ l, cfg.prfF.call lv.hmac K1 (natToBytesMin (ceilDiv (ceilDiv ids.length cfg.B.toNat) cfg.b.toNat)) = .ok l ∧
      l ∉ L.map (·.1)

/-- PiPtr: a stored keyword's search returns its list -/
theorem search_present (hB : 0 < cfg.B) (hb : 0 < cfg.b) (hsz : 0 < cfg.idSize)
    (K : Bytes) (db : DB) (t t' : Tape) (edb : PiPtrEDB) (hs : setup cfg lv K db t = .ok (edb, t'))
    (hsample : ∀ avail t0, takeNats t = .ok (avail, t0) → avail.Nodup ∧ ∀ p ∈ avail, 0 < p)
    (w : Bytes) (ids : List Bytes) (hm : (w, ids) ∈ db) (hne : ids ≠ []) (hv : C17.ValidIds ids cfg.idSize.toNat)
    (hnc : ∀ L A avail t0, takeNats t = .ok (avail, t0) →
      encDb cfg lv K (bytesFor (arrayLen cfg db)) db avail (List.replicate (arrayLen cfg db) none) t0 = .ok (L, A, t') →
      NoColl cfg lv K L w ids) :
    ∃ tk, token cfg lv K w = .ok tk ∧ search cfg lv edb tk = .ok ids := by
  unfold setup at hs
  simp only [bind, Except.bind] at hs
  split at hs
  · cases hs
  · rename_i r hr
    obtain ⟨avail, t0⟩ := r
    simp only at hs
    split at hs
    · simp [throw, throwThe, MonadExceptOf.throw] at hs
    · simp only [pure, Except.pure] at hs
      split at hs
      · cases hs
      · rename_i r2 hr2
        obtain ⟨L, A, t1⟩ := r2
        simp only at hs
        cases hs
        obtain ⟨hnd, hpos⟩ := hsample avail t0 hr
        obtain ⟨hLn, hend⟩ := hnc L A avail t0 hr hr2
        obtain ⟨K1, K2, blocks, poss, ptrs, pblocks, ps, pre, post, htk, hblocks, hP, hpb, hrel, hsplit, hsub⟩ :=
          encDb_split cfg lv hde K _ db avail _ t0 L A _ hr2 hnd w ids hm
        obtain ⟨parts, hparts, hflat, hcount, _⟩ := blocks_roundtrip ids cfg.B cfg.idSize hB hsz hv blocks hblocks
        have hvp : C17.ValidIds ptrs (bytesFor (arrayLen cfg db)) := hP.ptrs_valid cfg lv (fun p hp => hpos p (hsub p hp))
        have hlens := hP.lengths
        -- there is at least one block, hence one pointer, hence a positive pointer width
        have hblk : 0 < blocks.length := by
          rw [hcount]
          have : 0 < ids.length := List.length_pos_iff.mpr hne
          unfold ceilDiv
          have hBn : 0 < cfg.B.toNat := by omega
          exact Nat.div_pos (by omega) hBn
        have hidx : 0 < bytesFor (arrayLen cfg db) := by
          cases hp : ptrs with
          | nil => rw [hp] at hlens; simp at hlens; omega
          | cons p0 _ =>
            have := hvp p0 (by rw [hp]; simp)
            cases hz : bytesFor (arrayLen cfg db) with
            | zero =>
              rw [hz] at this
              have hnil : p0 = [] := List.eq_nil_of_length_eq_zero this.1
              rw [hnil] at this
              simp [allZero] at this
            | succ n => omega
        have hidxI : (0 : Int) < ((bytesFor (arrayLen cfg db) : Nat) : Int) := by omega
        obtain ⟨pparts, hpp, hpflat, hpcount, hplen⟩ :=
          blocks_roundtrip ptrs cfg.b (bytesFor (arrayLen cfg db) : Nat) hb hidxI (by simpa using hvp) pblocks hpb
        have hunpack : mapE cfg.chain.unpack pblocks = .ok pparts := by
          rw [← hpp]
          apply mapE_congr
          intro b hbm
          have hl := hplen b hbm
          simp only [PiPtrCfg.chain]
          have hbpos : 0 < cfg.b.toNat := by omega
          have e1 : parseByCount b cfg.b = parseByCountNat b cfg.b.toNat := by
            have := (C17.wrappers_agree [] b cfg.b.toNat 0 0).2.2
            have e : ((cfg.b.toNat : Nat) : Int) = cfg.b := by omega
            rw [e] at this; exact this
          rw [e1, C17.parse_by_count b cfg.b.toNat (bytesFor (arrayLen cfg db)) hbpos
            (by rw [hl]; simp; exact Nat.mul_div_cancel_left _ hbpos)]
          exact ((C17.wrappers_agree [] b 0 (bytesFor (arrayLen cfg db)) 0).2.1).symm
        refine ⟨(K1, K2), htk, ?_⟩
        obtain ⟨lend, hlend, hfresh⟩ := hend K1 K2 htk
        have hpn : pblocks.length = ceilDiv (ceilDiv ids.length cfg.B.toNat) cfg.b.toNat := by
          rw [hpcount, hlens.2, hcount]
        have hget : ∀ p ∈ ps, (buildTable L).get p.1 = some p.2 := by
          intro p hp
          apply buildTable_get_mem L p.1 p.2 hLn
          rw [hsplit]; simp [hp]
        have hfuel : pblocks.length < (buildTable L).length + 1 := by
          rw [buildTable_length L hLn, hsplit, ← hrel.length]
          simp; omega
        have hloop := Chain.searchLoop_rel cfg.chain lv (buildTable L) K1 K2 0 pblocks ps hrel hget lend
          (by rw [Nat.zero_add, hpn]; exact hlend) (buildTable_get_none L lend hfresh) pparts hunpack _ hfuel []
        unfold search ptrLoop
        simp only [bind, Except.bind, hloop, List.nil_append, hpflat]
        rw [fetch_placed cfg lv K2 _ A blocks poss ptrs hP parts hparts, hflat]

omit hde in
/-- what `PiPtr.cfgBuild` establishes -/
theorem cfgBuild_ok (raw : RawCfg) (h : PiPtr.cfgBuild raw = .ok cfg) :
    0 < cfg.B ∧ 0 < cfg.b ∧ 0 < cfg.idSize ∧ PlainSke cfg.ske := by
  unfold PiPtr.cfgBuild at h
  simp only [bind, Except.bind] at h
  repeat (split at h; (try cases h))
  all_goals (try (simp only [pure, Except.pure] at h))
  rename_i hpos _ _ hex _ lam hlam _ B hB _ b hb _ out hout _ ids hids _ _ _ ske hske
  cases h
  have fields : ["param_lambda", "param_B", "param_b", "prf_f_output_length", "param_identifier_size", "prf_f", "ske"] =
    ["param_lambda", "param_B", "param_b", "prf_f_output_length", "param_identifier_size", "prf_f", "ske"] := rfl
  refine ⟨param_pos _ raw "param_B" B hpos hex (by decide +kernel) (by simp) hB,
          param_pos _ raw "param_b" b hpos hex (by decide +kernel) (by simp) hb,
          param_pos _ raw "param_identifier_size" ids hpos hex (by decide +kernel) (by simp) hids,
          (new_plain lam ske hske).1⟩

end SSEPy.Sch.PiPtr
