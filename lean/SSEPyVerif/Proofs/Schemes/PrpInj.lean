/-
  Injectivity facts used to discharge the "no collision" hypotheses of the PRP-based schemes (SSE-1, SSE-2) from
  the C15 theorems: big-endian decoding is injective on byte strings without a leading NUL byte, and the bit-level
  format-preserving PRP is injective on well-formed messages.
-/
import SSEPyVerif.Props.C15
import SSEPyVerif.Proofs.Schemes.Prims
namespace SSEPy.Sch

theorem fromBE_cons (x : UInt8) (xs : Bytes) : fromBE (x :: xs) = x.toNat * 256 ^ xs.length + fromBE xs := by
  have := fromBE_append [x] xs
  simpa [fromBE] using this

theorem fromBE_lt (b : Bytes) : fromBE b < 256 ^ b.length := by
  induction b with
  | nil => simp [fromBE]
  | cons x xs ih =>
    rw [fromBE_cons, List.length_cons, Nat.pow_succ]
    have hx : x.toNat < 256 := x.toNat_lt
    calc x.toNat * 256 ^ xs.length + fromBE xs < x.toNat * 256 ^ xs.length + 256 ^ xs.length := by omega
      _ = (x.toNat + 1) * 256 ^ xs.length := by rw [Nat.add_mul]; omega
      _ ≤ 256 * 256 ^ xs.length := Nat.mul_le_mul_right _ (by omega)
      _ = 256 ^ xs.length * 256 := Nat.mul_comm _ _

theorem fromBE_inj_same_len : ∀ (a b : Bytes), a.length = b.length → fromBE a = fromBE b → a = b
  | [], [], _, _ => rfl
  | [], _ :: _, h, _ => by simp at h
  | _ :: _, [], h, _ => by simp at h
  | x :: xs, y :: ys, hl, hv => by
    have hl' : xs.length = ys.length := by simpa using hl
    rw [fromBE_cons, fromBE_cons, hl'] at hv
    have hx := fromBE_lt xs
    have hy := fromBE_lt ys
    rw [hl'] at hx
    have hpos : 0 < 256 ^ ys.length := Nat.pow_pos (by decide)
    have hxy : x.toNat = y.toNat := by
      have h1 : (x.toNat * 256 ^ ys.length + fromBE xs) / 256 ^ ys.length = x.toNat := by
        rw [Nat.mul_comm, Nat.mul_add_div hpos, Nat.div_eq_of_lt hx]; rfl
      have h2 : (y.toNat * 256 ^ ys.length + fromBE ys) / 256 ^ ys.length = y.toNat := by
        rw [Nat.mul_comm, Nat.mul_add_div hpos, Nat.div_eq_of_lt hy]; rfl
      rw [← h1, ← h2, hv]
    have hrest : fromBE xs = fromBE ys := by rw [hxy] at hv; omega
    have : x = y := UInt8.toNat_inj.mp hxy
    rw [this, fromBE_inj_same_len xs ys hl' hrest]

/-- the property's keyword validity: non-empty, no leading NUL byte -/
def NoLeadingNul (w : Bytes) : Prop := ∃ x xs, w = x :: xs ∧ x ≠ 0

theorem fromBE_inj (a b : Bytes) (ha : NoLeadingNul a) (hb : NoLeadingNul b) (h : fromBE a = fromBE b) : a = b := by
  obtain ⟨x, xs, rfl, hx⟩ := ha
  obtain ⟨y, ys, rfl, hy⟩ := hb
  have hxpos : 1 ≤ x.toNat := by
    rcases Nat.eq_zero_or_pos x.toNat with h0 | h0
    · exact absurd (UInt8.toNat_inj.mp (by simpa using h0)) hx
    · exact h0
  have hypos : 1 ≤ y.toNat := by
    rcases Nat.eq_zero_or_pos y.toNat with h0 | h0
    · exact absurd (UInt8.toNat_inj.mp (by simpa using h0)) hy
    · exact h0
  have lbx : 256 ^ xs.length ≤ fromBE (x :: xs) := by
    rw [fromBE_cons]
    calc 256 ^ xs.length = 1 * 256 ^ xs.length := by omega
      _ ≤ x.toNat * 256 ^ xs.length := Nat.mul_le_mul_right _ hxpos
      _ ≤ _ := Nat.le_add_right _ _
  have lby : 256 ^ ys.length ≤ fromBE (y :: ys) := by
    rw [fromBE_cons]
    calc 256 ^ ys.length = 1 * 256 ^ ys.length := by omega
      _ ≤ y.toNat * 256 ^ ys.length := Nat.mul_le_mul_right _ hypos
      _ ≤ _ := Nat.le_add_right _ _
  have ubx := fromBE_lt (x :: xs)
  have uby := fromBE_lt (y :: ys)
  have hlen : xs.length = ys.length := by
    rcases Nat.lt_trichotomy xs.length ys.length with hlt | heq | hgt
    · exfalso
      have : 256 ^ (x :: xs).length ≤ 256 ^ ys.length := Nat.pow_le_pow_right (by decide) (by simp; omega)
      omega
    · exact heq
    · exfalso
      have : 256 ^ (y :: ys).length ≤ 256 ^ xs.length := Nat.pow_le_pow_right (by decide) (by simp; omega)
      omega
  exact fromBE_inj_same_len _ _ (by simp [hlen]) h

end SSEPy.Sch
