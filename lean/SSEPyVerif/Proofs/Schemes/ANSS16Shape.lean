/-
  ANSS16 Scheme 3: the SHAPE of the index is a function of t = ⌈log2 N⌉ only.
  Level i of the padded index has exactly 2^(t+1-i) entries — the capacity the padding loop assumes is never exceeded,
  whatever the distribution of list lengths, because a list stored at level p has more than 2^(p-1) entries — and every
  entry of level i has the same label length and the same value length.
-/
import SSEPyVerif.Proofs.Schemes.ANSS16
namespace SSEPy.Sch.ANSS16
open SSEPy.Sch

variable (cfg : ANSSCfg) (lv : Leaves)

/-- a list of `n ≥ 1` entries is padded to fewer than `2n` -/
theorem two_pow_clog2_lt (n : Nat) (h : 1 ≤ n) : 2 ^ clog2 n < 2 * n := by
  unfold clog2
  split
  · have : n = 1 := by omega
    subst this; decide
  · have := Nat.log2_self_le (n := n - 1) (by omega)
    rw [Nat.pow_succ]
    omega

/-- number of entries of level `p` -/
def levelLen {α : Type} (Ts : List (List α)) (p : Nat) : Nat := ((Ts[p]?).map List.length).getD 0

theorem pushAt_levelLen {α : Type} (Ts : List (List α)) (q : Nat) (x : α) (Ts' : List (List α)) (h : pushAt Ts q x = .ok Ts')
    (p : Nat) : levelLen Ts' p = levelLen Ts p + (if p = q then 1 else 0) := by
  unfold pushAt at h
  split at h
  · cases h
  · rename_i l hl
    cases h
    unfold levelLen
    by_cases hp : p = q
    · subst hp
      have hlt : p < Ts.length := by
        rcases Nat.lt_or_ge p Ts.length with h | h
        · exact h
        · rw [List.getElem?_eq_none h] at hl; cases hl
      have e : Ts[p] = l := by
        have := List.getElem?_eq_getElem hlt
        rw [hl] at this; cases this; rfl
      simp [hlt, e]
    · have : q ≠ p := fun e => hp e.symm
      simp [List.getElem?_set_ne this, hp]

/-- the counting invariant of `_Enc`: level `p` grows by one entry per keyword stored there, and such a keyword has
    more than `2^p / 2` identifiers -/
theorem encDb_levelLen (K : Bytes) (niSize : Nat) (db : DB) (Ts : List (List (Bytes × Bytes))) (S : List (Bytes × Bytes))
    (t : Tape) (Ts' : List (List (Bytes × Bytes))) (S' : List (Bytes × Bytes)) (t' : Tape)
    (h : encDb cfg lv K niSize db Ts S t = .ok (Ts', S', t')) :
    S'.length = S.length + db.length ∧ db.length ≤ db.total ∧
    ∀ p, levelLen Ts' p * 2 ^ p ≤ levelLen Ts p * 2 ^ p + 2 * db.total := by
  induction db generalizing Ts S t with
  | nil =>
    simp [encDb] at h
    obtain ⟨rfl, rfl, _⟩ := h
    exact ⟨rfl, by simp [DB.total], fun p => by simp [DB.total]⟩
  | cons q rest ih =>
    obtain ⟨w0, ids0⟩ := q
    simp only [encDb] at h
    split at h
    · simp [throw, throwThe, MonadExceptOf.throw, bind, Except.bind] at h
    · rename_i hlen
      simp only [bind, Except.bind, pure, Except.pure] at h
      split at h
      · cases h
      · rename_i r1 _
        split at h
        · cases h
        · split at h
          · cases h
          · split at h
            · cases h
            · split at h
              · cases h
              · split at h
                · cases h
                · rename_i Ts1 hpush
                  obtain ⟨i1, i2, i3⟩ := ih _ _ _ h
                  have hpos : 1 ≤ ids0.length := by omega
                  refine ⟨by simp [i1]; omega, by simp [DB.total] at i2 ⊢; omega, ?_⟩
                  intro p
                  have := i3 p
                  rw [pushAt_levelLen Ts _ _ Ts1 hpush p] at this
                  have hlt := two_pow_clog2_lt ids0.length hpos
                  simp only [DB.total, List.map_cons, List.sum_cons] at this ⊢
                  by_cases hp : p = clog2 ids0.length
                  · subst hp
                    simp only [if_true, Nat.add_mul, Nat.one_mul] at this
                    omega
                  · simp only [hp, if_false, Nat.add_zero] at this
                    omega

theorem pushAt_length {α : Type} (Ts : List (List α)) (q : Nat) (x : α) (Ts' : List (List α)) (h : pushAt Ts q x = .ok Ts') :
    Ts'.length = Ts.length := by
  unfold pushAt at h
  split at h
  · cases h
  · cases h; simp

theorem encDb_spec_len (K : Bytes) (niSize : Nat) (db : DB) (Ts : List (List (Bytes × Bytes))) (S : List (Bytes × Bytes))
    (t : Tape) (Ts' : List (List (Bytes × Bytes))) (S' : List (Bytes × Bytes)) (t' : Tape)
    (h : encDb cfg lv K niSize db Ts S t = .ok (Ts', S', t')) : Ts'.length = Ts.length := by
  induction db generalizing Ts S t with
  | nil => simp [encDb] at h; obtain ⟨rfl, _, _⟩ := h; rfl
  | cons q rest ih =>
    obtain ⟨w0, ids0⟩ := q
    simp only [encDb] at h
    split at h
    · simp [throw, throwThe, MonadExceptOf.throw, bind, Except.bind] at h
    · simp only [bind, Except.bind, pure, Except.pure] at h
      split at h
      · cases h
      · split at h
        · cases h
        · split at h
          · cases h
          · split at h
            · cases h
            · split at h
              · cases h
              · split at h
                · cases h
                · rename_i Ts1 hpush
                  rw [ih _ _ _ h, pushAt_length _ _ _ _ hpush]

/-! ### lengths of the entries -/

/-- every entry has label length `a` and value length `b` -/
def EntLens (L : List (Bytes × Bytes)) (a b : Nat) : Prop := ∀ e ∈ L, e.1.length = a ∧ e.2.length = b

theorem split4_lengths (x : Bytes) (n1 n2 n3 n4 : Nat) (a b c d : Bytes)
    (h : splitBytes x [n1, n2, n3, n4] = .ok [a, b, c, d]) : a.length = n1 ∧ b.length = n2 ∧ c.length = n3 ∧ d.length = n4 := by
  have hlen : x.length = [n1, n2, n3, n4].sum := by
    rcases Nat.decEq x.length [n1, n2, n3, n4].sum with hne | he
    · rw [C17.split_mismatch_raises x _ hne] at h; cases h
    · exact he
  obtain ⟨pieces, hp, hl⟩ := C17.split_lengths x _ hlen
  rw [h] at hp; cases hp
  simpa using hl

theorem token_lens (K w : Bytes) (tk : ANSSToken) (h : token cfg lv K w = .ok tk) :
    tk.li.length = cfg.l.toNat ∧ tk.liP.length = cfg.lPrime.toNat := by
  simp only [token, bind, Except.bind] at h
  split at h
  · cases h
  · rename_i x hx
    split at h
    · cases h
    · rename_i pieces hp
      split at h
      · rename_i a b c d
        simp only [pure, Except.pure] at h
        cases h
        obtain ⟨h1, _, h3, _⟩ := split4_lengths x _ _ _ _ a b c d hp
        exact ⟨h1, h3⟩
      · simp [throw, throwThe, MonadExceptOf.throw] at h

theorem fillers_spec (a b k : Nat) (t : Tape) (fs : List (Bytes × Bytes)) (t' : Tape) (h : fillers a b k t = .ok (fs, t')) :
    fs.length = k ∧ EntLens fs a b := by
  induction k generalizing t fs with
  | zero => simp [fillers] at h; cases h.1; exact ⟨rfl, fun e he => by cases he⟩
  | succ m ih =>
    simp only [fillers, bind, Except.bind] at h
    split at h
    · cases h
    · rename_i r1 h1
      obtain ⟨x, t1⟩ := r1
      simp only at h
      split at h
      · cases h
      · rename_i r2 h2
        obtain ⟨y, t2⟩ := r2
        simp only at h
        split at h
        · cases h
        · rename_i r3 h3
          obtain ⟨ps, t3⟩ := r3
          simp only [pure, Except.pure] at h
          cases h
          obtain ⟨i1, i2⟩ := ih _ _ h3
          refine ⟨by simp [i1], ?_⟩
          intro e he
          simp only [List.mem_cons] at he
          rcases he with rfl | he
          · exact ⟨Chain.takeBytes_len h1, Chain.takeBytes_len h2⟩
          · exact i2 e he

theorem encAll_len (ske : AESxCBC) (key : Bytes) (xs : List Bytes) (t t' : Tape) (cs : List Bytes)
    (h : encAll ske lv key xs t = .ok (cs, t')) : cs.length = xs.length := by
  induction xs generalizing t cs with
  | nil => simp [encAll] at h; cases h.1; rfl
  | cons x rest ih =>
    simp only [encAll, bind, Except.bind] at h
    split at h
    · cases h
    · rename_i r hr0
      obtain ⟨c, t1⟩ := r
      simp only at h
      split at h
      · cases h
      · rename_i r2 hr2
        obtain ⟨cs', t2⟩ := r2
        simp only [pure, Except.pure] at h
        cases h
        simp [ih _ _ hr2]

variable (hE : ∀ key x : Bytes, x.length = 16 → (lv.E key x).length = 16)
include hE

theorem ske_len (key msg : Bytes) (t t' : Tape) (c : Bytes) (h : skeEncrypt cfg.ske lv key msg t = .ok (c, t')) :
    c.length = 16 + 16 * (msg.length / 16 + 1) := by
  obtain ⟨iv, hr, hc⟩ := skeEncrypt_ok h
  exact C14.enc_len cfg.ske lv.E key iv msg c (hE key) (Chain.takeBytes_len hr) hc

/-- ciphertext length of one identifier -/
def clen : Nat := 16 + 16 * (cfg.idSize.toNat / 16 + 1)

theorem cipherLen_spec (keyLen idSize : Int) (t t' : Tape) (n : Nat)
    (h : CT14.cipherLen cfg.ske lv keyLen idSize t = .ok (n, t')) : n = 16 + 16 * (idSize.toNat / 16 + 1) := by
  simp only [CT14.cipherLen, bind, Except.bind] at h
  split at h
  · cases h
  · rename_i r hr
    obtain ⟨c, t1⟩ := r
    simp only [pure, Except.pure] at h
    cases h
    have := ske_len cfg lv hE _ _ _ _ _ hr
    simpa [zeros] using this

/-- `_Enc` keeps the entry lengths of every level and of S uniform -/
theorem encDb_lens (K : Bytes) (niSize : Nat) (db : DB) (Ts : List (List (Bytes × Bytes))) (S : List (Bytes × Bytes))
    (t : Tape) (Ts' : List (List (Bytes × Bytes))) (S' : List (Bytes × Bytes)) (t' : Tape)
    (h : encDb cfg lv K niSize db Ts S t = .ok (Ts', S', t'))
    (hids : ∀ p ∈ db, ∀ x ∈ p.2, x.length = cfg.idSize.toNat)
    (h0 : ∀ p L, Ts[p]? = some L → EntLens L cfg.l.toNat (2 ^ p * clen cfg))
    (hS : EntLens S cfg.lPrime.toNat (16 + 16 * (niSize / 16 + 1))) :
    (∀ p L, Ts'[p]? = some L → EntLens L cfg.l.toNat (2 ^ p * clen cfg)) ∧
    EntLens S' cfg.lPrime.toNat (16 + 16 * (niSize / 16 + 1)) := by
  induction db generalizing Ts S t with
  | nil =>
    simp [encDb] at h
    obtain ⟨rfl, rfl, _⟩ := h
    exact ⟨h0, hS⟩
  | cons q rest ih =>
    obtain ⟨w0, ids0⟩ := q
    simp only [encDb] at h
    split at h
    · simp [throw, throwThe, MonadExceptOf.throw, bind, Except.bind] at h
    · rename_i hlen
      simp only [bind, Except.bind, pure, Except.pure] at h
      split at h
      · cases h
      · rename_i r1 hr1
        obtain ⟨dummies, t1⟩ := r1
        simp only at h
        split at h
        · cases h
        · rename_i tk htk
          split at h
          · cases h
          · rename_i r2 hr2
            obtain ⟨cs, t2⟩ := r2
            simp only at h
            split at h
            · cases h
            · rename_i nb hnb
              split at h
              · cases h
              · rename_i r3 hr3
                obtain ⟨niP, t3⟩ := r3
                simp only at h
                split at h
                · cases h
                · rename_i Ts1 hpush
                  obtain ⟨d1, d2⟩ := takeBytesN_spec _ _ _ _ _ hr1
                  obtain ⟨tl1, tl2⟩ := token_lens cfg lv K w0 tk htk
                  have hall : ∀ x ∈ ids0 ++ dummies, x.length = cfg.idSize.toNat := by
                    intro x hx
                    simp only [List.mem_append] at hx
                    rcases hx with hx | hx
                    · exact hids (w0, ids0) (by simp) x hx
                    · exact d2 x hx
                  have hcl := encAll_lens cfg.ske lv hE tk.Ki _ _ _ _ hr2 _ hall
                  have hcn : cs.length = 2 ^ clog2 ids0.length := by
                    have := (encAll_len lv cfg.ske tk.Ki _ _ _ _ hr2)
                    rw [this, List.length_append, d1]
                    have := le_two_pow_clog2 ids0.length
                    omega
                  have hflat : cs.flatten.length = 2 ^ clog2 ids0.length * clen cfg := by
                    rw [flatten_length_of_all _ cs hcl, hcn]; rfl
                  have hnbl := (C17.int_roundtrip _ _ _ hnb).2
                  have hnip := ske_len cfg lv hE _ _ _ _ _ hr3
                  rw [hnbl] at hnip
                  apply ih _ _ _ h (fun p hp => hids p (by simp [hp]))
                  · intro p L hL
                    unfold pushAt at hpush
                    split at hpush
                    · cases hpush
                    · rename_i l0 hl0
                      cases hpush
                      by_cases hp : p = clog2 ids0.length
                      · subst hp
                        have hlt : clog2 ids0.length < Ts.length := by
                          rcases Nat.lt_or_ge (clog2 ids0.length) Ts.length with h | h
                          · exact h
                          · rw [List.getElem?_eq_none h] at hl0; cases hl0
                        rw [List.getElem?_set_self hlt] at hL
                        cases hL
                        intro e he
                        simp only [List.mem_append, List.mem_singleton] at he
                        rcases he with he | rfl
                        · exact h0 _ l0 hl0 e he
                        · exact ⟨tl1, hflat⟩
                      · rw [List.getElem?_set_ne (fun e => hp e.symm)] at hL
                        exact h0 p L hL
                  · intro e he
                    simp only [List.mem_append, List.mem_singleton] at he
                    rcases he with he | rfl
                    · exact hS e he
                    · exact ⟨tl2, hnip⟩

/-- padding a level that is within its capacity fills it exactly, with entries of the level's lengths -/
theorem padLevels_shape (tt i : Nat) (Ts : List (List (Bytes × Bytes))) (t : Tape) (Ts' : List (List (Bytes × Bytes)))
    (t' : Tape) (h : padLevels cfg lv tt i Ts t = .ok (Ts', t'))
    (hb : ∀ j L, Ts[j]? = some L → L.length ≤ 2 ^ (tt + 1 - (i + j)) ∧ EntLens L cfg.l.toNat (2 ^ (i + j) * clen cfg)) :
    ∀ j L', Ts'[j]? = some L' → L'.length = 2 ^ (tt + 1 - (i + j)) ∧ EntLens L' cfg.l.toNat (2 ^ (i + j) * clen cfg) := by
  induction Ts generalizing i t Ts' with
  | nil => simp [padLevels] at h; cases h.1; intro j L' hj; simp at hj
  | cons L rest ih =>
    simp only [padLevels, bind, Except.bind] at h
    split at h
    · cases h
    · rename_i r hr
      obtain ⟨cl, t1⟩ := r
      simp only at h
      split at h
      · cases h
      · rename_i r2 hr2
        obtain ⟨fs, t2⟩ := r2
        simp only at h
        split at h
        · cases h
        · rename_i r3 hr3
          obtain ⟨more, t3⟩ := r3
          simp only [pure, Except.pure] at h
          cases h
          have hcl : cl = clen cfg := cipherLen_spec cfg lv hE _ _ _ _ _ hr
          subst hcl
          obtain ⟨f1, f2⟩ := fillers_spec _ _ _ _ _ _ hr2
          obtain ⟨b1, b2⟩ := hb 0 L (by simp)
          have hrest := ih (i + 1) t2 more hr3 (fun j L0 hj => by
            have := hb (j + 1) L0 (by simpa using hj)
            have e : i + (j + 1) = i + 1 + j := by omega
            rw [e] at this; exact this)
          intro j L' hj
          cases j with
          | zero =>
            simp only [List.getElem?_cons_zero, Option.some.injEq] at hj
            subst hj
            simp only [Nat.add_zero] at b1 b2 ⊢
            refine ⟨by rw [List.length_append, f1]; omega, ?_⟩
            intro e he
            simp only [List.mem_append] at he
            rcases he with he | he
            · exact b2 e he
            · exact f2 e he
          | succ j' =>
            simp only [List.getElem?_cons_succ] at hj
            have := hrest j' L' hj
            have e : i + (j' + 1) = i + 1 + j' := by omega
            rw [e]; exact this

omit hE in
theorem dbInsert_fresh (db : DB) (k : Bytes) (v : List Bytes) (h : k ∉ db.map (·.1)) : dbInsert db k v = db ++ [(k, v)] := by
  induction db with
  | nil => rfl
  | cons p rest ih =>
    obtain ⟨k', v'⟩ := p
    simp only [List.map_cons, List.mem_cons, not_or] at h
    have : ¬ k' = k := fun e => h.1 e.symm
    simp [dbInsert, this, ih h.2]

omit hE in
theorem draws32_suffix {t t' : Tape} (h : Suffix t' t) : (draws32 t').Sublist (draws32 t) := by
  obtain ⟨pre, rfl⟩ := h
  unfold draws32
  rw [List.filterMap_append]
  exact List.sublist_append_right _ _

omit hE in
/-- the padding loop brings the number of postings to exactly the capacity, with lists of `idSize`-byte identifiers, as long
    as no dummy keyword repeats a keyword that is already there -/
theorem padLoop_spec (idSize cap fuel : Nat) (db : DB) (N : Nat) (t : Tape) (pdb : DB) (t' : Tape)
    (h : padLoop idSize cap fuel db N t = .ok (pdb, t')) (hN : db.total = N) (hle : N ≤ cap)
    (hfresh : (db.map (·.1) ++ draws32 t).Nodup) (hids : ∀ p ∈ db, ∀ x ∈ p.2, x.length = idSize) :
    pdb.total = cap ∧ ∀ p ∈ pdb, ∀ x ∈ p.2, x.length = idSize := by
  induction fuel generalizing db N t with
  | zero => simp [padLoop] at h
  | succ f ih =>
    simp only [padLoop] at h
    split at h
    · rename_i hlt
      simp only [bind, Except.bind] at h
      split at h
      · cases h
      · rename_i r1 h1
        obtain ⟨kw, t1⟩ := r1
        simp only at h
        split at h
        · cases h
        · rename_i r2 h2
          obtain ⟨n, t2⟩ := r2
          simp only at h
          split at h
          · simp [throw, throwThe, MonadExceptOf.throw] at h
          · rename_i hn
            try simp only [pure, Except.pure] at h
            split at h
            · cases h
            · rename_i r3 h3
              obtain ⟨ids, t3⟩ := r3
              simp only at h
              have ht : t = Draw.bytes kw :: t1 := takeBytes_cons h1
              have hkl : kw.length = 32 := Chain.takeBytes_len h1
              have hd : draws32 t = kw :: draws32 t1 := by
                rw [ht]; simp [draws32, hkl]
              rw [hd] at hfresh
              have hkfresh : kw ∉ db.map (·.1) := by
                intro hm
                have := (List.nodup_append.mp hfresh).2.2 kw hm kw (by simp)
                exact this rfl
              obtain ⟨d1, d2⟩ := takeBytesN_spec _ _ _ _ _ h3
              rw [dbInsert_fresh db kw ids hkfresh] at h
              have hs3 : Suffix t3 t1 := (takeBytesN_suffix _ _ _ _ _ h3).trans (takeNat_suffix h2)
              apply ih _ _ _ h
              · simp [DB.total] at hN ⊢; omega
              · omega
              · have e : List.map (fun x => x.fst) (db ++ [(kw, ids)]) ++ draws32 t3
                    = List.map (fun x => x.fst) db ++ (kw :: draws32 t3) := by simp
                rw [e]
                exact List.Nodup.sublist
                  (List.Sublist.append (List.Sublist.refl _) (List.Sublist.cons₂ kw (draws32_suffix hs3))) hfresh
              · intro p hp x hx
                simp only [List.mem_append, List.mem_singleton] at hp
                rcases hp with hp | rfl
                · exact hids p hp x hx
                · exact d2 x hx
    · cases h
      refine ⟨by omega, hids⟩

omit hE in
theorem levelLen_replicate (n p : Nat) : levelLen (List.replicate n ([] : List (Bytes × Bytes))) p = 0 := by
  unfold levelLen
  rcases Nat.lt_or_ge p n with h | h
  · simp [h]
  · have : (List.replicate n ([] : List (Bytes × Bytes)))[p]? = none := List.getElem?_eq_none (by simpa using h)
    simp [this]

/-- the padded pair lists of `_Enc`: `t+1` levels, level `j` with exactly `2^(t+1-j)` entries of one shape, and `2^t`
    entries of one shape in S — whatever the keywords, contents and list lengths of the database -/
theorem setupLists_shape (K : Bytes) (db : DB) (t : Tape) (SL : List (Bytes × Bytes)) (TL : List (List (Bytes × Bytes)))
    (t' : Tape) (h : setupLists cfg lv K db t = .ok (SL, TL, t'))
    (hids : ∀ p ∈ db, ∀ x ∈ p.2, x.length = cfg.idSize.toNat) (hfresh : (db.map (·.1) ++ draws32 t).Nodup) :
    TL.length = clog2 db.total + 1 ∧
    (∀ j L, TL[j]? = some L → L.length = 2 ^ (clog2 db.total + 1 - j) ∧ EntLens L cfg.l.toNat (2 ^ j * clen cfg)) ∧
    SL.length = 2 ^ clog2 db.total ∧
    EntLens SL cfg.lPrime.toNat (16 + 16 * (ceilDiv (clog2 db.total + 1) 8 / 16 + 1)) := by
  simp only [setupLists] at h
  split at h
  · simp [throw, throwThe, MonadExceptOf.throw, bind, Except.bind] at h
  · simp only [bind, Except.bind, pure, Except.pure] at h
    split at h
    · cases h
    · rename_i r1 h1
      obtain ⟨pdb, t1⟩ := r1
      simp only at h
      split at h
      · cases h
      · rename_i r2 h2
        obtain ⟨Ts, S, t2⟩ := r2
        simp only at h
        split at h
        · cases h
        · rename_i r3 h3
          obtain ⟨Ts', t3⟩ := r3
          simp only at h
          split at h
          · cases h
          · rename_i r4 h4
            obtain ⟨nlen, t4⟩ := r4
            simp only at h
            split at h
            · cases h
            · rename_i r5 h5
              obtain ⟨fs, t5⟩ := r5
              simp only at h
              cases h
              generalize htt : clog2 db.total = tt at *
              obtain ⟨p1, p2⟩ := padLoop_spec _ _ _ _ _ _ _ _ h1 rfl (by rw [← htt]; exact le_two_pow_clog2 _) hfresh hids
              obtain ⟨c1, c2, c3⟩ := encDb_levelLen cfg lv K _ pdb _ _ t1 Ts S t2 h2
              obtain ⟨l1, l2⟩ := encDb_lens cfg lv hE K _ pdb _ _ t1 Ts S t2 h2 p2
                (fun p L hL => by
                  rw [List.getElem?_replicate] at hL
                  split at hL
                  · cases hL; intro e he; cases he
                  · cases hL)
                (fun e he => by cases he)
              have hTsLen : Ts.length = tt + 1 := by
                have := (encDb_spec_len cfg lv K _ pdb _ _ t1 Ts S t2 h2)
                simpa using this
              have hTs'Len := (padLevels_spec cfg lv tt 0 Ts t2 TL t3 h3).1
              have hshape := padLevels_shape cfg lv hE tt 0 Ts t2 TL t3 h3 (fun j L hL => by
                simp only [Nat.zero_add]
                refine ⟨?_, l1 j L hL⟩
                have hj : j < tt + 1 := by
                  rw [← hTsLen]
                  rcases Nat.lt_or_ge j Ts.length with h | h
                  · exact h
                  · rw [List.getElem?_eq_none h] at hL; cases hL
                have := c3 j
                rw [levelLen_replicate, p1] at this
                have hl : levelLen Ts j = L.length := by simp [levelLen, hL]
                rw [hl] at this
                have e : 2 * 2 ^ tt = 2 ^ (tt + 1 - j) * 2 ^ j := by
                  rw [← Nat.pow_add]
                  have : tt + 1 - j + j = tt + 1 := by omega
                  rw [this, Nat.pow_succ]; omega
                simp only [Nat.zero_mul, Nat.zero_add] at this
                rw [e] at this
                exact Nat.le_of_mul_le_mul_right this (Nat.two_pow_pos j))
              have hnlen : nlen = 16 + 16 * (ceilDiv (tt + 1) 8 / 16 + 1) := by
                have := cipherLen_spec cfg lv hE _ _ _ _ _ h4
                simpa using this
              obtain ⟨f1, f2⟩ := fillers_spec _ _ _ _ _ _ h5
              refine ⟨by rw [hTs'Len, hTsLen], ?_, ?_, ?_⟩
              · intro j L hL
                have := hshape j L hL
                simpa using this
              · rw [List.length_append, f1, c1]
                simp only [List.length_nil, Nat.zero_add]
                have : pdb.length ≤ 2 ^ tt := by rw [← p1]; exact c2
                omega
              · intro e he
                simp only [List.mem_append] at he
                rcases he with he | he
                · exact l2 e he
                · rw [hnlen] at f2; exact f2 e he

end SSEPy.Sch.ANSS16
