/-
  SSE-1: WHERE the nodes of a keyword's list go.  The j-th node of the keyword processed after the keywords `pre` is stored at
  array address ψ_K1(1 + |postings of pre| + j): the image, under the keyed bit PRP ψ, of a counter that depends on the
  database only through list LENGTHS.  Placement is a function of the key (a fresh key moves every node), not of keyword
  bytes, identifier bytes or anything else about the input order beyond the lengths that precede the list.
-/
import SSEPyVerif.Proofs.Schemes.SSE1
namespace SSEPy.Sch.SSE1
open SSEPy.Sch

variable (cfg : SSE1Cfg) (lv : Leaves)
variable (hde : ∀ key iv msg c, iv.length = 16 → cfg.ske1.encrypt lv.E key iv msg = .ok c → cfg.ske1.decrypt lv.D key c = .ok msg)
include hde

theorem encDb_at (hlb : cfg.log2sBytes = (cfg.log2s + 7) / 8) (K1 K2 K3 : Bytes) (N : Nat)
    (hinj : PsiInj cfg lv K1 N) (hpl : PsiLen cfg lv K1)
    (db : DB) (ctr : Nat) (A : List Bytes) (T : Table) (t : Tape) (A' : List Bytes) (T' : Table) (t' : Tape)
    (h : encDb cfg lv K1 K2 K3 db ctr A T t = .ok (A', T', t'))
    (hW : Written cfg lv A K1 ctr) (h1 : 1 ≤ ctr) (hN : ctr + db.total ≤ N + 1) (hk : KeysGood cfg t)
    (hidl : ∀ p ∈ db, ∀ x ∈ p.2, x.length = cfg.idSize.toNat)
    (hkeys : (db.map (·.1)).Nodup) (hg : GammaInj cfg lv K3 db) :
    ∀ pre w ids post, db = pre ++ (w, ids) :: post →
      ∃ k0, k0.length = cfg.k.toNat ∧ ListAt cfg lv A' K1 (ctr + DB.total pre) k0 ids := by
  induction db generalizing ctr A T t with
  | nil =>
    intro pre w ids post hdb
    cases pre <;> cases hdb
  | cons p rest ih =>
    obtain ⟨w0, ids0⟩ := p
    simp only [encDb, bind, Except.bind] at h
    split at h
    · cases h
    · rename_i r hr
      obtain ⟨k0, t1⟩ := r
      simp only at h
      split at h
      · cases h
      · rename_i r2 hr2
        obtain ⟨lastKey, ctr1, first, A1, t2⟩ := r2
        simp only at h
        split at h
        · cases h
        · rename_i lastId hlast
          have hlast' : ids0.getLast? = some lastId := by
            cases hx : ids0.getLast? with
            | none => rw [hx] at hlast; cases hlast
            | some x => rw [hx] at hlast; cases hlast; rfl
          have hne : ids0 ≠ [] := by intro e; rw [e] at hlast'; cases hlast'
          split at h
          · cases h
          · rename_i lastAddr hla
            split at h
            · cases h
            · rename_i r3 hr3
              obtain ⟨c, t3⟩ := r3
              obtain ⟨iv, hiv, hc⟩ := skeEncrypt_ok hr3
              simp only at h
              split at h
              · cases h
              · rename_i A2 hset
                split at h
                · cases h
                · rename_i gamma hgam
                  split at h
                  · cases h
                  · rename_i eta heta
                    split at h
                    · cases h
                    · rename_i fb hfb
                      split at h
                      · cases h
                      · rename_i theta hth
                        have htot : DB.total ((w0, ids0) :: rest) = ids0.length + DB.total rest := by simp [DB.total]
                        have hk1 : KeysGood cfg t1 := KeysGood.suffix cfg hk (takeBytes_suffix hr)
                        obtain ⟨n1, n2, n3, n4, n5, n6, n7, n8⟩ :=
                          innerNodes_spec cfg lv hde hlb K1 N hinj hpl ids0 k0 ctr none A t1 lastKey ctr1 first A1 t2 hr2 hne
                            hW h1 (by rw [htot] at hN; omega) hk1 (hidl (w0, ids0) (by simp))
                        have hpos : 0 < ids0.length := List.length_pos_iff.mpr hne
                        have hpv : psiVal cfg lv K1 ctr1 = some lastAddr.value := by simp [psiVal, hla]
                        have hcne : c ≠ [0] := cipher_ne_placeholder cfg.ske1 lv.E lastKey iv _ c (Chain.takeBytes_len hiv) hc
                        obtain ⟨e1, w1, g1⟩ := write_ext cfg lv K1 N ctr1 lastAddr.value A1 A2 c n3 hinj (by omega)
                          (by rw [htot] at hN; omega) hpv hset hcne
                        have hk3 : KeysGood cfg t3 := (KeysGood.suffix cfg hk1 n4).suffix cfg (takeBytes_suffix hiv)
                        simp only [List.map_cons, List.nodup_cons] at hkeys
                        have hg' : GammaInj cfg lv K3 rest := fun w ids w' ids' g hm hm' => hg w ids w' ids' g (by simp [hm]) (by simp [hm'])
                        obtain ⟨i1, _, _, _⟩ := encDb_spec cfg lv hde hlb K1 K2 K3 N hinj hpl rest (ctr1 + 1) A2 (tinsert T gamma theta) t3 A' T' t' h
                          w1 (by omega) (by rw [htot] at hN; omega) hk3 (fun p hp => hidl p (by simp [hp])) hkeys.2 hg'
                        have hih := ih (ctr1 + 1) A2 (tinsert T gamma theta) t3 h w1 (by omega)
                          (by rw [htot] at hN; omega) hk3 (fun p hp => hidl p (by simp [hp])) hkeys.2 hg'
                        intro pre w ids post hdb
                        cases pre with
                        | nil =>
                          simp only [List.nil_append, List.cons.injEq, Prod.mk.injEq] at hdb
                          obtain ⟨⟨rfl, rfl⟩, rfl⟩ := hdb
                          have hlastL : ListAt cfg lv A' K1 ctr1 lastKey [lastId] := by
                            refine ⟨lastAddr.value, c, hpv, i1.2 _ _ g1 hcne, hde _ _ _ _ (Chain.takeBytes_len hiv) hc,
                              hidl (w0, ids0) (by simp) lastId (List.mem_of_getLast? hlast'), by simp [zeros], by simp [zeros]⟩
                          have hL := n8 A' (e1.trans i1) lastId hlast' hlastL
                          exact ⟨k0, Chain.takeBytes_len hr, by simpa [DB.total] using hL⟩
                        | cons q pre' =>
                          simp only [List.cons_append, List.cons.injEq] at hdb
                          obtain ⟨rfl, rfl⟩ := hdb
                          obtain ⟨k1, hk1l, hLat⟩ := hih pre' w ids post rfl
                          refine ⟨k1, hk1l, ?_⟩
                          have : ctr + DB.total ((w0, ids0) :: pre') = ctr1 + 1 + DB.total pre' := by
                            simp [DB.total]; omega
                          rw [this]; exact hLat

/-- after the whole of `Setup` (array fillers and table fillers included) -/
theorem setup_at (hlb : cfg.log2sBytes = (cfg.log2s + 7) / 8) (K1 K2 K3 K4 : Bytes) (pre : DB) (w : Bytes) (ids : List Bytes)
    (post : DB) (t t' : Tape) (edb : SSE1EDB)
    (hs : setup cfg lv [K1, K2, K3, K4] (pre ++ (w, ids) :: post) t = .ok (edb, t'))
    (hinj : PsiInj cfg lv K1 (DB.total (pre ++ (w, ids) :: post))) (hpl : PsiLen cfg lv K1) (hk : KeysGood cfg t)
    (hidl : ∀ p ∈ pre ++ (w, ids) :: post, ∀ x ∈ p.2, x.length = cfg.idSize.toNat)
    (hkeys : ((pre ++ (w, ids) :: post).map (·.1)).Nodup) (hg : GammaInj cfg lv K3 (pre ++ (w, ids) :: post)) :
    ∃ k0, k0.length = cfg.k.toNat ∧ ListAt cfg lv edb.A K1 (1 + DB.total pre) k0 ids := by
  simp only [setup, bind, Except.bind] at hs
  split at hs
  · cases hs
  · rename_i r hr
    obtain ⟨A, T, t1⟩ := r
    simp only at hs
    split at hs
    · cases hs
    · rename_i r2 hr2
      obtain ⟨probe, t2⟩ := r2
      simp only at hs
      split at hs
      · cases hs
      · rename_i r3 hr3
        obtain ⟨A', t3⟩ := r3
        simp only at hs
        split at hs
        · cases hs
        · rename_i r4 hr4
          obtain ⟨T', t4⟩ := r4
          simp only [pure, Except.pure] at hs
          cases hs
          have hW0 : Written cfg lv (List.replicate cfg.s.toNat [0]) K1 1 := by
            intro i c hc hne
            rw [List.getElem?_replicate] at hc
            split at hc
            · cases hc; exact absurd rfl hne
            · cases hc
          obtain ⟨k0, hk0, hL⟩ := encDb_at cfg lv hde hlb K1 K2 K3 _ hinj hpl _ 1 _ [] t A T t1 hr hW0
            (by omega) (by omega) hk hidl hkeys hg pre w ids post rfl
          obtain ⟨e2, _⟩ := fillA_ext _ A t2 A' t3 hr3
          exact ⟨k0, hk0, ListAt.mono cfg lv ids hL e2⟩

end SSEPy.Sch.SSE1
