/-
  C04, structural part for PiPtr: every byte string `EDBSetup` stores — every occupied array cell, every dictionary value —
  is a ciphertext that starts with a 16-byte draw of this run's randomness ("stamped"), and every dictionary label is a PRF
  output.  Identifiers and pointers enter the index only as plaintexts of the randomized cipher.
-/
import SSEPyVerif.Proofs.Schemes.PiPtr
import SSEPyVerif.Model.Schemes.Pi2Lev
import SSEPyVerif.Proofs.Schemes.Levels
namespace SSEPy.Sch

/-- `v` starts with one of the 16-byte strings recorded on the tape -/
def Stamped (t : Tape) (v : Bytes) : Prop := Draw.bytes (v.take 16) ∈ t

theorem Stamped.mono {t t' : Tape} {v : Bytes} (hs : Suffix t' t) (h : Stamped t' v) : Stamped t v := by
  obtain ⟨pre, rfl⟩ := hs
  exact List.mem_append_right _ h

theorem skeEncrypt_stamped {ske : AESxCBC} {lv : Leaves} {key msg : Bytes} {t t' : Tape} {c : Bytes}
    (h : skeEncrypt ske lv key msg t = .ok (c, t')) : Stamped t c ∧ Suffix t' t := by
  obtain ⟨iv, hiv, he⟩ := skeEncrypt_ok h
  have hl := Chain.takeBytes_len hiv
  have hp := C14.enc_iv_prefix ske lv.E key iv msg c hl he
  refine ⟨?_, takeBytes_suffix hiv⟩
  unfold Stamped
  rw [hp, takeBytes_cons hiv]
  exact List.mem_cons_self

theorem Chain.encChunks_stamped (cfg : ChainCfg) (lv : Leaves) (K1 K2 : Bytes) (c : Nat) (chs : List Bytes) (t t' : Tape)
    (ps : List (Bytes × Bytes)) (h : Chain.encChunks cfg lv K1 K2 c chs t = .ok (ps, t')) :
    (∀ p ∈ ps, Stamped t p.2) ∧ Suffix t' t := by
  induction chs generalizing c t ps with
  | nil => simp [Chain.encChunks] at h; obtain ⟨rfl, rfl⟩ := h; exact ⟨(fun p hp => by cases hp), Suffix.refl _⟩
  | cons ch rest ih =>
    simp only [Chain.encChunks, bind, Except.bind] at h
    split at h
    · cases h
    · split at h
      · cases h
      · rename_i r hr0
        obtain ⟨d, t1⟩ := r
        simp only at h
        split at h
        · cases h
        · rename_i r2 hr2
          obtain ⟨ps', t2⟩ := r2
          simp only [pure, Except.pure] at h
          cases h
          obtain ⟨s1, s2⟩ := skeEncrypt_stamped hr0
          obtain ⟨i1, i2⟩ := ih _ _ _ hr2
          refine ⟨?_, i2.trans s2⟩
          intro p hp
          simp only [List.mem_cons] at hp
          rcases hp with rfl | hp
          · exact s1
          · exact (i1 p hp).mono s2

theorem mem_tinsert (T : Table) (k v : Bytes) (e : Bytes × Bytes) (h : e ∈ tinsert T k v) : e ∈ T ∨ e = (k, v) := by
  induction T with
  | nil => simp [tinsert] at h; exact Or.inr h
  | cons p rest ih =>
    obtain ⟨a, b⟩ := p
    simp only [tinsert] at h
    split at h
    · simp only [List.mem_cons] at h
      rcases h with rfl | h
      · rename_i hak; subst hak; exact Or.inr rfl
      · exact Or.inl (by simp [h])
    · simp only [List.mem_cons] at h
      rcases h with rfl | h
      · exact Or.inl (by simp)
      · rcases ih h with h | h
        · exact Or.inl (by simp [h])
        · exact Or.inr h

theorem mem_foldl_tinsert (ps : List (Bytes × Bytes)) (T : Table) (e : Bytes × Bytes)
    (h : e ∈ ps.foldl (fun t p => tinsert t p.1 p.2) T) : e ∈ T ∨ e ∈ ps := by
  induction ps generalizing T with
  | nil => exact Or.inl h
  | cons p rest ih =>
    simp only [List.foldl_cons] at h
    rcases ih _ h with h | h
    · rcases mem_tinsert T p.1 p.2 e h with h | h
      · exact Or.inl h
      · exact Or.inr (by rw [h]; simp)
    · exact Or.inr (by simp [h])

/-- a table built from a pair list stores nothing but pairs of that list -/
theorem mem_buildTable (ps : List (Bytes × Bytes)) (e : Bytes × Bytes) (h : e ∈ buildTable ps) : e ∈ ps := by
  unfold buildTable tableOfList at h
  rcases mem_foldl_tinsert _ [] e h with h | h
  · cases h
  · exact (List.mergeSort_perm ps _).mem_iff.mp h

namespace PiPtr
variable (cfg : PiPtrCfg) (lv : Leaves)

theorem placeBlocks_stamped (K2 : Bytes) (idx : Nat) (blocks : List Bytes) (avail : List Nat) (A : List (Option Bytes)) (t : Tape)
    (ptrs : List Bytes) (avail' : List Nat) (A' : List (Option Bytes)) (t' : Tape)
    (h : placeBlocks cfg lv K2 idx blocks avail A t = .ok (ptrs, avail', A', t')) :
    (∀ c, some c ∈ A' → some c ∈ A ∨ Stamped t c) ∧ Suffix t' t := by
  induction blocks generalizing avail A t ptrs with
  | nil => simp [placeBlocks] at h; obtain ⟨_, _, rfl, rfl⟩ := h; exact ⟨fun c hc => Or.inl hc, Suffix.refl _⟩
  | cons blk rest ih =>
    unfold placeBlocks at h
    split at h
    · cases h
    · rename_i pos hpos
      simp only [bind, Except.bind] at h
      split at h
      · cases h
      · split at h
        · cases h
        · rename_i r hr
          obtain ⟨d, t1⟩ := r
          simp only at h
          split at h
          · cases h
          · split at h
            · cases h
            · rename_i r2 hr2
              obtain ⟨ptrs', av2, A2, t2⟩ := r2
              simp only [pure, Except.pure] at h
              cases h
              obtain ⟨s1, s2⟩ := skeEncrypt_stamped hr
              obtain ⟨i1, i2⟩ := ih _ _ _ _ hr2
              refine ⟨?_, i2.trans s2⟩
              intro c hc
              rcases i1 c hc with hm | hst
              · rcases List.mem_or_eq_of_mem_set hm with hm | he
                · exact Or.inl hm
                · cases he; exact Or.inr s1
              · exact Or.inr (hst.mono s2)

theorem encDb_stamped (K : Bytes) (idx : Nat) (db : DB) (avail : List Nat) (A : List (Option Bytes)) (t : Tape)
    (L : List (Bytes × Bytes)) (A' : List (Option Bytes)) (t' : Tape)
    (h : encDb cfg lv K idx db avail A t = .ok (L, A', t')) :
    (∀ c, some c ∈ A' → some c ∈ A ∨ Stamped t c) ∧ (∀ p ∈ L, Stamped t p.2) ∧ Suffix t' t := by
  induction db generalizing avail A t L with
  | nil => simp [encDb] at h; obtain ⟨rfl, rfl, rfl⟩ := h; exact ⟨fun c hc => Or.inl hc, (fun p hp => by cases hp), Suffix.refl _⟩
  | cons q rest ih =>
    obtain ⟨w, ids⟩ := q
    simp only [encDb, bind, Except.bind] at h
    split at h
    · cases h
    · rename_i tk _
      obtain ⟨K1, K2⟩ := tk
      simp only at h
      split at h
      · cases h
      · split at h
        · cases h
        · rename_i r hr
          obtain ⟨ptrs, avail1, A1, t1⟩ := r
          simp only at h
          split at h
          · cases h
          · split at h
            · cases h
            · rename_i r2 hr2
              obtain ⟨ps, t2⟩ := r2
              simp only at h
              split at h
              · cases h
              · rename_i r3 hr3
                obtain ⟨qs, A2, t3⟩ := r3
                simp only [pure, Except.pure] at h
                cases h
                obtain ⟨p1, p2⟩ := placeBlocks_stamped cfg lv K2 idx _ avail A t ptrs avail1 A1 t1 hr
                obtain ⟨c1, c2⟩ := Chain.encChunks_stamped cfg.chain lv K1 K2 0 _ t1 t2 ps hr2
                obtain ⟨i1, i2, i3⟩ := ih _ _ _ _ hr3
                refine ⟨?_, ?_, i3.trans (c2.trans p2)⟩
                · intro c hc
                  rcases i1 c hc with hm | hst
                  · exact p1 c hm
                  · exact Or.inr (hst.mono (c2.trans p2))
                · intro p hp
                  simp only [List.mem_append] at hp
                  rcases hp with hp | hp
                  · exact (c1 p hp).mono p2
                  · exact (i2 p hp).mono (c2.trans p2)

/-- everything `EDBSetup` stores is a ciphertext stamped with a draw of this run -/
theorem setup_stamped (K : Bytes) (db : DB) (t t' : Tape) (edb : PiPtrEDB) (h : setup cfg lv K db t = .ok (edb, t')) :
    (∀ c, some c ∈ edb.A → Stamped t c) ∧ (∀ p ∈ edb.D, Stamped t p.2) := by
  simp only [setup, bind, Except.bind] at h
  split at h
  · cases h
  · rename_i r hr
    obtain ⟨avail, t0⟩ := r
    simp only at h
    split at h
    · cases h
    · split at h
      · cases h
      · rename_i r2 hr2
        obtain ⟨L, A, t1⟩ := r2
        simp only [pure, Except.pure] at h
        cases h
        have hsuf : Suffix t0 t := by
          unfold takeNats at hr
          split at hr
          · cases hr; exact ⟨[_], rfl⟩
          · cases hr
        obtain ⟨e1, e2, _⟩ := encDb_stamped cfg lv K _ db avail _ t0 L A _ hr2
        refine ⟨?_, ?_⟩
        · intro c hc
          rcases e1 c hc with hm | hst
          · simp [List.mem_replicate] at hm
          · exact hst.mono hsuf
        · intro p hp
          exact (e2 p (mem_buildTable L p hp)).mono hsuf

end PiPtr
namespace Pi2Lev
variable (cfg : Pi2LevCfg) (lv : Leaves)

theorem placeBlocks_stamped (K2 : Bytes) (mark : UInt8) (blocks : List Bytes) (avail : List Nat) (A : List (Option Bytes)) (t : Tape)
    (ptrs : List Bytes) (avail' : List Nat) (A' : List (Option Bytes)) (t' : Tape)
    (h : placeBlocks cfg lv K2 mark blocks avail A t = .ok (ptrs, avail', A', t')) :
    (∀ c, some c ∈ A' → some c ∈ A ∨ Stamped t c) ∧ Suffix t' t := by
  induction blocks generalizing avail A t ptrs with
  | nil => simp [placeBlocks] at h; obtain ⟨_, _, rfl, rfl⟩ := h; exact ⟨fun c hc => Or.inl hc, Suffix.refl _⟩
  | cons blk rest ih =>
    unfold placeBlocks at h
    split at h
    · cases h
    · simp only [bind, Except.bind] at h
      split at h
      · cases h
      · split at h
        · cases h
        · rename_i r hr
          obtain ⟨d, t1⟩ := r
          simp only at h
          split at h
          · cases h
          · split at h
            · cases h
            · rename_i r2 hr2
              obtain ⟨ptrs', av2, A2, t2⟩ := r2
              simp only [pure, Except.pure] at h
              cases h
              obtain ⟨s1, s2⟩ := skeEncrypt_stamped hr
              obtain ⟨i1, i2⟩ := ih _ _ _ _ hr2
              refine ⟨?_, i2.trans s2⟩
              intro c hc
              rcases i1 c hc with hm | hst
              · rcases List.mem_or_eq_of_mem_set hm with hm | he
                · exact Or.inl hm
                · cases he; exact Or.inr s1
              · exact Or.inr (hst.mono s2)

theorem dictEntry_stamped (K1 K2 : Bytes) (mark : UInt8) (content : Bytes) (t t' : Tape) (e : Bytes × Bytes)
    (h : dictEntry cfg lv K1 K2 mark content t = .ok (e, t')) : Stamped t e.2 ∧ Suffix t' t := by
  simp only [dictEntry, bind, Except.bind] at h
  split at h
  · cases h
  · split at h
    · cases h
    · rename_i r hr
      obtain ⟨d, t1⟩ := r
      simp only [pure, Except.pure] at h
      cases h
      exact skeEncrypt_stamped hr

theorem storeKeyword_stamped (K1 K2 : Bytes) (ids : List Bytes) (avail : List Nat) (A : List (Option Bytes)) (t : Tape)
    (e : Bytes × Bytes) (avail' : List Nat) (A' : List (Option Bytes)) (t' : Tape)
    (h : storeKeyword cfg lv K1 K2 ids avail A t = .ok (e, avail', A', t')) :
    (∀ c, some c ∈ A' → some c ∈ A ∨ Stamped t c) ∧ Stamped t e.2 ∧ Suffix t' t := by
  unfold storeKeyword at h
  simp only [bind, Except.bind] at h
  split at h
  · split at h
    · cases h
    · rename_i r hr
      obtain ⟨e0, t1⟩ := r
      simp only [pure, Except.pure] at h
      cases h
      obtain ⟨d1, d2⟩ := dictEntry_stamped cfg lv K1 K2 0 _ t _ _ hr
      exact ⟨fun c hc => Or.inl hc, d1, d2⟩
  · split at h
    · split at h
      · cases h
      · split at h
        · cases h
        · rename_i r hr
          obtain ⟨ptrs, avail1, A1, t1⟩ := r
          simp only at h
          split at h
          · cases h
          · rename_i r2 hr2
            obtain ⟨e0, t2⟩ := r2
            simp only [pure, Except.pure] at h
            cases h
            obtain ⟨p1, p2⟩ := placeBlocks_stamped cfg lv K2 0 _ avail A t ptrs _ _ t1 hr
            obtain ⟨d1, d2⟩ := dictEntry_stamped cfg lv K1 K2 1 _ t1 _ _ hr2
            exact ⟨p1, d1.mono p2, d2.trans p2⟩
    · split at h
      · split at h
        · cases h
        · split at h
          · cases h
          · rename_i r hr
            obtain ⟨ptrs, avail1, A1, t1⟩ := r
            simp only at h
            split at h
            · cases h
            · split at h
              · cases h
              · rename_i r2 hr2
                obtain ⟨ptrs2, avail2, A2, t2⟩ := r2
                simp only at h
                split at h
                · cases h
                · rename_i r3 hr3
                  obtain ⟨e0, t3⟩ := r3
                  simp only [pure, Except.pure] at h
                  cases h
                  obtain ⟨p1, p2⟩ := placeBlocks_stamped cfg lv K2 0 _ avail A t ptrs avail1 A1 t1 hr
                  obtain ⟨q1, q2⟩ := placeBlocks_stamped cfg lv K2 1 _ avail1 A1 t1 ptrs2 _ _ t2 hr2
                  obtain ⟨d1, d2⟩ := dictEntry_stamped cfg lv K1 K2 1 _ t2 _ _ hr3
                  refine ⟨?_, d1.mono (q2.trans p2), d2.trans (q2.trans p2)⟩
                  intro c hc
                  rcases q1 c hc with hm | hst
                  · exact p1 c hm
                  · exact Or.inr (hst.mono p2)
      · cases h

theorem encDb_stamped (K : Bytes) (db : DB) (avail : List Nat) (A : List (Option Bytes)) (t : Tape)
    (L : List (Bytes × Bytes)) (A' : List (Option Bytes)) (t' : Tape)
    (h : encDb cfg lv K db avail A t = .ok (L, A', t')) :
    (∀ c, some c ∈ A' → some c ∈ A ∨ Stamped t c) ∧ (∀ p ∈ L, Stamped t p.2) ∧ Suffix t' t := by
  induction db generalizing avail A t L with
  | nil => simp [encDb] at h; obtain ⟨rfl, rfl, rfl⟩ := h; exact ⟨fun c hc => Or.inl hc, (fun p hp => by cases hp), Suffix.refl _⟩
  | cons q rest ih =>
    obtain ⟨w, ids⟩ := q
    simp only [encDb, bind, Except.bind] at h
    split at h
    · cases h
    · rename_i tk _
      obtain ⟨K1, K2⟩ := tk
      simp only at h
      split at h
      · cases h
      · rename_i r hr
        obtain ⟨entry, avail1, A1, t1⟩ := r
        simp only at h
        split at h
        · cases h
        · rename_i r3 hr3
          obtain ⟨qs, A2, t3⟩ := r3
          simp only [pure, Except.pure] at h
          cases h
          obtain ⟨s1, s2, s3⟩ := storeKeyword_stamped cfg lv K1 K2 ids avail A t entry avail1 A1 t1 hr
          obtain ⟨i1, i2, i3⟩ := ih _ _ _ _ hr3
          refine ⟨?_, ?_, i3.trans s3⟩
          · intro c hc
            rcases i1 c hc with hm | hst
            · exact s1 c hm
            · exact Or.inr (hst.mono s3)
          · intro p hp
            simp only [List.mem_cons] at hp
            rcases hp with rfl | hp
            · exact s2
            · exact (i2 p hp).mono s3

theorem setup_stamped (K : Bytes) (db : DB) (t t' : Tape) (edb : PiPtrEDB) (h : setup cfg lv K db t = .ok (edb, t')) :
    (∀ c, some c ∈ edb.A → Stamped t c) ∧ (∀ p ∈ edb.D, Stamped t p.2) := by
  simp only [setup, bind, Except.bind] at h
  split at h
  · cases h
  · split at h
    · cases h
    · split at h
      · cases h
      · rename_i r hr
        obtain ⟨avail, t0⟩ := r
        simp only at h
        split at h
        · cases h
        · split at h
          · cases h
          · rename_i r2 hr2
            obtain ⟨L, A, t1⟩ := r2
            simp only [pure, Except.pure] at h
            cases h
            have hsuf : Suffix t0 t := by
              unfold takeNats at hr
              split at hr
              · cases hr; exact ⟨[_], rfl⟩
              · cases hr
            obtain ⟨e1, e2, _⟩ := encDb_stamped cfg lv K db avail _ t0 L A _ hr2
            refine ⟨?_, ?_⟩
            · intro c hc
              rcases e1 c hc with hm | hst
              · simp [List.mem_replicate] at hm
              · exact hst.mono hsuf
            · intro p hp
              exact (e2 p (mem_buildTable L p hp)).mono hsuf

end Pi2Lev
end SSEPy.Sch
