/-
  Lemmas shared by the level-table schemes (CT14, ANSS16).
-/
import SSEPyVerif.Proofs.Schemes.ChainCfg
import SSEPyVerif.Model.Schemes.Levels
namespace SSEPy.Sch

/-- `[Encrypt(key, x) for x in xs]` decrypts back, element by element -/
theorem encAll_spec (ske : AESxCBC) (lv : Leaves)
    (hde : ∀ key iv msg c, iv.length = 16 → ske.encrypt lv.E key iv msg = .ok c → ske.decrypt lv.D key c = .ok msg)
    (key : Bytes) (xs : List Bytes) (t t' : Tape) (cs : List Bytes) (h : encAll ske lv key xs t = .ok (cs, t')) :
    cs.length = xs.length ∧ decAll ske lv key cs = .ok xs := by
  induction xs generalizing t cs with
  | nil => simp [encAll] at h; cases h.1; exact ⟨rfl, rfl⟩
  | cons x rest ih =>
    simp only [encAll, bind, Except.bind] at h
    split at h
    · cases h
    · rename_i r hr0
      obtain ⟨c, t1⟩ := r
      obtain ⟨iv, hr, hc⟩ := skeEncrypt_ok hr0
      simp only at h
      split at h
      · cases h
      · rename_i r2 hr2
        obtain ⟨cs', t2⟩ := r2
        simp only [pure, Except.pure] at h
        cases h
        obtain ⟨i1, i2⟩ := ih _ _ hr2
        refine ⟨by simp [i1], ?_⟩
        simp [decAll, hde _ _ _ _ (Chain.takeBytes_len hr) hc, i2, bind, Except.bind, pure, Except.pure]

/-- ciphertext lengths of `encAll` -/
theorem encAll_lens (ske : AESxCBC) (lv : Leaves) (hE : ∀ key x : Bytes, x.length = 16 → (lv.E key x).length = 16)
    (key : Bytes) (xs : List Bytes) (t t' : Tape) (cs : List Bytes) (h : encAll ske lv key xs t = .ok (cs, t'))
    (sz : Nat) (hsz : ∀ x ∈ xs, x.length = sz) : ∀ c ∈ cs, c.length = 16 + 16 * (sz / 16 + 1) := by
  induction xs generalizing t cs with
  | nil => simp [encAll] at h; cases h.1; intro c hc; cases hc
  | cons x rest ih =>
    simp only [encAll, bind, Except.bind] at h
    split at h
    · cases h
    · rename_i r hr0
      obtain ⟨c, t1⟩ := r
      obtain ⟨iv, hr, hc⟩ := skeEncrypt_ok hr0
      simp only at h
      split at h
      · cases h
      · rename_i r2 hr2
        obtain ⟨cs', t2⟩ := r2
        simp only [pure, Except.pure] at h
        cases h
        intro c' hc'
        simp only [List.mem_cons] at hc'
        rcases hc' with rfl | hc'
        · have := C14.enc_len ske lv.E key iv x c' (hE key) (Chain.takeBytes_len hr) hc
          rw [this, hsz x (by simp)]
        · exact ih _ _ hr2 (fun y hy => hsz y (by simp [hy])) c' hc'

theorem decAll_take (ske : AESxCBC) (lv : Leaves) (key : Bytes) (cs xs : List Bytes) (n : Nat)
    (h : decAll ske lv key cs = .ok xs) : decAll ske lv key (cs.take n) = .ok (xs.take n) := by
  induction cs generalizing xs n with
  | nil => simp [decAll] at h; subst h; simp [decAll]
  | cons c rest ih =>
    simp only [decAll, bind, Except.bind] at h
    split at h
    · cases h
    · rename_i p hp
      split at h
      · cases h
      · rename_i ps hps
        simp only [pure, Except.pure] at h
        cases h
        cases n with
        | zero => simp [decAll]
        | succ m => simp [decAll, hp, ih ps m hps, bind, Except.bind, pure, Except.pure]

theorem pushAt_spec {α : Type} (ls : List (List α)) (j : Nat) (x : α) (ls' : List (List α)) (h : pushAt ls j x = .ok ls') :
    ls'.length = ls.length ∧ (∃ l, ls[j]? = some l ∧ ls'[j]? = some (l ++ [x])) ∧ ∀ i, i ≠ j → ls'[i]? = ls[i]? := by
  unfold pushAt at h
  split at h
  · cases h
  · rename_i l hl
    cases h
    have hj : j < ls.length := by
      rcases Nat.lt_or_ge j ls.length with h | h
      · exact h
      · rw [List.getElem?_eq_none h] at hl; cases hl
    refine ⟨by simp, ⟨l, hl, by simp [hj]⟩, ?_⟩
    intro i hi
    simp [List.getElem?_set, Ne.symm hi]

/-- `e` is an entry of level `p` -/
def InLevel {α : Type} (ls : List (List α)) (p : Nat) (e : α) : Prop := ∃ l, ls[p]? = some l ∧ e ∈ l

theorem pushAt_inLevel_new {α : Type} (ls : List (List α)) (j : Nat) (x : α) (ls' : List (List α)) (h : pushAt ls j x = .ok ls') :
    InLevel ls' j x := by
  obtain ⟨_, ⟨l, _, h2⟩, _⟩ := pushAt_spec ls j x ls' h
  exact ⟨l ++ [x], h2, by simp⟩

theorem pushAt_inLevel_old {α : Type} (ls : List (List α)) (j : Nat) (x : α) (ls' : List (List α)) (h : pushAt ls j x = .ok ls')
    (p : Nat) (e : α) (he : InLevel ls p e) : InLevel ls' p e := by
  obtain ⟨_, ⟨l, h1, h2⟩, h3⟩ := pushAt_spec ls j x ls' h
  obtain ⟨l0, hl0, hm⟩ := he
  by_cases hp : p = j
  · subst hp
    rw [h1] at hl0; cases hl0
    exact ⟨l ++ [x], h2, by simp [hm]⟩
  · exact ⟨l0, by rw [h3 p hp]; exact hl0, hm⟩

/-! ### tapes: every operation returns a suffix of the tape it was given; 16-byte draws that are not all zero -/

def Suffix (t' t : Tape) : Prop := ∃ pre, t = pre ++ t'

theorem Suffix.refl (t : Tape) : Suffix t t := ⟨[], rfl⟩
theorem Suffix.trans {a b c : Tape} (h1 : Suffix a b) (h2 : Suffix b c) : Suffix a c := by
  obtain ⟨p1, rfl⟩ := h1; obtain ⟨p2, rfl⟩ := h2; exact ⟨p2 ++ p1, by simp⟩

theorem takeBytes_cons {n : Nat} {t t' : Tape} {b : Bytes} (h : takeBytes n t = .ok (b, t')) : t = Draw.bytes b :: t' := by
  cases t with
  | nil => simp [takeBytes] at h
  | cons x xs =>
    cases x with
    | bytes y =>
      simp only [takeBytes] at h
      split at h
      · cases h; rfl
      · cases h
    | nat _ => simp [takeBytes] at h
    | nats _ => simp [takeBytes] at h

theorem takeBytes_suffix {n : Nat} {t t' : Tape} {b : Bytes} (h : takeBytes n t = .ok (b, t')) : Suffix t' t :=
  ⟨[Draw.bytes b], by rw [takeBytes_cons h]; rfl⟩

theorem takeBytesN_suffix (n k : Nat) (t t' : Tape) (bs : List Bytes) (h : takeBytesN n k t = .ok (bs, t')) : Suffix t' t := by
  induction k generalizing t bs with
  | zero => simp [takeBytesN] at h; cases h.2; exact Suffix.refl _
  | succ m ih =>
    simp only [takeBytesN, bind, Except.bind] at h
    split at h
    · cases h
    · rename_i r hr
      obtain ⟨b, t1⟩ := r
      simp only at h
      split at h
      · cases h
      · rename_i r2 hr2
        obtain ⟨bs', t2⟩ := r2
        simp only [pure, Except.pure] at h
        cases h
        exact (ih _ _ hr2).trans (takeBytes_suffix hr)

theorem takeNat_suffix {t t' : Tape} {n : Nat} (h : takeNat t = .ok (n, t')) : Suffix t' t := by
  cases t with
  | nil => simp [takeNat] at h
  | cons x xs =>
    cases x with
    | nat m => simp [takeNat] at h; obtain ⟨rfl, rfl⟩ := h; exact ⟨[Draw.nat m], rfl⟩
    | bytes _ => simp [takeNat] at h
    | nats _ => simp [takeNat] at h

theorem padLoop_suffix (idSize cap fuel : Nat) (db : DB) (N : Nat) (t : Tape) (pdb : DB) (t' : Tape)
    (h : padLoop idSize cap fuel db N t = .ok (pdb, t')) : Suffix t' t := by
  induction fuel generalizing db N t with
  | zero => simp [padLoop] at h
  | succ f ih =>
    simp only [padLoop] at h
    split at h
    · simp only [bind, Except.bind] at h
      split at h
      · cases h
      · rename_i r hr
        obtain ⟨kw, t1⟩ := r
        simp only at h
        split at h
        · cases h
        · rename_i r2 hr2
          obtain ⟨n, t2⟩ := r2
          simp only at h
          split at h
          · simp [throw, throwThe, MonadExceptOf.throw] at h
          · try simp only [pure, Except.pure] at h
            split at h
            · cases h
            · rename_i r3 hr3
              obtain ⟨ids, t3⟩ := r3
              simp only at h
              exact (ih _ _ _ h).trans ((takeBytesN_suffix _ _ _ _ _ hr3).trans ((takeNat_suffix hr2).trans (takeBytes_suffix hr)))
    · cases h; exact Suffix.refl _

/-- no 16-byte draw on the tape is all zero (an all-zero IV has probability 2^-128) -/
def GoodTape (t : Tape) : Prop := ∀ b, Draw.bytes b ∈ t → b.length = 16 → allZero b = false

theorem GoodTape.suffix {t t' : Tape} (h : GoodTape t) (hs : Suffix t' t) : GoodTape t' := by
  obtain ⟨pre, rfl⟩ := hs
  intro b hb hl
  exact h b (List.mem_append_right _ hb) hl

theorem allZero_take (c : Bytes) (n : Nat) (h : allZero c = true) : allZero (c.take n) = true := by
  unfold allZero at *
  rw [List.all_eq_true] at *
  intro x hx
  exact h x (List.mem_of_mem_take hx)

/-- a ciphertext whose IV is not all zero is not all zero -/
theorem cipher_nonzero (ske : AESxCBC) (lv : Leaves) (key msg : Bytes) (t t' : Tape) (c : Bytes)
    (h : skeEncrypt ske lv key msg t = .ok (c, t')) (hg : GoodTape t) : allZero c = false ∧ Suffix t' t := by
  obtain ⟨iv, hiv, hc⟩ := skeEncrypt_ok h
  have hl := Chain.takeBytes_len hiv
  have hpre := C14.enc_iv_prefix ske lv.E key iv msg c hl hc
  have hnz := hg iv (by rw [takeBytes_cons hiv]; simp) hl
  refine ⟨?_, takeBytes_suffix hiv⟩
  cases hz : allZero c with
  | false => rfl
  | true =>
    have := allZero_take c 16 hz
    rw [hpre, hnz] at this
    cases this

theorem cipher_suffix {ske : AESxCBC} {lv : Leaves} {key msg : Bytes} {t t' : Tape} {c : Bytes}
    (h : skeEncrypt ske lv key msg t = .ok (c, t')) : Suffix t' t := by
  obtain ⟨iv, hiv, _⟩ := skeEncrypt_ok h
  exact takeBytes_suffix hiv

theorem encAll_nonzero (ske : AESxCBC) (lv : Leaves) (key : Bytes) (xs : List Bytes) (t t' : Tape) (cs : List Bytes)
    (h : encAll ske lv key xs t = .ok (cs, t')) (hg : GoodTape t) : (∀ c ∈ cs, allZero c = false) ∧ Suffix t' t := by
  induction xs generalizing t cs with
  | nil =>
    simp [encAll] at h
    obtain ⟨rfl, rfl⟩ := h
    exact ⟨fun c hc => (nomatch hc), Suffix.refl _⟩
  | cons x rest ih =>
    simp only [encAll, bind, Except.bind] at h
    split at h
    · cases h
    · rename_i r hr0
      obtain ⟨c, t1⟩ := r
      obtain ⟨hz, hs1⟩ := cipher_nonzero ske lv key x t t1 c hr0 hg
      simp only at h
      split at h
      · cases h
      · rename_i r2 hr2
        obtain ⟨cs', t2⟩ := r2
        simp only [pure, Except.pure] at h
        cases h
        obtain ⟨i1, i2⟩ := ih _ _ hr2 (hg.suffix hs1)
        refine ⟨?_, i2.trans hs1⟩
        intro c' hc'
        simp only [List.mem_cons] at hc'
        rcases hc' with rfl | hc'
        · exact hz
        · exact i1 c' hc'

/-- a block of `n` equally long ciphertexts, none all zero, parses back into them -/
theorem parse_cipher_block (cs : List Bytes) (n clen : Nat) (hn : 0 < n) (hclen : 0 < clen) (hl : cs.length = n)
    (hlen : ∀ c ∈ cs, c.length = clen) (hnz : ∀ c ∈ cs, allZero c = false) :
    parseByCount cs.flatten ((n : Nat) : Int) = .ok cs := by
  have hflen : cs.flatten.length = cs.length * clen := flatten_length_of_all clen cs hlen
  have e1 := (C17.wrappers_agree [] cs.flatten n 0 0).2.2
  rw [e1, C17.parse_by_count cs.flatten _ clen hn (by rw [hflen, hl]; exact Nat.mul_div_cancel_left _ hn)]
  unfold parseBySizeNat
  have : clen ≠ 0 := by omega
  simp only [this, if_false]
  have := parseLoop_flatten_zeros clen hclen cs 0 cs.flatten.length
    (fun c hc => ⟨hlen c hc, hnz c hc⟩) (by simp [zeros])
  simp only [zeros, List.replicate_zero, List.append_nil] at this
  rw [this]

end SSEPy.Sch
