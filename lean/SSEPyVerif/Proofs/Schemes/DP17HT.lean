/-
  DP17: the shape of the hash table — exactly `N` entries (one per chunk, the rest random fillers), every key and every
  value `param_digest_size` bytes long.
-/
import SSEPyVerif.Proofs.Schemes.DP17Shape
import SSEPyVerif.Proofs.Schemes.SSE1Shape
namespace SSEPy.Sch.DP17
open SSEPy.Sch

variable (cfg : DP17Cfg) (lv : Leaves)
variable (d : Nat) (hd0 : 0 < d) (hsha : ∀ m, (lv.sha m).length = d)

/-- the filler loops of DP17 and SSE-1 are the same loop -/
theorem fillHT_eq_fillT (dd n : Nat) (T : Table) (t : Tape) : fillHT dd n T t = SSE1.fillT dd dd n T t := by
  induction n generalizing T t with
  | zero => rfl
  | succ m ih =>
    simp only [fillHT, SSE1.fillT, bind, Except.bind]
    split
    · rfl
    · split
      · rfl
      · exact ih _ _

include hd0 hsha

theorem htInsert_shape (k1 k2 w : Bytes) (count i x : Nat) (c : List Bytes) (HT HT' : Table)
    (h : htInsert cfg lv k1 k2 w count i x c HT = .ok HT') (hT : ANSS16.EntLens HT cfg.dsz cfg.dsz) :
    ANSS16.EntLens HT' cfg.dsz cfg.dsz ∧ HT'.length ≤ HT.length + 1 := by
  unfold htInsert at h
  split at h
  · cases h; exact ⟨hT, by omega⟩
  · simp only [bind, Except.bind, pure, Except.pure] at h
    split at h
    · cases h
    · rename_i key hkey
      split at h
      · cases h
      · rename_i v hv
        cases h
        have hkl : key.length = cfg.dsz := by
          simp only [htKey, bind, Except.bind] at hkey
          split at hkey
          · cases hkey
          · rename_i tag _
            obtain ⟨r, hr, hrl⟩ := C16.ctr_expand_len lv.sha d hsha hd0 (tag ++ natToBytesMin count) cfg.dsz
            unfold hashH at hkey
            rw [hr] at hkey; cases hkey; exact hrl
        have hvl : v.length = cfg.dsz := by
          simp only [htVal, bind, Except.bind] at hv
          split at hv
          · cases hv
          · rename_i ib hib
            split at hv
            · cases hv
            · rename_i xb hxb
              split at hv
              · cases hv
              · split at hv
                · cases hv
                · unfold bytesXor at hv
                  split at hv
                  · cases hv
                  · cases hv
                    rw [xorPrefix_length, List.length_append, (C17.int_roundtrip _ _ _ hib).2, (C17.int_roundtrip _ _ _ hxb).2]
                    omega
        refine ⟨?_, ?_⟩
        · intro e he
          rcases SSE1.tinsert_mem HT key v e he with he | rfl
          · exact hT e he
          · exact ⟨hkl, hvl⟩
        · rw [SSE1.tinsert_length]; split <;> omega

theorem placeChunks_ht (k1 k2 w : Bytes) (i : Nat) (cw : List (List Bytes)) (count : Nat) (lvl : Level)
    (HT : Table) (t : Tape) (lvl' : Level) (HT' : Table) (t' : Tape)
    (h : placeChunks cfg lv k1 k2 w i cw count lvl HT t = .ok (lvl', HT', t')) (hT : ANSS16.EntLens HT cfg.dsz cfg.dsz) :
    ANSS16.EntLens HT' cfg.dsz cfg.dsz ∧ HT'.length ≤ HT.length + cw.length := by
  induction cw generalizing count lvl HT t with
  | nil => simp [placeChunks] at h; obtain ⟨_, rfl, _⟩ := h; exact ⟨hT, by simp⟩
  | cons c rest ih =>
    simp only [placeChunks] at h
    split at h
    · simp [throw, throwThe, MonadExceptOf.throw, bind, Except.bind] at h
    · simp only [bind, Except.bind, pure, Except.pure] at h
      split at h
      · cases h
      · rename_i r hr
        obtain ⟨x, t1⟩ := r
        simp only at h
        split at h
        · simp [throw, throwThe, MonadExceptOf.throw] at h
        · split at h
          · cases h
          · rename_i HT1 hHT1
            obtain ⟨s1, s2⟩ := htInsert_shape cfg lv d hd0 hsha k1 k2 w _ i x c HT HT1 hHT1 hT
            obtain ⟨i1, i2⟩ := ih _ _ _ _ h s1
            exact ⟨i1, by simp only [List.length_cons]; omega⟩

theorem encDb_ht (k1 k2 : Bytes) (levels : List Int) (db : DB) (ls : List Level) (HT : Table) (t : Tape)
    (ls' : List Level) (HT' : Table) (t' : Tape) (h : encDb cfg lv k1 k2 levels db ls HT t = .ok (ls', HT', t'))
    (hT : ANSS16.EntLens HT cfg.dsz cfg.dsz) :
    ANSS16.EntLens HT' cfg.dsz cfg.dsz ∧ HT'.length ≤ HT.length + db.total := by
  induction db generalizing ls HT t with
  | nil => simp [encDb] at h; obtain ⟨_, rfl, _⟩ := h; exact ⟨hT, by simp⟩
  | cons p rest ih =>
    obtain ⟨w0, ids0⟩ := p
    simp only [encDb, bind, Except.bind] at h
    split at h
    · cases h
    · split at h
      · simp [throw, throwThe, MonadExceptOf.throw] at h
      · try simp only [pure, Except.pure] at h
        split at h
        · cases h
        · split at h
          · cases h
          · rename_i cw hcw
            split at h
            · cases h
            · rename_i r hr
              obtain ⟨lvl1, HT1, t1⟩ := r
              simp only at h
              obtain ⟨_, _, hcl, _⟩ := chunks_spec ids0 _ cw hcw
              obtain ⟨p1, p2⟩ := placeChunks_ht cfg lv d hd0 hsha k1 k2 w0 _ cw 0 _ HT t lvl1 HT1 t1 hr hT
              obtain ⟨i1, i2⟩ := ih _ _ _ h p1
              refine ⟨i1, ?_⟩
              have : DB.total ((w0, ids0) :: rest) = ids0.length + DB.total rest := by simp [DB.total]
              rw [this]; omega

/-- DP17: the hash table of the index has exactly `N` entries, all of them `dsz`-byte keys with `dsz`-byte values — when no
    random filler key repeats a key (chunk key or other filler) -/
theorem setup_ht_shape (k1 k2 k3 : Bytes) (db : DB) (t t' : Tape) (edb : DP17EDB)
    (hs : setup cfg lv [k1, k2, k3] db t = .ok (edb, t'))
    (hnd : (drawsLen cfg.dsz t).Nodup)
    (hfresh : ∀ levels ls ls1 HT t1, levelsOf cfg db.total = .ok levels → initLevels db.total levels [] = .ok ls →
      encDb cfg lv k1 k2 levels db ls [] t = .ok (ls1, HT, t1) → ∀ g ∈ HT.map (·.1), g ∉ drawsLen cfg.dsz t) :
    edb.HT.length = db.total ∧ ANSS16.EntLens edb.HT cfg.dsz cfg.dsz := by
  simp only [setup, bind, Except.bind] at hs
  split at hs
  · simp [throw, throwThe, MonadExceptOf.throw] at hs
  · try simp only [pure, Except.pure] at hs
    split at hs
    · cases hs
    · rename_i levels hlv
      split at hs
      · cases hs
      · rename_i ls hls
        split at hs
        · cases hs
        · rename_i r hr
          obtain ⟨ls1, HT, t1⟩ := r
          simp only at hs
          split at hs
          · cases hs
          · rename_i r2 hr2
            obtain ⟨HT', t2⟩ := r2
            simp only at hs
            split at hs
            · cases hs
            · rename_i r3 hr3
              obtain ⟨A, t3⟩ := r3
              simp only at hs
              cases hs
              obtain ⟨e1, e2⟩ := encDb_ht cfg lv d hd0 hsha k1 k2 levels db ls [] t ls1 HT t1 hr (fun e he => by cases he)
              have hsuf := encDb_suffix cfg lv k1 k2 levels db ls [] t ls1 HT t1 hr
              have hsub := SSE1.drawsLen_suffix cfg.dsz hsuf
              rw [fillHT_eq_fillT] at hr2
              obtain ⟨f1, f2⟩ := SSE1.fillT_shape cfg.dsz cfg.dsz _ HT t1 HT' t2 hr2 e1
              refine ⟨?_, f1⟩
              rw [f2 (List.Nodup.sublist hsub hnd) (fun g hg hin => hfresh levels ls ls1 HT t1 hlv hls hr g hg (hsub.subset hin))]
              simp at e2
              omega

end SSEPy.Sch.DP17
