/-
  Pi2Lev: `Setup` never raises (accepted configuration with prf_f_output_length = param_lambda, key of λ bytes, every list
  shorter than B·B'·b', an array that fits the pointer width, a recorded `random.sample` of range(1, |A|)): the only
  failure left in the model is `.miss`.  The array has exactly as many free slots as blocks are stored — identifier blocks
  and, for large lists, ⌈⌈n/B⌉/B'⌉ = ⌈n/(B·B')⌉ first-level pointer blocks.
-/
import SSEPyVerif.Proofs.Schemes.PiPtrComplete
import SSEPyVerif.Proofs.Schemes.Pi2Lev
namespace SSEPy.Sch.Pi2Lev
open SSEPy.Sch

/-- nested ceilings: ⌈⌈n/a⌉/b⌉ = ⌈n/(a·b)⌉ -/
theorem ceilDiv_ceilDiv (n a b : Nat) (ha : 0 < a) (hb : 0 < b) : ceilDiv (ceilDiv n a) b = ceilDiv n (a * b) := by
  unfold ceilDiv
  have h1 : (n + a - 1) / a + b - 1 = (n + a - 1 + a * (b - 1)) / a := by
    rw [Nat.add_mul_div_left _ _ ha]
    generalize (n + a - 1) / a = q
    omega
  rw [h1, Nat.div_div_eq_div_mul]
  congr 1
  have : a * (b - 1) = a * b - a := by rw [Nat.mul_sub, Nat.mul_one]
  have hab : a ≤ a * b := Nat.le_mul_of_pos_right a hb
  omega

variable (cfg : Pi2LevCfg) (lv : Leaves)

structure Usable : Prop where
  good : GoodCfg cfg
  plain : PlainSke cfg.ske
  skeKey : cfg.ske.keyLength = cfg.lambda
  fKey : cfg.prfF.keyLength = cfg.lambda
  fMsg : cfg.prfF.messageLength = LENGTH_UNLIMITED
  fOut : cfg.prfF.outputLength = cfg.lambda
  fHash : cfg.prfF.hashLen = 20
  lpos : 0 < cfg.lambda

variable (hl : LeafLaws lv) (hu : Usable cfg)
include hl hu

theorem prf_call (key msg : Bytes) (hk : (key.length : Int) = cfg.lambda) :
    ∃ out, cfg.prfF.call lv.hmac key msg = .ok out ∧ (out.length : Int) = cfg.lambda := by
  have hcall : cfg.prfF.call lv.hmac key msg = .ok (tlsPHash lv.hmac cfg.prfF.hashLen key msg cfg.prfF.outputLength) := by
    unfold HmacPRF.call
    simp [hu.fKey, hu.fMsg, hk]
  have hlen := (prf_ok cfg.prfF lv.hmac (by rw [hu.fHash]; exact hl.hmac_len) (by rw [hu.fHash]; decide) key msg _ hcall).1
  refine ⟨_, hcall, ?_⟩
  rw [hlen, hu.fOut]
  have := hu.lpos
  omega

omit hl hu in
theorem partition_ok (ids : List Bytes) (cap sz bs : Int) (hcap : 0 < cap) (hsz : 0 ≤ sz) (hbs : cap * sz ≤ bs) :
    ∃ blocks, partitionBlocks ids cap sz bs = .ok blocks ∧ blocks.length = ceilDiv ids.length cap.toNat := by
  have hbs0 : 0 ≤ bs := Int.le_trans (Int.mul_nonneg (by omega) hsz) hbs
  have e : partitionBlocks ids cap sz bs = partitionBlocksNat ids cap.toNat sz.toNat bs.toNat := by
    unfold partitionBlocks
    have : (0 ≤ cap ∧ 0 ≤ sz ∧ 0 ≤ bs) := ⟨by omega, hsz, hbs0⟩
    simp [this]
  have hne : cap.toNat ≠ 0 := by omega
  have hle : cap.toNat * sz.toNat ≤ bs.toNat := by
    have : ((cap.toNat * sz.toNat : Nat) : Int) = cap * sz := by
      rw [Int.natCast_mul]; congr 1 <;> omega
    omega
  have hok : ∃ blocks, partitionBlocksNat ids cap.toNat sz.toNat bs.toNat = .ok blocks := by
    unfold partitionBlocksNat
    by_cases hb0 : bs.toNat = 0
    · have : cap.toNat * sz.toNat = 0 := by omega
      simp [hb0, hne]
    · have : ¬ bs.toNat < cap.toNat * sz.toNat := by omega
      simp [hb0, hne, this]
  obtain ⟨blocks, hb⟩ := hok
  exact ⟨blocks, by rw [e, hb], C17.partition_count ids cap.toNat sz.toNat bs.toNat (by omega) blocks hb⟩

omit hl in
theorem dictEntry_onlyMiss (K1 K2 : Bytes) (mark : UInt8) (content : Bytes) (t : Tape)
    (h1 : (K1.length : Int) = cfg.lambda) (h2 : (K2.length : Int) = cfg.lambda) :
    OnlyMiss (dictEntry cfg lv K1 K2 mark content t) := by
  unfold dictEntry
  dsimp only
  have hcall : ∃ l, cfg.prfF.call lv.hmac K1 [0] = .ok l := by
    unfold HmacPRF.call
    simp [hu.fKey, hu.fMsg, h1]
  obtain ⟨l, hcall⟩ := hcall
  apply OnlyMiss.bind (by rw [hcall]; exact OnlyMiss.pure _)
  intro l' _
  apply OnlyMiss.bind (skeEncrypt_onlyMiss cfg.ske lv hu.plain K2 _ t (by rw [h2, hu.skeKey]))
  intro ⟨d, t1⟩ _
  exact OnlyMiss.pure _

omit hl in
theorem placeBlocks_onlyMiss (K2 : Bytes) (mark : UInt8) (blocks : List Bytes) (avail : List Nat) (A : List (Option Bytes))
    (t : Tape) (hk : (K2.length : Int) = cfg.lambda) (hav : blocks.length ≤ avail.length)
    (hp : ∀ p ∈ avail, p < A.length ∧ p < 256 ^ cfg.idxSize.toNat) :
    OnlyMiss (placeBlocks cfg lv K2 mark blocks avail A t) := by
  induction blocks generalizing avail A t with
  | nil => exact OnlyMiss.pure _
  | cons blk rest ih =>
    unfold placeBlocks
    have hne : avail ≠ [] := by intro e; rw [e] at hav; simp at hav
    rw [List.getLast?_eq_some_getLast hne]
    dsimp only
    have hmem : avail.getLast hne ∈ avail := List.getLast_mem hne
    obtain ⟨q1, q2⟩ := hp _ hmem
    have hidx := hu.good.idx
    have hptr : ∃ ptr, intToBytes ((avail.getLast hne : Nat) : Int) cfg.idxSize = .ok ptr := by
      unfold intToBytes
      have h1 : (cfg.idxSize == -1) = false := by simp; omega
      have h2 : ¬ cfg.idxSize < 0 := by omega
      have h3 : ¬ ((avail.getLast hne : Nat) : Int) < 0 := by omega
      simp only [h1, Bool.false_eq_true, if_false, h2, h3, Int.toNat_natCast]
      unfold intToBytesNat
      have : ¬ avail.getLast hne ≥ 256 ^ cfg.idxSize.toNat := by omega
      simp [this]
    obtain ⟨ptr, hptr⟩ := hptr
    apply OnlyMiss.bind (by rw [hptr]; exact OnlyMiss.pure _)
    intro ptr' _
    apply OnlyMiss.bind (skeEncrypt_onlyMiss cfg.ske lv hu.plain K2 _ t (by rw [hk, hu.skeKey]))
    intro ⟨d, t1⟩ _
    dsimp only
    split
    · rename_i hge; omega
    · apply OnlyMiss.bind (ih avail.dropLast (A.set (avail.getLast hne) (some d)) t1
        (by simp at hav ⊢; omega)
        (fun p hp' => by
          have := hp p ((List.dropLast_sublist avail).subset hp')
          simpa using this))
      intro ⟨ptrs, avail', A', t2⟩ _
      exact OnlyMiss.pure _

omit hl hu in
theorem placeBlocks_used (K2 : Bytes) (mark : UInt8) (blocks : List Bytes) (avail : List Nat) (A : List (Option Bytes)) (t : Tape)
    (ptrs : List Bytes) (avail' : List Nat) (A' : List (Option Bytes)) (t' : Tape)
    (h : placeBlocks cfg lv K2 mark blocks avail A t = .ok (ptrs, avail', A', t')) :
    ∃ used, avail = avail' ++ used ∧ used.length = blocks.length ∧ A'.length = A.length ∧ ptrs.length = blocks.length := by
  induction blocks generalizing avail A t ptrs with
  | nil =>
    simp [placeBlocks] at h
    obtain ⟨rfl, rfl, rfl, _⟩ := h
    exact ⟨[], by simp, rfl, rfl, rfl⟩
  | cons blk rest ih =>
    simp only [placeBlocks] at h
    split at h
    · cases h
    · rename_i pos hpos
      simp only [bind, Except.bind] at h
      split at h
      · cases h
      · split at h
        · cases h
        · rename_i r _
          obtain ⟨d, t1⟩ := r
          simp only at h
          split at h
          · simp [throw, throwThe, MonadExceptOf.throw] at h
          · simp only [pure, Except.pure] at h
            split at h
            · cases h
            · rename_i r2 hr2
              obtain ⟨ptrs', av', A2, t2⟩ := r2
              simp only at h
              cases h
              obtain ⟨used, h1, h2, h3, h4⟩ := ih _ _ _ _ hr2
              have hav : avail = avail.dropLast ++ [pos] := by
                have hne : avail ≠ [] := by intro e; simp [e] at hpos
                rw [List.getLast?_eq_some_getLast hne] at hpos
                cases hpos
                exact (List.dropLast_concat_getLast hne).symm
              exact ⟨used ++ [pos], by rw [hav, h1]; simp, by simp [h2], by simp [h3], by simp [h4]⟩

/-- array slots `arrayLen` reserves for a list of `n` identifiers -/
def needed (n : Nat) : Nat :=
  (if (n : Int) > cfg.b then ceilDiv n cfg.B.toNat else 0) +
  (if (n : Int) > cfg.bp * cfg.B then ceilDiv n (cfg.B * cfg.Bp).toNat else 0)

omit hl hu in
theorem arrayLen_eq (db : DB) : arrayLen cfg db = 1 + (db.map fun p => needed cfg p.2.length).sum := rfl

omit hl in
/-- the pointer blocks fit the array block: `B' · ⌊B·idsize / B'⌋ ≤ B · idsize` -/
theorem ptr_block_fits : cfg.Bp * cfg.idxSize ≤ cfg.B * cfg.idSize := by
  have g := hu.good
  have h := g.idx2
  have hB := g.B; have hBp := g.Bp; have hids := g.ids; have hidx := g.idx
  have e1 := toNat_mul cfg.B cfg.idSize hB hids
  have hle : cfg.Bp.toNat * cfg.idxSize.toNat ≤ (cfg.B * cfg.idSize).toNat := by
    rw [← h, Nat.mul_comm]; exact Nat.div_mul_le_self _ _
  have e2 : ((cfg.Bp.toNat * cfg.idxSize.toNat : Nat) : Int) = cfg.Bp * cfg.idxSize := by
    rw [Int.natCast_mul]; congr 1 <;> omega
  have e3 : (((cfg.B * cfg.idSize).toNat : Nat) : Int) = cfg.B * cfg.idSize := by
    have : 0 < cfg.B * cfg.idSize := Int.mul_pos hB hids
    omega
  omega

theorem storeKeyword_room (K1 K2 : Bytes) (ids : List Bytes) (avail : List Nat) (A : List (Option Bytes)) (t : Tape)
    (h1 : (K1.length : Int) = cfg.lambda) (h2 : (K2.length : Int) = cfg.lambda)
    (hcap : (ids.length : Int) < (cfg.B * cfg.Bp) * cfg.bp) (hav : needed cfg ids.length ≤ avail.length)
    (hp : ∀ p ∈ avail, p < A.length ∧ p < 256 ^ cfg.idxSize.toNat) :
    OnlyMiss (storeKeyword cfg lv K1 K2 ids avail A t) ∧
    ∀ e avail1 A1 t1, storeKeyword cfg lv K1 K2 ids avail A t = .ok (e, avail1, A1, t1) →
      ∃ used, avail = avail1 ++ used ∧ used.length ≤ needed cfg ids.length ∧ A1.length = A.length := by
  have g := hu.good
  have hB := g.B; have hb := g.b; have hBp := g.Bp; have hbp := g.bp; have hids := g.ids; have hidx := g.idx
  unfold storeKeyword
  dsimp only
  split
  · -- small: the list lives in the dictionary block
    refine ⟨?_, ?_⟩
    · apply OnlyMiss.bind (dictEntry_onlyMiss cfg lv hu K1 K2 0 _ t h1 h2)
      intro ⟨e, t1⟩ _
      exact OnlyMiss.pure _
    · intro e avail1 A1 t1 h
      simp only [bind, Except.bind] at h
      split at h
      · cases h
      · simp only [pure, Except.pure] at h
        cases h
        exact ⟨[], by simp, by simp, rfl⟩
  · rename_i hnb
    split
    · -- medium: one level of pointers
      rename_i hmed
      obtain ⟨blocks, hbl, hbn⟩ := partition_ok ids cfg.B cfg.idSize (cfg.B * cfg.idSize) hB (by omega) (Int.le_refl _)
      have hneed : blocks.length ≤ needed cfg ids.length := by
        unfold needed
        have : (ids.length : Int) > cfg.b := by omega
        simp only [this, if_true, hbn]
        omega
      refine ⟨?_, ?_⟩
      · apply OnlyMiss.bind (by rw [hbl]; exact OnlyMiss.pure _)
        intro bl' hbl'
        rw [hbl] at hbl'; cases hbl'
        apply OnlyMiss.bind (placeBlocks_onlyMiss cfg lv hu K2 0 blocks avail A t h2 (by omega) hp)
        intro ⟨ptrs, avail1, A1, t1⟩ _
        apply OnlyMiss.bind (dictEntry_onlyMiss cfg lv hu K1 K2 1 _ t1 h1 h2)
        intro ⟨e, t2⟩ _
        exact OnlyMiss.pure _
      · intro e avail1 A1 t1 h
        simp only [hbl, bind, Except.bind] at h
        split at h
        · cases h
        · rename_i r hr
          obtain ⟨ptrs, av1, A1', t1'⟩ := r
          simp only at h
          split at h
          · cases h
          · simp only [pure, Except.pure] at h
            cases h
            obtain ⟨used, a1, a2, a3, _⟩ := placeBlocks_used cfg lv K2 0 blocks avail A t ptrs _ _ _ hr
            exact ⟨used, a1, by omega, a3⟩
    · rename_i hnm
      · -- large: two levels of pointers
        obtain ⟨blocks, hbl, hbn⟩ := partition_ok ids cfg.B cfg.idSize (cfg.B * cfg.idSize) hB (by omega) (Int.le_refl _)
        have hBBp : (cfg.B * cfg.Bp).toNat = cfg.B.toNat * cfg.Bp.toNat := toNat_mul cfg.B cfg.Bp hB hBp
        have hneed : ∀ (ptrs : List Bytes), ptrs.length = blocks.length →
            blocks.length + ceilDiv ptrs.length cfg.Bp.toNat ≤ needed cfg ids.length := by
          intro ptrs hpl
          unfold needed
          have c1 : (ids.length : Int) > cfg.b := by omega
          have c2 : (ids.length : Int) > cfg.bp * cfg.B := by rw [Int.mul_comm]; omega
          simp only [c1, c2, if_true, hpl, hbn, hBBp]
          rw [ceilDiv_ceilDiv _ _ _ (by omega) (by omega)]
          omega
        refine ⟨?_, ?_⟩
        · apply OnlyMiss.bind (by rw [hbl]; exact OnlyMiss.pure _)
          intro bl' hbl'
          rw [hbl] at hbl'; cases hbl'
          have hn0 := hneed (blocks.map id) (by simp)
          apply OnlyMiss.bind (placeBlocks_onlyMiss cfg lv hu K2 0 blocks avail A t h2 (by omega) hp)
          intro ⟨ptrs, avail1, A1, t1⟩ hpl
          obtain ⟨used, a1, a2, a3, a4⟩ := placeBlocks_used cfg lv K2 0 blocks avail A t ptrs avail1 A1 t1 hpl
          obtain ⟨pblocks, hpb, hpn⟩ := partition_ok ptrs cfg.Bp cfg.idxSize (cfg.B * cfg.idSize) hBp (by omega)
            (ptr_block_fits cfg hu)
          apply OnlyMiss.bind (by rw [hpb]; exact OnlyMiss.pure _)
          intro pb' hpb'
          rw [hpb] at hpb'; cases hpb'
          have hn1 := hneed ptrs a4
          have hl1 : avail.length = avail1.length + used.length := by rw [a1]; simp
          apply OnlyMiss.bind (placeBlocks_onlyMiss cfg lv hu K2 1 pblocks avail1 A1 t1 h2 (by omega)
            (fun p hp' => by
              have := hp p (by rw [a1]; exact List.mem_append_left _ hp')
              rw [a3]; exact this))
          intro ⟨ptrs2, avail2, A2, t2⟩ _
          apply OnlyMiss.bind (dictEntry_onlyMiss cfg lv hu K1 K2 1 _ t2 h1 h2)
          intro ⟨e, t3⟩ _
          exact OnlyMiss.pure _
        · intro e avail1 A1 t1 h
          simp only [hbl, bind, Except.bind] at h
          split at h
          · cases h
          · rename_i r hr
            obtain ⟨ptrs, av1, A1', t1'⟩ := r
            simp only at h
            split at h
            · cases h
            · rename_i pblocks hpb
              split at h
              · cases h
              · rename_i r2 hr2
                obtain ⟨ptrs2, av2, A2', t2'⟩ := r2
                simp only at h
                split at h
                · cases h
                · simp only [pure, Except.pure] at h
                  cases h
                  obtain ⟨used, a1, a2, a3, a4⟩ := placeBlocks_used cfg lv K2 0 blocks avail A t ptrs _ _ _ hr
                  obtain ⟨used2, b1, b2, b3, _⟩ := placeBlocks_used cfg lv K2 1 pblocks _ _ _ ptrs2 _ _ _ hr2
                  obtain ⟨pblocks', hpb', hpn⟩ := partition_ok ptrs cfg.Bp cfg.idxSize (cfg.B * cfg.idSize) hBp (by omega)
                    (ptr_block_fits cfg hu)
                  rw [hpb'] at hpb; cases hpb
                  have hn1 := hneed ptrs a4
                  exact ⟨used2 ++ used, by rw [a1, b1]; simp, by simp; omega, by rw [b3, a3]⟩

theorem encDb_onlyMiss (K : Bytes) (hK : (K.length : Int) = cfg.lambda) (db : DB) (avail : List Nat)
    (A : List (Option Bytes)) (t : Tape) (hcap : ∀ p ∈ db, (p.2.length : Int) < (cfg.B * cfg.Bp) * cfg.bp)
    (hav : (db.map fun p => needed cfg p.2.length).sum ≤ avail.length)
    (hp : ∀ p ∈ avail, p < A.length ∧ p < 256 ^ cfg.idxSize.toNat) : OnlyMiss (encDb cfg lv K db avail A t) := by
  induction db generalizing avail A t with
  | nil => exact OnlyMiss.pure _
  | cons q rest ih =>
    obtain ⟨w, ids⟩ := q
    obtain ⟨K1, hK1, l1⟩ := prf_call cfg lv hl hu K (1 :: w) hK
    obtain ⟨K2, hK2, l2⟩ := prf_call cfg lv hl hu K (2 :: w) hK
    have htk : token cfg lv K w = .ok (K1, K2) := by simp [token, hK1, hK2, bind, Except.bind, pure, Except.pure]
    simp only [List.map_cons, List.sum_cons] at hav
    obtain ⟨r1, r2⟩ := storeKeyword_room cfg lv hl hu K1 K2 ids avail A t l1 l2 (hcap (w, ids) (by simp)) (by omega) hp
    unfold encDb
    apply OnlyMiss.bind (by rw [htk]; exact OnlyMiss.pure _)
    intro tk htk'
    rw [htk] at htk'; cases htk'
    apply OnlyMiss.bind r1
    intro ⟨e, avail1, A1, t1⟩ hst
    obtain ⟨used, a1, a2, a3⟩ := r2 e avail1 A1 t1 hst
    apply OnlyMiss.bind (ih avail1 A1 t1 (fun p hp' => hcap p (by simp [hp']))
      (by have := congrArg List.length a1; simp at this; omega)
      (fun p hp' => by
        have := hp p (by rw [a1]; exact List.mem_append_left _ hp')
        rw [a3]; exact this))
    intro ⟨qs, A2, t2⟩ _
    exact OnlyMiss.pure _

/-- Pi2Lev: `EDBSetup` can only fail by exhausting the recorded randomness -/
theorem setup_onlyMiss (K : Bytes) (hK : (K.length : Int) = cfg.lambda) (db : DB) (t : Tape)
    (hcap : ∀ p ∈ db, (p.2.length : Int) < (cfg.B * cfg.Bp) * cfg.bp)
    (hfit : arrayLen cfg db ≤ 2 ^ (cfg.idxSize * 8).toNat)
    (hsample : ∀ sample t0, takeNats t = .ok (sample, t0) → ∀ p ∈ sample, p < arrayLen cfg db) :
    OnlyMiss (setup cfg lv K db t) := by
  have hidx := hu.good.idx
  unfold setup
  dsimp only
  split
  · rename_i h0; omega
  · split
    · rename_i h0; exact absurd hfit (by omega)
    · intro e h
      cases hs : takeNats t with
      | error e' =>
        rw [hs] at h
        simp only [bind, Except.bind] at h
        cases h
        unfold takeNats at hs
        split at hs <;> cases hs; rfl
      | ok r =>
        obtain ⟨sample, t0⟩ := r
        rw [hs] at h
        simp only [bind, Except.bind] at h
        split at h
        · simp [throw, throwThe, MonadExceptOf.throw] at h
          exact h.symm
        · rename_i heq
          have hlen : sample.length = arrayLen cfg db - 1 := by
            by_cases e : sample.length = arrayLen cfg db - 1
            · exact e
            · exact absurd e heq
          simp only [pure, Except.pure] at h
          have hom := encDb_onlyMiss cfg lv hl hu K hK db sample (List.replicate (arrayLen cfg db) none) t0 hcap
            (by rw [hlen, arrayLen_eq]; omega)
            (fun p hp => by
              have hlt := hsample sample t0 hs p hp
              refine ⟨by simpa using hlt, ?_⟩
              have e8 : (cfg.idxSize * 8).toNat = 8 * cfg.idxSize.toNat := by omega
              have e : (256 : Nat) = 2 ^ 8 := by decide
              rw [e, ← Nat.pow_mul, ← e8]
              omega)
          split at h
          · rename_i e' he'
            cases h
            exact hom _ he'
          · cases h

omit hl hu in
/-- an accepted configuration with a positive pointer width whose PRF outputs have `param_lambda` bytes is usable -/
theorem cfgBuild_usable (raw : RawCfg) (h : Pi2Lev.cfgBuild raw = .ok cfg) (hidx : 0 < cfg.idxSize)
    (hout : getInt raw "prf_f_output_length" = getInt raw "param_lambda") : Usable cfg := by
  obtain ⟨hg, hplain⟩ := cfgBuild_ok cfg raw h hidx
  unfold Pi2Lev.cfgBuild at h
  simp only [bind, Except.bind] at h
  repeat (split at h; (try cases h))
  all_goals (try (simp only [pure, Except.pure] at h))
  all_goals (try (simp [throw, throwThe, MonadExceptOf.throw] at h; done))
  rename_i hpos _ _ hex _ lam hlam _ B hB _ b hb _ Bp hBp _ bp hbp _ out ho _ ids hids hz heq _ _ _ ske hske
  cases h
  rw [hlam, ho] at hout
  cases hout
  have hk := new_keyLength lam ske hske
  have hne : (lam == LENGTH_NOT_GIVEN) = false := by simp [LENGTH_NOT_GIVEN]; omega
  have hlp : 0 < lam := by omega
  refine ⟨hg, hplain, (new_plain lam ske hske).2, rfl, rfl, ?_, rfl, hlp⟩
  simp [HmacPRF.new, hne]

end SSEPy.Sch.Pi2Lev
