/-
  DP17: WHAT every cell of every level array is.  After `Setup`, each bucket `A_i[x]` is a concatenation of cells of
  `param_identifier_cipher_len` bytes, and every cell is either a random draw of the run (a dummy) or the ciphertext
  `Enc(F_k3(w'), iv, id' ‖ 0^λ)` of a posting `(w', id')` of the database under an IV drawn in this run.  Nothing else is ever
  stored in the arrays — no keyword, no identifier in the clear (C04) — and it is what reduces "the search returns nothing
  extra" to the behaviour of trial decryption on foreign cells (C01).
-/
import SSEPyVerif.Proofs.Schemes.DP17Exact
namespace SSEPy.Sch.DP17
open SSEPy.Sch

variable (cfg : DP17Cfg) (lv : Leaves)

/-- a cell: a random draw of the run, or a posting's identifier ‖ 0^λ encrypted under its keyword's tag with a drawn IV -/
def CellFrom (k3 : Bytes) (t : Tape) (P : Bytes → Bytes → Prop) (c : Bytes) : Prop :=
  Draw.bytes c ∈ t ∨ ∃ w id etag iv, P w id ∧ cfg.prfF.call lv.hmac k3 w = .ok etag ∧ Draw.bytes iv ∈ t ∧ iv.length = 16 ∧
    cfg.rnd.encrypt lv.E etag iv (id ++ zeros cfg.lambda.toNat) = .ok c

theorem CellFrom.mono {k3 : Bytes} {t t' : Tape} {P : Bytes → Bytes → Prop} {c : Bytes} (hs : Suffix t' t)
    (h : CellFrom cfg lv k3 t' P c) : CellFrom cfg lv k3 t P c := by
  obtain ⟨pre, rfl⟩ := hs
  rcases h with h | ⟨w, id, etag, iv, a, b, c1, d, e⟩
  · exact Or.inl (List.mem_append_right _ h)
  · exact Or.inr ⟨w, id, etag, iv, a, b, List.mem_append_right _ c1, d, e⟩

/-- the real entries of a bucket satisfy `P` -/
def EntP (P : Bytes → Bytes → Prop) (es : List Entry) : Prop := ∀ w id, some (w, id) ∈ es → P w id

theorem encBucket_cells (P : Bytes → Bytes → Prop) (k3 : Bytes) (es : List Entry) (t t' : Tape) (cs : List Bytes)
    (h : encBucket cfg lv k3 es t = .ok (cs, t')) (hP : EntP P es) : ∀ c ∈ cs, CellFrom cfg lv k3 t P c := by
  induction es generalizing t cs with
  | nil => simp [encBucket] at h; obtain ⟨rfl, _⟩ := h; intro c hc; cases hc
  | cons e rest ih =>
    have hP' : EntP P rest := fun w id hm => hP w id (by simp [hm])
    cases e with
    | none =>
      simp only [encBucket, bind, Except.bind] at h
      split at h
      · cases h
      · rename_i r hr
        obtain ⟨rb, t1⟩ := r
        simp only at h
        split at h
        · cases h
        · rename_i r2 hr2
          obtain ⟨more, t2⟩ := r2
          simp only [pure, Except.pure] at h
          cases h
          intro c hc
          simp only [List.mem_cons] at hc
          rcases hc with rfl | hc
          · left; rw [takeBytes_cons hr]; simp
          · exact CellFrom.mono cfg lv (takeBytes_suffix hr) (ih _ _ hr2 hP' c hc)
    | some p =>
      obtain ⟨w0, id0⟩ := p
      simp only [encBucket, bind, Except.bind] at h
      split at h
      · cases h
      · rename_i etag0 het
        split at h
        · cases h
        · rename_i r hr0
          obtain ⟨c0, t1⟩ := r
          obtain ⟨iv, hr, hc⟩ := skeEncrypt_ok hr0
          simp only at h
          split at h
          · cases h
          · rename_i r2 hr2
            obtain ⟨more, t2⟩ := r2
            simp only [pure, Except.pure] at h
            cases h
            intro c hc'
            simp only [List.mem_cons] at hc'
            rcases hc' with rfl | hc'
            · right
              exact ⟨w0, id0, etag0, iv, hP w0 id0 (by simp), het, by rw [takeBytes_cons hr]; simp, Chain.takeBytes_len hr, hc⟩
            · exact CellFrom.mono cfg lv (takeBytes_suffix hr) (ih _ _ hr2 hP' c hc')

/-- a bucket of a level array: whole cells, each classified -/
def GoodBucket (k3 : Bytes) (t : Tape) (P : Bytes → Bytes → Prop) (a : Bytes) : Prop :=
  ∃ cs : List Bytes, a = cs.flatten ∧ (∀ c ∈ cs, c.length = cfg.cipherLen) ∧ ∀ c ∈ cs, CellFrom cfg lv k3 t P c

theorem GoodBucket.mono {k3 : Bytes} {t t' : Tape} {P : Bytes → Bytes → Prop} {a : Bytes} (hs : Suffix t' t)
    (h : GoodBucket cfg lv k3 t' P a) : GoodBucket cfg lv k3 t P a := by
  obtain ⟨cs, h1, h2, h3⟩ := h
  exact ⟨cs, h1, h2, fun c hc => CellFrom.mono cfg lv hs (h3 c hc)⟩

section enc
variable (hde : ∀ key iv msg c, iv.length = 16 → cfg.rnd.encrypt lv.E key iv msg = .ok c → cfg.rnd.decrypt lv.D key c = .ok msg)
variable (hE : ∀ key x : Bytes, x.length = 16 → (lv.E key x).length = 16)
variable (n : Nat) (hclen : cfg.cipherLen = 16 + 16 * (n / 16 + 1))
include hde hE hclen

theorem finishBuckets_cells (P : Bytes → Bytes → Prop) (k3 : Bytes) (bks : List (List Entry)) (rems : List Nat) (t : Tape)
    (bs : List (List Entry)) (arr : List Bytes) (t' : Tape) (h : finishBuckets cfg lv k3 bks rems t = .ok (bs, arr, t'))
    (hlen : ∀ b ∈ bks, EntLen cfg n b) (hP : ∀ b ∈ bks, EntP P b) :
    Suffix t' t ∧ (∀ b ∈ bs, EntLen cfg n b) ∧ (∀ b ∈ bs, EntP P b) ∧ ∀ a ∈ arr, GoodBucket cfg lv k3 t P a := by
  induction bks generalizing rems t bs arr with
  | nil =>
    simp [finishBuckets] at h
    obtain ⟨rfl, rfl, rfl⟩ := h
    exact ⟨Suffix.refl _, (fun b hb => by cases hb), (fun b hb => by cases hb), fun a ha => by cases ha⟩
  | cons b0 rest ih =>
    simp only [finishBuckets, bind, Except.bind] at h
    split at h
    · cases h
    · rename_i r hr
      obtain ⟨perm, t1⟩ := r
      simp only at h
      split at h
      · cases h
      · rename_i shuffled hsh
        split at h
        · cases h
        · rename_i r2 hr2
          obtain ⟨cs0, t2⟩ := r2
          simp only at h
          split at h
          · cases h
          · rename_i r3 hr3
            obtain ⟨bs1, arr1, t3⟩ := r3
            simp only [pure, Except.pure] at h
            cases h
            have ht : t = Draw.nats perm :: t1 := takeNats_cons hr
            have hs1 : Suffix t1 t := ⟨[Draw.nats perm], by rw [ht]; rfl⟩
            have hsub : ∀ w id, some (w, id) ∈ shuffled → some (w, id) ∈ b0 := by
              intro w id hm
              have := permute_sub _ _ _ hsh _ hm
              simp only [List.mem_append, List.mem_replicate] at this
              rcases this with hm0 | ⟨_, hm0⟩
              · exact hm0
              · cases hm0
            have hshlen : EntLen cfg n shuffled := fun w id hm => hlen b0 (by simp) w id (hsub w id hm)
            have hshP : EntP P shuffled := fun w id hm => hP b0 (by simp) w id (hsub w id hm)
            obtain ⟨e0, e1, _⟩ := encBucket_spec cfg lv hde hE n hclen k3 shuffled t1 t2 cs0 hr2 hshlen
            have ecells := encBucket_cells cfg lv P k3 shuffled t1 t2 cs0 hr2 hshP
            obtain ⟨i0, i1, i2, i3⟩ := ih rems.tail t2 bs1 arr1 hr3 (fun b hb => hlen b (by simp [hb])) (fun b hb => hP b (by simp [hb]))
            refine ⟨(i0.trans e0).trans hs1, ?_, ?_, ?_⟩
            · intro b hb
              simp only [List.mem_cons] at hb
              rcases hb with rfl | hb
              · exact hshlen
              · exact i1 b hb
            · intro b hb
              simp only [List.mem_cons] at hb
              rcases hb with rfl | hb
              · exact hshP
              · exact i2 b hb
            · intro a ha
              simp only [List.mem_cons] at ha
              rcases ha with rfl | ha
              · exact ⟨cs0, rfl, e1, fun c hc => CellFrom.mono cfg lv hs1 (ecells c hc)⟩
              · exact GoodBucket.mono cfg lv (e0.trans hs1) (i3 a ha)

theorem finishLevels_cells (P : Bytes → Bytes → Prop) (k3 : Bytes) (lvls : List Int) (ls : List Level)
    (A : List (Int × List Bytes)) (t : Tape) (A' : List (Int × List Bytes)) (t' : Tape)
    (h : finishLevels cfg lv k3 lvls ls A t = .ok (A', t'))
    (hlen : ∀ l ∈ ls, ∀ b ∈ l.buckets, EntLen cfg n b) (hP : ∀ l ∈ ls, ∀ b ∈ l.buckets, EntP P b)
    (t0 : Tape) (hs0 : Suffix t t0) (hA : ∀ p ∈ A, ∀ a ∈ p.2, GoodBucket cfg lv k3 t0 P a) :
    ∀ p ∈ A', ∀ a ∈ p.2, GoodBucket cfg lv k3 t0 P a := by
  induction lvls generalizing ls A t with
  | nil =>
    simp [finishLevels] at h
    obtain ⟨rfl, rfl⟩ := h
    exact hA
  | cons i0 rest ih =>
    simp only [finishLevels, bind, Except.bind] at h
    split at h
    · cases h
    · rename_i lvl hlvl
      split at h
      · cases h
      · rename_i r hr
        obtain ⟨bs, arr, t1⟩ := r
        simp only at h
        have hget : getLevel ls i0 = some lvl := by
          unfold getLevelE at hlvl
          split at hlvl
          · rename_i l hl; cases hlvl; exact hl
          · cases hlvl
        have hmem := getLevel_mem ls i0 lvl hget
        obtain ⟨f0, f1, f2, f3⟩ := finishBuckets_cells cfg lv hde hE n hclen P k3 lvl.buckets lvl.remaining t bs arr t1 hr
          (hlen lvl hmem) (hP lvl hmem)
        generalize hl2 : ({ lev := lvl.lev, remaining := lvl.remaining, buckets := bs } : Level) = lvl2 at h
        have hlen2 : ∀ l ∈ setLevel ls lvl2, ∀ b ∈ l.buckets, EntLen cfg n b := by
          intro l hl
          unfold setLevel at hl
          simp only [List.mem_map] at hl
          obtain ⟨a, ha, rfl⟩ := hl
          split
          · rw [← hl2]; exact f1
          · exact hlen a ha
        have hP2 : ∀ l ∈ setLevel ls lvl2, ∀ b ∈ l.buckets, EntP P b := by
          intro l hl
          unfold setLevel at hl
          simp only [List.mem_map] at hl
          obtain ⟨a, ha, rfl⟩ := hl
          split
          · rw [← hl2]; exact f2
          · exact hP a ha
        refine ih (setLevel ls lvl2) _ t1 h hlen2 hP2 (f0.trans hs0) ?_
        intro p hp a ha
        have harr : ∀ a ∈ arr, GoodBucket cfg lv k3 t0 P a := fun a ha => GoodBucket.mono cfg lv hs0 (f3 a ha)
        split at hp
        · simp only [List.mem_map] at hp
          obtain ⟨q, hq, rfl⟩ := hp
          split at ha
          · exact harr a ha
          · exact hA q hq a ha
        · simp only [List.mem_append, List.mem_singleton] at hp
          rcases hp with hp | rfl
          · exact hA p hp a ha
          · exact harr a ha

end enc

/-- `List.lookup` returns a stored pair -/
theorem lookup_mem {α β : Type} [BEq α] [LawfulBEq α] (l : List (α × β)) (k : α) (v : β) (h : l.lookup k = some v) : (k, v) ∈ l := by
  induction l with
  | nil => cases h
  | cons p rest ih =>
    obtain ⟨a, b⟩ := p
    rw [List.lookup_cons] at h
    by_cases hk : k == a
    · simp only [hk] at h
      cases h
      have : k = a := by simpa using hk
      subst this
      simp
    · have hk' : (k == a) = false := by simpa using hk
      simp only [hk'] at h
      exact List.mem_cons_of_mem _ (ih h)

/-- DP17: every bucket of every level array of the index `Setup` returns consists of whole cells, and every cell is a random
    draw of the run or the ciphertext of `id ‖ 0^λ` of a posting `(w, id)` of the database under `F_k3(w)` and a drawn IV -/
theorem setup_cells (raw : RawCfg) (hcfg : DP17.cfgBuild raw = .ok cfg) (hl : LeafLaws lv)
    (k1 k2 k3 : Bytes) (db : DB) (t t' : Tape) (edb : DP17EDB)
    (hs : setup cfg lv [k1, k2, k3] db t = .ok (edb, t'))
    (hidl : ∀ p ∈ db, ∀ id ∈ p.2, (id.length : Int) = cfg.idSize) :
    ∀ p ∈ edb.A, ∀ a ∈ p.2, GoodBucket cfg lv k3 t (fun w id => ∃ ids, (w, ids) ∈ db ∧ id ∈ ids) a := by
  obtain ⟨hplain, hlam, hclen⟩ := cfgBuild_ok cfg raw hcfg
  have hde : ∀ key iv msg c, iv.length = 16 → cfg.rnd.encrypt lv.E key iv msg = .ok c → cfg.rnd.decrypt lv.D key c = .ok msg :=
    fun key iv msg c hiv he => ske_dec_enc lv hl cfg.rnd hplain key iv msg c hiv he
  have hE := hl.enc_len
  generalize hn : (cfg.idSize + cfg.lambda).toNat = n at hclen
  simp only [setup, bind, Except.bind] at hs
  split at hs
  · simp [throw, throwThe, MonadExceptOf.throw] at hs
  · simp only [pure, Except.pure] at hs
    split at hs
    · cases hs
    · rename_i levels hlevels
      split at hs
      · cases hs
      · rename_i ls0 hinit
        split at hs
        · cases hs
        · rename_i r1 henc
          obtain ⟨ls1, HT, t1⟩ := r1
          simp only at hs
          split at hs
          · cases hs
          · rename_i r2 hfill
            obtain ⟨HT', t2⟩ := r2
            simp only at hs
            split at hs
            · cases hs
            · rename_i r3 hfin
              obtain ⟨A, t3⟩ := r3
              simp only at hs
              cases hs
              have hfr := initLevels_fresh db.total levels [] ls0 hinit (fun l hl => by cases hl)
              have hlen1 : ∀ l ∈ ls1, ∀ b ∈ l.buckets, EntLen cfg n b := by
                have := encDb_ent cfg lv (fun e => ∀ w id, e = some (w, id) → id.length + cfg.lambda.toNat = n)
                  k1 k2 levels db ls0 [] t ls1 HT t1 henc
                  (fun p hp id hid w' id' he => by
                    cases he
                    have := hidl p hp id hid
                    omega)
                  (fun l hl b hb e he => by rw [(hfr l hl).2 b hb] at he; cases he)
                exact fun l hl b hb w id hmem => this l hl b hb _ hmem w id rfl
              have hP1 : ∀ l ∈ ls1, ∀ b ∈ l.buckets, EntP (fun w id => ∃ ids, (w, ids) ∈ db ∧ id ∈ ids) b := by
                have := encDb_ent cfg lv (fun e => ∀ w id, e = some (w, id) → ∃ ids, (w, ids) ∈ db ∧ id ∈ ids)
                  k1 k2 levels db ls0 [] t ls1 HT t1 henc
                  (fun p hp id hid w' id' he => by
                    cases he
                    exact ⟨p.2, hp, hid⟩)
                  (fun l hl b hb e he => by rw [(hfr l hl).2 b hb] at he; cases he)
                exact fun l hl b hb w id hmem => this l hl b hb _ hmem w id rfl
              have hs1 := encDb_suffix cfg lv k1 k2 levels db ls0 [] t ls1 HT t1 henc
              have hs2 := (fillHT_suffix _ _ _ _ _ _ hfill).trans hs1
              exact finishLevels_cells cfg lv hde hE n hclen _ k3 levels ls1 [] t2 A _ hfin hlen1 hP1 t hs2
                (fun p hp => by cases hp)


/-! ### "nothing extra" from the behaviour of trial decryption on FOREIGN cells -/

/-- trial decryption under `etag` accepts the cell: it decrypts, and the plaintext ends in `0^λ` -/
def Accepts (etag c : Bytes) : Prop :=
  ∃ p, cfg.rnd.decrypt lv.D etag c = .ok p ∧ (p.drop (p.length - cfg.lambda.toNat) == zeros cfg.lambda.toNat) = true

/-- whatever the scan of a bucket keeps comes from a cell it accepted -/
theorem scan_sub (etag : Bytes) (cs : List Bytes) (id : Bytes) (h : id ∈ scanBucket cfg lv etag cs) :
    ∃ c ∈ cs, ∃ p, cfg.rnd.decrypt lv.D etag c = .ok p ∧
      (p.drop (p.length - cfg.lambda.toNat) == zeros cfg.lambda.toNat) = true ∧ id = p.take (p.length - cfg.lambda.toNat) := by
  induction cs with
  | nil => simp [scanBucket] at h
  | cons e rest ih =>
    simp only [scanBucket] at h
    split at h
    · rename_i p hp
      split at h
      · rename_i hz
        simp only [List.mem_cons] at h
        rcases h with rfl | h
        · exact ⟨e, by simp, p, hp, hz, rfl⟩
        · obtain ⟨c, hc, r⟩ := ih h
          exact ⟨c, List.mem_cons_of_mem _ hc, r⟩
      · obtain ⟨c, hc, r⟩ := ih h
        exact ⟨c, List.mem_cons_of_mem _ hc, r⟩
    · obtain ⟨c, hc, r⟩ := ih h
      exact ⟨c, List.mem_cons_of_mem _ hc, r⟩

theorem nodup_keys_unique (db : DB) (hkeys : (db.map (·.1)).Nodup) (w : Bytes) (a b : List Bytes)
    (ha : (w, a) ∈ db) (hb : (w, b) ∈ db) : a = b := by
  induction db with
  | nil => cases ha
  | cons p rest ih =>
    simp only [List.map_cons, List.nodup_cons] at hkeys
    simp only [List.mem_cons] at ha hb
    rcases ha with rfl | ha <;> rcases hb with hb | hb
    · cases hb; rfl
    · exact absurd (List.mem_map_of_mem (f := (·.1)) hb) hkeys.1
    · subst hb
      exact absurd (List.mem_map_of_mem (f := (·.1)) ha) hkeys.1
    · exact ih hkeys.2 ha hb

/-- the cryptographic assumption in its textbook form: under this keyword's tag, trial decryption accepts neither a random
    dummy cell of the run nor the ciphertext of ANOTHER keyword's posting -/
def WrongKeyRejected (k3 : Bytes) (db : DB) (t : Tape) (w etag : Bytes) : Prop :=
  (∀ c, Draw.bytes c ∈ t → c.length = cfg.cipherLen → ¬ Accepts cfg lv etag c) ∧
  ∀ c w' id' etag' iv, w' ≠ w → (∃ ids', (w', ids') ∈ db ∧ id' ∈ ids') → cfg.prfF.call lv.hmac k3 w' = .ok etag' →
    cfg.rnd.encrypt lv.E etag' iv (id' ++ zeros cfg.lambda.toNat) = .ok c → ¬ Accepts cfg lv etag c

/-- DP17: if trial decryption rejects foreign cells, every probe of a stored keyword's token yields only that keyword's
    identifiers — the hypothesis `ProbesClean` of `search_exact` is DERIVED from the structure of the index -/
theorem probesClean_of_wrongKey (raw : RawCfg) (hcfg : DP17.cfgBuild raw = .ok cfg) (hl : LeafLaws lv)
    (k1 k2 k3 : Bytes) (db : DB) (t t' : Tape) (edb : DP17EDB)
    (hs : setup cfg lv [k1, k2, k3] db t = .ok (edb, t')) (hkeys : (db.map (·.1)).Nodup)
    (hidl : ∀ p ∈ db, ∀ id ∈ p.2, (id.length : Int) = cfg.idSize)
    (w : Bytes) (ids : List Bytes) (hm : (w, ids) ∈ db) (tag vtag etag : Bytes)
    (htk : token cfg lv [k1, k2, k3] w = .ok [tag, vtag, etag])
    (hwk : WrongKeyRejected cfg lv k3 db t w etag) : ProbesClean cfg lv edb tag vtag etag ids := by
  obtain ⟨hplain, hlam, hclen⟩ := cfgBuild_ok cfg raw hcfg
  have hde : ∀ key iv msg c, iv.length = 16 → cfg.rnd.encrypt lv.E key iv msg = .ok c → cfg.rnd.decrypt lv.D key c = .ok msg :=
    fun key iv msg c hiv he => ske_dec_enc lv hl cfg.rnd hplain key iv msg c hiv he
  have hcells := setup_cells cfg lv raw hcfg hl k1 k2 k3 db t t' edb hs hidl
  have hpos : 0 < cfg.cipherLen := by rw [hclen]; omega
  -- the tag of the token
  have hetag : cfg.prfF.call lv.hmac k3 w = .ok etag := by
    simp only [token, bind, Except.bind] at htk
    split at htk
    · cases htk
    · split at htk
      · cases htk
      · split at htk
        · cases htk
        · rename_i e he
          simp only [pure, Except.pure] at htk
          injection htk with htk
          simp only [List.cons.injEq, and_true] at htk
          rw [← htk.2.2]; exact he
  intro c key here _ _ _ hone id hid
  unfold searchOne at hone
  split at hone
  · cases hone; cases hid
  · rename_i ev hev
    simp only [bind, Except.bind] at hone
    split at hone
    · cases hone
    · rename_i io hio
      obtain ⟨i, off⟩ := io
      simp only at hone
      split at hone
      · cases hone
      · rename_i bucket hb
        split at hone
        · cases hone
        · rename_i es hes
          simp only [pure, Except.pure] at hone
          cases hone
          -- the bucket is one of the index
          unfold lookupBucket at hb
          split at hb
          · cases hb
          · rename_i arr harr
            split at hb
            · cases hb
            · rename_i b0 hb0
              cases hb
              have hmemA := lookup_mem edb.A (i : Int) arr harr
              obtain ⟨cs, hflat, hlens, hclass⟩ := hcells _ hmemA bucket (List.mem_of_getElem? hb0)
              rw [hflat, chunks_flatten_eq cfg.cipherLen hpos cs hlens] at hes
              have hes' : cs = es := by injection hes
              subst hes'
              obtain ⟨cell, hcell, p, hp, hz, rfl⟩ := scan_sub cfg lv etag cs id hid
              rcases hclass cell hcell with hd | ⟨w', id', etag', iv, ⟨ids', hdb', hid'⟩, het', _, hivl, henc⟩
              · exact absurd ⟨p, hp, hz⟩ (hwk.1 cell hd (hlens cell hcell))
              · by_cases hw : w' = w
                · subst hw
                  rw [hetag] at het'; cases het'
                  have := hde _ _ _ _ hivl henc
                  rw [this] at hp; cases hp
                  have e1 : ids' = ids := nodup_keys_unique db hkeys _ _ _ hdb' hm
                  subst e1
                  have : (id' ++ zeros cfg.lambda.toNat).length - cfg.lambda.toNat = id'.length := by simp [zeros]
                  rw [this, List.take_left']
                  · exact hid'
                  · rfl
                · exact absurd ⟨p, hp, hz⟩ (hwk.2 cell w' id' etag' iv hw ⟨ids', hdb', hid'⟩ het' henc)

end SSEPy.Sch.DP17
