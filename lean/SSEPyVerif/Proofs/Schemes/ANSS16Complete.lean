/-
  ANSS16 Scheme 3: `Setup` never raises.  In the model the only failure left for a database of non-empty lists, under an
  accepted configuration with param_k = param_k_prime, is `.miss` — the recorded randomness ran out or had the wrong
  kind, which `os.urandom` / `random` never do.  No IndexError (a list of 2^p entries has its level: p ≤ t), no
  OverflowError (every list length fits the ⌈(t+1)/8⌉-byte length field — the width repaired by 7b4d508), no ValueError.
-/
import SSEPyVerif.Proofs.Schemes.ANSS16Shape
namespace SSEPy.Sch
open SSEPy.Sch

/-- the computation can only fail by running out of recorded randomness -/
def OnlyMiss {α : Type} (x : Except Err α) : Prop := ∀ e, x = .error e → e = .miss

theorem OnlyMiss.pure {α : Type} (a : α) : OnlyMiss (Except.ok a : Except Err α) := fun e h => by cases h

theorem OnlyMiss.bind {α β : Type} {x : Except Err α} {f : α → Except Err β} (hx : OnlyMiss x)
    (hf : ∀ a, x = .ok a → OnlyMiss (f a)) : OnlyMiss (x >>= f) := by
  intro e h
  cases hx' : x with
  | error e' =>
    rw [hx'] at h
    change Except.error e' = Except.error e at h
    cases h
    exact hx _ hx'
  | ok a =>
    rw [hx'] at h
    exact hf a hx' e h

theorem takeBytes_onlyMiss (n : Nat) (t : Tape) : OnlyMiss (takeBytes n t) := by
  intro e h
  unfold takeBytes at h
  split at h
  · split at h <;> cases h; rfl
  · cases h; rfl

theorem takeNat_onlyMiss (t : Tape) : OnlyMiss (takeNat t) := by
  intro e h
  unfold takeNat at h
  split at h <;> cases h; rfl

theorem takeBytesN_onlyMiss (n k : Nat) (t : Tape) : OnlyMiss (takeBytesN n k t) := by
  induction k generalizing t with
  | zero => exact OnlyMiss.pure _
  | succ m ih =>
    unfold takeBytesN
    exact OnlyMiss.bind (takeBytes_onlyMiss n t) (fun ⟨b, t1⟩ _ =>
      OnlyMiss.bind (ih t1) (fun ⟨bs, t2⟩ _ => OnlyMiss.pure _))

theorem skeEncrypt_onlyMiss (ske : AESxCBC) (lv : Leaves) (hp : PlainSke ske) (key msg : Bytes) (t : Tape)
    (hk : (key.length : Int) = ske.keyLength) : OnlyMiss (skeEncrypt ske lv key msg t) := by
  have he : ∀ iv, ∃ c, ske.encrypt lv.E key iv msg = .ok c := by
    intro iv
    unfold AESxCBC.encrypt
    simp [hp.2, hk]
  obtain ⟨c0, h0⟩ := he (zeros 16)
  unfold skeEncrypt
  rw [h0]
  simp only
  exact OnlyMiss.bind (takeBytes_onlyMiss 16 t) (fun ⟨iv, t1⟩ _ => by
    obtain ⟨c, hc⟩ := he iv
    simp only [hc]
    exact OnlyMiss.pure _)

theorem encAll_onlyMiss (ske : AESxCBC) (lv : Leaves) (hp : PlainSke ske) (key : Bytes) (xs : List Bytes) (t : Tape)
    (hk : (key.length : Int) = ske.keyLength) : OnlyMiss (encAll ske lv key xs t) := by
  induction xs generalizing t with
  | nil => exact OnlyMiss.pure _
  | cons x rest ih =>
    unfold encAll
    exact OnlyMiss.bind (skeEncrypt_onlyMiss ske lv hp key x t hk) (fun ⟨c, t1⟩ _ =>
      OnlyMiss.bind (ih t1) (fun ⟨cs, t2⟩ _ => OnlyMiss.pure _))

theorem fillers_onlyMiss (a b k : Nat) (t : Tape) : OnlyMiss (fillers a b k t) := by
  induction k generalizing t with
  | zero => exact OnlyMiss.pure _
  | succ m ih =>
    unfold fillers
    exact OnlyMiss.bind (takeBytes_onlyMiss a t) (fun ⟨x, t1⟩ _ =>
      OnlyMiss.bind (takeBytes_onlyMiss b t1) (fun ⟨y, t2⟩ _ =>
        OnlyMiss.bind (ih t2) (fun ⟨ps, t3⟩ _ => OnlyMiss.pure _)))

theorem cipherLen_onlyMiss (ske : AESxCBC) (lv : Leaves) (hp : PlainSke ske) (keyLen idSize : Int) (t : Tape)
    (hk : ((keyLen.toNat : Nat) : Int) = ske.keyLength) : OnlyMiss (CT14.cipherLen ske lv keyLen idSize t) := by
  unfold CT14.cipherLen
  exact OnlyMiss.bind (skeEncrypt_onlyMiss ske lv hp _ _ t (by simpa [zeros] using hk)) (fun ⟨c, t1⟩ _ => OnlyMiss.pure _)

/-- the padding loop: its fuel `cap - N + 1` is enough (every round adds at least one posting), so it cannot diverge -/
theorem padLoop_onlyMiss (idSize cap fuel : Nat) (db : DB) (N : Nat) (t : Tape) (hf : cap - N < fuel) :
    OnlyMiss (padLoop idSize cap fuel db N t) := by
  induction fuel generalizing db N t with
  | zero => omega
  | succ f ih =>
    unfold padLoop
    split
    · rename_i hlt
      apply OnlyMiss.bind (takeBytes_onlyMiss 32 t)
      intro ⟨kw, t1⟩ _
      apply OnlyMiss.bind (takeNat_onlyMiss t1)
      intro ⟨n, t2⟩ _
      dsimp only
      split
      · intro e h
        simp [throw, throwThe, MonadExceptOf.throw, bind, Except.bind] at h
        exact h.symm
      · rename_i hn
        apply OnlyMiss.bind (takeBytesN_onlyMiss idSize n t2)
        intro ⟨ids, t3⟩ _
        exact ih _ _ _ (by omega)
    · exact OnlyMiss.pure _

theorem list_len4 {α : Type} (l : List α) (h : l.length = 4) : ∃ a b c d, l = [a, b, c, d] := by
  match l, h with
  | [a, b, c, d], _ => exact ⟨a, b, c, d, rfl⟩

namespace ANSS16
variable (cfg : ANSSCfg) (lv : Leaves)

/-- what the scheme needs of an accepted configuration -/
structure Usable : Prop where
  plain : PlainSke cfg.ske
  skeKey : cfg.ske.keyLength = cfg.k
  kk : cfg.kPrime = cfg.k
  prfKey : cfg.prf.keyLength = LENGTH_UNLIMITED
  prfMsg : cfg.prf.messageLength = LENGTH_UNLIMITED
  prfOut : cfg.prf.outputLength = cfg.k + cfg.kPrime + cfg.l + cfg.lPrime
  prfHash : cfg.prf.hashLen = 20
  pos : 0 < cfg.k ∧ 0 < cfg.kPrime ∧ 0 < cfg.l ∧ 0 < cfg.lPrime

variable (hl : LeafLaws lv) (hu : Usable cfg)
include hl hu

/-- `_Trap` always succeeds, and its two cipher keys have `param_k` and `param_k_prime` bytes -/
theorem token_ok (K w : Bytes) : ∃ tk, token cfg lv K w = .ok tk ∧ tk.Ki.length = cfg.k.toNat ∧ tk.KiP.length = cfg.kPrime.toNat := by
  have hcall : cfg.prf.call lv.hmac K w = .ok (tlsPHash lv.hmac cfg.prf.hashLen K w cfg.prf.outputLength) := by
    unfold HmacPRF.call
    simp [hu.prfKey, hu.prfMsg]
  have hlen := (prf_ok cfg.prf lv.hmac (by rw [hu.prfHash]; exact hl.hmac_len) (by rw [hu.prfHash]; decide) K w _ hcall).1
  obtain ⟨p1, p2, p3, p4⟩ := hu.pos
  have hsum : (tlsPHash lv.hmac cfg.prf.hashLen K w cfg.prf.outputLength).length
      = [cfg.l.toNat, cfg.k.toNat, cfg.lPrime.toNat, cfg.kPrime.toNat].sum := by
    rw [hlen, hu.prfOut]; simp; omega
  obtain ⟨pieces, hp, hpl⟩ := C17.split_lengths _ _ hsum
  obtain ⟨a, b, c, d, rfl⟩ := list_len4 pieces (by have := congrArg List.length hpl; simpa using this)
  simp only [List.map_cons, List.map_nil, List.cons.injEq, and_true] at hpl
  exact ⟨{ li := a, Ki := b, liP := c, KiP := d },
    by simp [token, hcall, hp, bind, Except.bind, pure, Except.pure], hpl.2.1, hpl.2.2.2⟩

theorem encDb_onlyMiss (K : Bytes) (niSize : Nat) (db : DB) (Ts : List (List (Bytes × Bytes))) (S : List (Bytes × Bytes))
    (t : Tape) (hlen : ∀ p ∈ db, 1 ≤ p.2.length ∧ p.2.length < 256 ^ niSize ∧ clog2 p.2.length < Ts.length) :
    OnlyMiss (encDb cfg lv K niSize db Ts S t) := by
  induction db generalizing Ts S t with
  | nil => exact OnlyMiss.pure _
  | cons q rest ih =>
    obtain ⟨w, ids⟩ := q
    obtain ⟨h1, h2, h3⟩ := hlen (w, ids) (by simp)
    simp only at h1 h2 h3
    unfold encDb
    dsimp only
    split
    · rename_i h0; omega
    · apply OnlyMiss.bind (takeBytesN_onlyMiss _ _ t)
      intro ⟨dummies, t1⟩ _
      obtain ⟨tk, htk, hki, hkip⟩ := token_ok cfg lv hl hu K w
      apply OnlyMiss.bind (by rw [htk]; exact OnlyMiss.pure _)
      intro tk' htk'
      rw [htk] at htk'; cases htk'
      apply OnlyMiss.bind (encAll_onlyMiss cfg.ske lv hu.plain tk.Ki _ t1 (by rw [hki, hu.skeKey]; have := hu.pos.1; omega))
      intro ⟨cs, t2⟩ _
      have hnb : ∃ nb, intToBytesNat ids.length niSize = .ok nb := by
        unfold intToBytesNat
        have : ¬ ids.length ≥ 256 ^ niSize := by omega
        simp [this]
      obtain ⟨nb, hnb⟩ := hnb
      apply OnlyMiss.bind (by rw [hnb]; exact OnlyMiss.pure _)
      intro nb' hnb'
      apply OnlyMiss.bind (skeEncrypt_onlyMiss cfg.ske lv hu.plain tk.KiP _ t2
        (by rw [hkip, hu.skeKey, hu.kk]; have := hu.pos.1; omega))
      intro ⟨niP, t3⟩ _
      have hpush : ∃ Ts', pushAt Ts (clog2 ids.length) (tk.li, cs.flatten) = .ok Ts' := by
        unfold pushAt
        rw [List.getElem?_eq_getElem h3]
        exact ⟨_, rfl⟩
      obtain ⟨Ts', hTs'⟩ := hpush
      apply OnlyMiss.bind (by rw [hTs']; exact OnlyMiss.pure _)
      intro Ts'' hTs''
      rw [hTs'] at hTs''; cases hTs''
      apply ih
      intro p hp
      have := hlen p (by simp [hp])
      rw [pushAt_length _ _ _ _ hTs']
      exact this

omit hl in
theorem padLevels_onlyMiss (tt i : Nat) (Ts : List (List (Bytes × Bytes))) (t : Tape) :
    OnlyMiss (padLevels cfg lv tt i Ts t) := by
  induction Ts generalizing i t with
  | nil => exact OnlyMiss.pure _
  | cons L rest ih =>
    unfold padLevels
    apply OnlyMiss.bind (cipherLen_onlyMiss cfg.ske lv hu.plain _ _ t (by rw [hu.skeKey, hu.kk]; have := hu.pos.1; omega))
    intro ⟨clen, t1⟩ _
    apply OnlyMiss.bind (fillers_onlyMiss _ _ _ t1)
    intro ⟨fs, t2⟩ _
    apply OnlyMiss.bind (ih (i + 1) t2)
    intro ⟨more, t3⟩ _
    exact OnlyMiss.pure _

omit hl hu in
theorem dbInsert_mem (db : DB) (k : Bytes) (v : List Bytes) (p : Bytes × List Bytes) (h : p ∈ dbInsert db k v) :
    p ∈ db ∨ p = (k, v) := by
  induction db with
  | nil => simp [dbInsert] at h; exact Or.inr h
  | cons q rest ih =>
    obtain ⟨k', v'⟩ := q
    simp only [dbInsert] at h
    split at h
    · simp only [List.mem_cons] at h
      rcases h with rfl | h
      · rename_i hk; subst hk; exact Or.inr rfl
      · exact Or.inl (by simp [h])
    · simp only [List.mem_cons] at h
      rcases h with rfl | h
      · exact Or.inl (by simp)
      · rcases ih h with h | h
        · exact Or.inl (by simp [h])
        · exact Or.inr h

omit hl hu in
theorem padLoop_lens (idSize cap fuel : Nat) (db : DB) (N : Nat) (t : Tape) (pdb : DB) (t' : Tape)
    (h : padLoop idSize cap fuel db N t = .ok (pdb, t')) (hdb : ∀ p ∈ db, 1 ≤ p.2.length ∧ p.2.length ≤ cap) :
    ∀ p ∈ pdb, 1 ≤ p.2.length ∧ p.2.length ≤ cap := by
  induction fuel generalizing db N t with
  | zero => simp [padLoop] at h
  | succ f ih =>
    simp only [padLoop] at h
    split at h
    · simp only [bind, Except.bind] at h
      split at h
      · cases h
      · rename_i r1 h1
        obtain ⟨kw, t1⟩ := r1
        simp only at h
        split at h
        · cases h
        · rename_i r2 h2
          obtain ⟨n, t2⟩ := r2
          simp only at h
          split at h
          · simp [throw, throwThe, MonadExceptOf.throw] at h
          · rename_i hn
            try simp only [pure, Except.pure] at h
            split at h
            · cases h
            · rename_i r3 h3
              obtain ⟨ids, t3⟩ := r3
              simp only at h
              obtain ⟨d1, _⟩ := takeBytesN_spec _ _ _ _ _ h3
              apply ih _ _ _ h
              intro p hp
              rcases dbInsert_mem db kw ids p hp with hp | rfl
              · exact hdb p hp
              · simp only [d1]; omega
    · cases h; exact hdb

omit hl hu in
theorem mem_len_le_total (db : DB) (p : Bytes × List Bytes) (h : p ∈ db) : p.2.length ≤ db.total := by
  induction db with
  | nil => cases h
  | cons q rest ih =>
    simp only [DB.total, List.map_cons, List.sum_cons]
    simp only [List.mem_cons] at h
    rcases h with rfl | h
    · omega
    · have := ih h; simp only [DB.total] at this; omega

omit hl hu in
theorem clog2_le (n k : Nat) (h : n ≤ 2 ^ k) : clog2 n ≤ k := by
  unfold clog2
  split
  · omega
  · rename_i h1
    have hn : n - 1 ≠ 0 := by omega
    have : Nat.log2 (n - 1) < k := (Nat.log2_lt hn).mpr (by have := Nat.two_pow_pos k; omega)
    omega

omit hl hu in
theorem lt_256_pow (tt n : Nat) (h : n ≤ 2 ^ tt) : n < 256 ^ ceilDiv (tt + 1) 8 := by
  have e : (256 : Nat) = 2 ^ 8 := by decide
  rw [e, ← Nat.pow_mul]
  have hge : tt + 1 ≤ 8 * ceilDiv (tt + 1) 8 := by unfold ceilDiv; omega
  calc n ≤ 2 ^ tt := h
    _ < 2 ^ (tt + 1) := Nat.pow_lt_pow_right (by decide) (by omega)
    _ ≤ 2 ^ (8 * ceilDiv (tt + 1) 8) := Nat.pow_le_pow_right (by decide) hge

/-- ANSS16: building the index of a database whose lists are non-empty can only fail by exhausting the recorded randomness -/
theorem setupLists_onlyMiss (K : Bytes) (db : DB) (t : Tape) (hne : db ≠ []) (hlists : ∀ p ∈ db, 1 ≤ p.2.length) :
    OnlyMiss (setupLists cfg lv K db t) := by
  have htot : db.total ≠ 0 := by
    cases db with
    | nil => exact absurd rfl hne
    | cons q rest =>
      have := hlists q (by simp)
      simp only [DB.total, List.map_cons, List.sum_cons]; omega
  unfold setupLists
  dsimp only
  split
  · rename_i h0; exact absurd h0 htot
  · generalize htt : clog2 db.total = tt
    have hcap : db.total ≤ 2 ^ tt := by rw [← htt]; exact le_two_pow_clog2 _
    apply OnlyMiss.bind (padLoop_onlyMiss _ _ _ db db.total t (by omega))
    intro ⟨pdb, t1⟩ hpad
    have hlens := padLoop_lens _ _ _ db db.total t pdb t1 hpad
      (fun p hp => ⟨hlists p hp, Nat.le_trans (mem_len_le_total db p hp) hcap⟩)
    apply OnlyMiss.bind (encDb_onlyMiss cfg lv hl hu K _ pdb _ _ t1 (fun p hp => by
      obtain ⟨a, b⟩ := hlens p hp
      exact ⟨a, lt_256_pow tt _ b, by simp; exact Nat.lt_succ_of_le (clog2_le _ _ b)⟩))
    intro ⟨Ts, S, t2⟩ _
    apply OnlyMiss.bind (padLevels_onlyMiss cfg lv hu tt 0 Ts t2)
    intro ⟨Ts', t3⟩ _
    apply OnlyMiss.bind (cipherLen_onlyMiss cfg.ske lv hu.plain _ _ t3 (by rw [hu.skeKey, hu.kk]; have := hu.pos.1; omega))
    intro ⟨nlen, t4⟩ _
    apply OnlyMiss.bind (fillers_onlyMiss _ _ _ t4)
    intro ⟨fs, t5⟩ _
    exact OnlyMiss.pure _

/-- … hence `EDBSetup` itself -/
theorem setup_onlyMiss (K : Bytes) (db : DB) (t : Tape) (hne : db ≠ []) (hlists : ∀ p ∈ db, 1 ≤ p.2.length) :
    OnlyMiss (setup cfg lv K db t) := by
  unfold setup
  apply OnlyMiss.bind (setupLists_onlyMiss cfg lv hl hu K db t hne hlists)
  intro ⟨SL, TL, t'⟩ _
  exact OnlyMiss.pure _

omit hl hu in
/-- an accepted configuration with `param_k = param_k_prime` is usable -/
theorem cfgBuild_usable (raw : RawCfg) (h : ANSS16.cfgBuild raw = .ok cfg) (hkk : cfg.kPrime = cfg.k) : Usable cfg := by
  unfold ANSS16.cfgBuild at h
  simp only [bind, Except.bind] at h
  repeat (split at h; (try cases h))
  all_goals (try (simp only [pure, Except.pure] at h))
  rename_i hp _ _ hx _ lam _ _ k hk _ kp hkp _ l hgl _ lp hglp _ ids _ _ _ _ ske hske
  cases h
  have pk := param_pos _ raw "param_k" k hp hx (by decide +kernel) (by simp) hk
  have pkp := param_pos _ raw "param_k_prime" kp hp hx (by decide +kernel) (by simp) hkp
  have pl := param_pos _ raw "param_l" l hp hx (by decide +kernel) (by simp) hgl
  have plp := param_pos _ raw "param_l_prime" lp hp hx (by decide +kernel) (by simp) hglp
  obtain ⟨hplain, hkl⟩ := new_plain k ske hske
  refine ⟨hplain, hkl, hkk, rfl, rfl, ?_, rfl, pk, pkp, pl, plp⟩
  simp only [HmacPRF.new]
  have : (k + kp + l + lp == LENGTH_NOT_GIVEN) = false := by simp [LENGTH_NOT_GIVEN]; omega
  simp [this]

end ANSS16
end SSEPy.Sch
