/-
  PiBas / PiPack: what `setup` stores and what `search` reads back.
-/
import SSEPyVerif.Proofs.Schemes.Table
import SSEPyVerif.Model.Schemes.Chain
namespace SSEPy.Sch.Chain
open SSEPy.Sch

variable (cfg : ChainCfg) (lv : Leaves)

/-- the decryption law the scheme needs of its encryption scheme (C14 proves it for `AESxCBC` over any
    invertible block function): what was encrypted with a 16-byte IV decrypts to itself -/
def DecEnc : Prop :=
  ∀ key iv msg c, iv.length = 16 → cfg.ske.encrypt lv.E key iv msg = .ok c → cfg.ske.decrypt lv.D key c = .ok msg

theorem takeBytes_len {n : Nat} {t t' : Tape} {b : Bytes} (h : takeBytes n t = .ok (b, t')) : b.length = n := by
  cases t with
  | nil => simp [takeBytes] at h
  | cons d rest =>
    cases d with
    | bytes x =>
      simp only [takeBytes] at h
      split at h
      · cases h; assumption
      · cases h
    | nat _ => simp [takeBytes] at h
    | nats _ => simp [takeBytes] at h

/-- chunk `i` of a keyword is stored under label `F(K1, c0 + i)` and decrypts to that chunk -/
inductive ChunkRel (K1 K2 : Bytes) : Nat → List Bytes → List (Bytes × Bytes) → Prop where
  | nil (c : Nat) : ChunkRel K1 K2 c [] []
  | cons (c : Nat) (ch : Bytes) (rest : List Bytes) (l d : Bytes) (ps : List (Bytes × Bytes)) :
      cfg.prfF.call lv.hmac K1 (natToBytesMin c) = .ok l →
      cfg.ske.decrypt lv.D K2 d = .ok ch →
      ChunkRel K1 K2 (c + 1) rest ps → ChunkRel K1 K2 c (ch :: rest) ((l, d) :: ps)

theorem ChunkRel.length {K1 K2 : Bytes} {c : Nat} {chs : List Bytes} {ps : List (Bytes × Bytes)}
    (h : ChunkRel cfg lv K1 K2 c chs ps) : ps.length = chs.length := by
  induction h with
  | nil => rfl
  | cons _ _ _ _ _ _ _ _ _ ih => simp [ih]

theorem encChunks_rel (hde : DecEnc cfg lv) (K1 K2 : Bytes) (c : Nat) (chs : List Bytes) (t t' : Tape)
    (ps : List (Bytes × Bytes)) (h : encChunks cfg lv K1 K2 c chs t = .ok (ps, t')) :
    ChunkRel cfg lv K1 K2 c chs ps := by
  induction chs generalizing c t ps with
  | nil => simp [encChunks] at h; cases h.1; exact .nil c
  | cons ch rest ih =>
    simp only [encChunks, bind, Except.bind] at h
    split at h
    · cases h
    · rename_i l hl
      split at h
      · cases h
      · rename_i r hr0
        obtain ⟨d, t1⟩ := r
        obtain ⟨iv, hr, hd⟩ := skeEncrypt_ok hr0
        simp only at h
        split at h
        · cases h
        · rename_i r2 hr2
          obtain ⟨ps', t2⟩ := r2
          simp only [pure, Except.pure] at h
          cases h
          exact .cons c ch rest l d ps' hl (hde _ _ _ _ (takeBytes_len hr) hd) (ih _ _ _ hr2)

/-- the part of the pair list that belongs to one keyword -/
theorem encDb_split (hde : DecEnc cfg lv) (K : Bytes) (db : DB) (t t' : Tape) (L : List (Bytes × Bytes))
    (h : encDb cfg lv K db t = .ok (L, t')) (w : Bytes) (ids : List Bytes) (hm : (w, ids) ∈ db) :
    ∃ K1 K2 chs ps pre post, token cfg lv K w = .ok (K1, K2) ∧ cfg.pack ids = .ok chs ∧
      L = pre ++ ps ++ post ∧ ChunkRel cfg lv K1 K2 0 chs ps := by
  induction db generalizing t L with
  | nil => cases hm
  | cons p rest ih =>
    obtain ⟨w0, ids0⟩ := p
    simp only [encDb, bind, Except.bind] at h
    split at h
    · cases h
    · rename_i tk htk
      obtain ⟨K1, K2⟩ := tk
      simp only at h
      split at h
      · cases h
      · rename_i chs hchs
        split at h
        · cases h
        · rename_i r hr
          obtain ⟨ps, t1⟩ := r
          simp only at h
          split at h
          · cases h
          · rename_i r2 hr2
            obtain ⟨qs, t2⟩ := r2
            simp only [pure, Except.pure] at h
            cases h
            simp only [List.mem_cons, Prod.mk.injEq] at hm
            rcases hm with ⟨rfl, rfl⟩ | hm
            · exact ⟨K1, K2, chs, ps, [], qs, htk, hchs, by simp, encChunks_rel cfg lv hde _ _ _ _ _ _ _ hr⟩
            · obtain ⟨K1', K2', chs', ps', pre, post, h1, h2, h3, h4⟩ := ih _ _ hr2 hm
              exact ⟨K1', K2', chs', ps', ps ++ pre, post, h1, h2, by simp [h3], h4⟩

/-- the probe loop reads back the chunks, in order, and stops at the first missing label -/
theorem searchLoop_rel (D : Table) (K1 K2 : Bytes) (c : Nat) (chs : List Bytes) (ps : List (Bytes × Bytes))
    (hrel : ChunkRel cfg lv K1 K2 c chs ps)
    (hget : ∀ p ∈ ps, D.get p.1 = some p.2)
    (lend : Bytes) (hend : cfg.prfF.call lv.hmac K1 (natToBytesMin (c + chs.length)) = .ok lend)
    (hmiss : D.get lend = none)
    (parts : List (List Bytes)) (hparts : mapE cfg.unpack chs = .ok parts)
    (fuel : Nat) (hf : chs.length < fuel) (acc : List Bytes) :
    searchLoop cfg lv D K1 K2 fuel c acc = .ok (acc ++ parts.flatten) := by
  induction hrel generalizing fuel acc parts with
  | nil c =>
    cases fuel with
    | zero => omega
    | succ f =>
      simp only [mapE] at hparts; cases hparts
      simp only [List.length_nil, Nat.add_zero] at hend
      simp [searchLoop, hend, hmiss, bind, Except.bind, pure, Except.pure]
  | cons c ch rest l d ps' hl hd _ ih =>
    cases fuel with
    | zero => omega
    | succ f =>
      simp only [mapE, bind, Except.bind] at hparts
      split at hparts
      · cases hparts
      · rename_i ids hids
        split at hparts
        · cases hparts
        · rename_i parts' hp'
          simp only [pure, Except.pure] at hparts
          cases hparts
          have hg : D.get l = some d := hget (l, d) (by simp)
          simp only [searchLoop, hl, hg, hd, hids, bind, Except.bind]
          rw [ih (fun p hp => hget p (by simp [hp])) (by simpa [Nat.add_assoc, Nat.add_comm 1] using hend) parts' hp' f
                (by simp at hf; omega)]
          simp

end SSEPy.Sch.Chain

namespace SSEPy.Sch.Chain
open SSEPy.Sch
variable (cfg : ChainCfg) (lv : Leaves)

/-- unpacking the packed list gives the list back -/
def RoundTrip (ids : List Bytes) : Prop :=
  ∀ chs, cfg.pack ids = .ok chs → ∃ parts, mapE cfg.unpack chs = .ok parts ∧ parts.flatten = ids

/-- the label one past the last chunk of keyword `w` is not a stored label (so the probe loop stops there) -/
def EndFresh (K : Bytes) (L : List (Bytes × Bytes)) (w : Bytes) (ids : List Bytes) : Prop :=
  ∀ K1 K2 chs, token cfg lv K w = .ok (K1, K2) → cfg.pack ids = .ok chs →
    ∃ l, cfg.prfF.call lv.hmac K1 (natToBytesMin chs.length) = .ok l ∧ l ∉ L.map (·.1)

theorem search_present (hde : DecEnc cfg lv) (K : Bytes) (db : DB) (t t' : Tape) (L : List (Bytes × Bytes))
    (hL : encDb cfg lv K db t = .ok (L, t')) (hn : (L.map (·.1)).Nodup)
    (w : Bytes) (ids : List Bytes) (hm : (w, ids) ∈ db)
    (hrt : RoundTrip cfg ids) (hend : EndFresh cfg lv K L w ids) :
    ∃ tk, token cfg lv K w = .ok tk ∧ search cfg lv (buildTable L) tk = .ok ids := by
  obtain ⟨K1, K2, chs, ps, pre, post, htk, hpack, hsplit, hrel⟩ := encDb_split cfg lv hde K db t t' L hL w ids hm
  obtain ⟨parts, hparts, hflat⟩ := hrt chs hpack
  obtain ⟨lend, hlend, hfresh⟩ := hend K1 K2 chs htk hpack
  refine ⟨(K1, K2), htk, ?_⟩
  unfold search
  have hget : ∀ p ∈ ps, (buildTable L).get p.1 = some p.2 := by
    intro p hp
    apply buildTable_get_mem L p.1 p.2 hn
    rw [hsplit]; simp [hp]
  have hlen : chs.length < searchFuel (buildTable L) := by
    unfold searchFuel
    rw [buildTable_length L hn, hsplit, ← hrel.length]
    simp; omega
  have := searchLoop_rel cfg lv (buildTable L) K1 K2 0 chs ps hrel hget lend (by simpa using hlend)
    (buildTable_get_none L lend hfresh) parts hparts _ hlen []
  simpa [hflat] using this

theorem search_absent (K1 K2 : Bytes) (L : List (Bytes × Bytes)) (l0 : Bytes)
    (h0 : cfg.prfF.call lv.hmac K1 (natToBytesMin 0) = .ok l0) (hmiss : l0 ∉ L.map (·.1)) :
    search cfg lv (buildTable L) (K1, K2) = .ok [] := by
  unfold search searchFuel
  simp [searchLoop, h0, buildTable_get_none L l0 hmiss, bind, Except.bind, pure, Except.pure]

/-- the probe loop never runs out of fuel when the stored labels are distinct and the chain of a keyword is its own:
    (stated for the two cases above: both return `.ok`, in particular not `.error .diverges`) -/
theorem setup_eq (K : Bytes) (db : DB) (t t' : Tape) (D : Table) (h : setup cfg lv K db t = .ok (D, t')) :
    ∃ L, encDb cfg lv K db t = .ok (L, t') ∧ D = buildTable L := by
  unfold setup at h
  simp only [bind, Except.bind] at h
  split at h
  · cases h
  · rename_i r hr
    obtain ⟨L, t1⟩ := r
    simp only [pure, Except.pure] at h
    cases h
    exact ⟨L, hr, rfl⟩

end SSEPy.Sch.Chain

namespace SSEPy.Sch.Chain
open SSEPy.Sch
variable (cfg : ChainCfg) (lv : Leaves)

/-- the labels `F(K1, c), F(K1, c+1), …` of `n` consecutive probes -/
def probeLabels (K1 : Bytes) (c : Nat) : Nat → List Bytes
  | 0 => []
  | n + 1 => (match cfg.prfF.call lv.hmac K1 (natToBytesMin c) with | .ok l => l | .error _ => []) ::
             probeLabels K1 (c + 1) n

theorem encChunks_labels (K1 K2 : Bytes) (c : Nat) (chs : List Bytes) (t t' : Tape) (ps : List (Bytes × Bytes))
    (h : encChunks cfg lv K1 K2 c chs t = .ok (ps, t')) : ps.map (·.1) = probeLabels cfg lv K1 c chs.length := by
  induction chs generalizing c t ps with
  | nil => simp [encChunks] at h; cases h.1; rfl
  | cons ch rest ih =>
    simp only [encChunks, bind, Except.bind] at h
    split at h
    · cases h
    · rename_i l hl
      split at h
      · cases h
      · rename_i r hr0
        obtain ⟨d, t1⟩ := r
        obtain ⟨iv, hr, hd⟩ := skeEncrypt_ok hr0
        simp only at h
        split at h
        · cases h
        · rename_i r2 hr2
          obtain ⟨ps', t2⟩ := r2
          simp only [pure, Except.pure] at h
          cases h
          simp [probeLabels, hl, ih _ _ _ hr2]

/-- the labels of one keyword: a function of the key, the keyword and the number of chunks only -/
def kwLabels (K : Bytes) (p : Bytes × List Bytes) : List Bytes :=
  match token cfg lv K p.1, cfg.pack p.2 with
  | .ok (K1, _), .ok chs => probeLabels cfg lv K1 0 chs.length
  | _, _ => []

theorem encDb_labels (K : Bytes) (db : DB) (t t' : Tape) (L : List (Bytes × Bytes))
    (h : encDb cfg lv K db t = .ok (L, t')) : L.map (·.1) = db.flatMap (kwLabels cfg lv K) := by
  induction db generalizing t L with
  | nil => simp [encDb] at h; cases h.1; rfl
  | cons p rest ih =>
    obtain ⟨w0, ids0⟩ := p
    simp only [encDb, bind, Except.bind] at h
    split at h
    · cases h
    · rename_i tk htk
      obtain ⟨K1, K2⟩ := tk
      simp only at h
      split at h
      · cases h
      · rename_i chs hchs
        split at h
        · cases h
        · rename_i r hr
          obtain ⟨ps, t1⟩ := r
          simp only at h
          split at h
          · cases h
          · rename_i r2 hr2
            obtain ⟨qs, t2⟩ := r2
            simp only [pure, Except.pure] at h
            cases h
            simp only [List.map_append, List.flatMap_cons, ih _ _ hr2]
            congr 1
            rw [encChunks_labels cfg lv K1 K2 0 chs _ _ _ hr]
            simp [kwLabels, htk, hchs]

/-- supplying the keywords in another order (and drawing other randomness) permutes the labels -/
theorem labels_perm (K : Bytes) (db db' : DB) (hp : db.Perm db') (t t1 u u1 : Tape) (L L' : List (Bytes × Bytes))
    (h : encDb cfg lv K db t = .ok (L, t1)) (h' : encDb cfg lv K db' u = .ok (L', u1)) :
    (L.map (·.1)).Perm (L'.map (·.1)) := by
  rw [encDb_labels cfg lv K db t t1 L h, encDb_labels cfg lv K db' u u1 L' h']
  exact hp.flatMap_right _

end SSEPy.Sch.Chain
