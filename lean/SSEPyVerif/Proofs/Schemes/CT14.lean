/-
  CT14: the greedy power-of-two decomposition of a list, where each chunk goes, and how the descending level scan of
  `search` reassembles the list.
-/
import SSEPyVerif.Proofs.Schemes.ANSS16
namespace SSEPy.Sch.CT14
open SSEPy.Sch

/-- the chunk of a list that lives at level `j`: present iff bit `j` of the length is set; it starts where the higher
    bits of the length end -/
def chunkAt (ids : List Bytes) (j : Nat) : List Bytes :=
  if 2 ^ j ≤ ids.length % 2 ^ (j + 1) then (ids.drop (ids.length - ids.length % 2 ^ (j + 1))).take (2 ^ j) else []

theorem mod_two_pow_succ (n j : Nat) :
    (2 ^ j ≤ n % 2 ^ (j + 1) ∧ n % 2 ^ j = n % 2 ^ (j + 1) - 2 ^ j) ∨
    (n % 2 ^ (j + 1) < 2 ^ j ∧ n % 2 ^ j = n % 2 ^ (j + 1)) := by
  have hpos : 0 < 2 ^ j := Nat.two_pow_pos j
  have h2 : 2 ^ (j + 1) = 2 * 2 ^ j := by rw [Nat.pow_succ]; omega
  have hlt : n % 2 ^ (j + 1) < 2 ^ (j + 1) := Nat.mod_lt _ (Nat.two_pow_pos _)
  have hmm : n % 2 ^ (j + 1) % 2 ^ j = n % 2 ^ j := Nat.mod_mod_of_dvd n ⟨2, by rw [h2]; omega⟩
  rcases Nat.lt_or_ge (n % 2 ^ (j + 1)) (2 ^ j) with h | h
  · right
    exact ⟨h, by rw [← hmm, Nat.mod_eq_of_lt h]⟩
  · left
    refine ⟨h, ?_⟩
    rw [← hmm, Nat.mod_eq_sub_mod h, Nat.mod_eq_of_lt (by omega)]

/-- scanning the levels from `J-1` down to 0 and concatenating the chunks gives the tail of the list that the bits
    below `J` describe -/
def scan (ids : List Bytes) : Nat → List Bytes
  | 0 => []
  | J + 1 => chunkAt ids J ++ scan ids J

theorem scan_eq (ids : List Bytes) (J : Nat) : scan ids J = ids.drop (ids.length - ids.length % 2 ^ J) := by
  induction J with
  | zero => simp [scan, Nat.mod_one]
  | succ J ih =>
    simp only [scan, ih, chunkAt]
    have hle : ids.length % 2 ^ (J + 1) ≤ ids.length := Nat.mod_le _ _
    rcases mod_two_pow_succ ids.length J with ⟨h1, h2⟩ | ⟨h1, h2⟩
    · simp only [h1, if_true, h2]
      have : ids.length - (ids.length % 2 ^ (J + 1) - 2 ^ J) = (ids.length - ids.length % 2 ^ (J + 1)) + 2 ^ J := by omega
      rw [this, ← List.drop_drop]
      exact List.take_append_drop _ _
    · have : ¬ (2 ^ J ≤ ids.length % 2 ^ (J + 1)) := by omega
      simp [this, h2]

theorem scan_all (ids : List Bytes) (J : Nat) (h : ids.length < 2 ^ J) : scan ids J = ids := by
  rw [scan_eq, Nat.mod_eq_of_lt h]; simp

variable (cfg : CT14Cfg) (lv : Leaves)

/-- chunk `j` of a keyword is stored at level `j` under its label and decrypts to the chunk -/
def StoredChunk (Kw0 Kw1 : Bytes) (ids : List Bytes) (Ls : List (List (Bytes × Bytes))) (j : Nat) : Prop :=
  ∃ l cs, cfg.prfFPrime.call lv.hmac Kw0 (natToBytesMin j) = .ok l ∧ cs.length = 2 ^ j ∧
    decAll cfg.ske lv Kw1 cs = .ok (chunkAt ids j) ∧ (∀ c ∈ cs, allZero c = false) ∧
    (∀ sz, (∀ x ∈ ids, x.length = sz) → ∀ c ∈ cs, c.length = 16 + 16 * (sz / 16 + 1)) ∧
    InLevel Ls j (l, cs.flatten)

variable (hde : ∀ key iv msg c, iv.length = 16 → cfg.ske.encrypt lv.E key iv msg = .ok c → cfg.ske.decrypt lv.D key c = .ok msg)
variable (hE : ∀ key x : Bytes, x.length = 16 → (lv.E key x).length = 16)
include hde hE

theorem chunkLoop_spec (Kw0 Kw1 : Bytes) (ids : List Bytes) (j1 c : Nat) (Ls : List (List (Bytes × Bytes))) (t : Tape)
    (Ls' : List (List (Bytes × Bytes))) (t' : Tape)
    (h : chunkLoop cfg lv Kw0 Kw1 ids j1 c Ls t = .ok (Ls', t')) (hc : c = ids.length - ids.length % 2 ^ j1)
    (hg : GoodTape t) :
    Ls'.length = Ls.length ∧ (∀ p e, InLevel Ls p e → InLevel Ls' p e) ∧ Suffix t' t ∧
    ∀ j, j < j1 → 2 ^ j ≤ ids.length % 2 ^ (j + 1) → StoredChunk cfg lv Kw0 Kw1 ids Ls' j := by
  induction j1 generalizing c Ls t with
  | zero =>
    simp [chunkLoop] at h
    obtain ⟨rfl, rfl⟩ := h
    exact ⟨rfl, fun p e he => he, Suffix.refl _, fun j hj => absurd hj (by omega)⟩
  | succ j ih =>
    have hle : ids.length % 2 ^ (j + 1) ≤ ids.length := Nat.mod_le _ _
    simp only [chunkLoop] at h
    rcases mod_two_pow_succ ids.length j with ⟨h1, h2⟩ | ⟨h1, h2⟩
    · -- bit j set: a chunk of 2^j identifiers is cut
      have hcond : ¬ (2 ^ j > ids.length - c) := by omega
      simp only [hcond, if_false, bind, Except.bind] at h
      split at h
      · cases h
      · rename_i r hr
        obtain ⟨cs, t1⟩ := r
        simp only at h
        split at h
        · cases h
        · rename_i l hl
          split at h
          · cases h
          · rename_i Ls1 hpush
            obtain ⟨hnz, hs1⟩ := encAll_nonzero cfg.ske lv Kw1 _ _ _ _ hr hg
            obtain ⟨e1, e2⟩ := encAll_spec cfg.ske lv hde Kw1 _ _ _ _ hr
            obtain ⟨i1, i2, i3, i4⟩ := ih (c + 2 ^ j) Ls1 t1 h (by omega) (hg.suffix hs1)
            obtain ⟨pl, _, _⟩ := pushAt_spec Ls _ _ Ls1 hpush
            refine ⟨by rw [i1, pl], fun p e he => i2 p e (pushAt_inLevel_old Ls _ _ Ls1 hpush p e he), i3.trans hs1, ?_⟩
            intro j' hj' hbit
            by_cases hjj : j' = j
            · subst hjj
              have hch : (ids.drop c).take (2 ^ j') = chunkAt ids j' := by
                simp only [chunkAt, h1, if_true, hc]
              have hlen : ((ids.drop c).take (2 ^ j')).length = 2 ^ j' := by
                simp only [List.length_take, List.length_drop]; omega
              refine ⟨l, cs, hl, by rw [e1, hlen], by rw [e2, hch], hnz, ?_, i2 _ _ (pushAt_inLevel_new Ls _ _ Ls1 hpush)⟩
              intro sz hsz
              apply encAll_lens cfg.ske lv hE Kw1 _ _ _ _ hr sz
              intro x hx
              exact hsz x (List.mem_of_mem_drop (List.mem_of_mem_take hx))
            · exact i4 j' (by omega) hbit
    · -- bit j clear: nothing at this level
      have hcond : 2 ^ j > ids.length - c := by omega
      simp only [hcond, if_true] at h
      obtain ⟨i1, i2, i3, i4⟩ := ih c Ls t h (by omega) hg
      refine ⟨i1, i2, i3, ?_⟩
      intro j' hj' hbit
      by_cases hjj : j' = j
      · subst hjj; omega
      · exact i4 j' (by omega) hbit

omit hde hE in
theorem lt_two_pow_log2_succ (n : Nat) : n < 2 ^ (Nat.log2 n + 1) := Nat.lt_log2_self

theorem encDb_spec (K : Bytes) (db : DB) (Ls : List (List (Bytes × Bytes))) (t : Tape)
    (Ls' : List (List (Bytes × Bytes))) (t' : Tape) (h : encDb cfg lv K db Ls t = .ok (Ls', t')) (hg : GoodTape t) :
    Ls'.length = Ls.length ∧ (∀ p e, InLevel Ls p e → InLevel Ls' p e) ∧
    ∀ w ids, (w, ids) ∈ db → ∃ Kw0 Kw1, token cfg lv K w = .ok (Kw0, Kw1) ∧ ids.length ≠ 0 ∧
      ∀ j, 2 ^ j ≤ ids.length % 2 ^ (j + 1) → StoredChunk cfg lv Kw0 Kw1 ids Ls' j := by
  induction db generalizing Ls t with
  | nil =>
    simp [encDb] at h
    obtain ⟨rfl, _⟩ := h
    exact ⟨rfl, fun p e he => he, fun w ids hm => by cases hm⟩
  | cons p rest ih =>
    obtain ⟨w0, ids0⟩ := p
    simp only [encDb, bind, Except.bind] at h
    split at h
    · cases h
    · rename_i tk htk
      obtain ⟨Kw0, Kw1⟩ := tk
      simp only at h
      split at h
      · simp [throw, throwThe, MonadExceptOf.throw] at h
      · rename_i hlen
        try simp only [pure, Except.pure] at h
        split at h
        · cases h
        · rename_i r hr
          obtain ⟨Ls1, t1⟩ := r
          simp only at h
          have hinv : 0 = ids0.length - ids0.length % 2 ^ (Nat.log2 ids0.length + 1) := by
            rw [Nat.mod_eq_of_lt (Nat.lt_log2_self)]; omega
          obtain ⟨c1, c2, c3, c4⟩ := chunkLoop_spec cfg lv hde hE Kw0 Kw1 ids0 _ 0 Ls t Ls1 t1 hr hinv hg
          obtain ⟨i1, i2, i3⟩ := ih Ls1 t1 h (hg.suffix c3)
          refine ⟨by rw [i1, c1], fun p e he => i2 p e (c2 p e he), ?_⟩
          intro w ids hm
          simp only [List.mem_cons, Prod.mk.injEq] at hm
          rcases hm with ⟨rfl, rfl⟩ | hm
          · refine ⟨Kw0, Kw1, htk, hlen, ?_⟩
            intro j hbit
            have hj : j < Nat.log2 ids.length + 1 := by
              rcases Nat.lt_or_ge j (Nat.log2 ids.length + 1) with hh | hh
              · exact hh
              · -- 2^j > len, so len % 2^(j+1) = len < 2^j
                have h1 : ids.length < 2 ^ j := Nat.lt_of_lt_of_le (Nat.lt_log2_self) (Nat.pow_le_pow_right (by decide) hh)
                have h2 : ids.length % 2 ^ (j + 1) = ids.length :=
                  Nat.mod_eq_of_lt (Nat.lt_of_lt_of_le h1 (Nat.pow_le_pow_right (by decide) (by omega)))
                omega
            obtain ⟨l, cs, a1, a2, a3, a4, a5, a6⟩ := c4 j hj hbit
            exact ⟨l, cs, a1, a2, a3, a4, a5, i2 _ _ a6⟩
          · exact i3 w ids hm

omit hde hE in
theorem padLevels_spec (tt i : Nat) (Ls : List (List (Bytes × Bytes))) (t : Tape) (Ls' : List (List (Bytes × Bytes))) (t' : Tape)
    (h : padLevels cfg lv tt i Ls t = .ok (Ls', t')) :
    Ls'.length = Ls.length ∧ ∀ p e, InLevel Ls p e → InLevel Ls' p e := by
  induction Ls generalizing i t Ls' with
  | nil => simp [padLevels] at h; cases h.1; exact ⟨rfl, fun p e he => he⟩
  | cons L rest ih =>
    simp only [padLevels, bind, Except.bind] at h
    split at h
    · cases h
    · rename_i r hr
      obtain ⟨clen, t1⟩ := r
      simp only at h
      split at h
      · cases h
      · rename_i r2 hr2
        obtain ⟨fs, t2⟩ := r2
        simp only at h
        split at h
        · cases h
        · rename_i r3 hr3
          obtain ⟨more, t3⟩ := r3
          simp only [pure, Except.pure] at h
          cases h
          obtain ⟨i1, i2⟩ := ih _ _ _ hr3
          refine ⟨by simp [i1], ?_⟩
          intro p e he
          obtain ⟨l, hl, hm⟩ := he
          cases p with
          | zero => simp at hl; subst hl; exact ⟨L ++ fs, by simp, by simp [hm]⟩
          | succ q =>
            obtain ⟨l', hl', hm'⟩ := i2 q e ⟨l, by simpa using hl, hm⟩
            exact ⟨l', by simpa using hl', hm'⟩

omit hde hE in
/-- the descending level scan of `_Search` reassembles the list from its chunks -/
theorem searchLevels_scan (K0 K1 : Bytes) (HT : List Table) (ids : List Bytes) (clen : Nat) (hclen : 0 < clen) (i1 : Nat)
    (hset : ∀ j, j < i1 → 2 ^ j ≤ ids.length % 2 ^ (j + 1) →
      ∃ l cs, cfg.prfFPrime.call lv.hmac K0 (natToBytesMin j) = .ok l ∧ (HT[j]?).bind (·.get l) = some cs.flatten ∧
        cs.length = 2 ^ j ∧ decAll cfg.ske lv K1 cs = .ok (chunkAt ids j) ∧ (∀ c ∈ cs, allZero c = false) ∧
        (∀ c ∈ cs, c.length = clen))
    (hclear : ∀ j, j < i1 → ids.length % 2 ^ (j + 1) < 2 ^ j →
      ∃ l, cfg.prfFPrime.call lv.hmac K0 (natToBytesMin j) = .ok l ∧ (HT[j]?).bind (·.get l) = none) :
    searchLevels cfg lv K0 K1 HT i1 = .ok (scan ids i1) := by
  induction i1 with
  | zero => rfl
  | succ i ih =>
    have hrest := ih (fun j hj hb => hset j (by omega) hb) (fun j hj hb => hclear j (by omega) hb)
    simp only [searchLevels, scan]
    rcases Nat.lt_or_ge (ids.length % 2 ^ (i + 1)) (2 ^ i) with hb | hb
    · obtain ⟨l, hl, hnone⟩ := hclear i (by omega) hb
      have hca : chunkAt ids i = [] := by simp [chunkAt]; omega
      simp [hl, hnone, hrest, hca, bind, Except.bind, pure, Except.pure]
    · obtain ⟨l, cs, hl, hsome, hcl, hdec, hnz, hlen⟩ := hset i (by omega) hb
      have hparse := parse_cipher_block cs (2 ^ i) clen (Nat.two_pow_pos i) hclen hcl hlen hnz
      have hparse' : parseByCount cs.flatten ((2 : Int) ^ i) = .ok cs := by simpa using hparse
      simp [hl, hsome, hparse', hdec, hrest, bind, Except.bind, pure, Except.pure]

/-- the no-collision hypotheses of the CT14 theorem for one run: the labels of every level are distinct, and at every
    level where the keyword has no chunk its label is not stored -/
def NoColl (K : Bytes) (TL : List (List (Bytes × Bytes))) (w : Bytes) (ids : List Bytes) : Prop :=
  (∀ l ∈ TL, (l.map (·.1)).Nodup) ∧
  ∀ Kw0 Kw1, token cfg lv K w = .ok (Kw0, Kw1) → ∀ j, j < TL.length → ids.length % 2 ^ (j + 1) < 2 ^ j →
    ∃ l, cfg.prfFPrime.call lv.hmac Kw0 (natToBytesMin j) = .ok l ∧ ∀ lst, TL[j]? = some lst → l ∉ lst.map (·.1)

/-- CT14: a stored keyword's search returns its list -/
theorem search_present (K : Bytes) (db : DB) (t t' : Tape) (HT : List Table) (hs : setup cfg lv K db t = .ok (HT, t'))
    (hg : GoodTape t) (w : Bytes) (ids : List Bytes) (hidlen : ∀ x ∈ ids, x.length = cfg.idSize.toNat)
    (hpad : ∀ pdb t1, padLoop cfg.idSize.toNat (2 ^ clog2 db.total) (2 ^ clog2 db.total + 1) db db.total t = .ok (pdb, t1) →
      (w, ids) ∈ pdb)
    (hnc : ∀ TL, setupLists cfg lv K db t = .ok (TL, t') → NoColl cfg lv K TL w ids) :
    ∃ tk, token cfg lv K w = .ok tk ∧ search cfg lv HT tk = .ok ids := by
  unfold setup at hs
  simp only [bind, Except.bind] at hs
  split at hs
  · cases hs
  · rename_i r hr
    obtain ⟨TL, t5⟩ := r
    simp only [pure, Except.pure] at hs
    cases hs
    obtain ⟨hTLn, hclr⟩ := hnc TL hr
    simp only [setupLists] at hr
    by_cases hN : db.total = 0
    · simp [hN, throw, throwThe, MonadExceptOf.throw, bind, Except.bind] at hr
    · simp only [hN, if_false, bind, Except.bind, pure, Except.pure] at hr
      split at hr
      · cases hr
      · rename_i r1 hr1
        obtain ⟨pdb, t1⟩ := r1
        simp only at hr
        split at hr
        · cases hr
        · rename_i r2 hr2
          obtain ⟨Ls, t2⟩ := r2
          simp only at hr
          have hg1 : GoodTape t1 := hg.suffix (padLoop_suffix _ _ _ _ _ _ _ _ hr1)
          obtain ⟨_, _, hstored⟩ := encDb_spec cfg lv hde hE K pdb _ t1 Ls t2 hr2 hg1
          obtain ⟨Kw0, Kw1, htk, hne, hch⟩ := hstored w ids (hpad pdb t1 hr1)
          obtain ⟨_, hpl⟩ := padLevels_spec cfg lv _ 0 Ls t2 TL t' hr
          refine ⟨(Kw0, Kw1), htk, ?_⟩
          unfold search
          simp only
          -- every level that holds a chunk exists, so the scan covers the whole list
          have hlook : ∀ j, 2 ^ j ≤ ids.length % 2 ^ (j + 1) →
              ∃ l cs, cfg.prfFPrime.call lv.hmac Kw0 (natToBytesMin j) = .ok l ∧
                ((List.map buildTable TL)[j]?).bind (·.get l) = some cs.flatten ∧ cs.length = 2 ^ j ∧
                decAll cfg.ske lv Kw1 cs = .ok (chunkAt ids j) ∧ (∀ c ∈ cs, allZero c = false) ∧
                (∀ c ∈ cs, c.length = 16 + 16 * (cfg.idSize.toNat / 16 + 1)) ∧ j < TL.length := by
            intro j hb
            obtain ⟨l, cs, a1, a2, a3, a4, a5, a6⟩ := hch j hb
            obtain ⟨lst, hl, hm⟩ := hpl _ _ a6
            have hj : j < TL.length := by
              rcases Nat.lt_or_ge j TL.length with h | h
              · exact h
              · rw [List.getElem?_eq_none h] at hl; cases hl
            refine ⟨l, cs, a1, ?_, a2, a3, a4, a5 _ hidlen, hj⟩
            simp only [List.getElem?_map, hl, Option.map_some, Option.bind_some]
            exact buildTable_get_mem lst _ _ (hTLn lst (List.mem_of_getElem? hl)) hm
          have hcover : ids.length < 2 ^ TL.length := by
            have hpos : ids.length ≠ 0 := hne
            have hJ : 2 ^ Nat.log2 ids.length ≤ ids.length := Nat.log2_self_le hpos
            have hlt : ids.length < 2 ^ (Nat.log2 ids.length + 1) := Nat.lt_log2_self
            have hb : 2 ^ Nat.log2 ids.length ≤ ids.length % 2 ^ (Nat.log2 ids.length + 1) := by
              rw [Nat.mod_eq_of_lt hlt]; exact hJ
            obtain ⟨_, _, _, _, _, _, _, _, hj⟩ := hlook _ hb
            exact Nat.lt_of_lt_of_le hlt (Nat.pow_le_pow_right (by decide) hj)
          rw [searchLevels_scan cfg lv Kw0 Kw1 (List.map buildTable TL) ids (16 + 16 * (cfg.idSize.toNat / 16 + 1)) (by omega)
            (List.map buildTable TL).length ?_ ?_]
          · rw [List.length_map, scan_all ids TL.length hcover]
          · intro j _ hb
            obtain ⟨l, cs, a1, a2, a3, a4, a5, a6, _⟩ := hlook j hb
            exact ⟨l, cs, a1, a2, a3, a4, a5, a6⟩
          · intro j hj hb
            rw [List.length_map] at hj
            obtain ⟨l, hl, hfresh⟩ := hclr Kw0 Kw1 htk j hj hb
            refine ⟨l, hl, ?_⟩
            cases hget : TL[j]? with
            | none => simp [hget]
            | some lst =>
              simp only [List.getElem?_map, hget, Option.map_some, Option.bind_some]
              exact buildTable_get_none lst l (hfresh lst hget)

omit hde hE in
theorem cfgBuild_plain (raw : RawCfg) (h : CT14.cfgBuild raw = .ok cfg) : PlainSke cfg.ske := by
  unfold CT14.cfgBuild at h
  simp only [bind, Except.bind] at h
  repeat (split at h; (try cases h))
  all_goals (try (simp only [pure, Except.pure] at h))
  rename_i _ _ _ _ _ _ _ _ _ _ _ _ _ _ _ _ _ _ ske hske
  cases h
  exact (new_plain _ ske hske).1

end SSEPy.Sch.CT14
