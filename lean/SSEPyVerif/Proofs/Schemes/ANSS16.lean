/-
  ANSS16 Scheme 3: what `setup` stores for a keyword and how `search` reads it back.
-/
import SSEPyVerif.Proofs.Schemes.Levels
namespace SSEPy.Sch.ANSS16
open SSEPy.Sch

variable (cfg : ANSSCfg) (lv : Leaves)

theorem le_two_pow_clog2 (n : Nat) : n ≤ 2 ^ clog2 n := by
  unfold clog2
  split
  · rename_i h; simp; omega
  · have := Nat.lt_log2_self (n := n - 1)
    omega

/-- what one keyword of the (padded) database contributes -/
structure Stored (K : Bytes) (niSize : Nat) (Ts : List (List (Bytes × Bytes))) (S : List (Bytes × Bytes))
    (w : Bytes) (ids : List Bytes) : Prop where
  nonempty : ids.length ≠ 0
  ex : ∃ tk dummies cs niP nb, token cfg lv K w = .ok tk ∧
    dummies.length = 2 ^ clog2 ids.length - ids.length ∧ (∀ d ∈ dummies, d.length = cfg.idSize.toNat) ∧
    cs.length = 2 ^ clog2 ids.length ∧ (∀ c ∈ cs, allZero c = false) ∧
    decAll cfg.ske lv tk.Ki cs = .ok (ids ++ dummies) ∧
    (∀ sz, (∀ x ∈ ids, x.length = sz) → cfg.idSize.toNat = sz → ∀ c ∈ cs, c.length = 16 + 16 * (sz / 16 + 1)) ∧
    intToBytesNat ids.length niSize = .ok nb ∧ cfg.ske.decrypt lv.D tk.KiP niP = .ok nb ∧
    InLevel Ts (clog2 ids.length) (tk.li, cs.flatten) ∧ (tk.liP, niP) ∈ S

variable (hde : ∀ key iv msg c, iv.length = 16 → cfg.ske.encrypt lv.E key iv msg = .ok c → cfg.ske.decrypt lv.D key c = .ok msg)
variable (hE : ∀ key x : Bytes, x.length = 16 → (lv.E key x).length = 16)
include hde hE

omit hde hE in
theorem takeBytesN_spec (n k : Nat) (t t' : Tape) (bs : List Bytes) (h : takeBytesN n k t = .ok (bs, t')) :
    bs.length = k ∧ ∀ b ∈ bs, b.length = n := by
  induction k generalizing t bs with
  | zero => simp [takeBytesN] at h; cases h.1; exact ⟨rfl, fun b hb => by cases hb⟩
  | succ m ih =>
    simp only [takeBytesN, bind, Except.bind] at h
    split at h
    · cases h
    · rename_i r hr
      obtain ⟨b, t1⟩ := r
      simp only at h
      split at h
      · cases h
      · rename_i r2 hr2
        obtain ⟨bs', t2⟩ := r2
        simp only [pure, Except.pure] at h
        cases h
        obtain ⟨i1, i2⟩ := ih _ _ hr2
        refine ⟨by simp [i1], ?_⟩
        intro x hx
        simp only [List.mem_cons] at hx
        rcases hx with rfl | hx
        · exact Chain.takeBytes_len hr
        · exact i2 x hx

theorem encDb_spec (K : Bytes) (niSize : Nat) (db : DB) (Ts : List (List (Bytes × Bytes))) (S : List (Bytes × Bytes))
    (t : Tape) (Ts' : List (List (Bytes × Bytes))) (S' : List (Bytes × Bytes)) (t' : Tape)
    (h : encDb cfg lv K niSize db Ts S t = .ok (Ts', S', t')) (hg : GoodTape t) :
    Ts'.length = Ts.length ∧ (∀ e ∈ S, e ∈ S') ∧ (∀ p e, InLevel Ts p e → InLevel Ts' p e) ∧
    ∀ w ids, (w, ids) ∈ db → Stored cfg lv K niSize Ts' S' w ids := by
  induction db generalizing Ts S t with
  | nil =>
    simp [encDb] at h
    obtain ⟨rfl, rfl, _⟩ := h
    exact ⟨rfl, fun e he => he, fun p e he => he, fun w ids hm => by cases hm⟩
  | cons p rest ih =>
    obtain ⟨w0, ids0⟩ := p
    simp only [encDb] at h
    split at h
    · simp [throw, throwThe, MonadExceptOf.throw, bind, Except.bind] at h
    · rename_i hlen
      simp only [bind, Except.bind, pure, Except.pure] at h
      split at h
      · cases h
      · rename_i r hr
        obtain ⟨dummies, t1⟩ := r
        simp only at h
        split at h
        · cases h
        · rename_i tk htk
          split at h
          · cases h
          · rename_i r2 hr2
            obtain ⟨cs, t2⟩ := r2
            simp only at h
            split at h
            · cases h
            · rename_i nb hnb
              split at h
              · cases h
              · rename_i r3 hr3
                obtain ⟨niP, t3⟩ := r3
                obtain ⟨iv, hiv, hni⟩ := skeEncrypt_ok hr3
                simp only at h
                split at h
                · cases h
                · rename_i Ts1 hpush
                  have hg1 : GoodTape t1 := hg.suffix (takeBytesN_suffix _ _ _ _ _ hr)
                  obtain ⟨hnz, hs2⟩ := encAll_nonzero cfg.ske lv tk.Ki _ _ _ _ hr2 hg1
                  have hg2 : GoodTape t2 := hg1.suffix hs2
                  have hg3 : GoodTape t3 := hg2.suffix (cipher_nonzero cfg.ske lv _ _ _ _ _ hr3 hg2).2
                  obtain ⟨i1, i2, i3, i4⟩ := ih Ts1 (S ++ [(tk.liP, niP)]) t3 h hg3
                  obtain ⟨pl, _, _⟩ := pushAt_spec Ts _ _ Ts1 hpush
                  refine ⟨by rw [i1, pl], fun e he => i2 e (by simp [he]),
                          fun p e he => i3 p e (pushAt_inLevel_old Ts _ _ Ts1 hpush p e he), ?_⟩
                  intro w ids hm
                  simp only [List.mem_cons, Prod.mk.injEq] at hm
                  rcases hm with ⟨rfl, rfl⟩ | hm
                  · obtain ⟨d1, d2⟩ := takeBytesN_spec _ _ _ _ _ hr
                    obtain ⟨e1, e2⟩ := encAll_spec cfg.ske lv hde tk.Ki _ _ _ _ hr2
                    refine ⟨hlen, tk, dummies, cs, niP, nb, htk, d1, d2, ?_, hnz, e2, ?_, hnb,
                      hde _ _ _ _ (Chain.takeBytes_len hiv) hni,
                      i3 _ _ (pushAt_inLevel_new Ts _ _ Ts1 hpush), i2 _ (by simp)⟩
                    · rw [e1, List.length_append, d1]
                      have := le_two_pow_clog2 ids.length
                      omega
                    · intro sz hsz hid
                      apply encAll_lens cfg.ske lv hE tk.Ki _ _ _ _ hr2 sz
                      intro x hx
                      simp only [List.mem_append] at hx
                      rcases hx with hx | hx
                      · exact hsz x hx
                      · rw [d2 x hx, hid]
                  · exact i4 w ids hm

omit hde hE in
theorem padLevels_spec (tt i : Nat) (Ts : List (List (Bytes × Bytes))) (t : Tape) (Ts' : List (List (Bytes × Bytes))) (t' : Tape)
    (h : padLevels cfg lv tt i Ts t = .ok (Ts', t')) :
    Ts'.length = Ts.length ∧ ∀ p e, InLevel Ts p e → InLevel Ts' p e := by
  induction Ts generalizing i t Ts' with
  | nil => simp [padLevels] at h; cases h.1; exact ⟨rfl, fun p e he => he⟩
  | cons L rest ih =>
    simp only [padLevels, bind, Except.bind] at h
    split at h
    · cases h
    · rename_i r hr
      obtain ⟨clen, t1⟩ := r
      simp only at h
      split at h
      · cases h
      · rename_i r2 hr2
        obtain ⟨fs, t2⟩ := r2
        simp only at h
        split at h
        · cases h
        · rename_i r3 hr3
          obtain ⟨more, t3⟩ := r3
          simp only [pure, Except.pure] at h
          cases h
          obtain ⟨i1, i2⟩ := ih _ _ _ hr3
          refine ⟨by simp [i1], ?_⟩
          intro p e he
          obtain ⟨l, hl, hm⟩ := he
          cases p with
          | zero => simp at hl; subst hl; exact ⟨L ++ fs, by simp, by simp [hm]⟩
          | succ q =>
            obtain ⟨l', hl', hm'⟩ := i2 q e ⟨l, by simpa using hl, hm⟩
            exact ⟨l', by simpa using hl', hm'⟩

/-- ANSS16: a stored keyword's search returns its list -/
theorem search_present (K : Bytes) (db : DB) (t t' : Tape) (edb : ANSSEDB) (hs : setup cfg lv K db t = .ok (edb, t'))
    (hg : GoodTape t) (w : Bytes) (ids : List Bytes) (hidlen : ∀ x ∈ ids, x.length = cfg.idSize.toNat)
    (hpad : ∀ pdb t1, padLoop cfg.idSize.toNat (2 ^ clog2 db.total) (2 ^ clog2 db.total + 1) db db.total t = .ok (pdb, t1) →
      (w, ids) ∈ pdb)
    (hnc : ∀ SL TL, setupLists cfg lv K db t = .ok (SL, TL, t') → (SL.map (·.1)).Nodup ∧ ∀ l ∈ TL, (l.map (·.1)).Nodup) :
    ∃ tk, token cfg lv K w = .ok tk ∧ search cfg lv edb tk = .ok ids := by
  unfold setup at hs
  simp only [bind, Except.bind] at hs
  split at hs
  · cases hs
  · rename_i r hr
    obtain ⟨SL, TL, t5⟩ := r
    simp only [pure, Except.pure] at hs
    cases hs
    obtain ⟨hSLn, hTLn⟩ := hnc SL TL hr
    -- open `setupLists`
    simp only [setupLists] at hr
    by_cases hN : db.total = 0
    · simp [hN, throw, throwThe, MonadExceptOf.throw, bind, Except.bind] at hr
    · simp only [hN, if_false, bind, Except.bind, pure, Except.pure] at hr
      split at hr
      · cases hr
      · rename_i r1 hr1
        obtain ⟨pdb, t1⟩ := r1
        simp only at hr
        split at hr
        · cases hr
        · rename_i r2 hr2
          obtain ⟨Ts, S, t2⟩ := r2
          simp only at hr
          split at hr
          · cases hr
          · rename_i r3 hr3
            obtain ⟨Ts', t3⟩ := r3
            simp only at hr
            split at hr
            · cases hr
            · rename_i r4 hr4
              obtain ⟨nlen, t4⟩ := r4
              simp only at hr
              split at hr
              · cases hr
              · rename_i r5 hr5
                obtain ⟨fs, t6⟩ := r5
                simp only at hr
                cases hr
                have hg1 : GoodTape t1 := hg.suffix (padLoop_suffix _ _ _ _ _ _ _ _ hr1)
                obtain ⟨_, _, _, hstored⟩ := encDb_spec cfg lv hde hE K _ pdb _ _ t1 Ts S t2 hr2 hg1
                obtain ⟨hne, tk, dummies, cs, niP, nb, htk, hdl, hdlen, hcl, hcnz, hdec, hclen, hnb, hdecn, hin, hS⟩ :=
                  hstored w ids (hpad pdb t1 hr1)
                obtain ⟨_, hpl⟩ := padLevels_spec cfg lv _ 0 Ts t2 TL t3 hr3
                obtain ⟨l, hl, hml⟩ := hpl _ _ hin
                refine ⟨tk, htk, ?_⟩
                unfold search
                have hget1 : (buildTable (S ++ fs)).get tk.liP = some niP :=
                  buildTable_get_mem _ _ _ hSLn (by simp [hS])
                simp only [hget1, bind, Except.bind, hdecn]
                have hni : intFromBytes nb = ids.length := (C17.int_roundtrip _ _ _ hnb).1
                simp only [hni, hne, if_false]
                have hplt : clog2 ids.length < TL.length := by
                  rcases Nat.lt_or_ge (clog2 ids.length) TL.length with h | h
                  · exact h
                  · rw [List.getElem?_eq_none h] at hl; cases hl
                have hnot : ¬ (clog2 ids.length ≥ (List.map buildTable TL).length) := by simp; omega
                simp only [hnot, if_false]
                have hget2 : ((List.map buildTable TL)[clog2 ids.length]?).bind (·.get tk.li) = some cs.flatten := by
                  simp only [List.getElem?_map, hl, Option.map_some, Option.bind_some]
                  exact buildTable_get_mem l _ _ (hTLn l (List.mem_of_getElem? hl)) hml
                simp only [hget2]
                -- the block parses back into its 2^p ciphertexts
                have hcl' := hclen cfg.idSize.toNat hidlen rfl
                generalize hcdef : 16 + 16 * (cfg.idSize.toNat / 16 + 1) = clen at hcl'
                have hclenpos : 0 < clen := by omega
                have hflen : cs.flatten.length = cs.length * clen := flatten_length_of_all clen cs hcl'
                have hpow : 0 < 2 ^ clog2 ids.length := Nat.two_pow_pos _
                have hparse : parseByCount cs.flatten ((2 ^ clog2 ids.length : Nat) : Int) = .ok cs := by
                  have e1 := (C17.wrappers_agree [] cs.flatten (2 ^ clog2 ids.length) 0 0).2.2
                  rw [e1, C17.parse_by_count cs.flatten _ clen hpow (by rw [hflen, hcl]; exact Nat.mul_div_cancel_left _ hpow)]
                  unfold parseBySizeNat
                  have : clen ≠ 0 := by omega
                  simp only [this, if_false]
                  have := parseLoop_flatten_zeros clen hclenpos cs 0 cs.flatten.length
                    (fun c hc => ⟨hcl' c hc, hcnz c hc⟩) (by simp [zeros])
                  simp only [zeros, List.replicate_zero, List.append_nil] at this
                  rw [this]
                simp only [hparse]
                rw [decAll_take cfg.ske lv tk.Ki cs _ ids.length hdec]
                simp

omit hde hE in
theorem cfgBuild_plain (raw : RawCfg) (h : ANSS16.cfgBuild raw = .ok cfg) : PlainSke cfg.ske := by
  unfold ANSS16.cfgBuild at h
  simp only [bind, Except.bind] at h
  repeat (split at h; (try cases h))
  all_goals (try (simp only [pure, Except.pure] at h))
  rename_i _ _ _ _ _ _ _ _ k _ _ _ _ _ _ _ _ _ _ _ _ _ ske hske
  cases h
  exact (new_plain _ ske hske).1

end SSEPy.Sch.ANSS16
