/-
  Shape of the counter-chain index: how many entries, how long each label and each value.
-/
import SSEPyVerif.Proofs.Schemes.ChainCfg
namespace SSEPy.Sch

theorem tinsert_fresh (t : Table) (k v : Bytes) (h : k ∉ t.map (·.1)) : tinsert t k v = t ++ [(k, v)] := by
  induction t with
  | nil => rfl
  | cons p rest ih =>
    obtain ⟨a, b⟩ := p
    simp only [List.map_cons, List.mem_cons, not_or] at h
    have : ¬ a = k := fun e => h.1 e.symm
    simp [tinsert, this, ih h.2]

theorem foldl_tinsert_fresh (ps : List (Bytes × Bytes)) (t : Table) (hn : (t.map (·.1) ++ ps.map (·.1)).Nodup) :
    ps.foldl (fun t p => tinsert t p.1 p.2) t = t ++ ps := by
  induction ps generalizing t with
  | nil => simp
  | cons p rest ih =>
    have hnot : p.1 ∉ t.map (·.1) := by
      intro hm
      rw [List.nodup_append] at hn
      exact hn.2.2 _ hm _ (by simp) rfl
    simp only [List.foldl_cons, tinsert_fresh t p.1 p.2 hnot]
    rw [ih]
    · simp
    · simpa using hn

/-- with distinct labels the table is exactly the sorted pair list -/
theorem buildTable_eq_sorted (ps : List (Bytes × Bytes)) (hn : (ps.map (·.1)).Nodup) :
    buildTable ps = ps.mergeSort (fun a b => bytesLe a.1 b.1) := by
  unfold buildTable tableOfList
  have := foldl_tinsert_fresh (ps.mergeSort fun a b => bytesLe a.1 b.1) []
    (by simpa using ((sorted_perm ps).map (·.1)).nodup_iff.mpr hn)
  simpa using this

theorem buildTable_perm (ps : List (Bytes × Bytes)) (hn : (ps.map (·.1)).Nodup) : (buildTable ps).Perm ps := by
  rw [buildTable_eq_sorted ps hn]; exact sorted_perm ps

namespace Chain
variable (cfg : ChainCfg) (lv : Leaves)

/-- lengths of what one keyword contributes -/
theorem encChunks_shape (hd : ∀ k m, (lv.hmac k m).length = cfg.prfF.hashLen) (h0 : 0 < cfg.prfF.hashLen)
    (hE : ∀ key x : Bytes, x.length = 16 → (lv.E key x).length = 16)
    (K1 K2 : Bytes) (c : Nat) (chs : List Bytes) (t t' : Tape) (ps : List (Bytes × Bytes))
    (h : encChunks cfg lv K1 K2 c chs t = .ok (ps, t')) :
    ps.length = chs.length ∧
    ps.map (fun p => (p.1.length, p.2.length)) =
      chs.map (fun ch => (cfg.prfF.outputLength.toNat, 16 + 16 * (ch.length / 16 + 1))) := by
  induction chs generalizing c t ps with
  | nil => simp [encChunks] at h; cases h.1; exact ⟨rfl, rfl⟩
  | cons ch rest ih =>
    simp only [encChunks, bind, Except.bind] at h
    split at h
    · cases h
    · rename_i l hl
      split at h
      · cases h
      · rename_i r hr0
        obtain ⟨d, t1⟩ := r
        obtain ⟨iv, hr, hd'⟩ := skeEncrypt_ok hr0
        simp only at h
        split at h
        · cases h
        · rename_i r2 hr2
          obtain ⟨ps', t2⟩ := r2
          simp only [pure, Except.pure] at h
          cases h
          obtain ⟨i1, i2⟩ := ih _ _ _ hr2
          have hl' := (prf_ok cfg.prfF lv.hmac hd h0 K1 _ l hl).1
          have hv := C14.enc_len cfg.ske lv.E K2 iv ch d (hE K2) (takeBytes_len hr) hd'
          exact ⟨by simp [i1], by simp [i2, hl', hv]⟩

end Chain
end SSEPy.Sch

namespace SSEPy.Sch.Chain
variable (cfg : ChainCfg) (lv : Leaves)

/-- the (label length, value length) pairs one keyword contributes -/
def kwLens (p : Bytes × List Bytes) : List (Nat × Nat) :=
  match cfg.pack p.2 with
  | .ok chs => chs.map fun ch => (cfg.prfF.outputLength.toNat, 16 + 16 * (ch.length / 16 + 1))
  | .error _ => []

theorem encDb_shape (hd : ∀ k m, (lv.hmac k m).length = cfg.prfF.hashLen) (h0 : 0 < cfg.prfF.hashLen)
    (hE : ∀ key x : Bytes, x.length = 16 → (lv.E key x).length = 16)
    (K : Bytes) (db : DB) (t t' : Tape) (L : List (Bytes × Bytes)) (h : encDb cfg lv K db t = .ok (L, t')) :
    L.map (fun p => (p.1.length, p.2.length)) = db.flatMap (kwLens cfg) := by
  induction db generalizing t L with
  | nil => simp [encDb] at h; cases h.1; rfl
  | cons p rest ih =>
    obtain ⟨w0, ids0⟩ := p
    simp only [encDb, bind, Except.bind] at h
    split at h
    · cases h
    · rename_i tk htk
      obtain ⟨K1, K2⟩ := tk
      simp only at h
      split at h
      · cases h
      · rename_i chs hchs
        split at h
        · cases h
        · rename_i r hr
          obtain ⟨ps, t1⟩ := r
          simp only at h
          split at h
          · cases h
          · rename_i r2 hr2
            obtain ⟨qs, t2⟩ := r2
            simp only [pure, Except.pure] at h
            cases h
            simp only [List.map_append, List.flatMap_cons, ih _ _ hr2]
            congr 1
            rw [(encChunks_shape cfg lv hd h0 hE K1 K2 0 chs _ _ _ hr).2]
            simp [kwLens, hchs]

end SSEPy.Sch.Chain
