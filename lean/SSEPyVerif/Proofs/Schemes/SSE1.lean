/-
  SSE-1: the linked lists in the array, the look-up table, and the walk of `search`.
-/
import SSEPyVerif.Proofs.Schemes.Levels
import SSEPyVerif.Model.Schemes.SSE1
import SSEPyVerif.Props.C15
import SSEPyVerif.Proofs.Schemes.PrpInj
namespace SSEPy.Sch.SSE1
open SSEPy.Sch

variable (cfg : SSE1Cfg) (lv : Leaves)

/-- the array address of node counter `ctr` -/
def psiVal (K1 : Bytes) (ctr : Nat) : Option Nat :=
  match psi cfg lv K1 ctr with
  | .ok a => some a.value
  | .error _ => none

/-- node `ctr` holds `id ‖ nk ‖ na` encrypted under `key` -/
def NodeAt (A : List Bytes) (K1 : Bytes) (ctr : Nat) (key id nk na : Bytes) : Prop :=
  ∃ i c, psiVal cfg lv K1 ctr = some i ∧ A[i]? = some c ∧ cfg.ske1.decrypt lv.D key c = .ok (id ++ nk ++ na) ∧
    id.length = cfg.idSize.toNat ∧ nk.length = cfg.k.toNat ∧ na.length = cfg.log2sBytes

/-- the list `ids` hangs at counter `ctr` under `key` -/
def ListAt (A : List Bytes) (K1 : Bytes) : Nat → Bytes → List Bytes → Prop
  | _, _, [] => False
  | ctr, key, [id] => NodeAt cfg lv A K1 ctr key id (zeros cfg.k.toNat) (zeros cfg.log2sBytes)
  | ctr, key, id :: id2 :: rest =>
    ∃ nk nb i2, psiVal cfg lv K1 (ctr + 1) = some i2 ∧ intFromBytes nb = i2 ∧ allZero nk = false ∧
      NodeAt cfg lv A K1 ctr key id nk nb ∧ ListAt A K1 (ctr + 1) nk (id2 :: rest)

/-- `A'` keeps every cell of `A` that is not the placeholder `b'\\x00'` -/
def Ext (A A' : List Bytes) : Prop :=
  A'.length = A.length ∧ ∀ (i : Nat) (c : Bytes), A[i]? = some c → c ≠ [0] → A'[i]? = some c

theorem Ext.refl (A : List Bytes) : Ext A A := ⟨rfl, fun _ _ h _ => h⟩
theorem Ext.trans {A B C : List Bytes} (h1 : Ext A B) (h2 : Ext B C) : Ext A C :=
  ⟨h2.1.trans h1.1, fun i c h hc => h2.2 i c (h1.2 i c h hc) hc⟩

/-- a ciphertext is never the one-byte placeholder -/
theorem cipher_ne_placeholder (ske : AESxCBC) (E : BlockFn) (key iv msg c : Bytes) (hiv : iv.length = 16)
    (h : ske.encrypt E key iv msg = .ok c) : c ≠ [0] := by
  intro e
  have := C14.enc_iv_prefix ske E key iv msg c hiv h
  rw [e] at this
  have hl : ([0] : Bytes).take 16 = [0] := rfl
  rw [hl] at this
  rw [← this] at hiv
  simp at hiv

/-- the walk of `_Search` returns the list that hangs at the start node -/
theorem walk_listAt (A : List Bytes) (K1 : Bytes) (ids : List Bytes) (ctr : Nat) (key : Bytes) (i : Nat) (ab : Bytes)
    (hL : ListAt cfg lv A K1 ctr key ids) (ha : psiVal cfg lv K1 ctr = some i) (hab : intFromBytes ab = i)
    (fuel : Nat) (hf : ids.length ≤ fuel) (acc : List Bytes) :
    walk cfg lv A fuel ab key acc = .ok (acc ++ ids) := by
  induction ids generalizing ctr key i ab fuel acc with
  | nil => exact absurd hL (by simp [ListAt])
  | cons id rest ih =>
    cases fuel with
    | zero => simp at hf
    | succ f =>
      cases rest with
      | nil =>
        obtain ⟨i', c, h1, h2, h3, l1, l2, l3⟩ := hL
        rw [ha] at h1; cases h1
        have hsplit := split_flatten [cfg.idSize.toNat, cfg.k.toNat, cfg.log2sBytes]
          [id, zeros cfg.k.toNat, zeros cfg.log2sBytes] (by simp [l1, zeros])
        simp only [List.flatten_cons, List.flatten_nil, List.append_nil] at hsplit
        simp only [walk, hab, h2, h3, bind, Except.bind, pure, Except.pure]
        rw [List.append_assoc, hsplit]
        simp [allZero_zeros]
      | cons id2 rest2 =>
        obtain ⟨nk, nb, i2, ha2, hnb, hnz, ⟨i', c, h1, h2, h3, l1, l2, l3⟩, hrest⟩ := hL
        rw [ha] at h1; cases h1
        have hsplit := split_flatten [cfg.idSize.toNat, cfg.k.toNat, cfg.log2sBytes] [id, nk, nb] (by simp [l1, l2, l3])
        simp only [List.flatten_cons, List.flatten_nil, List.append_nil] at hsplit
        simp only [walk, hab, h2, h3, bind, Except.bind, pure, Except.pure]
        rw [List.append_assoc, hsplit]
        simp only [hnz, Bool.false_and]
        rw [ih (ctr + 1) nk i2 nb hrest ha2 hnb f (by simp at hf ⊢; omega) (acc ++ [id])]
        simp

/-- a decryptable cell is not the placeholder -/
theorem dec_ne_placeholder (ske : AESxCBC) (D : BlockFn) (key c m : Bytes) (h : ske.decrypt D key c = .ok m) : c ≠ [0] := by
  intro e
  subst e
  unfold AESxCBC.decrypt at h
  split at h
  · cases h
  · split at h
    · cases h
    · simp at h

theorem NodeAt.mono {A A' : List Bytes} {K1 : Bytes} {ctr : Nat} {key id nk na : Bytes}
    (h : NodeAt cfg lv A K1 ctr key id nk na) (he : Ext A A') : NodeAt cfg lv A' K1 ctr key id nk na := by
  obtain ⟨i, c, h1, h2, h3, l⟩ := h
  exact ⟨i, c, h1, he.2 i c h2 (dec_ne_placeholder _ _ _ _ _ h3), h3, l⟩

theorem ListAt.mono {A A' : List Bytes} {K1 : Bytes} (ids : List Bytes) {ctr : Nat} {key : Bytes}
    (h : ListAt cfg lv A K1 ctr key ids) (he : Ext A A') : ListAt cfg lv A' K1 ctr key ids := by
  induction ids generalizing ctr key with
  | nil => exact h
  | cons id rest ih =>
    cases rest with
    | nil => exact NodeAt.mono cfg lv h he
    | cons id2 rest2 =>
      obtain ⟨nk, nb, i2, a1, a2, a3, a4, a5⟩ := h
      exact ⟨nk, nb, i2, a1, a2, a3, NodeAt.mono cfg lv a4 he, ih a5⟩

/-- every cell that is not a placeholder is the address of an earlier node counter -/
def Written (A : List Bytes) (K1 : Bytes) (ctr : Nat) : Prop :=
  ∀ (i : Nat) (c : Bytes), A[i]? = some c → c ≠ [0] → ∃ c', 1 ≤ c' ∧ c' < ctr ∧ psiVal cfg lv K1 c' = some i

/-- node addresses are pairwise distinct (ψ is a permutation: proved from C15 below) -/
def PsiInj (K1 : Bytes) (N : Nat) : Prop :=
  ∀ a b i, 1 ≤ a → a ≤ N → 1 ≤ b → b ≤ N → psiVal cfg lv K1 a = some i → psiVal cfg lv K1 b = some i → a = b

theorem setCell_ok {A A' : List Bytes} {i : Nat} {v : Bytes} (h : setCell A i v = .ok A') : i < A.length ∧ A' = A.set i v := by
  unfold setCell at h
  split at h
  · cases h; exact ⟨by assumption, rfl⟩
  · cases h

/-- writing the node of counter `ctr` hits a placeholder: nothing that was stored is lost -/
theorem write_ext (K1 : Bytes) (N ctr i : Nat) (A A' : List Bytes) (c : Bytes)
    (hW : Written cfg lv A K1 ctr) (hinj : PsiInj cfg lv K1 N) (h1 : 1 ≤ ctr) (hN : ctr ≤ N)
    (ha : psiVal cfg lv K1 ctr = some i) (hs : setCell A i c = .ok A') (hc : c ≠ [0]) :
    Ext A A' ∧ Written cfg lv A' K1 (ctr + 1) ∧ A'[i]? = some c := by
  obtain ⟨hlt, rfl⟩ := setCell_ok hs
  refine ⟨⟨by simp, ?_⟩, ?_, by simp [hlt]⟩
  · intro j c' hj hc'
    by_cases hji : j = i
    · subst hji
      obtain ⟨c2, h21, h22, h23⟩ := hW j c' hj hc'
      have := hinj c2 ctr j h21 (by omega) h1 hN h23 ha
      omega
    · simp [List.getElem?_set, Ne.symm hji, hj]
  · intro j c' hj hc'
    by_cases hji : j = i
    · subst hji; exact ⟨ctr, h1, by omega, ha⟩
    · have : A[j]? = some c' := by simpa [List.getElem?_set, Ne.symm hji] using hj
      obtain ⟨c2, h21, h22, h23⟩ := hW j c' this hc'
      exact ⟨c2, h21, by omega, h23⟩

/-- no key-sized draw is all zero (an all-zero node key would be mistaken for the list terminator) -/
def KeysGood (t : Tape) : Prop := ∀ b, Draw.bytes b ∈ t → b.length = cfg.k.toNat → allZero b = false

theorem KeysGood.suffix {t t' : Tape} (h : KeysGood cfg t) (hs : Suffix t' t) : KeysGood cfg t' := by
  obtain ⟨pre, rfl⟩ := hs
  intro b hb hl
  exact h b (List.mem_append_right _ hb) hl

/-- ψ's outputs are `log2_s`-bit values (C15: the bit PRP preserves the length) -/
def PsiLen (K1 : Bytes) : Prop := ∀ c a, psi cfg lv K1 c = .ok a → a.length = cfg.log2s

theorem toBytes_spec (a : Bitset) (b : Bytes) (h : a.toBytes = .ok b) : intFromBytes b = a.value ∧ b.length = (a.length + 7) / 8 := by
  simp only [Bitset.toBytes] at h
  by_cases hw : a.value ≥ 256 ^ ((a.length + 7) / 8)
  · simp [hw] at h
  · simp only [hw, if_false] at h
    cases h
    exact ⟨fromBE_toBE _ _ (by omega), toBE_length _ _⟩

variable (hde : ∀ key iv msg c, iv.length = 16 → cfg.ske1.encrypt lv.E key iv msg = .ok c → cfg.ske1.decrypt lv.D key c = .ok msg)
include hde

theorem innerNodes_spec (hlb : cfg.log2sBytes = (cfg.log2s + 7) / 8) (K1 : Bytes) (N : Nat) (hinj : PsiInj cfg lv K1 N) (hpl : PsiLen cfg lv K1)
    (ids : List Bytes) (prevKey : Bytes) (ctr : Nat) (first : Option Bitset) (A : List Bytes) (t : Tape)
    (lastKey : Bytes) (ctr1 : Nat) (first' : Option Bitset) (A1 : List Bytes) (t1 : Tape)
    (h : innerNodes cfg lv K1 ids prevKey ctr first A t = .ok (lastKey, ctr1, first', A1, t1))
    (hne : ids ≠ []) (hW : Written cfg lv A K1 ctr) (h1 : 1 ≤ ctr) (hN : ctr + ids.length ≤ N + 1)
    (hk : KeysGood cfg t) (hidl : ∀ x ∈ ids, x.length = cfg.idSize.toNat) :
    ctr1 + 1 = ctr + ids.length ∧ Ext A A1 ∧ Written cfg lv A1 K1 ctr1 ∧ Suffix t1 t ∧
    (∀ x, first = some x → first' = some x) ∧
    (first = none → ids.length ≤ 1 → first' = none) ∧
    (first = none → 2 ≤ ids.length → ∃ a, psi cfg lv K1 ctr = .ok a ∧ first' = some a) ∧
    ∀ Afin, Ext A1 Afin → ∀ lastId, ids.getLast? = some lastId →
      ListAt cfg lv Afin K1 ctr1 lastKey [lastId] → ListAt cfg lv Afin K1 ctr prevKey ids := by
  induction ids generalizing prevKey ctr first A t with
  | nil => exact absurd rfl hne
  | cons id rest ih =>
    cases rest with
    | nil =>
      simp only [innerNodes] at h
      cases h
      refine ⟨by simp, Ext.refl _, hW, Suffix.refl _, fun x hx => hx, fun hx _ => hx, fun _ hl => absurd hl (by simp), ?_⟩
      intro Afin _ lastId hl hlast
      simp at hl; subst hl
      exact hlast
    | cons id2 rest2 =>
      simp only [innerNodes, bind, Except.bind] at h
      split at h
      · cases h
      · rename_i r hr
        obtain ⟨kj, tk⟩ := r
        simp only at h
        split at h
        · cases h
        · rename_i nxt hnxt
          split at h
          · cases h
          · rename_i nb hnb
            split at h
            · cases h
            · rename_i addr haddr
              split at h
              · cases h
              · rename_i r2 hr2
                obtain ⟨c, t2⟩ := r2
                obtain ⟨iv, hiv, hc⟩ := skeEncrypt_ok hr2
                simp only at h
                split at h
                · cases h
                · rename_i A' hset
                  have hpv : psiVal cfg lv K1 ctr = some addr.value := by simp [psiVal, haddr]
                  have hcne : c ≠ [0] := cipher_ne_placeholder cfg.ske1 lv.E prevKey iv _ c (Chain.takeBytes_len hiv) hc
                  obtain ⟨e1, w1, g1⟩ := write_ext cfg lv K1 N ctr addr.value A A' c hW hinj h1 (by simp at hN; omega) hpv hset hcne
                  have hkt : KeysGood cfg tk := KeysGood.suffix cfg hk (takeBytes_suffix hr)
                  have hk2 : KeysGood cfg t2 := KeysGood.suffix cfg hkt (takeBytes_suffix hiv)
                  obtain ⟨r1, r2, r3, r4, r5, r6, r7, r8⟩ :=
                    ih kj (ctr + 1) (first.or (some addr)) A' t2 h (by simp) w1 (by omega) (by simp at hN ⊢; omega) hk2
                      (fun x hx => hidl x (by simp [hx]))
                  refine ⟨by simp at r1 ⊢; omega, e1.trans r2, r3,
                    r4.trans ((takeBytes_suffix hiv).trans (takeBytes_suffix hr)), ?_, ?_, ?_, ?_⟩
                  · intro x hx; subst hx; exact r5 x (by simp)
                  · intro _ hl; simp at hl
                  · intro hf _; subst hf; exact ⟨addr, haddr, r5 addr (by simp)⟩
                  · intro Afin hext lastId hl hlast
                    have hrest := r8 Afin hext lastId (by simpa using hl) hlast
                    obtain ⟨nv, nl⟩ := toBytes_spec nxt nb hnb
                    have hkl : kj.length = cfg.k.toNat := Chain.takeBytes_len hr
                    refine ⟨kj, nb, nxt.value, by simp [psiVal, hnxt], nv,
                      hk kj (by rw [takeBytes_cons hr]; simp) hkl, ?_, hrest⟩
                    refine ⟨addr.value, c, hpv, (r2.trans hext).2 _ _ g1 hcne,
                      hde _ _ _ _ (Chain.takeBytes_len hiv) hc, hidl id (by simp), hkl, ?_⟩
                    rw [nl, hpl _ _ hnxt, hlb]

/-- what the index holds for one keyword -/
def Entry (A : List Bytes) (T : Table) (K1 K2 K3 : Bytes) (w : Bytes) (ids : List Bytes) : Prop :=
  ∃ c0 k0 fa fb gamma eta theta, psi cfg lv K1 c0 = .ok fa ∧ fa.toBytes = .ok fb ∧ k0.length = cfg.k.toNat ∧
    ListAt cfg lv A K1 c0 k0 ids ∧ piBytes cfg lv K3 w = .ok gamma ∧
    cfg.prfF.call lv.hmac K2 (addLeadingZeros w cfg.l) = .ok eta ∧ bytesXor (fb ++ k0) eta = .ok theta ∧
    T.lookup gamma = some theta

/-- table labels of different keywords are different (π is a permutation) -/
def GammaInj (K3 : Bytes) (db : DB) : Prop :=
  ∀ w ids w' ids' g, (w, ids) ∈ db → (w', ids') ∈ db → piBytes cfg lv K3 w = .ok g → piBytes cfg lv K3 w' = .ok g → w = w'

theorem encDb_spec (hlb : cfg.log2sBytes = (cfg.log2s + 7) / 8) (K1 K2 K3 : Bytes) (N : Nat)
    (hinj : PsiInj cfg lv K1 N) (hpl : PsiLen cfg lv K1)
    (db : DB) (ctr : Nat) (A : List Bytes) (T : Table) (t : Tape) (A' : List Bytes) (T' : Table) (t' : Tape)
    (h : encDb cfg lv K1 K2 K3 db ctr A T t = .ok (A', T', t'))
    (hW : Written cfg lv A K1 ctr) (h1 : 1 ≤ ctr) (hN : ctr + db.total ≤ N + 1) (hk : KeysGood cfg t)
    (hidl : ∀ p ∈ db, ∀ x ∈ p.2, x.length = cfg.idSize.toNat)
    (hkeys : (db.map (·.1)).Nodup) (hg : GammaInj cfg lv K3 db) :
    Ext A A' ∧ Suffix t' t ∧
    (∀ g, (∀ w ids, (w, ids) ∈ db → piBytes cfg lv K3 w ≠ .ok g) → T'.lookup g = T.lookup g) ∧
    ∀ w ids, (w, ids) ∈ db → Entry cfg lv A' T' K1 K2 K3 w ids := by
  induction db generalizing ctr A T t with
  | nil =>
    simp [encDb] at h
    obtain ⟨rfl, rfl, rfl⟩ := h
    exact ⟨Ext.refl _, Suffix.refl _, fun g _ => rfl, fun w ids hm => by cases hm⟩
  | cons p rest ih =>
    obtain ⟨w0, ids0⟩ := p
    simp only [encDb, bind, Except.bind] at h
    split at h
    · cases h
    · rename_i r hr
      obtain ⟨k0, t1⟩ := r
      simp only at h
      split at h
      · cases h
      · rename_i r2 hr2
        obtain ⟨lastKey, ctr1, first, A1, t2⟩ := r2
        simp only at h
        split at h
        · cases h
        · rename_i lastId hlast
          have hlast' : ids0.getLast? = some lastId := by
            cases hx : ids0.getLast? with
            | none => rw [hx] at hlast; cases hlast
            | some x => rw [hx] at hlast; cases hlast; rfl
          have hne : ids0 ≠ [] := by intro e; rw [e] at hlast'; cases hlast'
          split at h
          · cases h
          · rename_i lastAddr hla
            split at h
            · cases h
            · rename_i r3 hr3
              obtain ⟨c, t3⟩ := r3
              obtain ⟨iv, hiv, hc⟩ := skeEncrypt_ok hr3
              simp only at h
              split at h
              · cases h
              · rename_i A2 hset
                split at h
                · cases h
                · rename_i gamma hgam
                  split at h
                  · cases h
                  · rename_i eta heta
                    split at h
                    · cases h
                    · rename_i fb hfb
                      split at h
                      · cases h
                      · rename_i theta hth
                        have htot : DB.total ((w0, ids0) :: rest) = ids0.length + DB.total rest := by simp [DB.total]
                        have hk1 : KeysGood cfg t1 := KeysGood.suffix cfg hk (takeBytes_suffix hr)
                        obtain ⟨n1, n2, n3, n4, n5, n6, n7, n8⟩ :=
                          innerNodes_spec cfg lv hde hlb K1 N hinj hpl ids0 k0 ctr none A t1 lastKey ctr1 first A1 t2 hr2 hne
                            hW h1 (by rw [htot] at hN; omega) hk1 (hidl (w0, ids0) (by simp))
                        have hpos : 0 < ids0.length := List.length_pos_iff.mpr hne
                        have hpv : psiVal cfg lv K1 ctr1 = some lastAddr.value := by simp [psiVal, hla]
                        have hcne : c ≠ [0] := cipher_ne_placeholder cfg.ske1 lv.E lastKey iv _ c (Chain.takeBytes_len hiv) hc
                        obtain ⟨e1, w1, g1⟩ := write_ext cfg lv K1 N ctr1 lastAddr.value A1 A2 c n3 hinj (by omega)
                          (by rw [htot] at hN; omega) hpv hset hcne
                        have hk3 : KeysGood cfg t3 := (KeysGood.suffix cfg hk1 n4).suffix cfg (takeBytes_suffix hiv)
                        simp only [List.map_cons, List.nodup_cons] at hkeys
                        have hg' : GammaInj cfg lv K3 rest := fun w ids w' ids' g hm hm' => hg w ids w' ids' g (by simp [hm]) (by simp [hm'])
                        obtain ⟨i1, i2, i3, i4⟩ := ih (ctr1 + 1) A2 (tinsert T gamma theta) t3 h w1 (by omega)
                          (by rw [htot] at hN; omega) hk3 (fun p hp => hidl p (by simp [hp])) hkeys.2 hg'
                        refine ⟨(n2.trans e1).trans i1,
                          i2.trans ((takeBytes_suffix hiv).trans (n4.trans (takeBytes_suffix hr))), ?_, ?_⟩
                        · intro g hgn
                          rw [i3 g (fun w ids hm => hgn w ids (by simp [hm])), lookup_tinsert]
                          have : g ≠ gamma := by intro e; subst e; exact hgn w0 ids0 (by simp) hgam
                          simp [this]
                        · intro w ids hm
                          simp only [List.mem_cons, Prod.mk.injEq] at hm
                          rcases hm with ⟨rfl, rfl⟩ | hm
                          · -- the first address is ψ(ctr) whether the list has one node or more
                            have hlastL : ListAt cfg lv A' K1 ctr1 lastKey [lastId] := by
                              refine ⟨lastAddr.value, c, hpv, i1.2 _ _ g1 hcne, hde _ _ _ _ (Chain.takeBytes_len hiv) hc,
                                hidl (w, ids) (by simp) lastId (List.mem_of_getLast? hlast'), by simp [zeros], by simp [zeros]⟩
                            have hL := n8 A' (e1.trans i1) lastId hlast' hlastL
                            have hfirst : ∃ fa, psi cfg lv K1 ctr = .ok fa ∧ first.getD lastAddr = fa := by
                              rcases Nat.lt_or_ge ids.length 2 with hl | hl
                              · have := n6 rfl (by omega)
                                subst this
                                have hc1 : ctr1 = ctr := by
                                  have : ids.length = 1 := by
                                    have := List.length_pos_iff.mpr hne; omega
                                  omega
                                subst hc1
                                exact ⟨lastAddr, hla, rfl⟩
                              · obtain ⟨a, ha, hf⟩ := n7 rfl hl
                                subst hf
                                exact ⟨a, ha, rfl⟩
                            obtain ⟨fa, hfa, hfe⟩ := hfirst
                            rw [hfe] at hfb
                            refine ⟨ctr, k0, fa, fb, gamma, eta, theta, hfa, hfb, Chain.takeBytes_len hr, hL, hgam, heta, hth, ?_⟩
                            rw [i3 gamma, lookup_tinsert]; simp
                            intro w' ids' hm' hp
                            have := hg w ids w' ids' gamma (by simp) (by simp [hm']) hgam hp
                            subst this
                            exact hkeys.1 (List.mem_map.mpr ⟨(w, ids'), hm', rfl⟩)
                          · exact i4 w ids hm

omit hde in
theorem fillA_ext (size : Nat) (A : List Bytes) (t : Tape) (A' : List Bytes) (t' : Tape)
    (h : fillA size A t = .ok (A', t')) : Ext A A' ∧ Suffix t' t := by
  induction A generalizing t A' with
  | nil => simp [fillA] at h; obtain ⟨rfl, rfl⟩ := h; exact ⟨Ext.refl _, Suffix.refl _⟩
  | cons c rest ih =>
    simp only [fillA] at h
    split at h
    · rename_i hc
      simp only [bind, Except.bind] at h
      split at h
      · cases h
      · rename_i r hr
        obtain ⟨rb, t1⟩ := r
        simp only at h
        split at h
        · cases h
        · rename_i r2 hr2
          obtain ⟨more, t2⟩ := r2
          simp only [pure, Except.pure] at h
          cases h
          obtain ⟨⟨i1, i2⟩, i3⟩ := ih _ _ hr2
          refine ⟨⟨by simp [i1], ?_⟩, i3.trans (takeBytes_suffix hr)⟩
          intro i x hx hne
          cases i with
          | zero => simp at hx; subst hx; exact absurd hc hne
          | succ j => simpa using i2 j x (by simpa using hx) hne
    · simp only [bind, Except.bind] at h
      split at h
      · cases h
      · rename_i r2 hr2
        obtain ⟨more, t2⟩ := r2
        simp only [pure, Except.pure] at h
        cases h
        obtain ⟨⟨i1, i2⟩, i3⟩ := ih _ _ hr2
        refine ⟨⟨by simp [i1], ?_⟩, i3⟩
        intro i x hx hne
        cases i with
        | zero => simpa using hx
        | succ j => simpa using i2 j x (by simpa using hx) hne

omit hde in
theorem fillT_lookup (l out n : Nat) (T : Table) (t : Tape) (T' : Table) (t' : Tape) (h : fillT l out n T t = .ok (T', t'))
    (g : Bytes) (hfresh : ∀ b, Draw.bytes b ∈ t → b ≠ g) : T'.lookup g = T.lookup g := by
  induction n generalizing T t with
  | zero => simp [fillT] at h; obtain ⟨rfl, rfl⟩ := h; rfl
  | succ m ih =>
    simp only [fillT, bind, Except.bind] at h
    split at h
    · cases h
    · rename_i r hr
      obtain ⟨v, t1⟩ := r
      simp only at h
      split at h
      · cases h
      · rename_i r2 hr2
        obtain ⟨k, t2⟩ := r2
        simp only at h
        have hk : Draw.bytes k ∈ t := by rw [takeBytes_cons hr, takeBytes_cons hr2]; simp
        rw [ih _ _ h (fun b hb => hfresh b (by rw [takeBytes_cons hr, takeBytes_cons hr2]; simp [hb])), lookup_tinsert]
        have : g ≠ k := fun e => hfresh k hk e.symm
        simp [this]

/-- SSE-1: a stored keyword's search returns its list -/
theorem search_present (hlb : cfg.log2sBytes = (cfg.log2s + 7) / 8) (K1 K2 K3 K4 : Bytes) (db : DB) (t t' : Tape)
    (edb : SSE1EDB) (hs : setup cfg lv [K1, K2, K3, K4] db t = .ok (edb, t'))
    (hinj : PsiInj cfg lv K1 db.total) (hpl : PsiLen cfg lv K1) (hk : KeysGood cfg t)
    (hidl : ∀ p ∈ db, ∀ x ∈ p.2, x.length = cfg.idSize.toNat) (hkeys : (db.map (·.1)).Nodup)
    (hg : GammaInj cfg lv K3 db) (w : Bytes) (ids : List Bytes) (hm : (w, ids) ∈ db) (hsz : ids.length ≤ cfg.s.toNat)
    (hfresh : ∀ g, piBytes cfg lv K3 w = .ok g → ∀ b, Draw.bytes b ∈ t → b ≠ g) :
    ∃ tk, token cfg lv [K1, K2, K3, K4] w = .ok tk ∧ search cfg lv edb tk = .ok ids := by
  simp only [setup, bind, Except.bind] at hs
  split at hs
  · cases hs
  · rename_i r hr
    obtain ⟨A, T, t1⟩ := r
    simp only at hs
    split at hs
    · cases hs
    · rename_i r2 hr2
      obtain ⟨probe, t2⟩ := r2
      simp only at hs
      split at hs
      · cases hs
      · rename_i r3 hr3
        obtain ⟨A', t3⟩ := r3
        simp only at hs
        split at hs
        · cases hs
        · rename_i r4 hr4
          obtain ⟨T', t4⟩ := r4
          simp only [pure, Except.pure] at hs
          cases hs
          have hW0 : Written cfg lv (List.replicate cfg.s.toNat [0]) K1 1 := by
            intro i c hc hne
            rw [List.getElem?_replicate] at hc
            split at hc
            · cases hc; exact absurd rfl hne
            · cases hc
          obtain ⟨e1, s1, _, hent⟩ := encDb_spec cfg lv hde hlb K1 K2 K3 db.total hinj hpl db 1 _ [] t A T t1 hr hW0
            (by omega) (by omega) hk hidl hkeys hg
          obtain ⟨c0, k0, fa, fb, gamma, eta, theta, hfa, hfb, hk0, hL, hgam, heta, hth, hT⟩ := hent w ids hm
          obtain ⟨e2, s2⟩ := fillA_ext _ A t2 A' t3 hr3
          have hs12 : Suffix t3 t := s2.trans ((cipher_suffix hr2).trans s1)
          have hT' : T'.lookup gamma = some theta := by
            rw [fillT_lookup _ _ _ T t3 T' _ hr4 gamma (fun b hb => by
              obtain ⟨pre, rfl⟩ := hs12
              exact hfresh gamma hgam b (List.mem_append_right _ hb)), hT]
          refine ⟨(gamma, eta), by simp [token, hgam, heta, bind, Except.bind, pure, Except.pure], ?_⟩
          obtain ⟨fv, fl⟩ := toBytes_spec fa fb hfb
          have hfbl : fb.length = cfg.log2sBytes := by rw [fl, hpl _ _ hfa, hlb]
          -- unmask
          have hle : eta.length ≤ (fb ++ k0).length := by
            unfold bytesXor at hth
            split at hth
            · cases hth
            · omega
          obtain ⟨c, hc1, _, hc2⟩ := C17.xor_involution (fb ++ k0) eta hle
          rw [hth] at hc1; cases hc1
          have hsplit := split_flatten [cfg.log2sBytes, cfg.k.toNat] [fb, k0] (by simp [hfbl, hk0])
          simp only [List.flatten_cons, List.flatten_nil, List.append_nil] at hsplit
          have hAl : A'.length = cfg.s.toNat := by rw [e2.1, e1.1]; simp
          have hwalk := walk_listAt cfg lv A' K1 ids c0 k0 fa.value fb (ListAt.mono cfg lv ids hL e2)
            (by simp [psiVal, hfa]) fv (A'.length + 1) (by omega) []
          simp only [search, Table.get, hT', hc2, hsplit, bind, Except.bind, pure, Except.pure]
          simpa using hwalk

omit hde in
theorem mk'_spec (v len : Nat) (b : Bitset) (h : Bitset.mk' v len = .ok b) : b.WF ∧ b.value = v ∧ (len ≠ 0 → b.length = len) := by
  unfold Bitset.mk' at h
  split at h
  · cases h
  · rename_i hc
    cases h
    refine ⟨?_, rfl, fun hl => by simp [hl]⟩
    unfold Bitset.WF
    simp only
    split
    · rename_i hl
      have : ¬ (bitLength v > len) := fun hgt => hc ⟨hl, hgt⟩
      exact (Bitset.bitLength_le_iff v len).mp (by omega)
    · exact Bitset.lt_two_pow_bitLength v

omit hde in
/-- ψ is the bit-level format-preserving PRP of C15 on `log2_s`-bit counters: its outputs have `log2_s` bits and it can be
    inverted, so node addresses are pairwise distinct -/
theorem psi_spec (hl : ∀ k m, (lv.hmac k m).length = 20) (h2 : 2 ≤ cfg.log2s) (K1 : Bytes) :
    ∃ kb : Bytes, ∀ c a, psi cfg lv K1 c = .ok a →
      a.length = cfg.log2s ∧ ffxDecrypt (ffxRound lv.hmac 20 kb) DEFAULT_ROUNDS a = .ok ⟨c, cfg.log2s⟩ := by
  cases hkey : Bitset.ofBytes K1 (cfg.k * 8).toNat with
  | error e =>
    refine ⟨[], ?_⟩
    intro c a h
    simp [psi, hkey, bind, Except.bind] at h
  | ok key =>
    obtain ⟨hkw, _, _⟩ := mk'_spec _ _ key hkey
    obtain ⟨kb, hkb, _, _⟩ := C18.bytes_spec key hkw
    refine ⟨kb, ?_⟩
    intro c a h
    simp only [psi, hkey, bind, Except.bind] at h
    split at h
    · cases h
    · rename_i m hm
      obtain ⟨hmw, hmv, hml⟩ := mk'_spec _ _ m hm
      have hml' : m.length = cfg.log2s := hml (by omega)
      obtain ⟨kb', w, hkb', hw, hww, hwl, hd⟩ := C15.bit_prp_is_ffx lv.hmac 20 hl (by decide) key m hkw hmw (by omega)
      rw [hkb] at hkb'; cases hkb'
      -- the declared widths must be the actual ones, or the call would have been refused
      have hk8 : (key.length : Int) = cfg.k * 8 := by
        by_cases hne : (key.length : Int) = cfg.k * 8
        · exact hne
        · rw [(C15.bit_prp_contracts lv.hmac 20 _ _ key m).1 hne] at h; cases h
      have hcall : bitwiseFpePrp lv.hmac 20 (cfg.log2s : Int) (cfg.k * 8) key m = .ok w := by
        rw [← hk8, ← hml']; exact hw
      rw [hcall] at h
      cases h
      have hm_eq : m = ⟨c, cfg.log2s⟩ := by
        cases m; simp only at hmv hml'; subst hmv; subst hml'; rfl
      exact ⟨by rw [hwl, hml'], by rw [← hm_eq]; exact hd⟩

omit hde in
theorem psiLen_of_leaves (hl : ∀ k m, (lv.hmac k m).length = 20) (h2 : 2 ≤ cfg.log2s) (K1 : Bytes) : PsiLen cfg lv K1 := by
  obtain ⟨kb, hkb⟩ := psi_spec cfg lv hl h2 K1
  intro c a h
  exact (hkb c a h).1

omit hde in
theorem psiInj_of_leaves (hl : ∀ k m, (lv.hmac k m).length = 20) (h2 : 2 ≤ cfg.log2s) (K1 : Bytes) (N : Nat) :
    PsiInj cfg lv K1 N := by
  obtain ⟨kb, hkb⟩ := psi_spec cfg lv hl h2 K1
  intro a b i _ _ _ _ ha hb
  unfold psiVal at ha hb
  split at ha
  · rename_i x hx
    split at hb
    · rename_i y hy
      have hvx : x.value = i := by cases ha; rfl
      have hvy : y.value = i := by cases hb; rfl
      obtain ⟨lx, dx⟩ := hkb a x hx
      obtain ⟨ly, dy⟩ := hkb b y hy
      have hxy : x = y := by
        cases x; cases y
        simp only at lx ly hvx hvy
        subst lx; subst hvx; subst hvy
        rw [ly]
      rw [hxy, dy] at dx
      cases dx
      rfl
    · cases hb
  · cases ha

omit hde in
/-- π on keywords: the table label determines the keyword (π invertible, C15; big-endian decoding injective on keywords
    without a leading NUL byte) -/
theorem pi_inj (hl : ∀ k m, (lv.hmac k m).length = 20) (hl8 : 2 ≤ (cfg.l * 8).toNat) (K3 : Bytes) (w w' g : Bytes)
    (hw : NoLeadingNul w) (hw' : NoLeadingNul w') (h : piBytes cfg lv K3 w = .ok g) (h' : piBytes cfg lv K3 w' = .ok g) :
    w = w' := by
  simp only [piBytes, bind, Except.bind] at h h'
  split at h
  · cases h
  · rename_i key hkey
    rw [hkey] at h'
    simp only at h'
    obtain ⟨hkw, _, _⟩ := mk'_spec _ _ key hkey
    split at h
    · cases h
    · rename_i m hm
      split at h'
      · cases h'
      · rename_i m' hm'
        split at h
        · cases h
        · rename_i out hout
          split at h'
          · cases h'
          · rename_i out' hout'
            obtain ⟨m1, m2, m3⟩ := mk'_spec _ _ m hm
            obtain ⟨n1, n2, n3⟩ := mk'_spec _ _ m' hm'
            have hml := m3 (by omega)
            have hnl := n3 (by omega)
            obtain ⟨kb, o, hkb, ho, how, hol, hd⟩ := C15.bit_prp_is_ffx lv.hmac 20 hl (by decide) key m hkw m1 (by omega)
            obtain ⟨kb', o', hkb', ho', how', hol', hd'⟩ := C15.bit_prp_is_ffx lv.hmac 20 hl (by decide) key m' hkw n1 (by omega)
            rw [hkb] at hkb'; cases hkb'
            have hk8 : (key.length : Int) = cfg.k * 8 := by
              by_cases hne : (key.length : Int) = cfg.k * 8
              · exact hne
              · rw [(C15.bit_prp_contracts lv.hmac 20 _ _ key m).1 hne] at hout; cases hout
            have hm8 : (m.length : Int) = cfg.l * 8 := by
              by_cases hne : (m.length : Int) = cfg.l * 8
              · exact hne
              · rw [(C15.bit_prp_contracts lv.hmac 20 _ _ key m).2 hk8 hne] at hout; cases hout
            have hn8 : (m'.length : Int) = cfg.l * 8 := by rw [hnl, ← hml]; exact hm8
            rw [← hk8, ← hm8, ho] at hout
            rw [← hk8, ← hn8, ho'] at hout'
            cases hout; cases hout'
            -- equal label bytes: equal values, equal lengths, equal bitsets
            obtain ⟨v1, l1⟩ := toBytes_spec out g h
            obtain ⟨v2, l2⟩ := toBytes_spec out' g h'
            have hoo : out = out' := by
              cases out; cases out'
              simp only at v1 v2 hol hol'
              rw [hml] at hol; rw [hnl] at hol'
              subst hol; subst v1
              rw [hol', v2]
            rw [hoo, hd'] at hd
            cases hd
            have : fromBE w = fromBE w' := by rw [← m2, ← n2]
            exact fromBE_inj w w' hw hw' this

omit hde in
theorem gammaInj_of_leaves (hl : ∀ k m, (lv.hmac k m).length = 20) (hl8 : 2 ≤ (cfg.l * 8).toNat) (K3 : Bytes) (db : DB)
    (hvalid : ∀ p ∈ db, NoLeadingNul p.1) : GammaInj cfg lv K3 db := by
  intro w ids w' ids' g hm hm' h h'
  exact pi_inj cfg lv hl hl8 K3 w w' g (hvalid _ hm) (hvalid _ hm') h h'

omit hde in
theorem cfgBuild_ok (raw : RawCfg) (h : SSE1.cfgBuild raw = .ok cfg) :
    cfg.log2sBytes = (cfg.log2s + 7) / 8 ∧ PlainSke cfg.ske1 := by
  unfold SSE1.cfgBuild at h
  simp only [bind, Except.bind] at h
  repeat (split at h; (try cases h))
  all_goals (try (simp only [pure, Except.pure] at h))
  all_goals (try cases h)
  all_goals (first | (rename_i ske hske _; exact ⟨by simp [ceilDiv], (new_plain _ ske hske).1⟩) | skip)

end SSEPy.Sch.SSE1
