/-
  Order of a table built by `create_hash_table` / `build_from_list` / `create_dictionary_from_list`.
-/
import SSEPyVerif.Proofs.Schemes.Table
namespace SSEPy.Sch

theorem bytesLe_refl (a : Bytes) : bytesLe a a = true := by
  induction a with
  | nil => rfl
  | cons x xs ih => simp [bytesLe, ih]

theorem bytesLe_total (a b : Bytes) : (bytesLe a b || bytesLe b a) = true := by
  induction a generalizing b with
  | nil => simp [bytesLe]
  | cons x xs ih =>
    cases b with
    | nil => simp [bytesLe]
    | cons y ys =>
      simp only [bytesLe]
      by_cases h1 : x < y
      · simp [h1]
      · by_cases h2 : y < x
        · simp [h1, h2]
        · simp [h1, h2, ih ys]

theorem bytesLe_antisymm (a b : Bytes) (h1 : bytesLe a b = true) (h2 : bytesLe b a = true) : a = b := by
  induction a generalizing b with
  | nil => cases b with
    | nil => rfl
    | cons y ys => simp [bytesLe] at h2
  | cons x xs ih =>
    cases b with
    | nil => simp [bytesLe] at h1
    | cons y ys =>
      simp only [bytesLe] at h1 h2
      by_cases hxy : x < y
      · have : ¬ y < x := by
          intro h; exact absurd (UInt8.lt_trans hxy h) (UInt8.lt_irrefl x)
        simp [hxy, this] at h2
      · by_cases hyx : y < x
        · simp [hxy, hyx] at h1
        · simp [hxy, hyx] at h1 h2
          have hx : x = y := by
            have h3 : y ≤ x := UInt8.not_lt.mp hxy
            have h4 : x ≤ y := UInt8.not_lt.mp hyx
            exact UInt8.le_antisymm h4 h3
          rw [hx, ih ys h1 h2]

theorem bytesLe_trans (a b c : Bytes) (h1 : bytesLe a b = true) (h2 : bytesLe b c = true) : bytesLe a c = true := by
  induction a generalizing b c with
  | nil => simp [bytesLe]
  | cons x xs ih =>
    cases b with
    | nil => simp [bytesLe] at h1
    | cons y ys =>
      cases c with
      | nil => simp [bytesLe] at h2
      | cons z zs =>
        simp only [bytesLe] at h1 h2 ⊢
        by_cases hxy : x < y
        · by_cases hyz : y < z
          · simp [UInt8.lt_trans hxy hyz]
          · by_cases hzy : z < y
            · simp [hyz, hzy] at h2
            · have : y = z := UInt8.le_antisymm (UInt8.not_lt.mp hzy) (UInt8.not_lt.mp hyz)
              subst this; simp [hxy]
        · by_cases hyx : y < x
          · simp [hxy, hyx] at h1
          · have hxy' : x = y := UInt8.le_antisymm (UInt8.not_lt.mp hyx) (UInt8.not_lt.mp hxy)
            subst hxy'
            simp only [hxy, hyx, if_false] at h1
            by_cases hxz : x < z
            · simp [hxz]
            · by_cases hzx : z < x
              · simp [hxz, hzx] at h2
              · simp only [hxz, hzx, if_false] at h2 ⊢
                exact ih ys zs h1 h2

/-- the labels of a table are stored in ascending `bytes` order -/
theorem buildTable_sorted (ps : List (Bytes × Bytes)) (hn : (ps.map (·.1)).Nodup) :
    ((buildTable ps).map (·.1)).Pairwise (fun a b => bytesLe a b = true) := by
  rw [buildTable_keys ps hn]
  have h := List.pairwise_mergeSort (le := fun (a b : Bytes × Bytes) => bytesLe a.1 b.1)
    (fun a b c => bytesLe_trans a.1 b.1 c.1) (fun a b => bytesLe_total a.1 b.1) ps
  exact List.pairwise_map.mpr h

/-- two pair lists with the same labels up to order (e.g. the same database with its keywords supplied in another
    order) give the same stored label sequence -/
theorem buildTable_keys_perm (ps qs : List (Bytes × Bytes)) (hn : (ps.map (·.1)).Nodup)
    (hp : (ps.map (·.1)).Perm (qs.map (·.1))) :
    (buildTable ps).map (·.1) = (buildTable qs).map (·.1) := by
  have hnq : (qs.map (·.1)).Nodup := hp.nodup_iff.mp hn
  apply List.Perm.eq_of_pairwise (le := fun a b => bytesLe a b = true)
  · intro a b _ _ h1 h2; exact bytesLe_antisymm a b h1 h2
  · exact buildTable_sorted ps hn
  · exact buildTable_sorted qs hnq
  · rw [buildTable_keys ps hn, buildTable_keys qs hnq]
    exact ((sorted_perm ps).map (·.1)).trans (hp.trans ((sorted_perm qs).map (·.1)).symm)

end SSEPy.Sch
