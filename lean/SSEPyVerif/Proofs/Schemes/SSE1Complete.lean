/-
  SSE-1: `EDBSetup` never raises — accepted configuration whose array size `param_s` is a power of two, four keys of
  `param_k` bytes, keywords of at most `param_l` bytes, no empty list and fewer than `param_s` postings: the only failure
  left in the model is `.miss`.  No ValueError from a counter that does not fit `log2 s` bits, no IndexError from an address
  beyond the array (ψ permutes exactly the `s` cells), none from the xor mask (`⌈log2 s / 8⌉ + k` bytes on both sides),
  no refusal by the PRF or the cipher (keys and messages have the declared lengths).
-/
import SSEPyVerif.Proofs.Schemes.ANSS16Complete
import SSEPyVerif.Proofs.Schemes.SSE1Shape
import SSEPyVerif.Proofs.Schemes.SSE2Complete
namespace SSEPy.Sch.SSE1
open SSEPy.Sch

variable (cfg : SSE1Cfg) (lv : Leaves)

structure Usable : Prop where
  plain : PlainSke cfg.ske1
  skeKey : cfg.ske1.keyLength = cfg.k
  kpos : 0 < cfg.k
  lpos : 0 < cfg.l
  idpos : 0 < cfg.idSize
  lb : cfg.log2sBytes = (cfg.log2s + 7) / 8
  fKey : cfg.prfF.keyLength = cfg.k
  fMsg : cfg.prfF.messageLength = cfg.l
  fOut : cfg.prfF.outputLength = cfg.k + cfg.log2sBytes
  fHash : cfg.prfF.hashLen = 20

variable (hl : LeafLaws lv) (hu : Usable cfg) (h2 : 2 ≤ cfg.log2s)
include hl hu h2

/-- ψ is defined on every counter below `2^log2 s`; its value is again below `2^log2 s` -/
theorem psi_ok (K1 : Bytes) (hK : (K1.length : Int) = cfg.k) (ctr : Nat) (hc : ctr < 2 ^ cfg.log2s) :
    ∃ a, psi cfg lv K1 ctr = .ok a ∧ a.WF ∧ a.length = cfg.log2s := by
  have hk8 : (cfg.k * 8).toNat = 8 * cfg.k.toNat := by have := hu.kpos; omega
  have hkey := SSE2.mk'_ok (fromBE K1) (cfg.k * 8).toNat (by have := hu.kpos; omega)
    (by rw [hk8]; exact SSE2.fromBE_lt_of_len K1 _ (by have := hu.kpos; omega))
  have hm := SSE2.mk'_ok ctr cfg.log2s (by omega) hc
  have hkwf : (⟨fromBE K1, (cfg.k * 8).toNat⟩ : Bitset).WF := by
    unfold Bitset.WF; rw [hk8]; exact SSE2.fromBE_lt_of_len K1 _ (by have := hu.kpos; omega)
  have hmwf : (⟨ctr, cfg.log2s⟩ : Bitset).WF := hc
  obtain ⟨kb, o, _, ho, how, hol, _⟩ := C15.bit_prp_is_ffx lv.hmac 20 hl.hmac_len (by decide)
    ⟨fromBE K1, (cfg.k * 8).toNat⟩ ⟨ctr, cfg.log2s⟩ hkwf hmwf h2
  simp only at ho hol
  have e2 : (((cfg.k * 8).toNat : Nat) : Int) = cfg.k * 8 := by have := hu.kpos; omega
  rw [e2] at ho
  exact ⟨o, by simp [psi, Bitset.ofBytes, hkey, hm, ho, bind, Except.bind], how, hol⟩

omit hl hu h2 in
theorem setCell_ok' (A : List Bytes) (i : Nat) (v : Bytes) (h : i < A.length) : setCell A i v = .ok (A.set i v) := by
  simp [setCell, h]

/-- the non-final nodes of a list -/
theorem innerNodes_onlyMiss (K1 : Bytes) (hK : (K1.length : Int) = cfg.k) (ids : List Bytes) (prevKey : Bytes) (ctr : Nat)
    (first : Option Bitset) (A : List Bytes) (t : Tape) (hpk : (prevKey.length : Int) = cfg.k)
    (hA : A.length = 2 ^ cfg.log2s) (hc : ctr + ids.length ≤ 2 ^ cfg.log2s) :
    OnlyMiss (innerNodes cfg lv K1 ids prevKey ctr first A t) := by
  induction ids generalizing prevKey ctr first A t with
  | nil => exact OnlyMiss.pure _
  | cons id rest ih =>
    cases rest with
    | nil => exact OnlyMiss.pure _
    | cons id2 rest2 =>
      unfold innerNodes
      simp only [List.length_cons] at hc
      apply OnlyMiss.bind (takeBytes_onlyMiss _ t)
      intro ⟨kj, t1⟩ hkj
      have hkjl := Chain.takeBytes_len hkj
      obtain ⟨nxt, hnxt, nwf, _⟩ := psi_ok cfg lv hl hu h2 K1 hK (ctr + 1) (by omega)
      dsimp only
      apply OnlyMiss.bind (by rw [hnxt]; exact OnlyMiss.pure _)
      intro nxt' hn'
      rw [hnxt] at hn'; cases hn'
      obtain ⟨nb, hnb, _, _⟩ := C18.bytes_spec nxt nwf
      apply OnlyMiss.bind (by rw [hnb]; exact OnlyMiss.pure _)
      intro nb' hnb'
      rw [hnb] at hnb'; cases hnb'
      obtain ⟨ad, had, awf, alen⟩ := psi_ok cfg lv hl hu h2 K1 hK ctr (by omega)
      apply OnlyMiss.bind (by rw [had]; exact OnlyMiss.pure _)
      intro ad' had'
      rw [had] at had'; cases had'
      apply OnlyMiss.bind (skeEncrypt_onlyMiss cfg.ske1 lv hu.plain prevKey _ t1 (by rw [hpk, hu.skeKey]))
      intro ⟨c, t2⟩ _
      have hlt : ad.value < A.length := by
        have := awf; unfold Bitset.WF at this; rw [alen] at this; omega
      dsimp only
      apply OnlyMiss.bind (by rw [setCell_ok' A ad.value c hlt]; exact OnlyMiss.pure _)
      intro A' hA'
      rw [setCell_ok' A ad.value c hlt] at hA'; cases hA'
      exact ih kj (ctr + 1) _ _ t2 (by have := hu.kpos; omega) (by simpa using hA) (by simp only [List.length_cons]; omega)

omit hl hu h2 in
/-- what the inner loop returns: the key of the last node, the counter of the last node, an array of the same size -/
theorem innerNodes_res (K1 : Bytes) (ids : List Bytes) (prevKey : Bytes) (ctr : Nat) (first : Option Bitset) (A : List Bytes)
    (t : Tape) (lastKey : Bytes) (ctr1 : Nat) (first' : Option Bitset) (A1 : List Bytes) (t1 : Tape)
    (h : innerNodes cfg lv K1 ids prevKey ctr first A t = .ok (lastKey, ctr1, first', A1, t1)) (hne : ids ≠ [])
    (hpk : prevKey.length = cfg.k.toNat) :
    lastKey.length = cfg.k.toNat ∧ ctr1 + 1 = ctr + ids.length ∧ A1.length = A.length ∧
    ∀ a, first' = some a → first = some a ∨ ∃ c, c ≤ ctr1 ∧ psi cfg lv K1 c = .ok a := by
  induction ids generalizing prevKey ctr first A t with
  | nil => exact absurd rfl hne
  | cons id rest ih =>
    cases rest with
    | nil => simp only [innerNodes] at h; cases h; exact ⟨hpk, by simp, rfl, fun a ha => Or.inl ha⟩
    | cons id2 rest2 =>
      simp only [innerNodes, bind, Except.bind] at h
      split at h
      · cases h
      · rename_i r hr
        obtain ⟨kj, tk⟩ := r
        simp only at h
        split at h
        · cases h
        · rename_i nxt hnxt
          split at h
          · cases h
          · rename_i nb hnb
            split at h
            · cases h
            · rename_i addr haddr
              split at h
              · cases h
              · rename_i r2 hr2
                obtain ⟨c, t2⟩ := r2
                simp only at h
                split at h
                · cases h
                · rename_i A' hset
                  obtain ⟨_, hA'⟩ := setCell_ok hset
                  obtain ⟨i1, i2, i3, i4⟩ := ih kj (ctr + 1) _ A' t2 h (by simp) (Chain.takeBytes_len hr)
                  refine ⟨i1, by simp only [List.length_cons] at i2 ⊢; omega, by rw [i3, hA']; simp, ?_⟩
                  intro a ha
                  rcases i4 a ha with hf | ⟨c', hc', hp⟩
                  · cases first with
                    | none =>
                      simp at hf; subst hf
                      exact Or.inr ⟨ctr, by simp only [List.length_cons] at i2; omega, haddr⟩
                    | some x => simp at hf; subst hf; exact Or.inl rfl
                  · exact Or.inr ⟨c', hc', hp⟩


/-- π is defined on every keyword of at most `param_l` bytes -/
theorem piBytes_ok (K3 : Bytes) (hK : (K3.length : Int) = cfg.k) (w : Bytes) (hw : (w.length : Int) ≤ cfg.l) :
    ∃ g, piBytes cfg lv K3 w = .ok g := by
  have hk8 : (cfg.k * 8).toNat = 8 * cfg.k.toNat := by have := hu.kpos; omega
  have hl8 : (cfg.l * 8).toNat = 8 * cfg.l.toNat := by have := hu.lpos; omega
  have hkey := SSE2.mk'_ok (fromBE K3) (cfg.k * 8).toNat (by have := hu.kpos; omega)
    (by rw [hk8]; exact SSE2.fromBE_lt_of_len K3 _ (by have := hu.kpos; omega))
  have hwlt : fromBE w < 2 ^ (cfg.l * 8).toNat := by
    rw [hl8]; exact SSE2.fromBE_lt_of_len w _ (by have := hu.lpos; omega)
  have hm := SSE2.mk'_ok (fromBE w) (cfg.l * 8).toNat (by have := hu.lpos; omega) hwlt
  have hkwf : (⟨fromBE K3, (cfg.k * 8).toNat⟩ : Bitset).WF := by
    unfold Bitset.WF; rw [hk8]; exact SSE2.fromBE_lt_of_len K3 _ (by have := hu.kpos; omega)
  obtain ⟨kb, o, _, ho, how, _, _⟩ := C15.bit_prp_is_ffx lv.hmac 20 hl.hmac_len (by decide)
    ⟨fromBE K3, (cfg.k * 8).toNat⟩ ⟨fromBE w, (cfg.l * 8).toNat⟩ hkwf hwlt (by simp only; have := hu.lpos; omega)
  simp only at ho
  have e1 : (((cfg.l * 8).toNat : Nat) : Int) = cfg.l * 8 := by have := hu.lpos; omega
  have e2 : (((cfg.k * 8).toNat : Nat) : Int) = cfg.k * 8 := by have := hu.kpos; omega
  rw [e1, e2] at ho
  obtain ⟨g, hg, _, _⟩ := C18.bytes_spec o how
  exact ⟨g, by simp [piBytes, Bitset.ofBytes, hkey, hm, ho, hg, bind, Except.bind]⟩

omit h2 in
/-- the mask `f_K2(w)`: defined, `k + ⌈log2 s / 8⌉` bytes -/
theorem eta_ok (K2 : Bytes) (hK : (K2.length : Int) = cfg.k) (w : Bytes) (hw : (w.length : Int) ≤ cfg.l) :
    ∃ eta, cfg.prfF.call lv.hmac K2 (addLeadingZeros w cfg.l) = .ok eta ∧ eta.length = cfg.k.toNat + cfg.log2sBytes := by
  have hml : ((addLeadingZeros w cfg.l).length : Int) = cfg.l := by
    unfold addLeadingZeros
    simp [zeros]
    omega
  have hcall : cfg.prfF.call lv.hmac K2 (addLeadingZeros w cfg.l) =
      .ok (tlsPHash lv.hmac cfg.prfF.hashLen K2 (addLeadingZeros w cfg.l) cfg.prfF.outputLength) := by
    unfold HmacPRF.call
    simp [hu.fKey, hu.fMsg, hK, hml]
  have hlen := (prf_ok cfg.prfF lv.hmac (by rw [hu.fHash]; exact hl.hmac_len) (by rw [hu.fHash]; decide) K2 _ _ hcall).1
  refine ⟨_, hcall, ?_⟩
  rw [hlen, hu.fOut]
  have := hu.kpos
  omega

theorem encDb_onlyMiss (K1 K2 K3 : Bytes) (h1 : (K1.length : Int) = cfg.k) (hk2 : (K2.length : Int) = cfg.k)
    (h3 : (K3.length : Int) = cfg.k) (db : DB) (ctr : Nat) (A : List Bytes) (T : Table) (t : Tape)
    (hA : A.length = 2 ^ cfg.log2s) (hdb : ∀ p ∈ db, (p.1.length : Int) ≤ cfg.l ∧ p.2 ≠ [])
    (hc : ctr + db.total ≤ 2 ^ cfg.log2s) : OnlyMiss (encDb cfg lv K1 K2 K3 db ctr A T t) := by
  induction db generalizing ctr A T t with
  | nil => exact OnlyMiss.pure _
  | cons q rest ih =>
    obtain ⟨w, ids⟩ := q
    obtain ⟨hwl, hne⟩ := hdb (w, ids) (by simp)
    simp only at hwl hne
    have htot : DB.total ((w, ids) :: rest) = ids.length + DB.total rest := by simp [DB.total]
    rw [htot] at hc
    have hpos : 0 < ids.length := List.length_pos_iff.mpr hne
    unfold encDb
    apply OnlyMiss.bind (takeBytes_onlyMiss _ t)
    intro ⟨k0, t1⟩ hk0
    have hk0l := Chain.takeBytes_len hk0
    apply OnlyMiss.bind (innerNodes_onlyMiss cfg lv hl hu h2 K1 h1 ids k0 ctr none A t1 (by have := hu.kpos; omega) hA (by omega))
    intro ⟨lastKey, ctr1, first, A1, t2⟩ hin
    obtain ⟨r1, r2, r3, r4⟩ := innerNodes_res cfg lv K1 ids k0 ctr none A t1 lastKey ctr1 first A1 t2 hin hne hk0l
    dsimp only
    obtain ⟨lastId, hlast⟩ : ∃ x, ids.getLast? = some x := ⟨ids.getLast hne, List.getLast?_eq_some_getLast hne⟩
    rw [hlast]
    apply OnlyMiss.bind (OnlyMiss.pure _)
    intro lid hlid
    cases hlid
    obtain ⟨la, hla, lwf, llen⟩ := psi_ok cfg lv hl hu h2 K1 h1 ctr1 (by omega)
    apply OnlyMiss.bind (by rw [hla]; exact OnlyMiss.pure _)
    intro la' hla'
    rw [hla] at hla'; cases hla'
    apply OnlyMiss.bind (skeEncrypt_onlyMiss cfg.ske1 lv hu.plain lastKey _ t2 (by rw [hu.skeKey]; have := hu.kpos; omega))
    intro ⟨c, t3⟩ _
    have hlt : la.value < A1.length := by
      have := lwf; unfold Bitset.WF at this; rw [llen] at this; omega
    dsimp only
    apply OnlyMiss.bind (by rw [setCell_ok' A1 la.value c hlt]; exact OnlyMiss.pure _)
    intro A2 hA2
    rw [setCell_ok' A1 la.value c hlt] at hA2; cases hA2
    obtain ⟨g, hg⟩ := piBytes_ok cfg lv hl hu h2 K3 h3 w hwl
    apply OnlyMiss.bind (by rw [hg]; exact OnlyMiss.pure _)
    intro g' hg'
    rw [hg] at hg'; cases hg'
    obtain ⟨eta, heta, hel⟩ := eta_ok cfg lv hl hu K2 hk2 w hwl
    apply OnlyMiss.bind (by rw [heta]; exact OnlyMiss.pure _)
    intro eta' heta'
    rw [heta] at heta'; cases heta'
    -- the first address is a ψ value: well-formed, `log2 s` bits
    have hfa : (first.getD la).WF ∧ (first.getD la).length = cfg.log2s := by
      cases hf : first with
      | none => exact ⟨lwf, llen⟩
      | some a =>
        rcases r4 a hf with h0 | ⟨c', hc', hp⟩
        · cases h0
        · obtain ⟨a', ha', awf, alen⟩ := psi_ok cfg lv hl hu h2 K1 h1 c' (by omega)
          rw [hp] at ha'; cases ha'
          exact ⟨awf, alen⟩
    obtain ⟨fb, hfb, hfbl, _⟩ := C18.bytes_spec _ hfa.1
    apply OnlyMiss.bind (by rw [hfb]; exact OnlyMiss.pure _)
    intro fb' hfb'
    rw [hfb] at hfb'; cases hfb'
    have hx : ∃ th, bytesXor (fb ++ k0) eta = .ok th := by
      unfold bytesXor
      have : ¬ eta.length > (fb ++ k0).length := by
        simp only [List.length_append, hfbl, hfa.2, hel, hk0l, hu.lb]; omega
      rw [if_neg this]
      exact ⟨_, rfl⟩
    obtain ⟨th, hth⟩ := hx
    apply OnlyMiss.bind (by rw [hth]; exact OnlyMiss.pure _)
    intro th' hth'
    rw [hth] at hth'; cases hth'
    exact ih (ctr1 + 1) _ _ t3 (by simp [r3, hA]) (fun p hp => hdb p (by simp [hp])) (by omega)

omit hl hu h2 in
theorem fillA_onlyMiss (size : Nat) (A : List Bytes) (t : Tape) : OnlyMiss (fillA size A t) := by
  induction A generalizing t with
  | nil => exact OnlyMiss.pure _
  | cons c rest ih =>
    unfold fillA
    split
    · apply OnlyMiss.bind (takeBytes_onlyMiss size t)
      intro ⟨r, t1⟩ _
      apply OnlyMiss.bind (ih t1)
      intro ⟨more, t2⟩ _
      exact OnlyMiss.pure _
    · apply OnlyMiss.bind (ih t)
      intro ⟨more, t2⟩ _
      exact OnlyMiss.pure _

omit hl hu h2 in
theorem fillT_onlyMiss (l out n : Nat) (T : Table) (t : Tape) : OnlyMiss (fillT l out n T t) := by
  induction n generalizing T t with
  | zero => exact OnlyMiss.pure _
  | succ m ih =>
    unfold fillT
    apply OnlyMiss.bind (takeBytes_onlyMiss out t)
    intro ⟨v, t1⟩ _
    apply OnlyMiss.bind (takeBytes_onlyMiss l t1)
    intro ⟨k, t2⟩ _
    exact ih _ t2

/-- `EDBSetup` never raises -/
theorem setup_onlyMiss (K1 K2 K3 K4 : Bytes) (h1 : (K1.length : Int) = cfg.k) (hk2 : (K2.length : Int) = cfg.k)
    (h3 : (K3.length : Int) = cfg.k) (db : DB) (t : Tape) (hs : cfg.s.toNat = 2 ^ cfg.log2s)
    (hdb : ∀ p ∈ db, (p.1.length : Int) ≤ cfg.l ∧ p.2 ≠ []) (hN : db.total < cfg.s.toNat) :
    OnlyMiss (setup cfg lv [K1, K2, K3, K4] db t) := by
  unfold setup
  apply OnlyMiss.bind (encDb_onlyMiss cfg lv hl hu h2 K1 K2 K3 h1 hk2 h3 db 1 _ [] t (by simp [hs]) hdb (by omega))
  intro ⟨A, T, t1⟩ _
  apply OnlyMiss.bind (skeEncrypt_onlyMiss cfg.ske1 lv hu.plain _ _ t1 (by rw [hu.skeKey]; simp [zeros]; have := hu.kpos; omega))
  intro ⟨probe, t2⟩ _
  apply OnlyMiss.bind (fillA_onlyMiss _ A t2)
  intro ⟨A', t3⟩ _
  apply OnlyMiss.bind (fillT_onlyMiss _ _ _ T t3)
  intro ⟨T', t4⟩ _
  exact OnlyMiss.pure _

omit hl hu h2 in
/-- an accepted configuration is usable -/
theorem cfgBuild_usable (raw : RawCfg) (h : SSE1.cfgBuild raw = .ok cfg) : Usable cfg := by
  unfold SSE1.cfgBuild at h
  simp only [bind, Except.bind] at h
  repeat (split at h; (try cases h))
  all_goals (try (simp only [pure, Except.pure] at h))
  all_goals (try cases h)
  all_goals (
    have hp : ∀ f k, f.startsWith "param_" = true →
        f ∈ ["param_k", "param_l", "param_s", "param_dictionary_size", "param_identifier_size",
             "prp_pi", "prp_psi", "prf_f", "ske1", "ske2"] → getInt raw f = .ok k → 0 < k := fun f k h1 h2 hg =>
      param_pos _ raw f k ‹checkParamPositive raw = Except.ok _› ‹checkParamExist _ raw = Except.ok _› h1 h2 hg
    have hk := hp "param_k" _ (by decide +kernel) (by simp) ‹getInt raw "param_k" = Except.ok _›
    have hll := hp "param_l" _ (by decide +kernel) (by simp) ‹getInt raw "param_l" = Except.ok _›
    have hi := hp "param_identifier_size" _ (by decide +kernel) (by simp) ‹getInt raw "param_identifier_size" = Except.ok _›
    have hske := new_plain _ _ ‹AESxCBC.new _ = Except.ok _›
    refine ⟨hske.1, hske.2, hk, hll, hi, by simp [ceilDiv], rfl, rfl, ?_, rfl⟩
    simp only [HmacPRF.new]
    split
    · rename_i h0; simp [LENGTH_NOT_GIVEN] at h0; omega
    · rfl)

end SSEPy.Sch.SSE1
