/-
  SSE-2: WHAT the index holds.  Every entry of the index `Setup` returns maps a PRP value `π_K1(x ‖ j)` to an identifier of the
  database, where `x` is a stored keyword (a posting) or the all-zero word (a filler): keywords enter the index only as
  arguments of the keyed PRP; identifiers are stored in the clear, as the scheme specifies.
-/
import SSEPyVerif.Proofs.Schemes.SSE2
namespace SSEPy.Sch.SSE2
open SSEPy.Sch

variable (cfg : SSE2Cfg) (lv : Leaves)

theorem mem_iinsert (t : ITable) (k : Nat) (v : Bytes) (e : Nat × Bytes) (h : e ∈ iinsert t k v) : e ∈ t ∨ e = (k, v) := by
  induction t with
  | nil => simp [iinsert] at h; exact Or.inr h
  | cons p rest ih =>
    obtain ⟨k', v'⟩ := p
    simp only [iinsert] at h
    split at h
    · rename_i hk
      simp only [List.mem_cons] at h
      rcases h with h | h
      · right; rw [h, hk]
      · exact Or.inl (List.mem_cons_of_mem _ h)
    · simp only [List.mem_cons] at h
      rcases h with h | h
      · exact Or.inl (by rw [h]; simp)
      · rcases ih h with h1 | h1
        · exact Or.inl (List.mem_cons_of_mem _ h1)
        · exact Or.inr h1

/-- an index entry: a PRP value of `(word ‖ counter)` mapped to an identifier of the database; the word is a stored keyword
    or the all-zero filler word -/
def IEntry (K1 : Bytes) (db : DB) (e : Nat × Bytes) : Prop :=
  ∃ x j, addr cfg lv K1 x j = .ok e.1 ∧ (x ∈ db.map (·.1) ∨ x = zeros cfg.l.toNat) ∧ e.2 ∈ db.flatMap (·.2)

theorem encList_entries (K1 : Bytes) (db : DB) (w : Bytes) (hw : w ∈ db.map (·.1)) (j0 : Nat) (ids : List Bytes)
    (hids : ∀ id ∈ ids, id ∈ db.flatMap (·.2)) (I : ITable) (cnt : List (Bytes × Nat)) (I' : ITable) (cnt' : List (Bytes × Nat))
    (h : encList cfg lv K1 w j0 ids I cnt = .ok (I', cnt')) (hI : ∀ e ∈ I, IEntry cfg lv K1 db e)
    (hc : ∀ p ∈ cnt, p.1 ∈ db.flatMap (·.2)) :
    (∀ e ∈ I', IEntry cfg lv K1 db e) ∧ ∀ p ∈ cnt', p.1 ∈ db.flatMap (·.2) := by
  induction ids generalizing j0 I cnt with
  | nil => simp [encList] at h; obtain ⟨rfl, rfl⟩ := h; exact ⟨hI, hc⟩
  | cons id rest ih =>
    simp only [encList, bind, Except.bind] at h
    split at h
    · cases h
    · rename_i a ha
      refine ih (j0 + 1) (fun x hx => hids x (List.mem_cons_of_mem _ hx)) _ _ h ?_ ?_
      · intro e he
        rcases mem_iinsert I a id e he with h1 | h1
        · exact hI e h1
        · subst h1
          exact ⟨w, (j0 : Int), ha, Or.inl hw, hids id (by simp)⟩
      · intro p hp
        split at hp
        · simp only [List.mem_map] at hp
          obtain ⟨q, hq, rfl⟩ := hp
          split
          · exact hc q hq
          · exact hc q hq
        · simp only [List.mem_append, List.mem_singleton] at hp
          rcases hp with hp | rfl
          · exact hc p hp
          · exact hids id (by simp)

theorem encDb_entries (K1 : Bytes) (db0 db : DB) (hsub : ∀ q ∈ db, q ∈ db0) (I : ITable) (cnt : List (Bytes × Nat))
    (I' : ITable) (cnt' : List (Bytes × Nat)) (h : encDb cfg lv K1 db I cnt = .ok (I', cnt'))
    (hI : ∀ e ∈ I, IEntry cfg lv K1 db0 e) (hc : ∀ p ∈ cnt, p.1 ∈ db0.flatMap (·.2)) :
    (∀ e ∈ I', IEntry cfg lv K1 db0 e) ∧ ∀ p ∈ cnt', p.1 ∈ db0.flatMap (·.2) := by
  induction db generalizing I cnt with
  | nil => simp [encDb] at h; obtain ⟨rfl, rfl⟩ := h; exact ⟨hI, hc⟩
  | cons q rest ih =>
    obtain ⟨w, ids⟩ := q
    simp only [encDb, bind, Except.bind] at h
    split at h
    · cases h
    · rename_i r hr
      obtain ⟨I1, cnt1⟩ := r
      simp only at h
      have hq := hsub (w, ids) (by simp)
      obtain ⟨a1, a2⟩ := encList_entries cfg lv K1 db0 w (List.mem_map.mpr ⟨(w, ids), hq, rfl⟩) 1 ids
        (fun id hid => List.mem_flatMap.mpr ⟨(w, ids), hq, hid⟩) I cnt I1 cnt1 hr hI hc
      exact ih (fun q hq => hsub q (List.mem_cons_of_mem _ hq)) _ _ h a1 a2

theorem fillOne_entries (K1 : Bytes) (db : DB) (id : Bytes) (hid : id ∈ db.flatMap (·.2)) (n : Int) (more l : Nat) (I I' : ITable)
    (h : fillOne cfg lv K1 id n more l I = .ok I') (hI : ∀ e ∈ I, IEntry cfg lv K1 db e) : ∀ e ∈ I', IEntry cfg lv K1 db e := by
  induction more generalizing l I with
  | zero => simp [fillOne] at h; subst h; exact hI
  | succ m ih =>
    simp only [fillOne, bind, Except.bind] at h
    split at h
    · cases h
    · rename_i a ha
      refine ih _ _ h ?_
      intro e he
      rcases mem_iinsert I a id e he with h1 | h1
      · exact hI e h1
      · subst h1
        exact ⟨zeros cfg.l.toNat, _, ha, Or.inr rfl, hid⟩

theorem fillAll_entries (K1 : Bytes) (db : DB) (cnt : List (Bytes × Nat)) (hc : ∀ p ∈ cnt, p.1 ∈ db.flatMap (·.2)) (n : Int)
    (I I' : ITable) (h : fillAll cfg lv K1 cnt n I = .ok I') (hI : ∀ e ∈ I, IEntry cfg lv K1 db e) :
    ∀ e ∈ I', IEntry cfg lv K1 db e := by
  induction cnt generalizing n I with
  | nil => simp [fillAll] at h; subst h; exact hI
  | cons p rest ih =>
    obtain ⟨id, c⟩ := p
    simp only [fillAll, bind, Except.bind] at h
    split at h
    · cases h
    · rename_i I1 h1
      exact ih (fun q hq => hc q (List.mem_cons_of_mem _ hq)) _ _ h
        (fillOne_entries cfg lv K1 db id (hc (id, c) (by simp)) n _ 0 I I1 h1 hI)

/-- SSE-2: every entry of the index is `π_K1(x ‖ j) ↦ id` with `x` a stored keyword or the all-zero filler word and `id` an
    identifier of the database -/
theorem setup_entries (K1 : Bytes) (db : DB) (I : ITable) (h : setup cfg lv K1 db = .ok I) : ∀ e ∈ I, IEntry cfg lv K1 db e := by
  simp only [setup, bind, Except.bind] at h
  split at h
  · cases h
  · rename_i r hr
    obtain ⟨I0, cnt⟩ := r
    simp only at h
    obtain ⟨a1, a2⟩ := encDb_entries cfg lv K1 db db (fun q hq => hq) [] [] I0 cnt hr (fun e he => by cases he) (fun p hp => by cases hp)
    split at h
    · exact fillAll_entries cfg lv K1 db cnt a2 cfg.n I0 I h a1
    · simp only [pure, Except.pure] at h
      cases h
      exact a1

end SSEPy.Sch.SSE2
