/-
  What a successfully built PiBas / PiPack configuration looks like, and the round trip of its packer.
-/
import SSEPyVerif.Proofs.Schemes.Chain
import SSEPyVerif.Proofs.Schemes.Prims
import SSEPyVerif.Props.C17
namespace SSEPy.Sch
open SSEPy.Sch.Chain

theorem mapE_singleton (ids : List Bytes) :
    mapE (fun p => (Except.ok [p] : Except Err (List Bytes))) ids = .ok (ids.map fun p => [p]) := by
  induction ids with
  | nil => rfl
  | cons a as ih => simp [mapE, ih, bind, Except.bind, pure, Except.pure]

theorem flatten_singletons (ids : List Bytes) : (ids.map fun p => [p]).flatten = ids := by
  induction ids with
  | nil => rfl
  | cons a as ih => simp [ih]

theorem mapE_total (f : Bytes → Except Err (List Bytes)) (g : Bytes → List Bytes) (hf : ∀ b, f b = .ok (g b))
    (l : List Bytes) : mapE f l = .ok (l.map g) := by
  induction l with
  | nil => rfl
  | cons a as ih => simp [mapE, ih, hf, bind, Except.bind, pure, Except.pure]

/-- the facts `PiBas.cfgBuild` establishes -/
theorem PiBas.cfgBuild_ok (raw : RawCfg) (cfg : ChainCfg) (h : PiBas.cfgBuild raw = .ok cfg) :
    ∃ lam out ske, checkParamPositive raw = .ok () ∧ getInt raw "param_lambda" = .ok lam ∧
      getInt raw "prf_f_output_length" = .ok out ∧ AESxCBC.new lam = .ok ske ∧
      cfg = { lambda := lam, prfF := HmacPRF.new out lam LENGTH_UNLIMITED 20, ske := ske,
              pack := fun ids => .ok ids, unpack := fun p => .ok [p] } := by
  unfold PiBas.cfgBuild at h
  simp only [bind, Except.bind] at h
  repeat (split at h; (try cases h))
  all_goals (try (simp only [pure, Except.pure] at h))
  rename_i h1 _ _ _ _ lam h3 _ out h4 _ _ _ ske h5
  cases h
  exact ⟨lam, out, ske, h1, h3, h4, h5, rfl⟩

theorem PiPack.cfgBuild_ok (raw : RawCfg) (cfg : ChainCfg) (h : PiPack.cfgBuild raw = .ok cfg) :
    ∃ lam B out ids ske, checkParamPositive raw = .ok () ∧
      checkParamExist ["param_lambda", "param_B", "prf_f_output_length", "param_identifier_size", "prf_f", "ske"] raw = .ok () ∧
      getInt raw "param_lambda" = .ok lam ∧
      getInt raw "param_B" = .ok B ∧ getInt raw "prf_f_output_length" = .ok out ∧
      getInt raw "param_identifier_size" = .ok ids ∧ AESxCBC.new lam = .ok ske ∧
      cfg = { lambda := lam, prfF := HmacPRF.new out lam LENGTH_UNLIMITED 20, ske := ske,
              pack := fun l => partitionBlocks l B ids, unpack := fun p => parseBySize p ids } := by
  unfold PiPack.cfgBuild at h
  simp only [bind, Except.bind] at h
  repeat (split at h; (try cases h))
  all_goals (try (simp only [pure, Except.pure] at h))
  rename_i h1 _ _ h2 _ lam h3 _ B hB _ out h4 _ ids hids _ _ _ ske h5
  cases h
  exact ⟨lam, B, out, ids, ske, h1, h2, h3, hB, h4, hids, h5, rfl⟩

/-- `check_param_positive`: an integer parameter that was read is positive (or the marker -1) -/
theorem positive_of_check (raw : RawCfg) (f : String) (z : Int) (hp : checkParamPositive raw = .ok ())
    (hf : f.startsWith "param_" = true) (hg : getInt raw f = .ok z) : 0 < z ∨ z = -1 := by
  unfold checkParamPositive at hp
  split at hp
  · rename_i hall
    unfold getInt RawCfg.get at hg
    split at hg
    · rename_i z' hz
      cases hg
      have hmem : (f, RawVal.int z) ∈ raw := by
        clear hall hp
        induction raw with
        | nil => simp at hz
        | cons p rest ih =>
          obtain ⟨a, b⟩ := p
          simp only [List.lookup_cons] at hz
          split at hz
          · rename_i he
            cases hz
            have : f = a := by simpa using he
            subst this; simp
          · exact List.mem_cons_of_mem _ (ih hz)
      have := List.all_eq_true.mp hall _ hmem
      simp only [hf, Bool.not_true, Bool.false_or, Bool.or_eq_true, decide_eq_true_eq, beq_iff_eq] at this
      exact this
    · cases hg
  · cases hp

/-- `check_param_exist`: a required integer parameter is not the "missing" marker -1 -/
theorem exists_of_check (fields : List String) (raw : RawCfg) (f : String) (z : Int)
    (hc : checkParamExist fields raw = .ok ()) (hf : f ∈ fields) (hg : getInt raw f = .ok z) : z ≠ -1 := by
  unfold checkParamExist at hc
  split at hc
  · rename_i hall
    have := List.all_eq_true.mp hall f hf
    unfold getInt at hg
    split at hg
    · rename_i z' hz
      cases hg
      rw [hz] at this
      intro e; subst e; simp at this
    · cases hg
  · cases hc

theorem param_pos (fields : List String) (raw : RawCfg) (f : String) (z : Int)
    (hp : checkParamPositive raw = .ok ()) (hc : checkParamExist fields raw = .ok ())
    (hpre : f.startsWith "param_" = true) (hf : f ∈ fields) (hg : getInt raw f = .ok z) : 0 < z := by
  rcases positive_of_check raw f z hp hpre hg with h | h
  · exact h
  · exact absurd h (exists_of_check fields raw f z hc hf hg)

theorem PiBas.dec_enc (raw : RawCfg) (cfg : ChainCfg) (h : PiBas.cfgBuild raw = .ok cfg) (lv : Leaves)
    (hl : LeafLaws lv) : DecEnc cfg lv := by
  obtain ⟨lam, out, ske, _, _, _, hske, rfl⟩ := PiBas.cfgBuild_ok raw cfg h
  intro key iv msg c hiv he
  exact ske_dec_enc lv hl ske (new_plain lam ske hske).1 key iv msg c hiv he

theorem PiPack.dec_enc (raw : RawCfg) (cfg : ChainCfg) (h : PiPack.cfgBuild raw = .ok cfg) (lv : Leaves)
    (hl : LeafLaws lv) : DecEnc cfg lv := by
  obtain ⟨lam, B, out, ids, ske, _, _, _, _, _, _, hske, rfl⟩ := PiPack.cfgBuild_ok raw cfg h
  intro key iv msg c hiv he
  exact ske_dec_enc lv hl ske (new_plain lam ske hske).1 key iv msg c hiv he

theorem PiBas.roundTrip (raw : RawCfg) (cfg : ChainCfg) (h : PiBas.cfgBuild raw = .ok cfg) (ids : List Bytes) :
    RoundTrip cfg ids := by
  obtain ⟨lam, out, ske, _, _, _, _, rfl⟩ := PiBas.cfgBuild_ok raw cfg h
  intro chs hp
  cases hp
  exact ⟨_, mapE_singleton ids, flatten_singletons ids⟩

/-- identifiers valid for a PiPack configuration: exactly `param_identifier_size` bytes, not all zero -/
def ValidIdsFor (raw : RawCfg) (ids : List Bytes) : Prop :=
  ∀ sz, getInt raw "param_identifier_size" = .ok sz → C17.ValidIds ids sz.toNat

theorem PiPack.roundTrip (raw : RawCfg) (cfg : ChainCfg) (h : PiPack.cfgBuild raw = .ok cfg) (ids : List Bytes)
    (hv : ValidIdsFor raw ids) : RoundTrip cfg ids := by
  obtain ⟨lam, B, out, sz, ske, hpos, hex, _, hB, _, hsz, _, rfl⟩ := PiPack.cfgBuild_ok raw cfg h
  have hBpos : 0 < B := param_pos _ raw "param_B" B hpos hex (by decide +kernel) (by simp) hB
  have hszpos : 0 < sz := param_pos _ raw "param_identifier_size" sz hpos hex (by decide +kernel) (by simp) hsz
  obtain ⟨blocks, hb1, hb2, hb3⟩ := C17.parse_partition ids B.toNat sz.toNat 0 (by omega) (by omega) (Or.inl rfl) (hv sz hsz)
  intro chs hp
  simp only at hp
  have : partitionBlocks ids B sz = partitionBlocksNat ids B.toNat sz.toNat 0 := by
    unfold partitionBlocks
    have : (0 ≤ B ∧ 0 ≤ sz ∧ (0 : Int) ≤ 0) := ⟨by omega, by omega, by omega⟩
    simp [this]
  rw [this, hb1] at hp
  cases hp
  refine ⟨blocks.map fun b => parseLoop b.length b sz.toNat, ?_, ?_⟩
  · apply mapE_total
    intro b
    simp only [parseBySize]
    have : ¬ sz < 0 := by omega
    simp [this, hb2 b]
  · rw [← hb3, List.flatMap_def]

end SSEPy.Sch
