/-
  C04, structural part for the level-table schemes (CT14, ANSS16 Scheme 3): every VALUE stored in a level table (and in
  ANSS16's size table) is either a concatenation of ciphertexts that starts with a 16-byte draw of this run, or is itself a
  random draw (a padding entry).  Identifiers and list lengths enter the index only as plaintexts of the randomized cipher.
-/
import SSEPyVerif.Proofs.Schemes.Stamped
import SSEPyVerif.Proofs.Schemes.Levels
namespace SSEPy.Sch

/-- a stored value that comes from this run's randomness: stamped ciphertext(s) or a random filler -/
def FromTape (t : Tape) (v : Bytes) : Prop := Stamped t v ∨ Draw.bytes v ∈ t

theorem FromTape.mono {t t' : Tape} {v : Bytes} (hs : Suffix t' t) (h : FromTape t' v) : FromTape t v := by
  rcases h with h | h
  · exact Or.inl (h.mono hs)
  · obtain ⟨pre, rfl⟩ := hs
    exact Or.inr (List.mem_append_right _ h)

def AllFrom (t : Tape) (Ls : List (List (Bytes × Bytes))) : Prop := ∀ L ∈ Ls, ∀ p ∈ L, FromTape t p.2

theorem AllFrom.mono {t t' : Tape} {Ls : List (List (Bytes × Bytes))} (hs : Suffix t' t) (h : AllFrom t' Ls) : AllFrom t Ls :=
  fun L hL p hp => (h L hL p hp).mono hs

theorem pushAt_from (t : Tape) (Ls Ls' : List (List (Bytes × Bytes))) (j : Nat) (x : Bytes × Bytes)
    (h : pushAt Ls j x = .ok Ls') (hL : AllFrom t Ls) (hx : FromTape t x.2) : AllFrom t Ls' := by
  unfold pushAt at h
  split at h
  · cases h
  · rename_i l hl
    cases h
    intro L hLm p hp
    rcases List.mem_or_eq_of_mem_set hLm with hm | he
    · exact hL L hm p hp
    · subst he
      simp only [List.mem_append, List.mem_singleton] at hp
      rcases hp with hp | rfl
      · exact hL l (List.mem_of_getElem? hl) p hp
      · exact hx

section
variable (lv : Leaves) (hE : ∀ key x : Bytes, x.length = 16 → (lv.E key x).length = 16)
include hE

/-- a non-empty batch of encryptions, joined: starts with the draw of the first one -/
theorem encAll_stamped (ske : AESxCBC) (key : Bytes) (xs : List Bytes) (t t' : Tape) (cs : List Bytes)
    (h : encAll ske lv key xs t = .ok (cs, t')) : (xs ≠ [] → Stamped t cs.flatten) ∧ Suffix t' t := by
  induction xs generalizing t cs with
  | nil => simp [encAll] at h; obtain ⟨rfl, rfl⟩ := h; exact ⟨fun h => absurd rfl h, Suffix.refl _⟩
  | cons x rest ih =>
    simp only [encAll, bind, Except.bind] at h
    split at h
    · cases h
    · rename_i r hr
      obtain ⟨c, t1⟩ := r
      simp only at h
      split at h
      · cases h
      · rename_i r2 hr2
        obtain ⟨cs', t2⟩ := r2
        simp only [pure, Except.pure] at h
        cases h
        obtain ⟨s1, s2⟩ := skeEncrypt_stamped hr
        obtain ⟨_, i2⟩ := ih _ _ hr2
        refine ⟨fun _ => ?_, i2.trans s2⟩
        obtain ⟨iv, hiv, hc⟩ := skeEncrypt_ok hr
        have hlen := C14.enc_len ske lv.E key iv x c (hE key) (Chain.takeBytes_len hiv) hc
        unfold Stamped at s1 ⊢
        have : ((c :: cs').flatten).take 16 = c.take 16 := by
          simp only [List.flatten_cons]
          rw [List.take_append_of_le_length (by omega)]
        rw [this]; exact s1
end

theorem fillers_from (a b k : Nat) (t t' : Tape) (ps : List (Bytes × Bytes)) (h : fillers a b k t = .ok (ps, t')) :
    (∀ p ∈ ps, Draw.bytes p.2 ∈ t) ∧ Suffix t' t := by
  induction k generalizing t ps with
  | zero => simp [fillers] at h; obtain ⟨rfl, rfl⟩ := h; exact ⟨(fun p hp => by cases hp), Suffix.refl _⟩
  | succ m ih =>
    simp only [fillers, bind, Except.bind] at h
    split at h
    · cases h
    · rename_i r hr
      obtain ⟨x, t1⟩ := r
      simp only at h
      split at h
      · cases h
      · rename_i r2 hr2
        obtain ⟨y, t2⟩ := r2
        simp only at h
        split at h
        · cases h
        · rename_i r3 hr3
          obtain ⟨ps', t3⟩ := r3
          simp only [pure, Except.pure] at h
          cases h
          obtain ⟨i1, i2⟩ := ih _ _ hr3
          have s1 := takeBytes_suffix hr
          have s2 := takeBytes_suffix hr2
          refine ⟨?_, i2.trans (s2.trans s1)⟩
          intro p hp
          simp only [List.mem_cons] at hp
          rcases hp with rfl | hp
          · obtain ⟨pre, hpre⟩ := s1
            rw [hpre, takeBytes_cons hr2]
            exact List.mem_append_right _ List.mem_cons_self
          · obtain ⟨pre, hpre⟩ := s2.trans s1
            rw [hpre]
            exact List.mem_append_right _ (i1 p hp)

theorem cipherLen_suffix {ske : AESxCBC} {lv : Leaves} {a b : Int} {t t' : Tape} {n : Nat}
    (h : CT14.cipherLen ske lv a b t = .ok (n, t')) : Suffix t' t := by
  simp only [CT14.cipherLen, bind, Except.bind] at h
  split at h
  · cases h
  · rename_i r hr
    obtain ⟨c, t1⟩ := r
    simp only [pure, Except.pure] at h
    cases h
    exact cipher_suffix hr

namespace CT14
variable (cfg : CT14Cfg) (lv : Leaves) (hE : ∀ key x : Bytes, x.length = 16 → (lv.E key x).length = 16)
include hE

theorem chunkLoop_from (Kw0 Kw1 : Bytes) (ids : List Bytes) (j1 c : Nat) (Ls : List (List (Bytes × Bytes))) (t : Tape)
    (Ls' : List (List (Bytes × Bytes))) (t' : Tape) (h : chunkLoop cfg lv Kw0 Kw1 ids j1 c Ls t = .ok (Ls', t'))
    (t0 : Tape) (hs : Suffix t t0) (hL : AllFrom t0 Ls) : AllFrom t0 Ls' ∧ Suffix t' t0 := by
  induction j1 generalizing c Ls t with
  | zero => simp [chunkLoop] at h; obtain ⟨rfl, rfl⟩ := h; exact ⟨hL, hs⟩
  | succ j ih =>
    simp only [chunkLoop] at h
    split at h
    · exact ih _ _ _ h hs hL
    · rename_i hfit
      simp only [bind, Except.bind] at h
      split at h
      · cases h
      · rename_i r hr
        obtain ⟨cs, t1⟩ := r
        simp only at h
        split at h
        · cases h
        · split at h
          · cases h
          · rename_i Ls1 hpush
            have hne : (ids.drop c).take (2 ^ j) ≠ [] := by
              intro e
              have := congrArg List.length e
              simp only [List.length_take, List.length_drop, List.length_nil] at this
              have hp : 0 < 2 ^ j := Nat.two_pow_pos j
              omega
            obtain ⟨s1, s2⟩ := encAll_stamped lv hE cfg.ske Kw1 _ t t1 cs hr
            have hx : FromTape t0 (cs.flatten) := Or.inl ((s1 hne).mono hs)
            exact ih _ _ _ h (s2.trans hs) (pushAt_from t0 Ls Ls1 j _ hpush hL hx)

theorem encDb_from (K : Bytes) (db : DB) (Ls : List (List (Bytes × Bytes))) (t : Tape) (Ls' : List (List (Bytes × Bytes)))
    (t' : Tape) (h : encDb cfg lv K db Ls t = .ok (Ls', t')) (t0 : Tape) (hs : Suffix t t0) (hL : AllFrom t0 Ls) :
    AllFrom t0 Ls' ∧ Suffix t' t0 := by
  induction db generalizing Ls t with
  | nil => simp [encDb] at h; obtain ⟨rfl, rfl⟩ := h; exact ⟨hL, hs⟩
  | cons q rest ih =>
    obtain ⟨w, ids⟩ := q
    simp only [encDb, bind, Except.bind] at h
    split at h
    · cases h
    · rename_i tk _
      obtain ⟨Kw0, Kw1⟩ := tk
      simp only at h
      split at h
      · simp [throw, throwThe, MonadExceptOf.throw] at h
      · try simp only [pure, Except.pure] at h
        split at h
        · cases h
        · rename_i r hr
          obtain ⟨Ls1, t1⟩ := r
          simp only at h
          obtain ⟨c1, c2⟩ := chunkLoop_from cfg lv hE Kw0 Kw1 ids _ 0 Ls t Ls1 t1 hr t0 hs hL
          exact ih _ _ h c2 c1

omit hE in
theorem padLevels_from (tt i : Nat) (Ls : List (List (Bytes × Bytes))) (t : Tape) (Ls' : List (List (Bytes × Bytes)))
    (t' : Tape) (h : padLevels cfg lv tt i Ls t = .ok (Ls', t')) (t0 : Tape) (hs : Suffix t t0) (hL : AllFrom t0 Ls) :
    AllFrom t0 Ls' := by
  induction Ls generalizing i t Ls' with
  | nil => simp [padLevels] at h; obtain ⟨rfl, _⟩ := h; exact hL
  | cons L rest ih =>
    simp only [padLevels, bind, Except.bind] at h
    split at h
    · cases h
    · rename_i r hr
      obtain ⟨clen, t1⟩ := r
      simp only at h
      split at h
      · cases h
      · rename_i r2 hr2
        obtain ⟨fs, t2⟩ := r2
        simp only at h
        split at h
        · cases h
        · rename_i r3 hr3
          obtain ⟨more, t3⟩ := r3
          simp only [pure, Except.pure] at h
          cases h
          have s1 := (cipherLen_suffix hr).trans hs
          obtain ⟨f1, f2⟩ := fillers_from _ _ _ t1 t2 fs hr2
          have hrest := ih (i + 1) t2 more hr3 (f2.trans s1) (fun M hM => hL M (by simp [hM]))
          intro M hM p hp
          simp only [List.mem_cons] at hM
          rcases hM with rfl | hM
          · simp only [List.mem_append] at hp
            rcases hp with hp | hp
            · exact hL L (by simp) p hp
            · exact FromTape.mono s1 (Or.inr (f1 p hp))
          · exact hrest M hM p hp

/-- CT14: every value of every level table comes from this run's randomness -/
theorem setup_from (K : Bytes) (db : DB) (t t' : Tape) (HT : List Table) (h : setup cfg lv K db t = .ok (HT, t')) :
    ∀ T ∈ HT, ∀ p ∈ T, FromTape t p.2 := by
  simp only [setup, setupLists, bind, Except.bind] at h
  split at h
  · cases h
  · rename_i r hr
    obtain ⟨TL, t1⟩ := r
    simp only [pure, Except.pure] at h
    cases h
    split at hr
    · simp [throw, throwThe, MonadExceptOf.throw] at hr
    · try simp only [pure, Except.pure] at hr
      split at hr
      · cases hr
      · rename_i r2 hr2
        obtain ⟨pdb, t2⟩ := r2
        simp only at hr
        split at hr
        · cases hr
        · rename_i r3 hr3
          obtain ⟨Ls, t3⟩ := r3
          simp only at hr
          have hs2 : Suffix t2 t := padLoop_suffix _ _ _ _ _ _ _ _ hr2
          have hinit : AllFrom t (List.replicate (clog2 db.total + 1) ([] : List (Bytes × Bytes))) := by
            intro L hL p hp
            rw [List.mem_replicate] at hL
            rw [hL.2] at hp; cases hp
          obtain ⟨e1, e2⟩ := encDb_from cfg lv hE K pdb _ t2 Ls t3 hr3 t hs2 hinit
          have hTL := padLevels_from cfg lv _ 0 Ls t3 TL _ hr t e2 e1
          intro T hT p hp
          rw [List.mem_map] at hT
          obtain ⟨L, hL, rfl⟩ := hT
          exact hTL L hL p (mem_buildTable L p hp)

end CT14
namespace ANSS16
variable (cfg : ANSSCfg) (lv : Leaves) (hE : ∀ key x : Bytes, x.length = 16 → (lv.E key x).length = 16)
include hE

theorem encDb_from (K : Bytes) (niSize : Nat) (db : DB) (Ts : List (List (Bytes × Bytes))) (S : List (Bytes × Bytes)) (t : Tape)
    (Ts' : List (List (Bytes × Bytes))) (S' : List (Bytes × Bytes)) (t' : Tape)
    (h : encDb cfg lv K niSize db Ts S t = .ok (Ts', S', t')) (t0 : Tape) (hs : Suffix t t0)
    (hT : AllFrom t0 Ts) (hS : ∀ p ∈ S, FromTape t0 p.2) :
    AllFrom t0 Ts' ∧ (∀ p ∈ S', FromTape t0 p.2) ∧ Suffix t' t0 := by
  induction db generalizing Ts S t with
  | nil => simp [encDb] at h; obtain ⟨rfl, rfl, rfl⟩ := h; exact ⟨hT, hS, hs⟩
  | cons q rest ih =>
    obtain ⟨w, ids⟩ := q
    simp only [encDb, bind, Except.bind] at h
    split at h
    · simp [throw, throwThe, MonadExceptOf.throw] at h
    · rename_i hni
      try simp only [pure, Except.pure] at h
      split at h
      · cases h
      · rename_i r hr
        obtain ⟨dummies, t1⟩ := r
        simp only at h
        split at h
        · cases h
        · rename_i tk _
          split at h
          · cases h
          · rename_i r2 hr2
            obtain ⟨cs, t2⟩ := r2
            simp only at h
            split at h
            · cases h
            · split at h
              · cases h
              · rename_i r3 hr3
                obtain ⟨niP, t3⟩ := r3
                simp only at h
                split at h
                · cases h
                · rename_i Ts1 hpush
                  have s1 : Suffix t1 t := takeBytesN_suffix _ _ _ _ _ hr
                  have hne : ids ++ dummies ≠ [] := by
                    intro e
                    have := congrArg List.length e
                    simp at this
                    exact hni (by simpa using this.1)
                  obtain ⟨a1, a2⟩ := encAll_stamped lv hE cfg.ske tk.Ki _ t1 t2 cs hr2
                  obtain ⟨b1, b2⟩ := skeEncrypt_stamped hr3
                  have hx : FromTape t0 cs.flatten := Or.inl ((a1 hne).mono (s1.trans hs))
                  have hy : FromTape t0 niP := Or.inl (b1.mono (a2.trans (s1.trans hs)))
                  exact ih _ _ _ h (b2.trans (a2.trans (s1.trans hs))) (pushAt_from t0 Ts Ts1 _ _ hpush hT hx)
                    (fun p hp => by
                      simp only [List.mem_append, List.mem_singleton] at hp
                      rcases hp with hp | rfl
                      · exact hS p hp
                      · exact hy)

omit hE in
theorem padLevels_from (tt i : Nat) (Ls : List (List (Bytes × Bytes))) (t : Tape) (Ls' : List (List (Bytes × Bytes)))
    (t' : Tape) (h : padLevels cfg lv tt i Ls t = .ok (Ls', t')) (t0 : Tape) (hs : Suffix t t0) (hL : AllFrom t0 Ls) :
    AllFrom t0 Ls' ∧ Suffix t' t0 := by
  induction Ls generalizing i t Ls' with
  | nil => simp [padLevels] at h; obtain ⟨rfl, rfl⟩ := h; exact ⟨hL, hs⟩
  | cons L rest ih =>
    simp only [padLevels, bind, Except.bind] at h
    split at h
    · cases h
    · rename_i r hr
      obtain ⟨clen, t1⟩ := r
      simp only at h
      split at h
      · cases h
      · rename_i r2 hr2
        obtain ⟨fs, t2⟩ := r2
        simp only at h
        split at h
        · cases h
        · rename_i r3 hr3
          obtain ⟨more, t3⟩ := r3
          simp only [pure, Except.pure] at h
          cases h
          have s1 := (cipherLen_suffix hr).trans hs
          obtain ⟨f1, f2⟩ := fillers_from _ _ _ t1 t2 fs hr2
          obtain ⟨hrest, hsuf⟩ := ih (i + 1) t2 more hr3 (f2.trans s1) (fun M hM => hL M (by simp [hM]))
          refine ⟨?_, hsuf⟩
          intro M hM p hp
          simp only [List.mem_cons] at hM
          rcases hM with rfl | hM
          · simp only [List.mem_append] at hp
            rcases hp with hp | hp
            · exact hL L (by simp) p hp
            · exact FromTape.mono s1 (Or.inr (f1 p hp))
          · exact hrest M hM p hp

/-- ANSS16: every value of the size table and of every level table comes from this run's randomness -/
theorem setup_from (K : Bytes) (db : DB) (t t' : Tape) (edb : ANSSEDB) (h : setup cfg lv K db t = .ok (edb, t')) :
    (∀ p ∈ edb.HTS, FromTape t p.2) ∧ ∀ T ∈ edb.HTL, ∀ p ∈ T, FromTape t p.2 := by
  simp only [setup, setupLists, bind, Except.bind] at h
  split at h
  · cases h
  · rename_i r hr
    obtain ⟨SL, TL, t1⟩ := r
    simp only [pure, Except.pure] at h
    cases h
    split at hr
    · simp [throw, throwThe, MonadExceptOf.throw] at hr
    · try simp only [pure, Except.pure] at hr
      split at hr
      · cases hr
      · rename_i r2 hr2
        obtain ⟨pdb, t2⟩ := r2
        simp only at hr
        split at hr
        · cases hr
        · rename_i r3 hr3
          obtain ⟨Ts, S, t3⟩ := r3
          simp only at hr
          split at hr
          · cases hr
          · rename_i r4 hr4
            obtain ⟨Ts', t4⟩ := r4
            simp only at hr
            split at hr
            · cases hr
            · rename_i r5 hr5
              obtain ⟨nlen, t5⟩ := r5
              simp only at hr
              split at hr
              · cases hr
              · rename_i r6 hr6
                obtain ⟨fs, t6⟩ := r6
                simp only at hr
                cases hr
                have hs2 : Suffix t2 t := padLoop_suffix _ _ _ _ _ _ _ _ hr2
                have hinit : AllFrom t (List.replicate (clog2 db.total + 1) ([] : List (Bytes × Bytes))) := by
                  intro L hL p hp
                  rw [List.mem_replicate] at hL
                  rw [hL.2] at hp; cases hp
                obtain ⟨e1, e2, e3⟩ := encDb_from cfg lv hE K _ pdb _ [] t2 Ts S t3 hr3 t hs2 hinit (fun p hp => by cases hp)
                obtain ⟨p1, p2⟩ := padLevels_from cfg lv _ 0 Ts t3 _ t4 hr4 t e3 e1
                have s5 := (cipherLen_suffix hr5).trans p2
                obtain ⟨f1, _⟩ := fillers_from _ _ _ t5 _ fs hr6
                refine ⟨?_, ?_⟩
                · intro p hp
                  have := mem_buildTable _ p hp
                  simp only [List.mem_append] at this
                  rcases this with hm | hm
                  · exact e2 p hm
                  · exact FromTape.mono s5 (Or.inr (f1 p hm))
                · intro T hT p hp
                  rw [List.mem_map] at hT
                  obtain ⟨L, hL, rfl⟩ := hT
                  exact p1 L hL p (mem_buildTable L p hp)

end ANSS16
end SSEPy.Sch
