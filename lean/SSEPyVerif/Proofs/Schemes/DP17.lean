/-
  DP17: every identifier of a stored keyword is found by the search (no identifier is missed).
-/
import SSEPyVerif.Proofs.Schemes.Levels
import SSEPyVerif.Model.Schemes.DP17
namespace SSEPy.Sch.DP17
open SSEPy.Sch

variable (cfg : DP17Cfg) (lv : Leaves)

/-- cutting a concatenation of equally long pieces gives the pieces back -/
theorem chunksFuel_flatten_eq (n : Nat) (hn : 0 < n) (cs : List Bytes) (h : ∀ c ∈ cs, c.length = n) (fuel : Nat)
    (hf : cs.flatten.length ≤ fuel) : chunksFuel fuel cs.flatten n = cs := by
  induction cs generalizing fuel with
  | nil =>
    cases fuel with
    | zero => rfl
    | succ f => simp [chunksFuel]
  | cons c rest ih =>
    have hc : c.length = n := h c (by simp)
    rw [List.flatten_cons, List.length_append] at hf
    cases fuel with
    | zero => omega
    | succ f =>
      have hne : ¬ (c ++ rest.flatten).isEmpty = true := by
        simp; intro e; rw [e] at hc; simp at hc; omega
      simp only [List.flatten_cons, chunksFuel, hne, if_false, Bool.false_eq_true]
      rw [List.take_left' hc, List.drop_left' hc, ih (fun x hx => h x (by simp [hx])) f (by omega)]

theorem chunks_flatten_eq (n : Nat) (hn : 0 < n) (cs : List Bytes) (h : ∀ c ∈ cs, c.length = n) :
    chunks cs.flatten n = .ok cs := by
  unfold chunks
  have : (n == 0) = false := by simp; omega
  simp only [this, Bool.false_eq_true, if_false]
  rw [chunksFuel_flatten_eq n hn cs h _ (Nat.le_refl _)]

/-- trial decryption keeps an identifier whose ciphertext is in the bucket -/
theorem scan_mem (etag : Bytes) (cs : List Bytes) (c id : Bytes)
    (hc : c ∈ cs) (hd : cfg.rnd.decrypt lv.D etag c = .ok (id ++ zeros cfg.lambda.toNat)) :
    id ∈ scanBucket cfg lv etag cs := by
  induction cs with
  | nil => cases hc
  | cons e rest ih =>
    simp only [List.mem_cons] at hc
    have hkeep : ∀ r, id ∈ (scanBucket cfg lv etag rest) → id ∈ r ++ scanBucket cfg lv etag rest := fun r h => List.mem_append_right r h
    rcases hc with rfl | hc
    · simp only [scanBucket, hd]
      have hl : (id ++ zeros cfg.lambda.toNat).length - cfg.lambda.toNat = id.length := by simp [zeros]
      simp [hl, zeros]
    · have := ih hc
      simp only [scanBucket]
      split
      · split
        · exact List.mem_cons_of_mem _ this
        · exact this
      · exact this

theorem mapM_getElem_mem {α : Type} (l : List α) (perm : List Nat) (l' : List α)
    (h : perm.mapM (fun i => match l[i]? with | some x => Except.ok x | none => Except.error Err.miss) = .ok l')
    (i : Nat) (hi : i < l.length) (him : i ∈ perm) : l[i] ∈ l' := by
  induction perm generalizing l' with
  | nil => cases him
  | cons p ps ih =>
    simp only [List.mapM_cons, bind, Except.bind] at h
    split at h
    · cases h
    · rename_i y hy
      split at h
      · cases h
      · rename_i ys hys
        simp only [pure, Except.pure] at h
        cases h
        simp only [List.mem_cons] at him
        rcases him with rfl | him
        · have : l[i]? = some l[i] := List.getElem?_eq_getElem hi
          rw [this] at hy
          cases hy
          simp
        · exact List.mem_cons_of_mem _ (ih ys hys him)

/-- a recorded shuffle that is a permutation of the positions keeps every entry -/
theorem permute_mem {α : Type} (l : List α) (perm : List Nat) (l' : List α) (h : permute l perm = .ok l')
    (hp : perm.Perm (List.range l.length)) (x : α) (hx : x ∈ l) : x ∈ l' := by
  unfold permute at h
  split at h
  · cases h
  · obtain ⟨i, hi, rfl⟩ := List.mem_iff_getElem.mp hx
    exact mapM_getElem_mem l perm l' h i hi (hp.mem_iff.mpr (List.mem_range.mpr hi))

/-- what `Setup` wrote for a chunk decodes, with the keyword's `vtag`, to the chunk's level and bucket -/
theorem decode_htVal (k2 w vtag : Bytes) (count i x : Nat) (v : Bytes)
    (hv : htVal cfg lv k2 w count i x = .ok v) (hvt : cfg.prfF.call lv.hmac k2 w = .ok vtag) :
    decodeVal cfg lv vtag count v = .ok (i, x) := by
  simp only [htVal, bind, Except.bind] at hv
  split at hv
  · cases hv
  · rename_i ib hib
    split at hv
    · cases hv
    · rename_i xb hxb
      rw [hvt] at hv
      simp only at hv
      split at hv
      · cases hv
      · rename_i mask hmask
        obtain ⟨i1, i2⟩ := C17.int_roundtrip _ _ _ hib
        obtain ⟨x1, x2⟩ := C17.int_roundtrip _ _ _ hxb
        have hle : mask.length ≤ (ib ++ xb).length := by
          unfold bytesXor at hv
          split at hv
          · cases hv
          · omega
        obtain ⟨c, hc1, _, hc2⟩ := C17.xor_involution (ib ++ xb) mask hle
        rw [hv] at hc1; cases hc1
        simp only [decodeVal, hmask, hc2, bind, Except.bind, pure, Except.pure]
        have ht : (ib ++ xb).take (cfg.dsz / 2) = ib := by rw [← i2]; exact List.take_left
        have hd : (ib ++ xb).drop (cfg.dsz / 2) = xb := by rw [← i2]; exact List.drop_left
        rw [ht, hd, i1, x1]

/-- entry `e` is in bucket `x` of the level -/
def InBucket (lvl : Level) (x : Nat) (e : Entry) : Prop := ∃ b, lvl.buckets[x]? = some b ∧ e ∈ b

/-- the free-space list and the bucket list of a level have one entry per bucket -/
def WFL (lvl : Level) : Prop := lvl.remaining.length = lvl.buckets.length

theorem addTo_mono (l : List (List Entry)) (x : Nat) (es : List Entry) (y : Nat) (b : List Entry) (h : l[y]? = some b) :
    ∃ b', (addTo l x es)[y]? = some b' ∧ ∀ e ∈ b, e ∈ b' := by
  unfold addTo
  simp only [List.getElem?_mapIdx, h, Option.map_some]
  by_cases hy : y = x
  · exact ⟨b ++ es, by simp [hy], fun e he => by simp [he]⟩
  · exact ⟨b, by simp [hy], fun e he => he⟩

theorem addTo_new (l : List (List Entry)) (x : Nat) (es : List Entry) (hx : x < l.length) :
    ∃ b', (addTo l x es)[x]? = some b' ∧ ∀ e ∈ es, e ∈ b' := by
  unfold addTo
  have : l[x]? = some l[x] := List.getElem?_eq_getElem hx
  simp only [List.getElem?_mapIdx, this, Option.map_some]
  exact ⟨l[x] ++ es, by simp, fun e he => by simp [he]⟩

theorem cands_lt (rem : List Nat) (n x : Nat) (h : x ∈ (rem.zipIdx.filter fun p => p.1 ≥ n).map (·.2)) : x < rem.length := by
  simp only [List.mem_map, List.mem_filter] at h
  obtain ⟨⟨r, j⟩, ⟨hm, _⟩, rfl⟩ := h
  have := List.mk_mem_zipIdx_iff_getElem?.mp hm
  rcases Nat.lt_or_ge j rem.length with hl | hl
  · exact hl
  · rw [List.getElem?_eq_none hl] at this; cases this

/-- placing the chunks of one keyword: every chunk ends up in some bucket of the level, with a hash-table entry that
    names that bucket; buckets only grow; hash-table entries of other keys are not touched -/
theorem placeChunks_spec (k1 k2 w : Bytes) (i : Nat) (cw : List (List Bytes)) (count : Nat) (lvl : Level) (HT : Table)
    (t : Tape) (lvl' : Level) (HT' : Table) (t' : Tape)
    (h : placeChunks cfg lv k1 k2 w i cw count lvl HT t = .ok (lvl', HT', t')) (hwf : WFL lvl)
    (hinj : ∀ k k' key, k < cw.length → k' < cw.length → htKey cfg lv k1 w (count + k + 1) = .ok key →
      htKey cfg lv k1 w (count + k' + 1) = .ok key → k = k') :
    lvl'.lev = lvl.lev ∧ WFL lvl' ∧ (∀ x e, InBucket lvl x e → InBucket lvl' x e) ∧
    (∀ key, (∀ k, k < cw.length → htKey cfg lv k1 w (count + k + 1) ≠ .ok key) → HT'.lookup key = HT.lookup key) ∧
    ∀ k, k < cw.length → cw[k]! ≠ [] → ∃ x key v, htKey cfg lv k1 w (count + k + 1) = .ok key ∧
      htVal cfg lv k2 w (count + k + 1) i x = .ok v ∧ HT'.lookup key = some v ∧
      ∀ id ∈ cw[k]!, InBucket lvl' x (some (w, id)) := by
  induction cw generalizing count lvl HT t with
  | nil =>
    simp [placeChunks] at h
    obtain ⟨rfl, rfl, rfl⟩ := h
    exact ⟨rfl, hwf, fun x e he => he, fun key _ => rfl, fun k hk => absurd hk (by simp)⟩
  | cons c rest ih =>
    simp only [placeChunks] at h
    split at h
    · simp [throw, throwThe, MonadExceptOf.throw, bind, Except.bind] at h
    · simp only [bind, Except.bind, pure, Except.pure] at h
      split at h
      · cases h
      · rename_i r hr
        obtain ⟨x, t1⟩ := r
        simp only at h
        split at h
        · simp [throw, throwThe, MonadExceptOf.throw] at h
        · rename_i hcontains
          have hxc : x ∈ (lvl.remaining.zipIdx.filter fun p => p.1 ≥ 2 ^ i).map (·.2) := by
            simpa using hcontains
          have hxlt : x < lvl.buckets.length := by rw [← hwf]; exact cands_lt _ _ _ hxc
          split at h
          · cases h
          · rename_i HT1 hHT1
            -- the level after this chunk
            generalize hl2 : ({ lev := lvl.lev, remaining := (lvl.remaining.mapIdx fun j r => if j = x then r - c.length else r),
                                 buckets := addTo lvl.buckets x (c.map fun id => some (w, id)) } : Level) = lvl2 at h
            have hwf2 : WFL lvl2 := by
              rw [← hl2]; unfold WFL at hwf ⊢; simp [addTo]; exact hwf
            have hmono2 : ∀ y e, InBucket lvl y e → InBucket lvl2 y e := by
              intro y e ⟨b, hb, he⟩
              obtain ⟨b', hb', hsub⟩ := addTo_mono lvl.buckets x (c.map fun id => some (w, id)) y b hb
              exact ⟨b', by rw [← hl2]; exact hb', hsub e he⟩
            obtain ⟨r1, r2, r3, r4, r5⟩ := ih (count + 1) lvl2 HT1 t1 h hwf2 (by
              intro k k' key hk hk' he he'
              have := hinj (k + 1) (k' + 1) key (by simp; omega) (by simp; omega)
                (by simpa [Nat.add_assoc, Nat.add_comm 1] using he) (by simpa [Nat.add_assoc, Nat.add_comm 1] using he')
              omega)
            refine ⟨by rw [r1, ← hl2], r2, fun y e he => r3 y e (hmono2 y e he), ?_, ?_⟩
            · intro key hkey
              rw [r4 key (fun k hk => by
                have := hkey (k + 1) (by simp; omega)
                simpa [Nat.add_assoc, Nat.add_comm 1] using this)]
              unfold htInsert at hHT1
              by_cases hce : c.isEmpty
              · simp only [hce, if_true] at hHT1; cases hHT1; rfl
              · simp only [hce, Bool.false_eq_true, if_false, bind, Except.bind, pure, Except.pure] at hHT1
                split at hHT1
                · cases hHT1
                · rename_i key0 hk0
                  split at hHT1
                  · cases hHT1
                  · rename_i v0 hv0
                    cases hHT1
                    rw [lookup_tinsert]
                    have : key ≠ key0 := by
                      intro e; subst e
                      exact hkey 0 (by simp) (by simpa using hk0)
                    simp [this]
            · intro k hk hne
              cases k with
              | zero =>
                simp only [List.getElem!_cons_zero] at hne ⊢
                have hce : ¬ c.isEmpty = true := by simpa using hne
                unfold htInsert at hHT1
                simp only [hce, Bool.false_eq_true, if_false, bind, Except.bind, pure, Except.pure] at hHT1
                split at hHT1
                · cases hHT1
                · rename_i key0 hk0
                  split at hHT1
                  · cases hHT1
                  · rename_i v0 hv0
                    cases hHT1
                    refine ⟨x, key0, v0, by simpa using hk0, by simpa using hv0, ?_, ?_⟩
                    · rw [r4 key0 (fun k' hk' he => by
                        have := hinj 0 (k' + 1) key0 (by simp) (by simp; omega) (by simpa using hk0)
                          (by simpa [Nat.add_assoc, Nat.add_comm 1] using he)
                        omega)]
                      simp [lookup_tinsert]
                    · intro id hid
                      obtain ⟨b', hb', hsub⟩ := addTo_new lvl.buckets x (c.map fun id => some (w, id)) hxlt
                      exact r3 x _ ⟨b', by rw [← hl2]; exact hb', hsub _ (List.mem_map.mpr ⟨id, hid, rfl⟩)⟩
              | succ k' =>
                simp only [List.getElem!_cons_succ] at hne ⊢
                obtain ⟨x', key, v, a1, a2, a3, a4⟩ := r5 k' (by simp at hk; omega) hne
                exact ⟨x', key, v, by simpa [Nat.add_assoc, Nat.add_comm 1] using a1,
                  by simpa [Nat.add_assoc, Nat.add_comm 1] using a2, a3, a4⟩

/-- entry `e` is in bucket `x` of level `i` -/
def Holds (ls : List Level) (i : Int) (x : Nat) (e : Entry) : Prop := ∃ lvl, getLevel ls i = some lvl ∧ InBucket lvl x e

theorem getLevel_lev (ls : List Level) (i : Int) (lvl : Level) (h : getLevel ls i = some lvl) : lvl.lev = i := by
  unfold getLevel at h
  have := List.find?_some h
  simpa using this

theorem getLevel_mem (ls : List Level) (i : Int) (lvl : Level) (h : getLevel ls i = some lvl) : lvl ∈ ls :=
  List.mem_of_find?_eq_some h

theorem getLevel_cons (a : Level) (rest : List Level) (i : Int) :
    getLevel (a :: rest) i = if a.lev = i then some a else getLevel rest i := by
  unfold getLevel
  rw [List.find?_cons]
  by_cases h : a.lev = i
  · simp [h]
  · have : (a.lev == i) = false := by simpa using h
    simp [this, h]

theorem setLevel_cons (a : Level) (rest : List Level) (l' : Level) :
    setLevel (a :: rest) l' = (if a.lev = l'.lev then l' else a) :: setLevel rest l' := by
  unfold setLevel
  rw [List.map_cons]
  by_cases h : a.lev = l'.lev
  · simp [h]
  · have : (a.lev == l'.lev) = false := by simpa using h
    simp [this, h]

/-- replacing a level leaves the other levels alone -/
theorem getLevel_setLevel_ne (ls : List Level) (l' : Level) (i : Int) (hi : i ≠ l'.lev) :
    getLevel (setLevel ls l') i = getLevel ls i := by
  induction ls with
  | nil => rfl
  | cons a rest ih =>
    rw [setLevel_cons, getLevel_cons, getLevel_cons]
    by_cases ha : a.lev = l'.lev
    · have h1 : ¬ l'.lev = i := fun e => hi e.symm
      have h2 : ¬ a.lev = i := by rw [ha]; exact h1
      simp [ha, h1, ih]
    · simp [ha, ih]

/-- … and puts the new value where the old one was -/
theorem getLevel_setLevel_eq (ls : List Level) (l' : Level) {l : Level} (h : getLevel ls l'.lev = some l) :
    getLevel (setLevel ls l') l'.lev = some l' := by
  induction ls with
  | nil => simp [getLevel] at h
  | cons a rest ih =>
    rw [setLevel_cons, getLevel_cons]
    rw [getLevel_cons] at h
    by_cases ha : a.lev = l'.lev
    · simp [ha]
    · simp only [ha, if_false] at h ⊢
      exact ih h

/-- what `chunks` returns: the pieces concatenate to the list, and there are at most as many pieces as elements -/
theorem chunks_spec {α : Type} (l : List α) (n : Nat) (cw : List (List α)) (h : chunks l n = .ok cw) :
    cw.flatten = l ∧ cw.length = ceilDiv l.length n ∧ cw.length ≤ l.length ∧ 0 < n := by
  unfold chunks at h
  split at h
  · cases h
  · rename_i hn
    have hn0 : 0 < n := by
      rcases Nat.eq_zero_or_pos n with e | e
      · simp [e] at hn
      · exact e
    cases h
    have hlen := chunksFuel_length n hn0 l.length l (Nat.le_refl _)
    refine ⟨chunksFuel_flatten n hn0 l.length l (Nat.le_refl _), hlen, ?_, hn0⟩
    rw [hlen]
    unfold ceilDiv
    rcases Nat.eq_zero_or_pos l.length with e | e
    · rw [e]; simp
      exact Or.inr (by omega)
    · apply Nat.div_le_of_le_mul
      have : l.length - 1 ≤ n * (l.length - 1) := Nat.le_mul_of_pos_left _ hn0
      have e2 : n * l.length = n * (l.length - 1) + n := by
        have : l.length = (l.length - 1) + 1 := by omega
        rw [this, Nat.mul_add]; simp
      omega

/-- hash-table keys of different (keyword, chunk number) pairs differ — collision-freeness of H on the distinct inputs
    `F_k1(w) ‖ count` that `Setup` uses (chunk numbers run from 1 to the number of chunks of the keyword's list) -/
def KeyInj (k1 : Bytes) (levels : List Int) (db : DB) : Prop :=
  ∀ w ids w' ids' c c' key, (w, ids) ∈ db → (w', ids') ∈ db → 1 ≤ c → c ≤ nChunks cfg levels ids → 1 ≤ c' →
    c' ≤ nChunks cfg levels ids' → htKey cfg lv k1 w c = .ok key → htKey cfg lv k1 w' c' = .ok key → w = w' ∧ c = c'

/-- what `Setup` leaves for one keyword: its level, its chunks, and for every chunk a hash-table entry that leads to a
    bucket holding the chunk's identifiers -/
def StoredKw (ls : List Level) (HT : Table) (k1 k2 : Bytes) (levels : List Int) (w : Bytes) (ids : List Bytes) : Prop :=
  ∃ (i : Nat) (cw : List (List Bytes)), findAdjacent cfg levels ids.length = .ok (i : Int) ∧ chunks ids (2 ^ i) = .ok cw ∧
    ∀ k, k < cw.length → cw[k]! ≠ [] → ∃ x key v, htKey cfg lv k1 w (k + 1) = .ok key ∧
      htVal cfg lv k2 w (k + 1) i x = .ok v ∧ HT.lookup key = some v ∧ ∀ id ∈ cw[k]!, Holds ls (i : Int) x (some (w, id))

theorem encDb_spec (k1 k2 : Bytes) (levels : List Int) (db : DB) (ls : List Level) (HT : Table) (t : Tape)
    (ls' : List Level) (HT' : Table) (t' : Tape) (h : encDb cfg lv k1 k2 levels db ls HT t = .ok (ls', HT', t'))
    (hwf : ∀ l ∈ ls, WFL l) (hkeys : (db.map (·.1)).Nodup) (hinj : KeyInj cfg lv k1 levels db) :
    (∀ l ∈ ls', WFL l) ∧ (∀ i x e, Holds ls i x e → Holds ls' i x e) ∧
    (∀ key, (∀ w ids c, (w, ids) ∈ db → 1 ≤ c → c ≤ nChunks cfg levels ids → htKey cfg lv k1 w c ≠ .ok key) → HT'.lookup key = HT.lookup key) ∧
    ∀ w ids, (w, ids) ∈ db → StoredKw cfg lv ls' HT' k1 k2 levels w ids := by
  induction db generalizing ls HT t with
  | nil =>
    simp [encDb] at h
    obtain ⟨rfl, rfl, rfl⟩ := h
    exact ⟨hwf, fun i x e he => he, fun key _ => rfl, fun w ids hm => by cases hm⟩
  | cons p rest ih =>
    obtain ⟨w0, ids0⟩ := p
    simp only [encDb, bind, Except.bind] at h
    split at h
    · cases h
    · rename_i iI hi
      split at h
      · simp [throw, throwThe, MonadExceptOf.throw] at h
      · rename_i hneg
        try simp only [pure, Except.pure] at h
        split at h
        · cases h
        · rename_i lvl hlvl
          split at h
          · cases h
          · rename_i cw hcw
            split at h
            · cases h
            · rename_i r hr
              obtain ⟨lvl1, HT1, t1⟩ := r
              simp only at h
              have hget : getLevel ls iI = some lvl := by
                unfold getLevelE at hlvl
                split at hlvl
                · rename_i l hl; cases hlvl; exact hl
                · cases hlvl
              have hlev := getLevel_lev ls iI lvl hget
              simp only [List.map_cons, List.nodup_cons] at hkeys
              have hcwl : cw.length ≤ nChunks cfg levels ids0 := by
                rw [(chunks_spec ids0 _ cw hcw).2.1]; simp [nChunks, hi]
              obtain ⟨p1, p2, p3, p4, p5⟩ := placeChunks_spec cfg lv k1 k2 w0 iI.toNat cw 0 lvl HT t lvl1 HT1 t1 hr
                (hwf lvl (getLevel_mem ls iI lvl hget))
                (fun k k' key hk hk' he he' => by
                  have := (hinj w0 ids0 w0 ids0 _ _ key (by simp) (by simp) (by omega) (by omega) (by omega) (by omega) he he').2
                  omega)
              have hwf1 : ∀ l ∈ setLevel ls lvl1, WFL l := by
                intro l hl
                unfold setLevel at hl
                simp only [List.mem_map] at hl
                obtain ⟨a, ha, rfl⟩ := hl
                split
                · exact p2
                · exact hwf a ha
              have hinj' : KeyInj cfg lv k1 levels rest := fun w ids w' ids' c c' key hm hm' =>
                hinj w ids w' ids' c c' key (by simp [hm]) (by simp [hm'])
              obtain ⟨i1, i2, i3, i4⟩ := ih (setLevel ls lvl1) HT1 t1 h hwf1 hkeys.2 hinj'
              have hmono1 : ∀ i x e, Holds ls i x e → Holds (setLevel ls lvl1) i x e := by
                intro i x e ⟨l, hl, hb⟩
                by_cases hi1 : i = lvl1.lev
                · have hii : i = iI := by rw [hi1, p1, hlev]
                  subst hii
                  rw [hget] at hl; cases hl
                  exact ⟨lvl1, by rw [hi1]; exact getLevel_setLevel_eq ls lvl1 (by rw [← hi1]; exact hget), p3 x e hb⟩
                · exact ⟨l, by rw [getLevel_setLevel_ne ls lvl1 i hi1]; exact hl, hb⟩
              have hiI : ((iI.toNat : Nat) : Int) = iI := by omega
              refine ⟨i1, fun i x e he => i2 i x e (hmono1 i x e he), ?_, ?_⟩
              · intro key hkey
                rw [i3 key (fun w ids c hm => hkey w ids c (by simp [hm]))]
                exact p4 key (fun k hk => hkey w0 ids0 _ (by simp) (by omega) (by omega))
              · intro w ids hm
                simp only [List.mem_cons, Prod.mk.injEq] at hm
                rcases hm with ⟨rfl, rfl⟩ | hm
                · refine ⟨iI.toNat, cw, by rw [hiI]; exact hi, hcw, ?_⟩
                  intro k hk hne
                  obtain ⟨x, key, v, a1, a2, a3, a4⟩ := p5 k hk hne
                  refine ⟨x, key, v, by simpa using a1, by simpa using a2, ?_, ?_⟩
                  · rw [i3 key (fun w' ids' c hm' hc1 hc2 he => by
                      have := (hinj w' ids' w ids c (k + 1) key (by simp [hm']) (by simp) hc1 hc2 (by omega) (by omega) he (by simpa using a1)).1
                      subst this
                      exact hkeys.1 (List.mem_map.mpr ⟨(w', ids'), hm', rfl⟩))]
                    exact a3
                  · intro id hid
                    apply i2
                    rw [hiI]
                    have hil : iI = lvl1.lev := by rw [p1, hlev]
                    exact ⟨lvl1, by rw [hil]; exact getLevel_setLevel_eq ls lvl1 (by rw [← hil]; exact hget), a4 id hid⟩
                · exact i4 w ids hm

/-! ### the tape only shrinks -/

theorem takeNats_cons {t t' : Tape} {p : List Nat} (h : takeNats t = .ok (p, t')) : t = Draw.nats p :: t' := by
  unfold takeNats at h
  split at h <;> first | (cases h; rfl) | cases h

theorem placeChunks_suffix (k1 k2 w : Bytes) (i : Nat) (cw : List (List Bytes)) (count : Nat) (lvl : Level) (HT : Table)
    (t : Tape) (lvl' : Level) (HT' : Table) (t' : Tape)
    (h : placeChunks cfg lv k1 k2 w i cw count lvl HT t = .ok (lvl', HT', t')) : Suffix t' t := by
  induction cw generalizing count lvl HT t with
  | nil => simp [placeChunks] at h; obtain ⟨_, _, rfl⟩ := h; exact Suffix.refl _
  | cons c rest ih =>
    simp only [placeChunks] at h
    split at h
    · simp [throw, throwThe, MonadExceptOf.throw, bind, Except.bind] at h
    · simp only [bind, Except.bind, pure, Except.pure] at h
      split at h
      · cases h
      · rename_i r hr
        obtain ⟨x, t1⟩ := r
        simp only at h
        split at h
        · simp [throw, throwThe, MonadExceptOf.throw] at h
        · split at h
          · cases h
          · exact (ih _ _ _ _ h).trans (takeNat_suffix hr)

theorem encDb_suffix (k1 k2 : Bytes) (levels : List Int) (db : DB) (ls : List Level) (HT : Table) (t : Tape)
    (ls' : List Level) (HT' : Table) (t' : Tape) (h : encDb cfg lv k1 k2 levels db ls HT t = .ok (ls', HT', t')) :
    Suffix t' t := by
  induction db generalizing ls HT t with
  | nil => simp [encDb] at h; obtain ⟨_, _, rfl⟩ := h; exact Suffix.refl _
  | cons p rest ih =>
    obtain ⟨w0, ids0⟩ := p
    simp only [encDb, bind, Except.bind] at h
    split at h
    · cases h
    · split at h
      · simp [throw, throwThe, MonadExceptOf.throw] at h
      · try simp only [pure, Except.pure] at h
        split at h
        · cases h
        · split at h
          · cases h
          · split at h
            · cases h
            · rename_i r hr
              obtain ⟨lvl1, HT1, t1⟩ := r
              simp only at h
              exact (ih _ _ _ h).trans (placeChunks_suffix cfg lv _ _ _ _ _ _ _ _ _ _ _ _ hr)

/-- the random fillers of the hash table leave alone every key that none of them hits -/
theorem fillHT_lookup (d n : Nat) (T : Table) (t : Tape) (T' : Table) (t' : Tape) (h : fillHT d n T t = .ok (T', t'))
    (g : Bytes) (hfresh : ∀ b, Draw.bytes b ∈ t → b ≠ g) : T'.lookup g = T.lookup g := by
  induction n generalizing T t with
  | zero => simp [fillHT] at h; obtain ⟨rfl, rfl⟩ := h; rfl
  | succ m ih =>
    simp only [fillHT, bind, Except.bind] at h
    split at h
    · cases h
    · rename_i r hr
      obtain ⟨v, t1⟩ := r
      simp only at h
      split at h
      · cases h
      · rename_i r2 hr2
        obtain ⟨k, t2⟩ := r2
        simp only at h
        have hk : Draw.bytes k ∈ t := by rw [takeBytes_cons hr, takeBytes_cons hr2]; simp
        rw [ih _ _ h (fun b hb => hfresh b (by rw [takeBytes_cons hr, takeBytes_cons hr2]; simp [hb])), lookup_tinsert]
        have : g ≠ k := fun e => hfresh k hk e.symm
        simp [this]

theorem fillHT_suffix (d n : Nat) (T : Table) (t : Tape) (T' : Table) (t' : Tape) (h : fillHT d n T t = .ok (T', t')) :
    Suffix t' t := by
  induction n generalizing T t with
  | zero => simp [fillHT] at h; obtain ⟨_, rfl⟩ := h; exact Suffix.refl _
  | succ m ih =>
    simp only [fillHT, bind, Except.bind] at h
    split at h
    · cases h
    · rename_i r hr
      obtain ⟨v, t1⟩ := r
      simp only at h
      split at h
      · cases h
      · rename_i r2 hr2
        obtain ⟨k, t2⟩ := r2
        simp only at h
        exact ((ih _ _ h).trans (takeBytes_suffix hr2)).trans (takeBytes_suffix hr)

/-! ### encrypting the buckets -/

/-- identifiers in the entries have the length the ciphertext length was computed for -/
def EntLen (n : Nat) (es : List Entry) : Prop := ∀ w id, some (w, id) ∈ es → id.length + cfg.lambda.toNat = n

/-- a real entry has a ciphertext in `cs` that decrypts, under the keyword's tag, to `id ‖ 0^λ` -/
def HasCipher (k3 : Bytes) (cs : List Bytes) (w id : Bytes) : Prop :=
  ∃ etag c, cfg.prfF.call lv.hmac k3 w = .ok etag ∧ c ∈ cs ∧ cfg.rnd.decrypt lv.D etag c = .ok (id ++ zeros cfg.lambda.toNat)

section enc
variable (hde : ∀ key iv msg c, iv.length = 16 → cfg.rnd.encrypt lv.E key iv msg = .ok c → cfg.rnd.decrypt lv.D key c = .ok msg)
variable (hE : ∀ key x : Bytes, x.length = 16 → (lv.E key x).length = 16)
variable (n : Nat) (hclen : cfg.cipherLen = 16 + 16 * (n / 16 + 1))
include hde hE hclen

theorem encBucket_spec (k3 : Bytes) (es : List Entry) (t t' : Tape) (cs : List Bytes)
    (h : encBucket cfg lv k3 es t = .ok (cs, t')) (hlen : EntLen cfg n es) :
    Suffix t' t ∧ (∀ c ∈ cs, c.length = cfg.cipherLen) ∧ ∀ w id, some (w, id) ∈ es → HasCipher cfg lv k3 cs w id := by
  induction es generalizing t cs with
  | nil => simp [encBucket] at h; obtain ⟨rfl, rfl⟩ := h; exact ⟨Suffix.refl _, (fun c hc => by cases hc), fun w id hm => by cases hm⟩
  | cons e rest ih =>
    have hlen' : EntLen cfg n rest := fun w id hm => hlen w id (by simp [hm])
    cases e with
    | none =>
      simp only [encBucket, bind, Except.bind] at h
      split at h
      · cases h
      · rename_i r hr
        obtain ⟨rb, t1⟩ := r
        simp only at h
        split at h
        · cases h
        · rename_i r2 hr2
          obtain ⟨more, t2⟩ := r2
          simp only [pure, Except.pure] at h
          cases h
          obtain ⟨i0, i1, i2⟩ := ih _ _ hr2 hlen'
          refine ⟨i0.trans (takeBytes_suffix hr), ?_, ?_⟩
          · intro c hc
            simp only [List.mem_cons] at hc
            rcases hc with rfl | hc
            · exact Chain.takeBytes_len hr
            · exact i1 c hc
          · intro w id hm
            simp only [List.mem_cons] at hm
            rcases hm with hm | hm
            · cases hm
            · obtain ⟨etag, c, a1, a2, a3⟩ := i2 w id hm
              exact ⟨etag, c, a1, List.mem_cons_of_mem _ a2, a3⟩
    | some p =>
      obtain ⟨w0, id0⟩ := p
      simp only [encBucket, bind, Except.bind] at h
      split at h
      · cases h
      · rename_i etag0 het
        split at h
        · cases h
        · rename_i r hr0
          obtain ⟨c0, t1⟩ := r
          obtain ⟨iv, hr, hc⟩ := skeEncrypt_ok hr0
          simp only at h
          split at h
          · cases h
          · rename_i r2 hr2
            obtain ⟨more, t2⟩ := r2
            simp only [pure, Except.pure] at h
            cases h
            obtain ⟨i0, i1, i2⟩ := ih _ _ hr2 hlen'
            refine ⟨i0.trans (cipher_suffix hr0), ?_, ?_⟩
            · intro c hc'
              simp only [List.mem_cons] at hc'
              rcases hc' with rfl | hc'
              · have := C14.enc_len cfg.rnd lv.E etag0 iv _ c (hE etag0) (Chain.takeBytes_len hr) hc
                rw [this, hclen]
                have := hlen w0 id0 (by simp)
                simp [zeros, this]
              · exact i1 c hc'
            · intro w id hm
              simp only [List.mem_cons] at hm
              rcases hm with hm | hm
              · cases hm
                exact ⟨etag0, c0, het, by simp, hde _ _ _ _ (Chain.takeBytes_len hr) hc⟩
              · obtain ⟨etag, c, a1, a2, a3⟩ := i2 w id hm
                exact ⟨etag, c, a1, List.mem_cons_of_mem _ a2, a3⟩

omit hde hE hclen in
theorem mapM_getElem_sub {α : Type} (l : List α) (perm : List Nat) (l' : List α)
    (h : perm.mapM (fun i => match l[i]? with | some x => Except.ok x | none => Except.error Err.miss) = .ok l')
    (x : α) (hx : x ∈ l') : x ∈ l := by
  induction perm generalizing l' with
  | nil => simp [pure, Except.pure] at h; subst h; cases hx
  | cons p ps ih =>
    simp only [List.mapM_cons, bind, Except.bind] at h
    split at h
    · cases h
    · rename_i y hy
      split at h
      · cases h
      · rename_i ys hys
        simp only [pure, Except.pure] at h
        cases h
        simp only [List.mem_cons] at hx
        rcases hx with rfl | hx
        · split at hy
          · rename_i z hz; cases hy; exact List.mem_of_getElem? hz
          · cases hy
        · exact ih ys hys hx

omit hde hE hclen in
theorem permute_sub {α : Type} (l : List α) (perm : List Nat) (l' : List α) (h : permute l perm = .ok l')
    (x : α) (hx : x ∈ l') : x ∈ l := by
  unfold permute at h
  split at h
  · cases h
  · exact mapM_getElem_sub l perm l' h x hx

omit hde hE hclen in
theorem permute_len {α : Type} (l : List α) (perm : List Nat) (l' : List α) (h : permute l perm = .ok l') :
    perm.length = l.length := by
  unfold permute at h
  split at h
  · cases h
  · rename_i hne; simpa using hne

/-- every recorded shuffle is a permutation of the positions it shuffles -/
def PermsGood (t : Tape) : Prop := ∀ p, Draw.nats p ∈ t → p.Perm (List.range p.length)

omit hde hE hclen in
theorem PermsGood.suffix {t t' : Tape} (h : PermsGood t) (hs : Suffix t' t) : PermsGood t' := by
  obtain ⟨pre, rfl⟩ := hs
  exact fun p hp => h p (List.mem_append_right _ hp)

/-- one level: every entry stays in its bucket, and every real entry of bucket `x` has a ciphertext of the right
    length in `A_i[x]` that decrypts under its keyword's tag -/
theorem finishBuckets_spec (k3 : Bytes) (bks : List (List Entry)) (rems : List Nat) (t : Tape) (bs : List (List Entry))
    (arr : List Bytes) (t' : Tape) (h : finishBuckets cfg lv k3 bks rems t = .ok (bs, arr, t'))
    (hp : PermsGood t) (hlen : ∀ b ∈ bks, EntLen cfg n b) :
    Suffix t' t ∧ bs.length = bks.length ∧ (∀ b ∈ bs, EntLen cfg n b) ∧
    (∀ (x : Nat) b, bks[x]? = some b → ∃ b', bs[x]? = some b' ∧ ∀ e ∈ b, e ∈ b') ∧
    ∀ (x : Nat) b w id, bks[x]? = some b → some (w, id) ∈ b → ∃ cs : List Bytes, arr[x]? = some cs.flatten ∧
      (∀ c ∈ cs, c.length = cfg.cipherLen) ∧ HasCipher cfg lv k3 cs w id := by
  induction bks generalizing rems t bs arr with
  | nil =>
    simp [finishBuckets] at h
    obtain ⟨rfl, rfl, rfl⟩ := h
    exact ⟨Suffix.refl _, rfl, (fun b hb => by cases hb), (fun x b hx => by simp at hx), fun x b w id hx => by simp at hx⟩
  | cons b0 rest ih =>
    simp only [finishBuckets, bind, Except.bind] at h
    split at h
    · cases h
    · rename_i r hr
      obtain ⟨perm, t1⟩ := r
      simp only at h
      split at h
      · cases h
      · rename_i shuffled hsh
        split at h
        · cases h
        · rename_i r2 hr2
          obtain ⟨cs0, t2⟩ := r2
          simp only at h
          split at h
          · cases h
          · rename_i r3 hr3
            obtain ⟨bs1, arr1, t3⟩ := r3
            simp only [pure, Except.pure] at h
            cases h
            have ht : t = Draw.nats perm :: t1 := takeNats_cons hr
            have hs1 : Suffix t1 t := ⟨[Draw.nats perm], by rw [ht]; rfl⟩
            have hpl := permute_len _ _ _ hsh
            have hperm : perm.Perm (List.range (b0 ++ List.replicate (rems.headD 0) none).length) := by
              rw [← hpl]; exact hp perm (by rw [ht]; simp)
            have hshlen : EntLen cfg n shuffled := by
              intro w id hm
              have := permute_sub _ _ _ hsh _ hm
              simp only [List.mem_append, List.mem_replicate] at this
              rcases this with hm0 | ⟨_, hm0⟩
              · exact hlen b0 (by simp) w id hm0
              · cases hm0
            obtain ⟨e0, e1, e2⟩ := encBucket_spec cfg lv hde hE n hclen k3 shuffled t1 t2 cs0 hr2 hshlen
            obtain ⟨i0, i1, i2, i3, i4⟩ := ih rems.tail t2 bs1 arr1 hr3 (hp.suffix (e0.trans hs1))
              (fun b hb => hlen b (by simp [hb]))
            refine ⟨(i0.trans e0).trans hs1, by simp [i1], ?_, ?_, ?_⟩
            · intro b hb
              simp only [List.mem_cons] at hb
              rcases hb with rfl | hb
              · exact hshlen
              · exact i2 b hb
            · intro x b hx
              cases x with
              | zero =>
                simp only [List.getElem?_cons_zero, Option.some.injEq] at hx
                subst hx
                exact ⟨shuffled, by simp, fun e he => permute_mem _ _ _ hsh hperm e (by simp [he])⟩
              | succ x' =>
                simp only [List.getElem?_cons_succ] at hx ⊢
                exact i3 x' b hx
            · intro x b w id hx hm
              cases x with
              | zero =>
                simp only [List.getElem?_cons_zero, Option.some.injEq] at hx
                subst hx
                exact ⟨cs0, by simp, e1, e2 w id (permute_mem _ _ _ hsh hperm _ (by simp [hm]))⟩
              | succ x' =>
                simp only [List.getElem?_cons_succ] at hx ⊢
                exact i4 x' b w id hx hm

/-! ### the arrays `A_i` -/

omit hde hE hclen in
theorem lookup_cons_if (k : Int) (b : List Bytes) (es : List (Int × List Bytes)) (a : Int) :
    ((k, b) :: es).lookup a = if a = k then some b else es.lookup a := by
  rw [List.lookup_cons]
  by_cases h : a = k
  · simp [h]
  · have : (a == k) = false := by simpa using h
    simp [this, h]

omit hde hE hclen in
theorem lookup_map_upd_ne (A : List (Int × List Bytes)) (i j : Int) (arr : List Bytes) (h : j ≠ i) :
    (A.map fun p => if p.1 == i then (i, arr) else p).lookup j = A.lookup j := by
  induction A with
  | nil => rfl
  | cons p rest ih =>
    obtain ⟨k, b⟩ := p
    rw [List.map_cons]
    by_cases hk : k = i
    · subst hk
      simp only [beq_self_eq_true, if_true]
      rw [lookup_cons_if, lookup_cons_if, ih]
      simp [h]
    · have : (k == i) = false := by simpa using hk
      simp only [this, Bool.false_eq_true, if_false]
      rw [lookup_cons_if, lookup_cons_if, ih]

omit hde hE hclen in
theorem lookup_map_upd_eq (A : List (Int × List Bytes)) (i : Int) (arr : List Bytes) (h : (A.lookup i).isSome) :
    (A.map fun p => if p.1 == i then (i, arr) else p).lookup i = some arr := by
  induction A with
  | nil => simp at h
  | cons p rest ih =>
    obtain ⟨k, b⟩ := p
    rw [List.map_cons]
    by_cases hk : k = i
    · subst hk
      simp only [beq_self_eq_true, if_true]
      rw [lookup_cons_if]; simp
    · have hb : (k == i) = false := by simpa using hk
      simp only [hb, Bool.false_eq_true, if_false]
      rw [lookup_cons_if] at h ⊢
      have : ¬ i = k := fun e => hk e.symm
      simp only [this, if_false] at h ⊢
      exact ih h

/-- `A_dict[i] = arr` as the model writes it (assignment to an existing key keeps its place) -/
def updA (A : List (Int × List Bytes)) (i : Int) (arr : List Bytes) : List (Int × List Bytes) :=
  if (A.lookup i).isSome then A.map fun p => if p.1 == i then (i, arr) else p else A ++ [(i, arr)]

omit hde hE hclen in
theorem lookup_updA_eq (A : List (Int × List Bytes)) (i : Int) (arr : List Bytes) : (updA A i arr).lookup i = some arr := by
  unfold updA
  split
  · rename_i h; exact lookup_map_upd_eq A i arr h
  · rename_i h
    have : A.lookup i = none := by
      cases hh : A.lookup i with
      | none => rfl
      | some v => rw [hh] at h; simp at h
    rw [List.lookup_append, this, lookup_cons_if]; simp

omit hde hE hclen in
theorem lookup_updA_ne (A : List (Int × List Bytes)) (i j : Int) (arr : List Bytes) (h : j ≠ i) :
    (updA A i arr).lookup j = A.lookup j := by
  unfold updA
  split
  · exact lookup_map_upd_ne A i j arr h
  · rw [List.lookup_append, lookup_cons_if]; simp [h]

/-- the identifier of entry `(w, id)`, placed in bucket `x` of level `i`, can be found in `A_i[x]` -/
def Done (k3 : Bytes) (A : List (Int × List Bytes)) (i : Int) (x : Nat) (w id : Bytes) : Prop :=
  ∃ (arr : List Bytes) (cs : List Bytes), A.lookup i = some arr ∧ arr[x]? = some cs.flatten ∧
    (∀ c ∈ cs, c.length = cfg.cipherLen) ∧ HasCipher cfg lv k3 cs w id

theorem finishLevels_spec (k3 : Bytes) (lvls : List Int) (ls : List Level) (A : List (Int × List Bytes)) (t : Tape)
    (A' : List (Int × List Bytes)) (t' : Tape) (h : finishLevels cfg lv k3 lvls ls A t = .ok (A', t'))
    (hp : PermsGood t) (hlen : ∀ l ∈ ls, ∀ b ∈ l.buckets, EntLen cfg n b) :
    ∀ i x w id, Holds ls i x (some (w, id)) → (i ∈ lvls ∨ Done cfg lv k3 A i x w id) → Done cfg lv k3 A' i x w id := by
  induction lvls generalizing ls A t with
  | nil =>
    simp [finishLevels] at h
    obtain ⟨rfl, rfl⟩ := h
    intro i x w id _ hd
    rcases hd with hd | hd
    · cases hd
    · exact hd
  | cons i0 rest ih =>
    simp only [finishLevels, bind, Except.bind] at h
    split at h
    · cases h
    · rename_i lvl hlvl
      split at h
      · cases h
      · rename_i r hr
        obtain ⟨bs, arr, t1⟩ := r
        simp only at h
        have hget : getLevel ls i0 = some lvl := by
          unfold getLevelE at hlvl
          split at hlvl
          · rename_i l hl; cases hlvl; exact hl
          · cases hlvl
        have hlev := getLevel_lev ls i0 lvl hget
        obtain ⟨f0, f1, f2, f3, f4⟩ := finishBuckets_spec cfg lv hde hE n hclen k3 lvl.buckets lvl.remaining t bs arr t1 hr hp
          (hlen lvl (getLevel_mem ls i0 lvl hget))
        generalize hl2 : ({ lev := lvl.lev, remaining := lvl.remaining, buckets := bs } : Level) = lvl2 at h
        have hlev2 : lvl2.lev = i0 := by rw [← hl2]; exact hlev
        have hlen2 : ∀ l ∈ setLevel ls lvl2, ∀ b ∈ l.buckets, EntLen cfg n b := by
          intro l hl
          unfold setLevel at hl
          simp only [List.mem_map] at hl
          obtain ⟨a, ha, rfl⟩ := hl
          split
          · rw [← hl2]; exact f2
          · exact hlen a ha
        have hih := ih (setLevel ls lvl2) _ t1 h (hp.suffix f0) hlen2
        intro i x w id hh hd
        apply hih i x w id
        · obtain ⟨l, hl, hb⟩ := hh
          by_cases hi : i = i0
          · subst hi
            rw [hget] at hl; cases hl
            obtain ⟨b, hb1, hb2⟩ := hb
            obtain ⟨b', hb', hsub⟩ := f3 x b hb1
            exact ⟨lvl2, by rw [← hlev2]; exact getLevel_setLevel_eq ls lvl2 (by rw [hlev2]; exact hget),
              ⟨b', by rw [← hl2]; exact hb', hsub _ hb2⟩⟩
          · exact ⟨l, by rw [getLevel_setLevel_ne ls lvl2 i (by rw [hlev2]; exact hi)]; exact hl, hb⟩
        · by_cases hi : i = i0
          · subst hi
            right
            obtain ⟨l, hl, hb⟩ := hh
            rw [hget] at hl; cases hl
            obtain ⟨b, hb1, hb2⟩ := hb
            obtain ⟨cs, c1, c2, c3⟩ := f4 x b w id hb1 hb2
            exact ⟨arr, cs, lookup_updA_eq A i arr, c1, c2, c3⟩
          · rcases hd with hd | hd
            · simp only [List.mem_cons] at hd
              rcases hd with hd | hd
              · exact absurd hd hi
              · exact Or.inl hd
            · right
              obtain ⟨arr0, cs, c0, c1, c2, c3⟩ := hd
              exact ⟨arr0, cs, by rw [← c0]; exact lookup_updA_ne A i0 i arr hi, c1, c2, c3⟩

end enc

/-! ### search -/

/-- the search probes every chunk number of its range and keeps what the named bucket yields -/
theorem searchCounts_mem (edb : DP17EDB) (tag vtag etag : Bytes) (more start : Nat) (res : List Bytes)
    (h : searchCounts cfg lv edb tag vtag etag more start = .ok res) (c : Nat) (hc1 : start ≤ c) (hc2 : c < start + more)
    (key : Bytes) (here : List Bytes) (hkey : hashH cfg lv (tag ++ natToBytesMin c) = .ok key)
    (hone : searchOne cfg lv edb vtag etag c key = .ok here) : ∀ id ∈ here, id ∈ res := by
  induction more generalizing start res with
  | zero => omega
  | succ m ih =>
    simp only [searchCounts, bind, Except.bind] at h
    split at h
    · cases h
    · rename_i key0 hk0
      split at h
      · cases h
      · rename_i here0 hh0
        split at h
        · cases h
        · rename_i rest hrest
          simp only [pure, Except.pure] at h
          cases h
          intro id hid
          by_cases hs : c = start
          · subst hs
            rw [hkey] at hk0; cases hk0
            rw [hone] at hh0; cases hh0
            exact List.mem_append_left _ hid
          · exact List.mem_append_right _ (ih (start + 1) rest hrest (by omega) (by omega) id hid)

/-- one probe, when the table entry, the level array and the bucket are what `Setup` wrote -/
theorem searchOne_ok (edb : DP17EDB) (vtag etag : Bytes) (c : Nat) (key ev : Bytes) (i off : Nat) (arr : List Bytes)
    (cs : List Bytes) (hget : edb.HT.lookup key = some ev) (hdec : decodeVal cfg lv vtag c ev = .ok (i, off))
    (hA : edb.A.lookup (i : Int) = some arr) (hb : arr[off]? = some cs.flatten) (hcl : ∀ x ∈ cs, x.length = cfg.cipherLen)
    (hpos : 0 < cfg.cipherLen) : searchOne cfg lv edb vtag etag c key = .ok (scanBucket cfg lv etag cs) := by
  simp only [searchOne, Table.get, hget, hdec, lookupBucket, hA, hb, chunks_flatten_eq cfg.cipherLen hpos cs hcl,
    bind, Except.bind, pure, Except.pure]

/-! ### the level chosen for a list can hold it in at most `L` chunks -/

theorem findLoop_fits (levels : List Int) (n fuel : Nat) (lo hi r : Int) (h : findLoop cfg levels n fuel lo hi = .ok r)
    (hinv : hi = levels.length ∨ ∃ lev, levels[(hi + 1).toNat]? = some lev ∧ fits cfg lev n = true)
    (hlo : 0 ≤ lo) (hle : lo ≤ hi + 1) : fits cfg r n = true := by
  induction fuel generalizing lo hi with
  | zero => simp [findLoop] at h
  | succ f ih =>
    simp only [findLoop] at h
    split at h
    · rename_i hlh
      split at h
      · cases h
      · rename_i lev hlev
        split at h
        · rename_i hf
          refine ih lo ((lo + hi) / 2 - 1) h (Or.inr ⟨lev, ?_, hf⟩) hlo (by omega)
          have : (lo + hi) / 2 - 1 + 1 = (lo + hi) / 2 := by omega
          rw [this]; exact hlev
        · exact ih ((lo + hi) / 2 + 1) hi h hinv (by omega) (by omega)
    · rename_i hlh
      have hlo' : ¬ lo < 0 := by omega
      simp only [hlo', if_false] at h
      split at h
      · rename_i lev hlev
        cases h
        have e : lo = hi + 1 := by omega
        rcases hinv with hh | ⟨lev', hl', hf⟩
        · have : lo.toNat = levels.length + 1 := by omega
          rw [this, List.getElem?_eq_none (by omega)] at hlev
          cases hlev
        · rw [e, hl'] at hlev; cases hlev; exact hf
      · cases h

theorem findAdjacent_fits (levels : List Int) (n : Nat) (r : Int) (h : findAdjacent cfg levels n = .ok r) :
    fits cfg r n = true :=
  findLoop_fits cfg levels n _ 0 levels.length r h (Or.inl rfl) (by omega) (by omega)

theorem fits_chunks (i n : Nat) (h : fits cfg (i : Int) n = true) : ceilDiv n (2 ^ i) ≤ cfg.L.toNat := by
  unfold fits at h
  have hi : (i : Int) ≥ 0 := by omega
  simp only [hi, if_true, Int.toNat_natCast, decide_eq_true_eq] at h
  have hm : 0 < 2 ^ i := Nat.two_pow_pos i
  have hL : 0 ≤ cfg.L := by
    rcases Int.lt_or_le cfg.L 0 with hneg | hnn
    · have : cfg.L * ((2 ^ i : Nat) : Int) < 0 := Int.mul_neg_of_neg_of_pos hneg (by exact_mod_cast hm)
      omega
    · exact hnn
  have e : cfg.L = ((cfg.L.toNat : Nat) : Int) := by omega
  rw [e] at h
  have h' : n ≤ cfg.L.toNat * 2 ^ i := by exact_mod_cast h
  unfold ceilDiv
  rw [Nat.div_le_iff_le_mul_add_pred hm]
  rw [Nat.mul_comm]
  omega

/-! ### the levels `Setup` starts from -/

def FreshLevel (l : Level) : Prop := WFL l ∧ ∀ b ∈ l.buckets, b = []

theorem divide_fresh (i : Int) (size bs : Nat) :
    FreshLevel { lev := i, remaining := (divideToBuckets size bs).1, buckets := (divideToBuckets size bs).2 } := by
  unfold divideToBuckets FreshLevel WFL
  refine ⟨by simp, ?_⟩
  intro b hb
  simp only [List.mem_map] at hb
  obtain ⟨_, _, rfl⟩ := hb
  rfl

theorem initLevels_fresh (N : Nat) (levels : List Int) (acc ls : List Level) (h : initLevels N levels acc = .ok ls)
    (hacc : ∀ l ∈ acc, FreshLevel l) : ∀ l ∈ ls, FreshLevel l := by
  induction levels generalizing acc with
  | nil => simp [initLevels] at h; subst h; exact hacc
  | cons i rest ih =>
    simp only [initLevels] at h
    split at h
    · cases h
    · refine ih _ h ?_
      have hf := divide_fresh i (2 * N + 2 ^ (i + 1).toNat) (2 ^ (i + 1).toNat)
      intro l hl
      split at hl
      · unfold setLevel at hl
        simp only [List.mem_map] at hl
        obtain ⟨a, ha, rfl⟩ := hl
        split
        · exact hf
        · exact hacc a ha
      · simp only [List.mem_append, List.mem_singleton] at hl
        rcases hl with hl | rfl
        · exact hacc l hl
        · exact hf

/-! ### where the entries of the buckets come from -/

theorem addTo_sub (l : List (List Entry)) (x : Nat) (es : List Entry) (b' : List Entry) (h : b' ∈ addTo l x es) :
    ∀ e ∈ b', (∃ b ∈ l, e ∈ b) ∨ e ∈ es := by
  unfold addTo at h
  obtain ⟨j, hj⟩ := List.mem_iff_getElem?.mp h
  rw [List.getElem?_mapIdx] at hj
  cases hb : l[j]? with
  | none => rw [hb] at hj; cases hj
  | some b =>
    rw [hb] at hj
    simp only [Option.map_some, Option.some.injEq] at hj
    subst hj
    intro e he
    split at he
    · simp only [List.mem_append] at he
      rcases he with he | he
      · exact Or.inl ⟨b, List.mem_of_getElem? hb, he⟩
      · exact Or.inr he
    · exact Or.inl ⟨b, List.mem_of_getElem? hb, he⟩

theorem placeChunks_ent (P : Entry → Prop) (k1 k2 w : Bytes) (i : Nat) (cw : List (List Bytes)) (count : Nat) (lvl : Level)
    (HT : Table) (t : Tape) (lvl' : Level) (HT' : Table) (t' : Tape)
    (h : placeChunks cfg lv k1 k2 w i cw count lvl HT t = .ok (lvl', HT', t'))
    (hP : ∀ c ∈ cw, ∀ id ∈ c, P (some (w, id))) (h0 : ∀ b ∈ lvl.buckets, ∀ e ∈ b, P e) :
    ∀ b ∈ lvl'.buckets, ∀ e ∈ b, P e := by
  induction cw generalizing count lvl HT t with
  | nil => simp [placeChunks] at h; obtain ⟨rfl, _, _⟩ := h; exact h0
  | cons c rest ih =>
    simp only [placeChunks] at h
    split at h
    · simp [throw, throwThe, MonadExceptOf.throw, bind, Except.bind] at h
    · simp only [bind, Except.bind, pure, Except.pure] at h
      split at h
      · cases h
      · rename_i r hr
        obtain ⟨x, t1⟩ := r
        simp only at h
        split at h
        · simp [throw, throwThe, MonadExceptOf.throw] at h
        · split at h
          · cases h
          · refine ih _ _ _ _ h (fun c' hc' => hP c' (by simp [hc'])) ?_
            intro b hb e he
            rcases addTo_sub _ _ _ b hb e he with ⟨b0, hb0, he0⟩ | hnew
            · exact h0 b0 hb0 e he0
            · simp only [List.mem_map] at hnew
              obtain ⟨id, hid, rfl⟩ := hnew
              exact hP c (by simp) id hid

theorem encDb_ent (P : Entry → Prop) (k1 k2 : Bytes) (levels : List Int) (db : DB) (ls : List Level) (HT : Table) (t : Tape)
    (ls' : List Level) (HT' : Table) (t' : Tape) (h : encDb cfg lv k1 k2 levels db ls HT t = .ok (ls', HT', t'))
    (hP : ∀ p ∈ db, ∀ id ∈ p.2, P (some (p.1, id))) (h0 : ∀ l ∈ ls, ∀ b ∈ l.buckets, ∀ e ∈ b, P e) :
    ∀ l ∈ ls', ∀ b ∈ l.buckets, ∀ e ∈ b, P e := by
  induction db generalizing ls HT t with
  | nil => simp [encDb] at h; obtain ⟨rfl, _, _⟩ := h; exact h0
  | cons p rest ih =>
    obtain ⟨w0, ids0⟩ := p
    simp only [encDb, bind, Except.bind] at h
    split at h
    · cases h
    · split at h
      · simp [throw, throwThe, MonadExceptOf.throw] at h
      · try simp only [pure, Except.pure] at h
        split at h
        · cases h
        · rename_i lvl hlvl
          split at h
          · cases h
          · rename_i cw hcw
            split at h
            · cases h
            · rename_i r hr
              obtain ⟨lvl1, HT1, t1⟩ := r
              simp only at h
              have hget : lvl ∈ ls := by
                unfold getLevelE at hlvl
                split at hlvl
                · rename_i l hl; cases hlvl; exact getLevel_mem ls _ _ hl
                · cases hlvl
              have hfl := (chunks_spec ids0 _ cw hcw).1
              have h1 := placeChunks_ent cfg lv P k1 k2 w0 _ cw 0 lvl HT t lvl1 HT1 t1 hr
                (fun c hc id hid => hP (w0, ids0) (by simp) id (by rw [← hfl]; exact List.mem_flatten.mpr ⟨c, hc, hid⟩))
                (h0 lvl hget)
              refine ih _ _ _ h (fun p hp => hP p (by simp [hp])) ?_
              intro l hl
              unfold setLevel at hl
              simp only [List.mem_map] at hl
              obtain ⟨a, ha, rfl⟩ := hl
              split
              · exact h1
              · exact h0 a ha

/-! ### what the configuration builder guarantees -/

theorem cfgBuild_ok (raw : RawCfg) (h : DP17.cfgBuild raw = .ok cfg) :
    PlainSke cfg.rnd ∧ (cfg.lambda = 16 ∨ cfg.lambda = 24 ∨ cfg.lambda = 32) ∧
    cfg.cipherLen = 16 + 16 * ((cfg.idSize + cfg.lambda).toNat / 16 + 1) := by
  unfold DP17.cfgBuild at h
  simp only [bind, Except.bind] at h
  repeat' (split at h)
  all_goals (try (cases h; done))
  all_goals (try (simp only [pure, Except.pure] at h))
  all_goals (try (simp [throw, throwThe, MonadExceptOf.throw] at h; done))
  all_goals (
    cases h
    exact ⟨(new_plain _ _ ‹AESxCBC.new _ = Except.ok _›).1, new_keyLength _ _ ‹AESxCBC.new _ = Except.ok _›, rfl⟩)

theorem findLoop_mem (levels : List Int) (n fuel : Nat) (lo hi r : Int) (h : findLoop cfg levels n fuel lo hi = .ok r) :
    r ∈ levels := by
  induction fuel generalizing lo hi with
  | zero => simp [findLoop] at h
  | succ f ih =>
    simp only [findLoop] at h
    split at h
    · split at h
      · cases h
      · split at h
        · exact ih _ _ h
        · exact ih _ _ h
    · split at h
      · rename_i lev hlev
        cases h
        split at hlev
        · cases hlev
        · exact List.mem_of_getElem? hlev
      · cases h

/-- DP17: a search for a stored keyword that returns, returns every identifier of the keyword's list -/
theorem search_present (raw : RawCfg) (hcfg : DP17.cfgBuild raw = .ok cfg) (hl : LeafLaws lv)
    (k1 k2 k3 : Bytes) (db : DB) (t t' : Tape) (edb : DP17EDB)
    (hs : setup cfg lv [k1, k2, k3] db t = .ok (edb, t'))
    (hkeys : (db.map (·.1)).Nodup)
    (hidl : ∀ p ∈ db, ∀ id ∈ p.2, (id.length : Int) = cfg.idSize)
    (hinj : ∀ levels, levelsOf cfg db.total = .ok levels → KeyInj cfg lv k1 levels db) (hperm : PermsGood t)
    (hfresh : ∀ levels, levelsOf cfg db.total = .ok levels → ∀ b, Draw.bytes b ∈ t → ∀ w ids c, (w, ids) ∈ db → 1 ≤ c →
      c ≤ nChunks cfg levels ids → htKey cfg lv k1 w c ≠ .ok b)
    (w : Bytes) (ids : List Bytes) (hm : (w, ids) ∈ db) (tk : List Bytes) (htk : token cfg lv [k1, k2, k3] w = .ok tk)
    (res : List Bytes) (hres : search cfg lv edb tk = .ok res) : ∀ id ∈ ids, id ∈ res := by
  obtain ⟨hplain, hlam, hclen⟩ := cfgBuild_ok cfg raw hcfg
  have hde : ∀ key iv msg c, iv.length = 16 → cfg.rnd.encrypt lv.E key iv msg = .ok c → cfg.rnd.decrypt lv.D key c = .ok msg :=
    fun key iv msg c hiv he => ske_dec_enc lv hl cfg.rnd hplain key iv msg c hiv he
  have hE := hl.enc_len
  generalize hn : (cfg.idSize + cfg.lambda).toNat = n at hclen
  simp only [setup, bind, Except.bind] at hs
  split at hs
  · simp [throw, throwThe, MonadExceptOf.throw] at hs
  · simp only [pure, Except.pure] at hs
    split at hs
    · cases hs
    · rename_i levels hlevels
      split at hs
      · cases hs
      · rename_i ls0 hinit
        split at hs
        · cases hs
        · rename_i r1 henc
          obtain ⟨ls1, HT, t1⟩ := r1
          simp only at hs
          split at hs
          · cases hs
          · rename_i r2 hfill
            obtain ⟨HT', t2⟩ := r2
            simp only at hs
            split at hs
            · cases hs
            · rename_i r3 hfin
              obtain ⟨A, t3⟩ := r3
              simp only at hs
              cases hs
              -- the levels Setup starts from
              have hfr := initLevels_fresh db.total levels [] ls0 hinit (fun l hl => by cases hl)
              obtain ⟨_, _, _, e4⟩ := encDb_spec cfg lv k1 k2 levels db ls0 [] t ls1 HT t1 henc (fun l hl => (hfr l hl).1) hkeys (hinj levels hlevels)
              have hlen1 : ∀ l ∈ ls1, ∀ b ∈ l.buckets, EntLen cfg n b := by
                have := encDb_ent cfg lv (fun e => ∀ w id, e = some (w, id) → id.length + cfg.lambda.toNat = n)
                  k1 k2 levels db ls0 [] t ls1 HT t1 henc
                  (fun p hp id hid w' id' he => by
                    cases he
                    have := hidl p hp id hid
                    omega)
                  (fun l hl b hb e he => by rw [(hfr l hl).2 b hb] at he; cases he)
                exact fun l hl b hb w id hmem => this l hl b hb _ hmem w id rfl
              have hs1 := encDb_suffix cfg lv k1 k2 levels db ls0 [] t ls1 HT t1 henc
              have hs2 := (fillHT_suffix _ _ _ _ _ _ hfill).trans hs1
              obtain ⟨i, cw, hfa, hcw, hall⟩ := e4 w ids hm
              obtain ⟨hflat, hcwlen, hcwle, _⟩ := chunks_spec ids _ cw hcw
              have hnc : cw.length = nChunks cfg levels ids := by rw [hcwlen]; simp [nChunks, hfa]
              have hL : cw.length ≤ cfg.L.toNat := by
                rw [hcwlen]; exact fits_chunks cfg i ids.length (findAdjacent_fits cfg levels ids.length i hfa)
              have himem : (i : Int) ∈ levels := findLoop_mem cfg levels _ _ _ _ _ hfa
              -- the token
              simp only [token, bind, Except.bind] at htk
              split at htk
              · cases htk
              · rename_i tag htag
                split at htk
                · cases htk
                · rename_i vtag hvtag
                  split at htk
                  · cases htk
                  · rename_i etag hetag
                    simp only [pure, Except.pure] at htk
                    cases htk
                    simp only [search] at hres
                    intro id hid
                    rw [← hflat] at hid
                    obtain ⟨c, hc, hidc⟩ := List.mem_flatten.mp hid
                    obtain ⟨k, hk, hkc⟩ := List.mem_iff_getElem.mp hc
                    have hck : cw[k]! = c := by rw [getElem!_pos cw k hk]; exact hkc
                    obtain ⟨x, key, v, a1, a2, a3, a4⟩ := hall k hk (by rw [hck]; intro e; rw [e] at hidc; cases hidc)
                    have hHolds := a4 id (by rw [hck]; exact hidc)
                    -- the filler entries do not overwrite it
                    have hHT' : HT'.lookup key = some v := by
                      rw [fillHT_lookup _ _ _ _ _ _ hfill key (fun b hb e => by
                        obtain ⟨pre, rfl⟩ := hs1
                        exact hfresh levels hlevels b (List.mem_append_right _ hb) w ids (k + 1) hm (by omega) (by omega) (by rw [e]; exact a1))]
                      exact a3
                    -- the level arrays
                    obtain ⟨arr, cs, d1, d2, d3, etag', c0, d4, d5, d6⟩ :=
                      finishLevels_spec cfg lv hde hE n hclen k3 levels ls1 [] t2 A _ hfin (hperm.suffix hs2) hlen1
                        (i : Int) x w id hHolds (Or.inl himem)
                    rw [hetag] at d4; cases d4
                    -- the probe of chunk number k + 1
                    simp only [htKey, htag, bind, Except.bind] at a1
                    have hdec := decode_htVal cfg lv k2 w vtag (k + 1) i x v a2 hvtag
                    have hone := searchOne_ok cfg lv { HT := HT', A := A } vtag etag (k + 1) key v i x arr cs hHT' hdec d1 d2 d3
                      (by rw [hclen]; omega)
                    exact searchCounts_mem cfg lv _ tag vtag etag _ 1 res hres (k + 1) (by omega) (by omega) key _ a1 hone id
                      (scan_mem cfg lv etag cs c0 id d5 d6)

/-- probes that all miss the hash table give the empty result -/
theorem searchCounts_absent (edb : DP17EDB) (tag vtag etag : Bytes) (more start : Nat)
    (h : ∀ c, start ≤ c → c < start + more → ∃ key, hashH cfg lv (tag ++ natToBytesMin c) = .ok key ∧ edb.HT.get key = none) :
    searchCounts cfg lv edb tag vtag etag more start = .ok [] := by
  induction more generalizing start with
  | zero => rfl
  | succ m ih =>
    obtain ⟨key, hk, hn⟩ := h start (by omega) (by omega)
    simp [searchCounts, hk, searchOne, hn, ih (start + 1) (fun c h1 h2 => h c (by omega) (by omega)), bind, Except.bind,
      pure, Except.pure]

end SSEPy.Sch.DP17
