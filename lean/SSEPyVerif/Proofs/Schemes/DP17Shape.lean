/-
  DP17: the SHAPE of the arrays A_i is a function of N and the configuration: level i has ⌈(2N + 2^(i+1)) / 2^(i+1)⌉ buckets
  and bucket x holds exactly as many ciphertexts as it has cells — whatever was stored in it, the rest is padding —
  each of `param_identifier_cipher_len` bytes.
-/
import SSEPyVerif.Proofs.Schemes.DP17
namespace SSEPy.Sch.DP17
open SSEPy.Sch

variable (cfg : DP17Cfg) (lv : Leaves)

/-- the cell counts of the buckets of level `i` -/
def sizesOf (N : Nat) (i : Int) : List Nat := (divideToBuckets (2 * N + 2 ^ (i + 1).toNat) (2 ^ (i + 1).toNat)).1

/-- in every bucket: stored entries + free cells = cells -/
def BInv (sizes : List Nat) (lvl : Level) : Prop :=
  lvl.remaining.length = sizes.length ∧ lvl.buckets.length = sizes.length ∧
  ∀ (x : Nat) (b : List Entry) (r s : Nat), lvl.buckets[x]? = some b → lvl.remaining[x]? = some r → sizes[x]? = some s →
    b.length + r = s

theorem fresh_binv (i : Int) (size bs : Nat) :
    BInv (divideToBuckets size bs).1
      { lev := i, remaining := (divideToBuckets size bs).1, buckets := (divideToBuckets size bs).2 } := by
  unfold divideToBuckets BInv
  refine ⟨rfl, by simp, ?_⟩
  intro x b r s hb hr hs
  simp only at hb hr hs
  rw [hr] at hs; cases hs
  have hbe : b = [] := by
    have := List.mem_of_getElem? hb
    simp only [List.mem_map] at this
    obtain ⟨_, _, rfl⟩ := this
    rfl
  subst hbe; simp

theorem initLevels_binv (N : Nat) (levels : List Int) (acc ls : List Level) (h : initLevels N levels acc = .ok ls)
    (hacc : ∀ l ∈ acc, BInv (sizesOf N l.lev) l) : ∀ l ∈ ls, BInv (sizesOf N l.lev) l := by
  induction levels generalizing acc with
  | nil => simp [initLevels] at h; subst h; exact hacc
  | cons i rest ih =>
    simp only [initLevels] at h
    split at h
    · cases h
    · refine ih _ h ?_
      have hf := fresh_binv i (2 * N + 2 ^ (i + 1).toNat) (2 ^ (i + 1).toNat)
      intro l hl
      split at hl
      · unfold setLevel at hl
        simp only [List.mem_map] at hl
        obtain ⟨a, ha, rfl⟩ := hl
        split
        · exact hf
        · exact hacc a ha
      · simp only [List.mem_append, List.mem_singleton] at hl
        rcases hl with hl | rfl
        · exact hacc l hl
        · exact hf

/-- a bucket that may take a chunk has at least `2^i` free cells -/
theorem cands_room (rem : List Nat) (n x : Nat) (h : x ∈ (rem.zipIdx.filter fun p => p.1 ≥ n).map (·.2)) :
    ∃ r, rem[x]? = some r ∧ n ≤ r := by
  simp only [List.mem_map, List.mem_filter] at h
  obtain ⟨⟨r, j⟩, ⟨hm, hge⟩, rfl⟩ := h
  exact ⟨r, List.mk_mem_zipIdx_iff_getElem?.mp hm, by simpa using hge⟩

theorem placeChunks_binv (sizes : List Nat) (k1 k2 w : Bytes) (i : Nat) (cw : List (List Bytes)) (count : Nat) (lvl : Level)
    (HT : Table) (t : Tape) (lvl' : Level) (HT' : Table) (t' : Tape)
    (h : placeChunks cfg lv k1 k2 w i cw count lvl HT t = .ok (lvl', HT', t'))
    (hinv : BInv sizes lvl) (hc : ∀ c ∈ cw, c.length ≤ 2 ^ i) : BInv sizes lvl' ∧ lvl'.lev = lvl.lev := by
  induction cw generalizing count lvl HT t with
  | nil => simp [placeChunks] at h; obtain ⟨rfl, _, _⟩ := h; exact ⟨hinv, rfl⟩
  | cons c rest ih =>
    simp only [placeChunks] at h
    split at h
    · simp [throw, throwThe, MonadExceptOf.throw, bind, Except.bind] at h
    · simp only [bind, Except.bind, pure, Except.pure] at h
      split at h
      · cases h
      · rename_i r hr
        obtain ⟨x, t1⟩ := r
        simp only at h
        split at h
        · simp [throw, throwThe, MonadExceptOf.throw] at h
        · rename_i hcontains
          have hxc : x ∈ (lvl.remaining.zipIdx.filter fun p => p.1 ≥ 2 ^ i).map (·.2) := by simpa using hcontains
          obtain ⟨rx, hrx, hroom⟩ := cands_room _ _ _ hxc
          split at h
          · cases h
          · have hstep := ih _ _ _ _ h ?_ (fun c' hc' => hc c' (by simp [hc']))
            · exact ⟨hstep.1, hstep.2⟩
            obtain ⟨i1, i2, i3⟩ := hinv
            refine ⟨by simp [i1], by simp [addTo, i2], ?_⟩
            intro y b r s hb hr' hs
            simp only [addTo, List.getElem?_mapIdx] at hb hr'
            cases hb0 : lvl.buckets[y]? with
            | none => rw [hb0] at hb; cases hb
            | some b0 =>
              cases hr0 : lvl.remaining[y]? with
              | none => rw [hr0] at hr'; cases hr'
              | some r0 =>
                rw [hb0] at hb; rw [hr0] at hr'
                simp only [Option.map_some, Option.some.injEq] at hb hr'
                have base := i3 y b0 r0 s hb0 hr0 hs
                by_cases hy : y = x
                · subst hy
                  rw [hrx] at hr0; cases hr0
                  simp only [if_true] at hb hr'
                  subst hb; subst hr'
                  have hcl : c.length ≤ 2 ^ i := hc c (by simp)
                  simp only [List.length_append, List.length_map]
                  omega
                · simp only [hy, if_false] at hb hr'
                  subst hb; subst hr'
                  exact base

/-- every level keeps its bucket invariant through `_Enc` -/
theorem encDb_binv (N : Nat) (k1 k2 : Bytes) (levels : List Int) (db : DB) (ls : List Level) (HT : Table) (t : Tape)
    (ls' : List Level) (HT' : Table) (t' : Tape) (h : encDb cfg lv k1 k2 levels db ls HT t = .ok (ls', HT', t'))
    (hinv : ∀ l ∈ ls, BInv (sizesOf N l.lev) l) : ∀ l ∈ ls', BInv (sizesOf N l.lev) l := by
  induction db generalizing ls HT t with
  | nil => simp [encDb] at h; obtain ⟨rfl, _, _⟩ := h; exact hinv
  | cons p rest ih =>
    obtain ⟨w0, ids0⟩ := p
    simp only [encDb, bind, Except.bind] at h
    split at h
    · cases h
    · rename_i iI hi
      split at h
      · simp [throw, throwThe, MonadExceptOf.throw] at h
      · try simp only [pure, Except.pure] at h
        split at h
        · cases h
        · rename_i lvl hlvl
          split at h
          · cases h
          · rename_i cw hcw
            split at h
            · cases h
            · rename_i r hr
              obtain ⟨lvl1, HT1, t1⟩ := r
              simp only at h
              have hget : getLevel ls iI = some lvl := by
                unfold getLevelE at hlvl
                split at hlvl
                · rename_i l hl; cases hlvl; exact hl
                · cases hlvl
              have hmem := getLevel_mem ls iI lvl hget
              have hlev := getLevel_lev ls iI lvl hget
              have hcl : ∀ c ∈ cw, c.length ≤ 2 ^ iI.toNat := by
                intro c hc
                unfold chunks at hcw
                split at hcw
                · cases hcw
                · cases hcw
                  exact (chunksFuel_mem_length _ (Nat.two_pow_pos _) _ _ (Nat.le_refl _) c hc).2
              obtain ⟨h1, hl1⟩ := placeChunks_binv cfg lv (sizesOf N lvl.lev) k1 k2 w0 _ cw 0 lvl HT t lvl1 HT1 t1 hr (hinv lvl hmem) hcl
              exact ih _ _ _ h (fun l hl => by
                unfold setLevel at hl
                simp only [List.mem_map] at hl
                obtain ⟨a, ha, rfl⟩ := hl
                split
                · rw [hl1]; exact h1
                · exact hinv a ha)

/-! ### finishing: pad, shuffle, encrypt -/

theorem mapM_ok_length {α β : Type} (f : α → Except Err β) (l : List α) (l' : List β) (h : l.mapM f = .ok l') :
    l'.length = l.length := by
  induction l generalizing l' with
  | nil => simp [pure, Except.pure] at h; subst h; rfl
  | cons a rest ih =>
    simp only [List.mapM_cons, bind, Except.bind] at h
    split at h
    · cases h
    · split at h
      · cases h
      · rename_i ys hys
        simp only [pure, Except.pure] at h
        cases h
        simp [ih ys hys]

theorem permute_length {α : Type} (l : List α) (perm : List Nat) (l' : List α) (h : permute l perm = .ok l') :
    l'.length = l.length := by
  unfold permute at h
  split at h
  · cases h
  · rename_i hne
    rw [mapM_ok_length _ _ _ h]
    simpa using hne

theorem encBucket_len (k3 : Bytes) (es : List Entry) (t t' : Tape) (cs : List Bytes)
    (h : encBucket cfg lv k3 es t = .ok (cs, t')) : cs.length = es.length := by
  induction es generalizing t cs with
  | nil => simp [encBucket] at h; obtain ⟨rfl, _⟩ := h; rfl
  | cons e rest ih =>
    cases e with
    | none =>
      simp only [encBucket, bind, Except.bind] at h
      split at h
      · cases h
      · split at h
        · cases h
        · rename_i r2 hr2
          simp only [pure, Except.pure] at h
          cases h
          simp [ih _ _ hr2]
    | some p =>
      obtain ⟨w0, id0⟩ := p
      simp only [encBucket, bind, Except.bind] at h
      split at h
      · cases h
      · split at h
        · cases h
        · split at h
          · cases h
          · rename_i r2 hr2
            simp only [pure, Except.pure] at h
            cases h
            simp [ih _ _ hr2]

section enc
variable (hde : ∀ key iv msg c, iv.length = 16 → cfg.rnd.encrypt lv.E key iv msg = .ok c → cfg.rnd.decrypt lv.D key c = .ok msg)
variable (hE : ∀ key x : Bytes, x.length = 16 → (lv.E key x).length = 16)
variable (n : Nat) (hclen : cfg.cipherLen = 16 + 16 * (n / 16 + 1))
include hde hE hclen

/-- one level: the byte string of bucket `x` is `cells(x)` ciphertexts long, whatever the bucket held -/
theorem finishBuckets_shape (k3 : Bytes) (bks : List (List Entry)) (rems sizes : List Nat) (t : Tape)
    (bs : List (List Entry)) (arr : List Bytes) (t' : Tape) (h : finishBuckets cfg lv k3 bks rems t = .ok (bs, arr, t'))
    (hl1 : rems.length = bks.length) (hl2 : sizes.length = bks.length)
    (hinv : ∀ (x : Nat) (b : List Entry) (r s : Nat), bks[x]? = some b → rems[x]? = some r → sizes[x]? = some s → b.length + r = s)
    (hlen : ∀ b ∈ bks, EntLen cfg n b) :
    arr.map List.length = sizes.map (· * cfg.cipherLen) := by
  induction bks generalizing rems sizes t bs arr with
  | nil =>
    simp [finishBuckets] at h
    obtain ⟨_, rfl, _⟩ := h
    have : sizes = [] := List.eq_nil_of_length_eq_zero (by simpa using hl2)
    subst this; rfl
  | cons b0 rest ih =>
    cases rems with
    | nil => simp at hl1
    | cons r0 rems' =>
      cases sizes with
      | nil => simp at hl2
      | cons s0 sizes' =>
        simp only [finishBuckets, bind, Except.bind, List.headD_cons, List.tail_cons] at h
        split at h
        · cases h
        · rename_i r hr
          obtain ⟨perm, t1⟩ := r
          simp only at h
          split at h
          · cases h
          · rename_i shuffled hsh
            split at h
            · cases h
            · rename_i r2 hr2
              obtain ⟨cs0, t2⟩ := r2
              simp only at h
              split at h
              · cases h
              · rename_i r3 hr3
                obtain ⟨bs1, arr1, t3⟩ := r3
                simp only [pure, Except.pure] at h
                cases h
                have hshlen : EntLen cfg n shuffled := by
                  intro w id hm
                  have := permute_sub _ _ _ hsh _ hm
                  simp only [List.mem_append, List.mem_replicate] at this
                  rcases this with hm0 | ⟨_, hm0⟩
                  · exact hlen b0 (by simp) w id hm0
                  · cases hm0
                obtain ⟨_, e1, _⟩ := encBucket_spec cfg lv hde hE n hclen k3 shuffled t1 t2 cs0 hr2 hshlen
                have hcsl : cs0.length = s0 := by
                  rw [encBucket_len cfg lv k3 _ _ _ _ hr2, permute_length _ _ _ hsh, List.length_append, List.length_replicate]
                  exact hinv 0 b0 r0 s0 (by simp) (by simp) (by simp)
                have hflat : cs0.flatten.length = s0 * cfg.cipherLen := by
                  rw [flatten_length_of_all _ cs0 e1, hcsl]
                have hrest := ih rems' sizes' t2 bs1 arr1 hr3 (by simpa using hl1) (by simpa using hl2)
                  (fun x b r s hb hr' hs => hinv (x + 1) b r s (by simpa using hb) (by simpa using hr') (by simpa using hs))
                  (fun b hb => hlen b (by simp [hb]))
                simp only [List.map_cons, hflat, hrest]

/-- all levels (each finished once): `A_dict[j]` has one byte string per bucket, `cells · cipher_len` bytes long -/
theorem finishLevels_shape (N : Nat) (k3 : Bytes) (lvls : List Int) (ls : List Level) (A : List (Int × List Bytes)) (t : Tape)
    (A' : List (Int × List Bytes)) (t' : Tape) (h : finishLevels cfg lv k3 lvls ls A t = .ok (A', t')) (hnd : lvls.Nodup)
    (hinv : ∀ j ∈ lvls, ∀ l, getLevel ls j = some l → BInv (sizesOf N j) l ∧ ∀ b ∈ l.buckets, EntLen cfg n b) :
    (∀ j ∈ lvls, ∃ arr, A'.lookup j = some arr ∧ arr.map List.length = (sizesOf N j).map (· * cfg.cipherLen)) ∧
    ∀ j, j ∉ lvls → A'.lookup j = A.lookup j := by
  induction lvls generalizing ls A t with
  | nil =>
    simp [finishLevels] at h
    obtain ⟨rfl, _⟩ := h
    exact ⟨(fun j hj => by cases hj), fun j _ => rfl⟩
  | cons i rest ih =>
    simp only [finishLevels, bind, Except.bind] at h
    split at h
    · cases h
    · rename_i lvl hlvl
      split at h
      · cases h
      · rename_i r hr
        obtain ⟨bs, arr, t1⟩ := r
        simp only at h
        have hget : getLevel ls i = some lvl := by
          unfold getLevelE at hlvl
          split at hlvl
          · rename_i l hl; cases hlvl; exact hl
          · cases hlvl
        have hlev := getLevel_lev ls i lvl hget
        obtain ⟨⟨b1, b2, b3⟩, hel⟩ := hinv i (by simp) lvl hget
        have hshape := finishBuckets_shape cfg lv hde hE n hclen k3 lvl.buckets lvl.remaining (sizesOf N i) t bs arr t1 hr
          (by rw [b1, b2]) b2.symm b3 hel
        simp only [List.nodup_cons] at hnd
        generalize hl2 : ({ lev := lvl.lev, remaining := lvl.remaining, buckets := bs } : Level) = lvl2 at h
        have hlev2 : lvl2.lev = i := by rw [← hl2]; exact hlev
        obtain ⟨i1, i2⟩ := ih (setLevel ls lvl2) _ t1 h hnd.2 (fun j hj l hl => by
          have hji : j ≠ lvl2.lev := by rw [hlev2]; intro e; subst e; exact hnd.1 hj
          rw [getLevel_setLevel_ne ls lvl2 j hji] at hl
          exact hinv j (by simp [hj]) l hl)
        refine ⟨?_, ?_⟩
        · intro j hj
          simp only [List.mem_cons] at hj
          rcases hj with rfl | hj
          · exact ⟨arr, by rw [i2 j hnd.1]; exact lookup_updA_eq A j arr, hshape⟩
          · exact i1 j hj
        · intro j hj
          simp only [List.mem_cons, not_or] at hj
          rw [i2 j hj.2]
          exact lookup_updA_ne A i j arr hj.1

/-- DP17: the arrays of the index, level by level, have the shape `N` and the configuration dictate -/
theorem setup_arrays_shape (k1 k2 k3 : Bytes) (db : DB) (t t' : Tape) (edb : DP17EDB)
    (hs : setup cfg lv [k1, k2, k3] db t = .ok (edb, t'))
    (hidl : ∀ p ∈ db, ∀ id ∈ p.2, id.length + cfg.lambda.toNat = n)
    (levels : List Int) (hlv : levelsOf cfg db.total = .ok levels) (hnd : levels.Nodup) :
    ∀ j ∈ levels, ∃ arr, edb.A.lookup j = some arr ∧
      arr.map List.length = (sizesOf db.total j).map (· * cfg.cipherLen) := by
  simp only [setup, bind, Except.bind] at hs
  split at hs
  · simp [throw, throwThe, MonadExceptOf.throw] at hs
  · simp only [pure, Except.pure] at hs
    split at hs
    · cases hs
    · rename_i levels' hlevels
      rw [hlv] at hlevels; cases hlevels
      split at hs
      · cases hs
      · rename_i ls0 hinit
        split at hs
        · cases hs
        · rename_i r1 henc
          obtain ⟨ls1, HT, t1⟩ := r1
          simp only at hs
          split at hs
          · cases hs
          · rename_i r2 hfill
            obtain ⟨HT', t2⟩ := r2
            simp only at hs
            split at hs
            · cases hs
            · rename_i r3 hfin
              obtain ⟨A, t3⟩ := r3
              simp only at hs
              cases hs
              have hb0 := initLevels_binv db.total levels [] ls0 hinit (fun l hl => by cases hl)
              have hb1 := encDb_binv cfg lv db.total k1 k2 levels db ls0 [] t ls1 HT t1 henc hb0
              have hfr := initLevels_fresh db.total levels [] ls0 hinit (fun l hl => by cases hl)
              have hlen1 : ∀ l ∈ ls1, ∀ b ∈ l.buckets, EntLen cfg n b := by
                have := encDb_ent cfg lv (fun e => ∀ w id, e = some (w, id) → id.length + cfg.lambda.toNat = n)
                  k1 k2 levels db ls0 [] t ls1 HT t1 henc
                  (fun p hp id hid w' id' he => by cases he; exact hidl p hp id hid)
                  (fun l hl b hb e he => by rw [(hfr l hl).2 b hb] at he; cases he)
                exact fun l hl b hb w id hmem => this l hl b hb _ hmem w id rfl
              exact (finishLevels_shape cfg lv hde hE n hclen db.total k3 levels ls1 [] t2 A _ hfin hnd
                (fun j _ l hl => by
                  have hm := getLevel_mem ls1 j l hl
                  have hj := getLevel_lev ls1 j l hl
                  exact ⟨by rw [← hj]; exact hb1 l hm, hlen1 l hm⟩)).1

end enc

end SSEPy.Sch.DP17
