/-
  SSE-2: what `setup` stores and what `search` reads back.
-/
import SSEPyVerif.Model.Schemes.SSE2
import SSEPyVerif.Proofs.Schemes.PrpInj
import SSEPyVerif.Proofs.Schemes.SSE1
namespace SSEPy.Sch

theorem lookup_iinsert (t : ITable) (k : Nat) (v : Bytes) (k' : Nat) :
    (iinsert t k v).lookup k' = if k' = k then some v else t.lookup k' := by
  induction t with
  | nil => simp [iinsert, List.lookup_cons]; split <;> simp_all
  | cons p rest ih =>
    obtain ⟨a, b⟩ := p
    simp only [iinsert]
    by_cases h : a = k
    · subst h; simp only [if_true, List.lookup_cons]
      by_cases h2 : k' = a
      · subst h2; simp
      · have : (k' == a) = false := by simpa using h2
        simp [this, h2]
    · simp only [h, if_false, List.lookup_cons]
      by_cases h2 : k' = a
      · subst h2
        have : k' ≠ k := h
        simp [this]
      · have : (k' == a) = false := by simpa using h2
        simp [this, ih]

namespace SSE2
variable (cfg : SSE2Cfg) (lv : Leaves)

/-- the address of posting `j` of keyword `w`, when it is defined -/
def addrOf (K1 w : Bytes) (j : Nat) : Option Nat :=
  match addr cfg lv K1 w j with
  | .ok a => some a
  | .error _ => none

/-- `encList` inserts `addr(w, j0 + i) ↦ ids[i]` for every i, in order -/
theorem encList_lookup (K1 w : Bytes) (j0 : Nat) (ids : List Bytes) (I : ITable) (cnt : List (Bytes × Nat))
    (I' : ITable) (cnt' : List (Bytes × Nat)) (h : encList cfg lv K1 w j0 ids I cnt = .ok (I', cnt'))
    (hinj : ∀ i i' a, i < ids.length → i' < ids.length → addrOf cfg lv K1 w (j0 + i) = some a →
      addrOf cfg lv K1 w (j0 + i') = some a → i = i') :
    (∀ i, i < ids.length → ∃ a, addr cfg lv K1 w ((j0 + i : Nat) : Int) = .ok a ∧ I'.lookup a = ids[i]?) ∧
    (∀ k, (∀ i, i < ids.length → addrOf cfg lv K1 w (j0 + i) ≠ some k) → I'.lookup k = I.lookup k) := by
  induction ids generalizing j0 I cnt with
  | nil =>
    simp [encList] at h
    obtain ⟨rfl, rfl⟩ := h
    exact ⟨fun i hi => absurd hi (by simp), fun k _ => rfl⟩
  | cons id rest ih =>
    simp only [encList, bind, Except.bind] at h
    split at h
    · cases h
    · rename_i a ha
      have hrec := ih (j0 + 1) (iinsert I a id) _ h (by
        intro i i' a' hi hi' he he'
        have := hinj (i + 1) (i' + 1) a' (by simp; omega) (by simp; omega)
          (by simpa [Nat.add_assoc, Nat.add_comm 1] using he) (by simpa [Nat.add_assoc, Nat.add_comm 1] using he')
        omega)
      obtain ⟨h1, h2⟩ := hrec
      refine ⟨?_, ?_⟩
      · intro i hi
        cases i with
        | zero =>
          refine ⟨a, by simpa using ha, ?_⟩
          -- later insertions do not touch address a
          rw [h2 a]
          · simp [lookup_iinsert]
          · intro i' hi' he
            have ha0 : addrOf cfg lv K1 w (j0 + 0) = some a := by simp [addrOf, ha]
            have := hinj 0 (i' + 1) a (by simp) (by simp; omega) ha0
              (by simpa [Nat.add_assoc, Nat.add_comm 1] using he)
            omega
        | succ i' =>
          obtain ⟨a', ha', hl⟩ := h1 i' (by simp at hi; omega)
          exact ⟨a', by simpa [Nat.add_assoc, Nat.add_comm 1] using ha', by simpa using hl⟩
      · intro k hk
        rw [h2 k (fun i hi => by
          have := hk (i + 1) (by simp; omega)
          simpa [Nat.add_assoc, Nat.add_comm 1] using this)]
        rw [lookup_iinsert]
        have : k ≠ a := by
          intro e
          have := hk 0 (by simp)
          simp [addrOf, ha, e] at this
        simp [this]

/-- `k` is the address of some stored posting -/
def IsStored (K1 : Bytes) (db : DB) (k : Nat) : Prop :=
  ∃ w ids i, (w, ids) ∈ db ∧ i < ids.length ∧ addrOf cfg lv K1 w (1 + i) = some k

/-- the addresses of the stored postings are pairwise distinct (PRP injectivity on the distinct inputs `w ‖ j`) -/
def AddrInj (K1 : Bytes) (db : DB) : Prop :=
  ∀ w ids i w' ids' i' a, (w, ids) ∈ db → (w', ids') ∈ db → i < ids.length → i' < ids'.length →
    addrOf cfg lv K1 w (1 + i) = some a → addrOf cfg lv K1 w' (1 + i') = some a → w = w' ∧ i = i'

theorem encDb_lookup (K1 : Bytes) (db : DB) (I : ITable) (cnt : List (Bytes × Nat)) (I' : ITable) (cnt' : List (Bytes × Nat))
    (h : encDb cfg lv K1 db I cnt = .ok (I', cnt')) (hk : (db.map (·.1)).Nodup) (hinj : AddrInj cfg lv K1 db) :
    (∀ w ids, (w, ids) ∈ db → ∀ i, i < ids.length →
        ∃ a, addr cfg lv K1 w ((1 + i : Nat) : Int) = .ok a ∧ I'.lookup a = ids[i]?) ∧
    (∀ k, ¬ IsStored cfg lv K1 db k → I'.lookup k = I.lookup k) := by
  induction db generalizing I cnt with
  | nil =>
    simp [encDb] at h
    obtain ⟨rfl, rfl⟩ := h
    exact ⟨fun w ids hm => absurd hm (by simp), fun k _ => rfl⟩
  | cons p rest ih =>
    obtain ⟨w0, ids0⟩ := p
    simp only [encDb, bind, Except.bind] at h
    split at h
    · cases h
    · rename_i r hr
      obtain ⟨I1, cnt1⟩ := r
      simp only at h
      simp only [List.map_cons, List.nodup_cons] at hk
      have hinj_rest : AddrInj cfg lv K1 rest := by
        intro w ids i w' ids' i' a hm hm' hi hi' he he'
        exact hinj w ids i w' ids' i' a (by simp [hm]) (by simp [hm']) hi hi' he he'
      obtain ⟨r1, r2⟩ := ih I1 cnt1 h hk.2 hinj_rest
      obtain ⟨l1, l2⟩ := encList_lookup cfg lv K1 w0 1 ids0 I cnt I1 cnt1 hr (by
        intro i i' a hi hi' he he'
        exact (hinj w0 ids0 i w0 ids0 i' a (by simp) (by simp) hi hi' he he').2)
      refine ⟨?_, ?_⟩
      · intro w ids hm i hi
        simp only [List.mem_cons, Prod.mk.injEq] at hm
        rcases hm with ⟨rfl, rfl⟩ | hm
        · obtain ⟨a, ha, hl⟩ := l1 i hi
          refine ⟨a, ha, ?_⟩
          rw [r2 a, hl]
          -- a is not an address of the rest of the database
          rintro ⟨w', ids', i', hm', hi', he'⟩
          have hs : addrOf cfg lv K1 w (1 + i) = some a := by unfold addrOf; rw [ha]
          have := (hinj w ids i w' ids' i' a (by simp) (by simp [hm']) hi hi' hs he').1
          subst this
          exact hk.1 (List.mem_map.mpr ⟨(w, ids'), hm', rfl⟩)
        · exact r1 w ids hm i hi
      · intro k hk'
        rw [r2 k (fun ⟨w, ids, i, hm, hi, he⟩ => hk' ⟨w, ids, i, by simp [hm], hi, he⟩)]
        exact l2 k (fun i hi he => hk' ⟨w0, ids0, i, by simp, hi, he⟩)

/-- reading a token against the index: hits return the stored identifiers in order, the first miss ends the search -/
theorem search_prefix (I : ITable) (ids : List Bytes) (tk : List Nat)
    (hhit : ∀ i, i < ids.length → ∃ a, tk[i]? = some a ∧ I.lookup a = ids[i]?)
    (hend : tk.length = ids.length ∨ ∃ a, tk[ids.length]? = some a ∧ I.lookup a = none) :
    search I tk = ids := by
  induction ids generalizing tk with
  | nil =>
    cases tk with
    | nil => rfl
    | cons a rest =>
      rcases hend with h | ⟨a', ha', hm⟩
      · simp at h
      · simp at ha'; subst ha'; simp [search, hm]
  | cons id rest ih =>
    obtain ⟨a, ha, hl⟩ := hhit 0 (by simp)
    cases tk with
    | nil => simp at ha
    | cons a0 tk' =>
      simp at ha; subst ha
      simp at hl
      simp only [search, hl]
      congr 1
      apply ih
      · intro i hi
        obtain ⟨a', ha', hl'⟩ := hhit (i + 1) (by simp; omega)
        exact ⟨a', by simpa using ha', by simpa using hl'⟩
      · rcases hend with h | ⟨a', ha', hm⟩
        · left; simpa using h
        · right; exact ⟨a', by simpa using ha', hm⟩

theorem tokenLoop_get (K1 w : Bytes) (n j0 : Nat) (tk : List Nat) (h : tokenLoop cfg lv K1 w n j0 = .ok tk) :
    tk.length = n ∧ ∀ i, i < n → ∃ a, addr cfg lv K1 w ((j0 + i : Nat) : Int) = .ok a ∧ tk[i]? = some a := by
  induction n generalizing j0 tk with
  | zero => simp [tokenLoop] at h; subst h; exact ⟨rfl, fun i hi => absurd hi (by omega)⟩
  | succ m ih =>
    simp only [tokenLoop, bind, Except.bind] at h
    split at h
    · cases h
    · rename_i a ha
      split at h
      · cases h
      · rename_i rest hrest
        simp only [pure, Except.pure] at h
        cases h
        obtain ⟨hl, hg⟩ := ih (j0 + 1) rest hrest
        refine ⟨by simp [hl], ?_⟩
        intro i hi
        cases i with
        | zero => exact ⟨a, by simpa using ha, by simp⟩
        | succ i' =>
          obtain ⟨a', ha', hg'⟩ := hg i' (by omega)
          exact ⟨a', by simpa [Nat.add_assoc, Nat.add_comm 1] using ha', by simpa using hg'⟩

theorem fillOne_zero (K1 id : Bytes) (n : Int) (l : Nat) (I : ITable) : fillOne cfg lv K1 id n 0 l I = .ok I := rfl

theorem fillAll_noop (K1 : Bytes) (cnt : List (Bytes × Nat)) (n : Int) (I : ITable) (h : ∀ p ∈ cnt, p.2 ≤ cfg.max) :
    fillAll cfg lv K1 cnt n I = .ok I := by
  induction cnt generalizing n I with
  | nil => rfl
  | cons p rest ih =>
    obtain ⟨id, c⟩ := p
    have hc : c - cfg.max = 0 := by have := h (id, c) (by simp); simp at this; omega
    simp only [fillAll, hc, fillOne_zero, bind, Except.bind]
    exact ih _ _ (fun q hq => h q (by simp [hq]))

/-- what an address is: the PRP image (invertible, C15) of the `(l·8 + bits)`-bit message `keyword ‖ counter` -/
theorem addr_spec (hl : ∀ k m, (lv.hmac k m).length = 20) (hl8 : 0 < (cfg.l * 8).toNat) (hbits : 0 < cfg.bitsNM) (K1 : Bytes) :
    ∃ kb : Bytes, ∀ (w : Bytes) (j a : Nat), addr cfg lv K1 w (j : Int) = .ok a →
      ∃ out : Bitset, out.value = a ∧ out.length = (cfg.l * 8).toNat + cfg.bitsNM ∧ j < 2 ^ cfg.bitsNM ∧
        ffxDecrypt (ffxRound lv.hmac 20 kb) DEFAULT_ROUNDS out =
          .ok ⟨fromBE w * 2 ^ cfg.bitsNM + j, (cfg.l * 8).toNat + cfg.bitsNM⟩ ∧ out.WF := by
  cases hkey : Bitset.ofBytes K1 (cfg.k * 8).toNat with
  | error e =>
    refine ⟨[], ?_⟩
    intro w j a h
    simp [addr, hkey, bind, Except.bind] at h
  | ok key =>
    obtain ⟨hkw, _, _⟩ := SSE1.mk'_spec _ _ key hkey
    obtain ⟨kb, hkb, _, _⟩ := C18.bytes_spec key hkw
    refine ⟨kb, ?_⟩
    intro w j a h
    simp only [addr, hkey, bind, Except.bind] at h
    split at h
    · cases h
    · rename_i wb hwb
      split at h
      · cases h
      · rename_i jb hjb
        split at h
        · cases h
        · rename_i cb hcb
          split at h
          · cases h
          · rename_i msg hmsg
            split at h
            · cases h
            · rename_i out hout
              simp only [pure, Except.pure] at h
              cases h
              obtain ⟨w1, w2, w3⟩ := SSE1.mk'_spec _ _ wb hwb
              obtain ⟨c1, c2, c3⟩ := SSE1.mk'_spec _ _ cb hcb
              have hwl := w3 (by omega)
              have hcl := c3 (by omega)
              -- the counter bytes decode to j
              have hj : fromBE jb = j := by
                have e : (cfg.bytesNM : Int) = ((cfg.bytesNM : Nat) : Int) := rfl
                rw [(C17.int_wrapper_agrees j cfg.bytesNM).1] at hjb
                exact (C17.int_roundtrip j cfg.bytesNM jb hjb).1
              rw [hj] at c2
              have hjlt : j < 2 ^ cfg.bitsNM := by
                have := c1; unfold Bitset.WF at this; rw [c2, hcl] at this; exact this
              unfold Bitset.concat at hmsg
              obtain ⟨m1, m2, m3⟩ := SSE1.mk'_spec _ _ msg hmsg
              have hml : msg.length = (cfg.l * 8).toNat + cfg.bitsNM := by rw [m3 (by omega), hwl, hcl]
              have hmv : msg.value = fromBE w * 2 ^ cfg.bitsNM + j := by rw [m2, w2, hcl, c2]
              obtain ⟨kb', o, hkb', ho, how, hol, hd⟩ := C15.bit_prp_is_ffx lv.hmac 20 hl (by decide) key msg hkw m1 (by omega)
              rw [hkb] at hkb'; cases hkb'
              have hk8 : (key.length : Int) = cfg.k * 8 := by
                by_cases hne : (key.length : Int) = cfg.k * 8
                · exact hne
                · rw [(C15.bit_prp_contracts lv.hmac 20 _ _ key msg).1 hne] at hout; cases hout
              have hm8 : (msg.length : Int) = cfg.l * 8 + cfg.bitsNM := by
                by_cases hne : (msg.length : Int) = cfg.l * 8 + cfg.bitsNM
                · exact hne
                · rw [(C15.bit_prp_contracts lv.hmac 20 _ _ key msg).2 hk8 hne] at hout; cases hout
              rw [← hk8, ← hm8, ho] at hout
              cases hout
              have hm_eq : msg = ⟨fromBE w * 2 ^ cfg.bitsNM + j, (cfg.l * 8).toNat + cfg.bitsNM⟩ := by
                cases msg; simp only at hmv hml; subst hmv; subst hml; rfl
              exact ⟨out, rfl, by rw [hol, hml], hjlt, by rw [← hm_eq]; exact hd, how⟩

/-- distinct (keyword, counter) pairs have distinct addresses — keywords without a leading NUL byte -/
theorem addr_inj (hl : ∀ k m, (lv.hmac k m).length = 20) (hl8 : 0 < (cfg.l * 8).toNat) (hbits : 0 < cfg.bitsNM) (K1 : Bytes)
    (w w' : Bytes) (j j' a : Nat) (hw : NoLeadingNul w) (hw' : NoLeadingNul w')
    (h : addr cfg lv K1 w (j : Int) = .ok a) (h' : addr cfg lv K1 w' (j' : Int) = .ok a) : w = w' ∧ j = j' := by
  obtain ⟨kb, hkb⟩ := addr_spec cfg lv hl hl8 hbits K1
  obtain ⟨o, ov, ol, jl, od, _⟩ := hkb w j a h
  obtain ⟨o', ov', ol', jl', od', _⟩ := hkb w' j' a h'
  have : o = o' := by
    cases o; cases o'
    simp only at ov ov' ol ol'
    subst ov; subst ol
    rw [ov', ol']
  rw [this, od'] at od
  simp only [Except.ok.injEq, Bitset.mk.injEq, and_true] at od
  have hpos : 0 < 2 ^ cfg.bitsNM := Nat.pow_pos (by decide)
  have hq : fromBE w' = fromBE w := by
    have h1 : (fromBE w' * 2 ^ cfg.bitsNM + j') / 2 ^ cfg.bitsNM = fromBE w' := by
      rw [Nat.mul_comm, Nat.mul_add_div hpos, Nat.div_eq_of_lt jl']; rfl
    have h2 : (fromBE w * 2 ^ cfg.bitsNM + j) / 2 ^ cfg.bitsNM = fromBE w := by
      rw [Nat.mul_comm, Nat.mul_add_div hpos, Nat.div_eq_of_lt jl]; rfl
    rw [← h1, ← h2, od]
  refine ⟨(fromBE_inj w' w hw' hw hq).symm, ?_⟩
  rw [hq] at od
  omega

end SSE2
end SSEPy.Sch
