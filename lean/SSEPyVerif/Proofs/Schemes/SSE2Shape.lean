/-
  SSE-2: the shape of the index — one entry per posting, every address inside the PRP's `(8·l + bits)`-bit range.
-/
import SSEPyVerif.Proofs.Schemes.SSE2Complete
namespace SSEPy.Sch

theorem iinsert_keys_fresh (t : ITable) (k : Nat) (v : Bytes) (h : k ∉ t.map (·.1)) :
    (iinsert t k v).map (·.1) = t.map (·.1) ++ [k] := by
  induction t with
  | nil => rfl
  | cons p rest ih =>
    obtain ⟨a, b⟩ := p
    simp only [List.map_cons, List.mem_cons, not_or] at h
    have : ¬ a = k := fun e => h.1 e.symm
    simp [iinsert, this, ih h.2]

namespace SSE2
variable (cfg : SSE2Cfg) (lv : Leaves)

/-- the postings of one keyword add their addresses, in order, when these are new and pairwise distinct -/
theorem encList_keys (K1 w : Bytes) (j0 : Nat) (ids : List Bytes) (I : ITable) (cnt : List (Bytes × Nat))
    (I' : ITable) (cnt' : List (Bytes × Nat)) (h : encList cfg lv K1 w j0 ids I cnt = .ok (I', cnt'))
    (hinj : ∀ i i' a, i < ids.length → i' < ids.length → addrOf cfg lv K1 w (j0 + i) = some a →
      addrOf cfg lv K1 w (j0 + i') = some a → i = i')
    (hnew : ∀ i a, i < ids.length → addrOf cfg lv K1 w (j0 + i) = some a → a ∉ I.map (·.1)) :
    ∃ as : List Nat, I'.map (·.1) = I.map (·.1) ++ as ∧ as.length = ids.length ∧
      ∀ a ∈ as, ∃ i, i < ids.length ∧ addrOf cfg lv K1 w (j0 + i) = some a := by
  induction ids generalizing j0 I cnt with
  | nil =>
    simp [encList] at h
    obtain ⟨rfl, rfl⟩ := h
    exact ⟨[], by simp, rfl, fun a ha => by cases ha⟩
  | cons id rest ih =>
    simp only [encList, bind, Except.bind] at h
    split at h
    · cases h
    · rename_i a ha
      have ha0 : addrOf cfg lv K1 w (j0 + 0) = some a := by simp [addrOf, ha]
      have hfresh := hnew 0 a (by simp) ha0
      have hk := iinsert_keys_fresh I a id hfresh
      obtain ⟨as, h1, h2, h3⟩ := ih (j0 + 1) (iinsert I a id) _ h
        (by
          intro i i' a' hi hi' he he'
          have := hinj (i + 1) (i' + 1) a' (by simp; omega) (by simp; omega)
            (by simpa [Nat.add_assoc, Nat.add_comm 1] using he) (by simpa [Nat.add_assoc, Nat.add_comm 1] using he')
          omega)
        (by
          intro i a' hi he
          rw [hk]
          simp only [List.mem_append, List.mem_singleton, not_or]
          refine ⟨hnew (i + 1) a' (by simp; omega) (by simpa [Nat.add_assoc, Nat.add_comm 1] using he), ?_⟩
          intro e
          subst e
          have := hinj 0 (i + 1) a' (by simp) (by simp; omega) ha0 (by simpa [Nat.add_assoc, Nat.add_comm 1] using he)
          omega)
      refine ⟨a :: as, by rw [h1, hk]; simp, by simp [h2], ?_⟩
      intro x hx
      simp only [List.mem_cons] at hx
      rcases hx with rfl | hx
      · exact ⟨0, by simp, ha0⟩
      · obtain ⟨i, hi, he⟩ := h3 x hx
        exact ⟨i + 1, by simp; omega, by simpa [Nat.add_assoc, Nat.add_comm 1] using he⟩

/-- the whole database: one new entry per posting -/
theorem encDb_keys (K1 : Bytes) (db : DB) (I : ITable) (cnt : List (Bytes × Nat)) (I' : ITable) (cnt' : List (Bytes × Nat))
    (h : encDb cfg lv K1 db I cnt = .ok (I', cnt')) (hk : (db.map (·.1)).Nodup) (hinj : AddrInj cfg lv K1 db)
    (hnew : ∀ a, IsStored cfg lv K1 db a → a ∉ I.map (·.1)) :
    ∃ as : List Nat, I'.map (·.1) = I.map (·.1) ++ as ∧ as.length = db.total ∧ ∀ a ∈ as, IsStored cfg lv K1 db a := by
  induction db generalizing I cnt with
  | nil =>
    simp [encDb] at h
    obtain ⟨rfl, rfl⟩ := h
    exact ⟨[], by simp, by simp [DB.total], fun a ha => by cases ha⟩
  | cons p rest ih =>
    obtain ⟨w0, ids0⟩ := p
    simp only [encDb, bind, Except.bind] at h
    split at h
    · cases h
    · rename_i r hr
      obtain ⟨I1, cnt1⟩ := r
      simp only at h
      simp only [List.map_cons, List.nodup_cons] at hk
      obtain ⟨as1, a1, a2, a3⟩ := encList_keys cfg lv K1 w0 1 ids0 I cnt I1 cnt1 hr
        (fun i i' a hi hi' he he' => (hinj w0 ids0 i w0 ids0 i' a (by simp) (by simp) hi hi' he he').2)
        (fun i a hi he => hnew a ⟨w0, ids0, i, by simp, hi, he⟩)
      have hinj_rest : AddrInj cfg lv K1 rest := by
        intro w ids i w' ids' i' a hm hm' hi hi' he he'
        exact hinj w ids i w' ids' i' a (by simp [hm]) (by simp [hm']) hi hi' he he'
      obtain ⟨as2, b1, b2, b3⟩ := ih I1 cnt1 h hk.2 hinj_rest (by
        intro a hst
        rw [a1]
        simp only [List.mem_append, not_or]
        obtain ⟨w', ids', i', hm', hi', he'⟩ := hst
        refine ⟨hnew a ⟨w', ids', i', by simp [hm'], hi', he'⟩, ?_⟩
        intro hmem
        obtain ⟨i, hi, he⟩ := a3 a hmem
        have := (hinj w0 ids0 i w' ids' i' a (by simp) (by simp [hm']) hi hi' he he').1
        subst this
        exact hk.1 (List.mem_map.mpr ⟨(w0, ids'), hm', rfl⟩))
      refine ⟨as1 ++ as2, by rw [b1, a1]; simp, by simp [DB.total, a2, b2], ?_⟩
      intro a ha
      simp only [List.mem_append] at ha
      rcases ha with ha | ha
      · obtain ⟨i, hi, he⟩ := a3 a ha
        exact ⟨w0, ids0, i, by simp, hi, he⟩
      · obtain ⟨w, ids, i, hm, hi, he⟩ := b3 a ha
        exact ⟨w, ids, i, by simp [hm], hi, he⟩

end SSE2
end SSEPy.Sch
