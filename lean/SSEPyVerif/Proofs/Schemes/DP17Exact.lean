/-
  DP17: the search for a stored keyword RETURNS (no KeyError from `A_dict[i]`, no IndexError from `A_dict[i][offset]`, no
  error from the mask or from cutting the bucket) and returns exactly the keyword's identifiers, under two hypotheses about
  this run that the driver evaluates on every recorded case:
    * `ProbesClean` — whatever a probe of this keyword's token yields belongs to the keyword (trial decryption of foreign
      or dummy cells under `F_k3(w)` does not end in `0^λ`: a fact about AES outputs, not derivable from the leaf laws);
    * the probes beyond the keyword's last chunk (`count` in `nChunks+1 … L`) miss the hash table.
-/
import SSEPyVerif.Proofs.Schemes.DP17
namespace SSEPy.Sch.DP17
open SSEPy.Sch

variable (cfg : DP17Cfg) (lv : Leaves)

theorem chunksFuel_nonempty {α : Type} (n : Nat) (hn : 0 < n) (fuel : Nat) (l : List α) :
    ∀ c ∈ chunksFuel fuel l n, c ≠ [] := by
  induction fuel generalizing l with
  | zero => intro c hc; simp [chunksFuel] at hc
  | succ f ih =>
    intro c hc
    simp only [chunksFuel] at hc
    split at hc
    · cases hc
    · rename_i hne
      rcases List.mem_cons.mp hc with rfl | h
      · intro e
        cases l with
        | nil => simp at hne
        | cons a as =>
          cases n with
          | zero => omega
          | succ m => simp at e
      · exact ih _ c h

theorem chunks_nonempty {α : Type} (l : List α) (n : Nat) (cw : List (List α)) (h : chunks l n = .ok cw) :
    ∀ c ∈ cw, c ≠ [] := by
  unfold chunks at h
  split at h
  · cases h
  · rename_i hn
    cases h
    have hn0 : 0 < n := by
      rcases Nat.eq_zero_or_pos n with e | e
      · simp [e] at hn
      · exact e
    exact chunksFuel_nonempty n hn0 _ l

/-- if every probe of the range returns, the search returns, and what it returns was returned by some probe -/
theorem searchCounts_total (edb : DP17EDB) (tag vtag etag : Bytes) (P : Bytes → Prop) (more start : Nat)
    (h : ∀ c, start ≤ c → c < start + more → ∃ key here, hashH cfg lv (tag ++ natToBytesMin c) = .ok key ∧
      searchOne cfg lv edb vtag etag c key = .ok here ∧ ∀ id ∈ here, P id) :
    ∃ res, searchCounts cfg lv edb tag vtag etag more start = .ok res ∧ ∀ id ∈ res, P id := by
  induction more generalizing start with
  | zero => exact ⟨[], rfl, fun id hid => by cases hid⟩
  | succ m ih =>
    obtain ⟨key, here, hk, hone, hP⟩ := h start (by omega) (by omega)
    obtain ⟨rest, hrest, hPr⟩ := ih (start + 1) (fun c h1 h2 => h c (by omega) (by omega))
    refine ⟨here ++ rest, ?_, ?_⟩
    · simp [searchCounts, hk, hone, hrest, bind, Except.bind, pure, Except.pure]
    · intro id hid
      rcases List.mem_append.mp hid with h1 | h1
      · exact hP id h1
      · exact hPr id h1

/-- whatever a probe of this token yields belongs to the keyword's list -/
def ProbesClean (edb : DP17EDB) (tag vtag etag : Bytes) (ids : List Bytes) : Prop :=
  ∀ c key here, 1 ≤ c → c ≤ cfg.L.toNat → hashH cfg lv (tag ++ natToBytesMin c) = .ok key →
    searchOne cfg lv edb vtag etag c key = .ok here → ∀ id ∈ here, id ∈ ids

/-- every probe of a chunk of a stored keyword returns: the hash-table entry is there, decodes to a level the index has and
    to a bucket inside that level's array, and the bucket is a whole number of cells -/
theorem probes_return (raw : RawCfg) (hcfg : DP17.cfgBuild raw = .ok cfg) (hl : LeafLaws lv)
    (k1 k2 k3 : Bytes) (db : DB) (t t' : Tape) (edb : DP17EDB)
    (hs : setup cfg lv [k1, k2, k3] db t = .ok (edb, t'))
    (hkeys : (db.map (·.1)).Nodup)
    (hidl : ∀ p ∈ db, ∀ id ∈ p.2, (id.length : Int) = cfg.idSize)
    (hinj : ∀ levels, levelsOf cfg db.total = .ok levels → KeyInj cfg lv k1 levels db) (hperm : PermsGood t)
    (hfresh : ∀ levels, levelsOf cfg db.total = .ok levels → ∀ b, Draw.bytes b ∈ t → ∀ w ids c, (w, ids) ∈ db → 1 ≤ c →
      c ≤ nChunks cfg levels ids → htKey cfg lv k1 w c ≠ .ok b)
    (w : Bytes) (ids : List Bytes) (hm : (w, ids) ∈ db) (tag vtag etag : Bytes)
    (htk : token cfg lv [k1, k2, k3] w = .ok [tag, vtag, etag]) :
    ∃ levels, levelsOf cfg db.total = .ok levels ∧ nChunks cfg levels ids ≤ cfg.L.toNat ∧
      ∀ c, 1 ≤ c → c ≤ nChunks cfg levels ids → ∃ key here, hashH cfg lv (tag ++ natToBytesMin c) = .ok key ∧
        searchOne cfg lv edb vtag etag c key = .ok here := by
  obtain ⟨hplain, hlam, hclen⟩ := cfgBuild_ok cfg raw hcfg
  have hde : ∀ key iv msg c, iv.length = 16 → cfg.rnd.encrypt lv.E key iv msg = .ok c → cfg.rnd.decrypt lv.D key c = .ok msg :=
    fun key iv msg c hiv he => ske_dec_enc lv hl cfg.rnd hplain key iv msg c hiv he
  have hE := hl.enc_len
  generalize hn : (cfg.idSize + cfg.lambda).toNat = n at hclen
  simp only [setup, bind, Except.bind] at hs
  split at hs
  · simp [throw, throwThe, MonadExceptOf.throw] at hs
  · simp only [pure, Except.pure] at hs
    split at hs
    · cases hs
    · rename_i levels hlevels
      split at hs
      · cases hs
      · rename_i ls0 hinit
        split at hs
        · cases hs
        · rename_i r1 henc
          obtain ⟨ls1, HT, t1⟩ := r1
          simp only at hs
          split at hs
          · cases hs
          · rename_i r2 hfill
            obtain ⟨HT', t2⟩ := r2
            simp only at hs
            split at hs
            · cases hs
            · rename_i r3 hfin
              obtain ⟨A, t3⟩ := r3
              simp only at hs
              cases hs
              have hfr := initLevels_fresh db.total levels [] ls0 hinit (fun l hl => by cases hl)
              obtain ⟨_, _, _, e4⟩ := encDb_spec cfg lv k1 k2 levels db ls0 [] t ls1 HT t1 henc (fun l hl => (hfr l hl).1) hkeys (hinj levels hlevels)
              have hlen1 : ∀ l ∈ ls1, ∀ b ∈ l.buckets, EntLen cfg n b := by
                have := encDb_ent cfg lv (fun e => ∀ w id, e = some (w, id) → id.length + cfg.lambda.toNat = n)
                  k1 k2 levels db ls0 [] t ls1 HT t1 henc
                  (fun p hp id hid w' id' he => by
                    cases he
                    have := hidl p hp id hid
                    omega)
                  (fun l hl b hb e he => by rw [(hfr l hl).2 b hb] at he; cases he)
                exact fun l hl b hb w id hmem => this l hl b hb _ hmem w id rfl
              have hs1 := encDb_suffix cfg lv k1 k2 levels db ls0 [] t ls1 HT t1 henc
              have hs2 := (fillHT_suffix _ _ _ _ _ _ hfill).trans hs1
              obtain ⟨i, cw, hfa, hcw, hall⟩ := e4 w ids hm
              obtain ⟨hflat, hcwlen, hcwle, _⟩ := chunks_spec ids _ cw hcw
              have hne := chunks_nonempty ids _ cw hcw
              have hnc : cw.length = nChunks cfg levels ids := by rw [hcwlen]; simp [nChunks, hfa]
              have hL : cw.length ≤ cfg.L.toNat := by
                rw [hcwlen]; exact fits_chunks cfg i ids.length (findAdjacent_fits cfg levels ids.length i hfa)
              have himem : (i : Int) ∈ levels := findLoop_mem cfg levels _ _ _ _ _ hfa
              refine ⟨levels, hlevels, by rw [← hnc]; exact hL, ?_⟩
              simp only [token, bind, Except.bind] at htk
              split at htk
              · cases htk
              · rename_i tag0 htag
                split at htk
                · cases htk
                · rename_i vtag0 hvtag
                  split at htk
                  · cases htk
                  · rename_i etag0 hetag
                    simp only [pure, Except.pure] at htk
                    injection htk with htk
                    simp only [List.cons.injEq, and_true] at htk
                    obtain ⟨rfl, rfl, rfl⟩ := htk
                    intro c hc1 hc2
                    obtain ⟨k, rfl⟩ : ∃ k, c = k + 1 := ⟨c - 1, by omega⟩
                    have hk : k < cw.length := by omega
                    have hck : cw[k]! = cw[k] := getElem!_pos cw k hk
                    have hcne : cw[k] ≠ [] := hne _ (List.getElem_mem hk)
                    obtain ⟨id, hidc⟩ := List.exists_mem_of_ne_nil _ hcne
                    obtain ⟨x, key, v, a1, a2, a3, a4⟩ := hall k hk (by rw [hck]; exact hcne)
                    have hHolds := a4 id (by rw [hck]; exact hidc)
                    have hHT' : HT'.lookup key = some v := by
                      rw [fillHT_lookup _ _ _ _ _ _ hfill key (fun b hb e => by
                        obtain ⟨pre, rfl⟩ := hs1
                        exact hfresh levels hlevels b (List.mem_append_right _ hb) w ids (k + 1) hm (by omega) (by omega) (by rw [e]; exact a1))]
                      exact a3
                    obtain ⟨arr, cs, d1, d2, d3, etag', c0, d4, d5, d6⟩ :=
                      finishLevels_spec cfg lv hde hE n hclen k3 levels ls1 [] t2 A _ hfin (hperm.suffix hs2) hlen1
                        (i : Int) x w id hHolds (Or.inl himem)
                    simp only [htKey, htag, bind, Except.bind] at a1
                    have hdec := decode_htVal cfg lv k2 w vtag0 (k + 1) i x v a2 hvtag
                    have hone := searchOne_ok cfg lv { HT := HT', A := A } vtag0 etag0 (k + 1) key v i x arr cs hHT' hdec d1 d2 d3
                      (by rw [hclen]; omega)
                    exact ⟨key, _, a1, hone⟩

/-- DP17: the search for a stored keyword returns, and returns exactly the keyword's identifiers (as a set) -/
theorem search_exact (raw : RawCfg) (hcfg : DP17.cfgBuild raw = .ok cfg) (hl : LeafLaws lv)
    (k1 k2 k3 : Bytes) (db : DB) (t t' : Tape) (edb : DP17EDB)
    (hs : setup cfg lv [k1, k2, k3] db t = .ok (edb, t'))
    (hkeys : (db.map (·.1)).Nodup)
    (hidl : ∀ p ∈ db, ∀ id ∈ p.2, (id.length : Int) = cfg.idSize)
    (hinj : ∀ levels, levelsOf cfg db.total = .ok levels → KeyInj cfg lv k1 levels db) (hperm : PermsGood t)
    (hfresh : ∀ levels, levelsOf cfg db.total = .ok levels → ∀ b, Draw.bytes b ∈ t → ∀ w ids c, (w, ids) ∈ db → 1 ≤ c →
      c ≤ nChunks cfg levels ids → htKey cfg lv k1 w c ≠ .ok b)
    (w : Bytes) (ids : List Bytes) (hm : (w, ids) ∈ db) (tag vtag etag : Bytes)
    (htk : token cfg lv [k1, k2, k3] w = .ok [tag, vtag, etag])
    (hclean : ProbesClean cfg lv edb tag vtag etag ids)
    (hbeyond : ∀ levels, levelsOf cfg db.total = .ok levels → ∀ c, nChunks cfg levels ids < c → c ≤ cfg.L.toNat →
      ∃ key, hashH cfg lv (tag ++ natToBytesMin c) = .ok key ∧ edb.HT.get key = none) :
    ∃ res, search cfg lv edb [tag, vtag, etag] = .ok res ∧ ∀ id, id ∈ res ↔ id ∈ ids := by
  obtain ⟨levels, hlevels, hnL, hprobe⟩ := probes_return cfg lv raw hcfg hl k1 k2 k3 db t t' edb hs hkeys hidl hinj hperm hfresh
    w ids hm tag vtag etag htk
  obtain ⟨res, hres, hsub⟩ := searchCounts_total cfg lv edb tag vtag etag (fun id => id ∈ ids) cfg.L.toNat 1
    (fun c h1 h2 => by
      by_cases hc : c ≤ nChunks cfg levels ids
      · obtain ⟨key, here, hk, hone⟩ := hprobe c h1 hc
        exact ⟨key, here, hk, hone, hclean c key here h1 (by omega) hk hone⟩
      · obtain ⟨key, hk, hnone⟩ := hbeyond levels hlevels c (by omega) (by omega)
        exact ⟨key, [], hk, by simp [searchOne, hnone], fun id hid => by cases hid⟩)
  have hres' : search cfg lv edb [tag, vtag, etag] = .ok res := by simpa [search] using hres
  exact ⟨res, hres', fun id => ⟨hsub id,
    fun hid => search_present cfg lv raw hcfg hl k1 k2 k3 db t t' edb hs hkeys hidl hinj hperm hfresh w ids hm _ htk res hres' id hid⟩⟩

end SSEPy.Sch.DP17
